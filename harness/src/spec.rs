//! Independent executable specifications used by the oracles.  None of this calls the crate:
//! it is what the property statements say, written directly over bytes.

#[derive(Clone, Debug, PartialEq, Eq, PartialOrd, Ord, Hash)]
pub enum Kind {
    Verbatim(Vec<u8>),
    VerbatimUNC(Vec<u8>, Vec<u8>),
    VerbatimDisk(u8),
    DeviceNS(Vec<u8>),
    UNC(Vec<u8>, Vec<u8>),
    Disk(u8),
}

impl Kind {
    pub fn is_verbatim(&self) -> bool {
        matches!(self, Kind::Verbatim(_) | Kind::VerbatimUNC(..) | Kind::VerbatimDisk(_))
    }
    pub fn is_disk(&self) -> bool {
        matches!(self, Kind::Disk(_))
    }
}

/// a component by kind and name; the prefix by kind + payload only (as equality sees it)
#[derive(Clone, Debug, PartialEq, Eq, PartialOrd, Ord, Hash)]
pub enum SComp {
    Prefix(Kind),
    Root,
    Cur,
    Parent,
    Normal(Vec<u8>),
}

pub fn any_sep(x: u8) -> bool {
    x == b'\\' || x == b'/'
}

fn field(b: &[u8], sep: &dyn Fn(u8) -> bool) -> (Vec<u8>, usize) {
    let mut i = 0;
    while i < b.len() && !sep(b[i]) {
        i += 1;
    }
    (b[..i].to_vec(), i)
}

/// server [sep [share]] -> (server, share, consumed) or None when the server is empty
fn server_share(b: &[u8], sep: &dyn Fn(u8) -> bool) -> Option<(Vec<u8>, Vec<u8>, usize)> {
    let (server, n0) = field(b, sep);
    if server.is_empty() {
        return None;
    }
    let mut n = n0;
    let mut share = Vec::new();
    if n < b.len() && sep(b[n]) {
        n += 1;
        let (sh, k) = field(&b[n..], sep);
        share = sh;
        n += k;
    }
    Some((server, share, n))
}

pub fn win_prefix(b: &[u8]) -> Option<(Kind, usize)> {
    let verb = b.starts_with(br"\\?\");
    let sep_v = move |x: u8| if verb { x == b'\\' } else { any_sep(x) };
    if b.len() >= 2 && b[0].is_ascii_alphabetic() && b[1] == b':' {
        return Some((Kind::Disk(b[0].to_ascii_uppercase()), 2));
    }
    if !(b.len() >= 2 && any_sep(b[0]) && any_sep(b[1])) {
        return None;
    }
    let r = &b[2..];
    if r.len() >= 2 && r[0] == b'?' && any_sep(r[1]) {
        let v = &r[2..];
        if v.starts_with(b"UNC") && v.len() > 3 && sep_v(v[3]) {
            if let Some((s, sh, n)) = server_share(&v[4..], &sep_v) {
                return Some((Kind::VerbatimUNC(s, sh), 8 + n));
            }
        }
        if v.len() >= 2 && v[0].is_ascii_alphabetic() && v[1] == b':' {
            return Some((Kind::VerbatimDisk(v[0].to_ascii_uppercase()), 6));
        }
        let (name, n) = field(v, &sep_v);
        if !name.is_empty() {
            return Some((Kind::Verbatim(name), 4 + n));
        }
        if !v.is_empty() {
            // blank verbatim needs a following separator (v starts with one, as `name` is empty)
            return Some((Kind::Verbatim(Vec::new()), 4));
        }
    }
    if r.len() >= 2 && r[0] == b'.' && any_sep(r[1]) {
        let (dev, n) = field(&r[2..], &any_sep);
        if !dev.is_empty() {
            return Some((Kind::DeviceNS(dev), 4 + n));
        }
    }
    if let Some((s, sh, n)) = server_share(r, &any_sep) {
        return Some((Kind::UNC(s, sh), 2 + n));
    }
    None
}

pub struct Decomp {
    pub prefix: Option<(Kind, usize)>,
    pub root: bool,
    pub verb: bool,
    pub comps: Vec<SComp>,
}

impl Decomp {
    pub fn has_prefix(&self) -> bool {
        self.prefix.is_some()
    }
    pub fn has_root(&self) -> bool {
        self.root || matches!(&self.prefix, Some((k, _)) if !matches!(k, Kind::Disk(_) | Kind::VerbatimDisk(_)))
    }
    pub fn is_absolute(&self) -> bool {
        self.has_prefix() && self.root
    }
    pub fn has_implicit_root(&self) -> bool {
        matches!(&self.prefix, Some((k, _)) if !k.is_disk())
    }
    pub fn any_verbatim(&self) -> bool {
        matches!(&self.prefix, Some((k, _)) if k.is_verbatim())
    }
}

fn split_comps(rest: &[u8], sep: &dyn Fn(u8) -> bool, keep_cur: bool, out: &mut Vec<SComp>) {
    let mut i = 0usize;
    let mut idx = 0usize;
    loop {
        let mut j = i;
        while j < rest.len() && !sep(rest[j]) {
            j += 1;
        }
        let s = &rest[i..j];
        if s.is_empty() {
        } else if s == b"." {
            if keep_cur || idx == 0 {
                out.push(SComp::Cur);
            }
        } else if s == b".." {
            out.push(SComp::Parent);
        } else {
            out.push(SComp::Normal(s.to_vec()));
        }
        idx += 1;
        if j >= rest.len() {
            break;
        }
        i = j + 1;
    }
}

/// the documented Windows decomposition (DESIGN.md A.2)
pub fn win_decomp(b: &[u8]) -> Decomp {
    let verb = b.starts_with(br"\\?\");
    let sep = move |x: u8| if verb { x == b'\\' } else { any_sep(x) };
    let prefix = win_prefix(b);
    let plen = prefix.as_ref().map(|p| p.1).unwrap_or(0);
    let rest = &b[plen..];
    let root = !rest.is_empty() && sep(rest[0]);
    let mut comps = Vec::new();
    if let Some((k, _)) = &prefix {
        comps.push(SComp::Prefix(k.clone()));
    }
    if root {
        comps.push(SComp::Root);
    }
    split_comps(rest, &sep, verb, &mut comps);
    Decomp { prefix, root, verb, comps }
}

/// Unix: what std::path does (DESIGN.md A.1)
pub fn unix_decomp(b: &[u8]) -> Vec<SComp> {
    let mut comps = Vec::new();
    if b.first() == Some(&b'/') {
        comps.push(SComp::Root);
    }
    // segment index 0 is the empty segment before the root when there is one, so a "."
    // directly after the root is not "at the start" and is dropped like any interior "."
    split_comps(b, &|x| x == b'/', false, &mut comps);
    comps
}

#[derive(Clone, Copy, Debug, PartialEq, Eq)]
pub enum Verdict {
    Ok,
    InvalidFilename,
    PathTraversalAttack,
    UnexpectedPrefix,
    UnexpectedRoot,
}

pub const UNIX_FORBIDDEN: &[u8] = b"/\0";
pub const WINDOWS_FORBIDDEN: &[u8] = b"\\/:?*\"><|\0";

pub fn forbidden(win: bool) -> Vec<u8> {
    if win {
        WINDOWS_FORBIDDEN.to_vec()
    } else {
        UNIX_FORBIDDEN.to_vec()
    }
}

/// C04: the documented acceptance rule of the checked join
pub fn verdict(comps: &[SComp], win: bool) -> Verdict {
    let f = forbidden(win);
    let mut n: usize = 0;
    for c in comps {
        match c {
            SComp::Prefix(_) => return Verdict::UnexpectedPrefix,
            SComp::Root => return Verdict::UnexpectedRoot,
            SComp::Normal(s) => {
                if s.iter().any(|b| f.contains(b)) {
                    return Verdict::InvalidFilename;
                }
                n += 1;
            }
            SComp::Parent => {
                if n == 0 {
                    return Verdict::PathTraversalAttack;
                }
                n -= 1;
            }
            SComp::Cur => {}
        }
    }
    Verdict::Ok
}

/// C11: lexical normalisation
pub fn norm_fold(comps: &[SComp]) -> Vec<SComp> {
    let mut st: Vec<SComp> = Vec::new();
    for c in comps {
        match c {
            SComp::Cur => {}
            SComp::Parent => {
                if matches!(st.last(), Some(SComp::Normal(_))) {
                    st.pop();
                }
            }
            other => st.push(other.clone()),
        }
    }
    st
}

/// component list with the implicit root of a non-disk prefix made explicit
pub fn canon(comps: &[SComp]) -> Vec<SComp> {
    let mut v = comps.to_vec();
    if let Some(SComp::Prefix(k)) = v.first() {
        if !k.is_disk() && v.get(1) != Some(&SComp::Root) {
            v.insert(1, SComp::Root);
        }
    }
    v
}

/// "well-formed" Windows path (DESIGN.md §2.3): complete prefix
pub fn win_complete_prefix(b: &[u8]) -> bool {
    let d = win_decomp(b);
    match &d.prefix {
        Some((Kind::UNC(_, sh), _)) | Some((Kind::VerbatimUNC(_, sh), _)) => !sh.is_empty(),
        // `\\?\UNC` followed by no server is an incomplete verbatim-UNC prefix
        Some((Kind::Verbatim(x), _)) => !x.is_empty() && x.as_slice() != b"UNC",
        Some((Kind::VerbatimDisk(_), n)) => b.len() == *n || b[*n] == b'\\',
        Some(_) => true,
        None => true,
    }
}

/// A prefix that is incomplete by the reading above can still be *stable*: by the grammar alone, appending a
/// separator and a name (or just a name when the text already ends in a separator) leaves kind, payloads and
/// raw length of the prefix as they are (`\\?\UNC\server\` keeps its empty share: the separator after the
/// server is inside the prefix, the next one starts the body).  `\\server`, `\\server\`, `\\?\UNC\server`,
/// `\\?\UNC`, `\\?\` are not.  Decided on the specification only, never on the implementation.
pub fn win_stable_prefix(b: &[u8]) -> bool {
    let d = win_decomp(b);
    let Some((k, n)) = &d.prefix else { return true };
    // only the empty-share shapes are let in this way: a verbatim-disk prefix directly followed by a name or a dot
    // (`\\?\C:x`, `//?/C:.`) is stable too, but what follows it is re-read once the implicit root is written
    if !matches!(k, Kind::UNC(_, sh) | Kind::VerbatimUNC(_, sh) if sh.is_empty()) {
        return false;
    }
    let same = |probe: &[u8]| match &win_decomp(probe).prefix {
        Some((k2, n2)) => k2 == k && n2 == n,
        None => false,
    };
    let mut p1 = b.to_vec();
    p1.extend_from_slice(b"\\x");
    let mut ok = same(&p1);
    // (joining onto a verbatim-prefixed base writes the separator after the prefix text in every case; onto any
    // other base none is written when the text already ends in one)
    if let (Some(l), false) = (b.last(), k.is_verbatim()) {
        if any_sep(*l) {
            let mut p2 = b.to_vec();
            p2.push(b'x');
            ok = ok && same(&p2);
        }
    }
    ok
}

pub fn names_valid(comps: &[SComp], win: bool) -> bool {
    let f = forbidden(win);
    comps.iter().all(|c| match c {
        SComp::Normal(s) => !s.iter().any(|b| f.contains(b)),
        _ => true,
    })
}

/// C08: the documented joining rules, non-verbatim cases byte-exact
pub fn join_rules_bytes(a: &[u8], b: &[u8]) -> Option<Vec<u8>> {
    let da = win_decomp(a);
    let db = win_decomp(b);
    if b.is_empty() {
        return Some(a.to_vec());
    }
    if db.has_prefix() {
        return Some(b.to_vec());
    }
    if da.any_verbatim() {
        return None; // component-level rule, see join_rules_verbatim
    }
    if db.root {
        let n = da.prefix.as_ref().map(|p| p.1).unwrap_or(0);
        let mut v = a[..n].to_vec();
        v.extend_from_slice(b);
        return Some(v);
    }
    let bare_drive = matches!(&da.prefix, Some((Kind::Disk(_), 2))) && a.len() == 2;
    let mut v = a.to_vec();
    if !(a.is_empty() || any_sep(*a.last().unwrap()) || bare_drive) {
        v.push(b'\\');
    }
    v.extend_from_slice(b);
    Some(v)
}

/// C08: components of the join under a verbatim prefix
pub fn join_rules_verbatim(a: &[SComp], b: &[SComp]) -> Vec<SComp> {
    let mut buf = a.to_vec();
    for c in b {
        match c {
            SComp::Root => {
                buf.truncate(1);
                buf.push(SComp::Root);
            }
            SComp::Cur => {}
            SComp::Parent => {
                if matches!(buf.last(), Some(SComp::Normal(_))) {
                    buf.pop();
                }
            }
            other => buf.push(other.clone()),
        }
    }
    buf
}
