//! Oracles C11, C12, C13, C16, C17.

use crate::gen;
use crate::oracle::*;
use crate::orc_a::sp;
use crate::spec::{self, SComp};
use crate::util::*;
use std::ffi::OsStr;
use std::os::unix::ffi::OsStrExt;
use std::path::PathBuf as SPathBuf;
use typed_path::*;

fn normalize_b(win: bool, s: &[u8]) -> Vec<u8> {
    if win {
        WindowsPath::new(s).normalize().into_vec()
    } else {
        UnixPath::new(s).normalize().into_vec()
    }
}

/// `absolutize` against the process's current directory: an absolute path is normalised and nothing else, a
/// relative one is the current directory (converted to the path's encoding) joined with it and normalised;
/// the typed and UTF-8 forms agree with the byte form
#[cfg(feature = "std")]
fn absolutize_checks(ctx: &mut Ctx, win: bool, s: &[u8], n: &Vec<u8>, rp: &String) {
    let tp = if win { TypedPath::Windows(WindowsPath::new(s)) } else { TypedPath::Unix(UnixPath::new(s)) };
                let abs = if win { WindowsPath::new(s).is_absolute() } else { UnixPath::new(s).is_absolute() };
                let a = if win { WindowsPath::new(s).absolutize().map(|x| x.into_vec()) } else { UnixPath::new(s).absolutize().map(|x| x.into_vec()) };
                if abs {
                    if a.as_ref().ok().map(|v| v.as_slice()) != Some(n.as_slice()) {
                        ctx.fail("absolutize-of-absolute-is-normalize", None, rp.clone(), String::new());
                    }
                } else {
                    // relative: the current directory (converted to this encoding), joined, normalised
                    // (the crate reads the current directory through `&str`: in a directory whose name is not
                    // UTF-8 there is no answer, and a relative path then has none either)
                    let cwd = match typed_path::utils::current_dir() {
                        Ok(c) => c,
                        Err(_) => {
                            if a.is_ok() {
                                ctx.fail("absolutize-of-relative-is-cwd-join-normalize", None, rp.clone(), "the current directory cannot be had, yet a relative path was absolutized".into());
                            }
                            return;
                        }
                    };
                    let want = if win {
                        cwd.with_encoding::<typed_path::WindowsEncoding>().join(WindowsPath::new(s)).normalize().into_vec()
                    } else {
                        cwd.with_encoding::<typed_path::UnixEncoding>().join(UnixPath::new(s)).normalize().into_vec()
                    };
                    if a.as_ref().ok() != Some(&want) {
                        ctx.fail("absolutize-of-relative-is-cwd-join-normalize", None, rp.clone(), format!("got {:?} want \"{}\"", a.as_ref().map(|v| lossy(v)).ok(), lossy(&want)));
                    }
                }
                // the typed and UTF-8 forms delegate
                let ta = tp.absolutize().map(|x| x.into_vec()).ok();
                if ta != a.as_ref().ok().cloned() {
                    ctx.fail("typed-absolutize-agrees", None, rp.clone(), String::new());
                }
                if let Ok(st) = std::str::from_utf8(s) {
                    let ua = if win { Utf8WindowsPath::new(st).absolutize().map(|x| x.into_string().into_bytes()).ok() } else { Utf8UnixPath::new(st).absolutize().map(|x| x.into_string().into_bytes()).ok() };
                    if ua != a.as_ref().ok().cloned() {
                        ctx.fail("utf8-absolutize-agrees", None, rp.clone(), String::new());
                    }
                }
            }

pub fn c11(ctx: &mut Ctx, tier: &str, seed: u64) {
    for win in [false, true] {
        let e = gen::e(win);
        let mut dom0 = if win { dom_win(tier, seed) } else { dom_unix(tier, seed) };
        dom0.extend(gen::norm_extra(win, tier, seed));
        let dom: Vec<Vec<u8>> = dedup_keep_order(dom0).into_iter().filter(|s| well_formed_wide(win, s)).collect();
        for s in &dom {
            let rp = format!("norm {} {}", e, hex(s));
            at(rp.clone());
            let cs = comps(win, s);
            let n = normalize_b(win, s);
            let cn = comps(win, &n);
            let dots = cs.iter().filter(|c| matches!(c, SComp::Cur | SComp::Parent)).count();
            ctx.case(dots > 0 && cs.len() >= 2, (win, s));
            ctx.tally(&format!("{}:dots={}", e, dots.min(4)));
            let want = spec::norm_fold(&cs);
            if spec::canon(&cn) != spec::canon(&want) {
                ctx.fail("normalize-equals-fold", None, rp.clone(), format!("normalize \"{}\" {} fold {}", lossy(&n), show_sc(&cn), show_sc(&want)));
                continue;
            }
            if cn.iter().any(|c| matches!(c, SComp::Cur | SComp::Parent)) {
                ctx.fail("normalized-has-no-dots", None, rp.clone(), show_sc(&cn));
            }
            let pre = |v: &Vec<SComp>| v.iter().filter(|c| matches!(c, SComp::Prefix(_))).cloned().collect::<Vec<_>>();
            let (ha, hb, aa, ab) = if win {
                (WindowsPath::new(s).has_root(), WindowsPath::new(&n).has_root(), WindowsPath::new(s).is_absolute(), WindowsPath::new(&n).is_absolute())
            } else {
                (UnixPath::new(s).has_root(), UnixPath::new(&n).has_root(), UnixPath::new(s).is_absolute(), UnixPath::new(&n).is_absolute())
            };
            // a bare non-disk prefix has an implicit root which normalize does not materialise
            if pre(&cs) != pre(&cn) || ha != hb || (aa != ab && !(win && cs.len() == 1)) {
                ctx.fail("normalize-keeps-prefix-root-absoluteness", None, rp.clone(), format!("root {}->{} abs {}->{}", ha, hb, aa, ab));
            }
            if win {
                let plen = spec::win_prefix(&n).map(|x| x.1).unwrap_or(0);
                if n[plen..].contains(&b'/') {
                    ctx.fail("normalized-uses-primary-separator", None, rp.clone(), format!("\"{}\"", lossy(&n)));
                }
            }
            let n2 = normalize_b(win, &n);
            if n2 != n {
                ctx.fail("normalize-idempotent-bytes", None, rp.clone(), format!("\"{}\" then \"{}\"", lossy(&n), lossy(&n2)));
            }
            let tp = if win { TypedPath::Windows(WindowsPath::new(s)) } else { TypedPath::Unix(UnixPath::new(s)) };
            if tp.normalize().as_bytes() != n.as_slice() {
                ctx.fail("typed-normalize-agrees", None, rp.clone(), String::new());
            }
            if let Ok(st) = std::str::from_utf8(s) {
                let u = if win { Utf8WindowsPath::new(st).normalize().into_string() } else { Utf8UnixPath::new(st).normalize().into_string() };
                if u.as_bytes() != n.as_slice() {
                    ctx.fail("utf8-normalize-agrees", None, rp.clone(), String::new());
                }
            }
            #[cfg(feature = "std")]
            absolutize_checks(ctx, win, s, &n, &rp);
        }
    }
    // `absolutize` of an ABSOLUTE path is `normalize` and nothing else: it must not need the environment.
    // Run it where the current directory cannot be read (a directory entered and then removed).
    #[cfg(feature = "std")]
    {
        let old = std::env::current_dir().expect("cwd");
        let gone = std::env::temp_dir().join(format!("tpverif-gone-{}", std::process::id()));
        if std::fs::create_dir_all(&gone).is_ok() && std::env::set_current_dir(&gone).is_ok() {
            let _ = std::fs::remove_dir(&gone);
            let unreadable = std::env::current_dir().is_err();
            ctx.tally(if unreadable { "vanished-cwd:unreadable" } else { "vanished-cwd:still-readable" });
            let cases: Vec<(bool, &[u8])> = vec![(false, b"/a/./b/../c"), (false, b"/"), (false, b"//x/.."), (true, br"C:\a\..\b"), (true, br"\\s\h\.\x"), (true, br"\\?\C:\a"), (true, b"c:/a/./b")];
            for (win, s) in cases {
                ctx.evals += 1;
                let rp = format!("x.absolutize-in-a-vanished-cwd {} {}", gen::e(win), hex(s));
                let n = normalize_b(win, s);
                let r = crate::util::quiet_catch(|| {
                    let a = if win { WindowsPath::new(s).absolutize().map(|x| x.into_vec()).ok() } else { UnixPath::new(s).absolutize().map(|x| x.into_vec()).ok() };
                    let tp = if win { TypedPath::Windows(WindowsPath::new(s)) } else { TypedPath::Unix(UnixPath::new(s)) };
                    let ta = tp.absolutize().map(|x| x.into_vec()).ok();
                    let st = std::str::from_utf8(s).unwrap();
                    let ua = if win { Utf8WindowsPath::new(st).absolutize().map(|x| x.into_string().into_bytes()).ok() } else { Utf8UnixPath::new(st).absolutize().map(|x| x.into_string().into_bytes()).ok() };
                    let tb = if win { TypedPathBuf::from_windows(s).absolutize().map(|x| x.into_vec()).ok() } else { TypedPathBuf::from_unix(s).absolutize().map(|x| x.into_vec()).ok() };
                    let tu = if win { Utf8TypedPath::windows(st).absolutize().map(|x| x.into_string().into_bytes()).ok() } else { Utf8TypedPath::unix(st).absolutize().map(|x| x.into_string().into_bytes()).ok() };
                    vec![("path", a), ("typed", ta), ("utf8", ua), ("typed-buf", tb), ("utf8-typed", tu)]
                });
                match r {
                    Err(_) => ctx.fail("absolutize-of-absolute-ignores-the-environment", None, rp, "panicked".into()),
                    Ok(v) => {
                        for (who, got) in v {
                            if got.as_deref() != Some(n.as_slice()) {
                                ctx.fail("absolutize-of-absolute-ignores-the-environment", None, rp.clone(), format!("{}: {:?}, normalize gives \"{}\"", who, got.map(|x| lossy(&x)), lossy(&n)));
                                break;
                            }
                        }
                    }
                }
            }
            // a relative path has no answer here: an error, not a panic
            if unreadable && crate::util::quiet_catch(|| (UnixPath::new("a").absolutize().is_err(), Utf8WindowsPath::new("a").absolutize().is_err()
                && TypedPath::unix("a").absolutize().is_err() && TypedPath::windows("a").absolutize().is_err()
                && Utf8TypedPath::unix("a").absolutize().is_err() && Utf8TypedPath::windows("a").absolutize().is_err()
                && TypedPathBuf::from_unix("a").absolutize().is_err())).ok() != Some((true, true)) {
                ctx.fail("absolutize-of-relative-without-cwd-is-an-error", None, "x.absolutize-in-a-vanished-cwd u 61".into(), String::new());
            }
            std::env::set_current_dir(&old).expect("restore cwd");
        }
    }
    // … and in working directories whose NAMES mean something in the other encoding: a directory called
    // `D:` or `\\server\share` re-encodes to a Windows prefix, one with a space, a non-ASCII or a non-UTF-8
    // name, a deep one.  Every absolutize clause again, on a sample of the domain.
    #[cfg(feature = "std")]
    {
        use std::os::unix::ffi::OsStrExt;
        let old = std::env::current_dir().expect("cwd");
        let base = std::env::temp_dir().join(format!("tpverif-cwd-{}", std::process::id()));
        let names: Vec<&[u8]> = vec![b"D:", b"c:", br"\\server\share", br"\\?\C:", b"x y", "d\u{e9}".as_bytes(), b"n\xffn", b"a/b/c/d/e/f/g/h", b"..x", b"C:\\d"];
        for name in names {
            let dir = base.join(std::ffi::OsStr::from_bytes(name));
            if std::fs::create_dir_all(&dir).is_err() || std::env::set_current_dir(&dir).is_err() {
                continue;
            }
            ctx.tally("special-cwd");
            for win in [false, true] {
                let mut dom0 = if win { dom_win_small("quick", seed) } else { dom_unix_small("quick", seed) };
                dom0.truncate(400);
                dom0.extend([&b"\\foo\\bar"[..], b"/foo/bar", b"foo", b"C:foo", b"D:foo", b"D:\\foo", b"..", b"."].iter().map(|x| x.to_vec()));
                for s in dedup_keep_order(dom0).iter().filter(|s| well_formed_wide(win, s)) {
                    ctx.evals += 1;
                    let rp = format!("x.absolutize-in-cwd-named {} {} {}", hex(name), gen::e(win), hex(s));
                    let n = normalize_b(win, s);
                    absolutize_checks(ctx, win, s, &n, &rp);
                }
            }
        }
        std::env::set_current_dir(&old).expect("restore cwd");
        let _ = std::fs::remove_dir_all(&base);
    }
    ctx.sample(format!("norm w {}", hex(br"C:\a\.\..\..\b\")));
    ctx.sample(format!("norm u {}", hex(b"/../a/./b/../c")));
}

fn split_name(name: &[u8]) -> (Vec<u8>, Option<Vec<u8>>) {
    // the documented split: last dot, unless the name is `..` or its only dot is the first byte
    if name == b".." {
        return (name.to_vec(), None);
    }
    match name.iter().rposition(|b| *b == b'.') {
        None | Some(0) => (name.to_vec(), None),
        Some(i) => (name[..i].to_vec(), Some(name[i + 1..].to_vec())),
    }
}

pub fn c12(ctx: &mut Ctx, tier: &str, seed: u64) {
    let t = tier_is_thorough(tier);
    for win in [false, true] {
        let e = gen::e(win);
        let mut dom = if win { dom_win(tier, seed) } else { dom_unix(tier, seed) };
        dom.extend(strings_b(b".ab", if t { 7 } else { 6 }));
        for s in &dom {
            let rp = format!("fname {} {}", e, hex(s));
            at(rp.clone());
            let cs = comps(win, s);
            let (f, st, ex): (Option<Vec<u8>>, Option<Vec<u8>>, Option<Vec<u8>>) = if win {
                let p = WindowsPath::new(s);
                (p.file_name().map(|x| x.to_vec()), p.file_stem().map(|x| x.to_vec()), p.extension().map(|x| x.to_vec()))
            } else {
                let p = UnixPath::new(s);
                (p.file_name().map(|x| x.to_vec()), p.file_stem().map(|x| x.to_vec()), p.extension().map(|x| x.to_vec()))
            };
            let want = match cs.last() {
                Some(SComp::Normal(n)) => Some(n.clone()),
                _ => None,
            };
            ctx.case(want.as_ref().map(|n| n.contains(&b'.')).unwrap_or(false), (win, s));
            ctx.tally(&format!("{}:{}", e, match (&want, &ex) { (None, _) => "no-file-name", (Some(_), None) => "no-extension", (Some(_), Some(_)) => "extension" }));
            // the UTF-8 copies of the three queries (their own rsplit_file_at_dot) must agree
            if let Ok(st8) = std::str::from_utf8(s) {
                let (uf, us, ue): (Option<Vec<u8>>, Option<Vec<u8>>, Option<Vec<u8>>) = if win {
                    let p = Utf8WindowsPath::new(st8);
                    (p.file_name().map(|x| x.as_bytes().to_vec()), p.file_stem().map(|x| x.as_bytes().to_vec()), p.extension().map(|x| x.as_bytes().to_vec()))
                } else {
                    let p = Utf8UnixPath::new(st8);
                    (p.file_name().map(|x| x.as_bytes().to_vec()), p.file_stem().map(|x| x.as_bytes().to_vec()), p.extension().map(|x| x.as_bytes().to_vec()))
                };
                if uf != f || us != st || ue != ex {
                    ctx.fail("utf8-file_name-stem-extension-agree", None, rp.clone(), format!("utf8 stem {:?} ext {:?}; bytes stem {:?} ext {:?}", us.as_ref().map(|x| lossy(x)), ue.as_ref().map(|x| lossy(x)), st.as_ref().map(|x| lossy(x)), ex.as_ref().map(|x| lossy(x))));
                }
            }
            if f != want {
                ctx.fail("file_name-is-last-normal", None, rp.clone(), format!("{:?} want {:?}", f.as_ref().map(|x| lossy(x)), want.as_ref().map(|x| lossy(x))));
                continue;
            }
            match &want {
                None => {
                    if st.is_some() || ex.is_some() {
                        ctx.fail("stem-ext-absent-without-file-name", None, rp.clone(), String::new());
                    }
                }
                Some(n) => {
                    let (ws, we) = split_name(n);
                    if st.as_ref() != Some(&ws) || ex != we {
                        ctx.fail("stem-extension-split", None, rp.clone(), format!("stem {:?} ext {:?} want {:?} {:?}", st.as_ref().map(|x| lossy(x)), ex.as_ref().map(|x| lossy(x)), lossy(&ws), we.as_ref().map(|x| lossy(x))));
                    }
                    if let (Some(a), Some(b)) = (&st, &ex) {
                        let mut r = a.clone();
                        r.push(b'.');
                        r.extend_from_slice(b);
                        if &r != n {
                            ctx.fail("stem-dot-extension-reproduces-name", None, rp.clone(), String::new());
                        }
                    }
                }
            }
        }
        // replacing the file name by a single valid name
        let bases: Vec<Vec<u8>> = gen::bases(win, tier, seed).into_iter().filter(|b| !win || spec::win_complete_prefix(b)).collect();
        let f = spec::forbidden(win);
        let names: Vec<Vec<u8>> = gen::names(tier).into_iter().filter(|n| !n.is_empty() && n != b"." && n != b".." && !n.iter().any(|b| f.contains(b))).collect();
        let keep = cross_keep(tier, bases.len(), names.len(), 300, 150);
        for (bi, b) in bases.iter().enumerate() {
            let had = file_name_b(win, b).is_some();
            let oldp = parent_b(win, b);
            for (ni, n) in names.iter().enumerate() {
                if !keep(bi, ni) {
                    continue;
                }
                let rp = format!("setfn {} {} {}", e, hex(b), hex(n));
                at(rp.clone());
                let r: Vec<u8> = if win {
                    let mut x = WindowsPathBuf::from(b.as_slice());
                    x.set_file_name(n);
                    x.into_vec()
                } else {
                    let mut x = UnixPathBuf::from(b.as_slice());
                    x.set_file_name(n);
                    x.into_vec()
                };
                let wfn: Vec<u8> = if win { WindowsPath::new(b).with_file_name(n).into_vec() } else { UnixPath::new(b).with_file_name(n).into_vec() };
                ctx.case(had, (win, b, n, 2u8));
                let class = if k3_shape(win, b) || oldp.as_ref().map(|p| k3_shape(win, p)).unwrap_or(false) { Some("K3") } else { None };
                if wfn != r {
                    ctx.fail("with_file_name-equals-set_file_name", None, rp.clone(), String::new());
                }
                if let (Ok(sb), Ok(sn)) = (std::str::from_utf8(b), std::str::from_utf8(n)) {
                    let ur: Vec<u8> = if win {
                        let mut x = Utf8WindowsPathBuf::from(sb);
                        x.set_file_name(sn);
                        x.into_string().into_bytes()
                    } else {
                        let mut x = Utf8UnixPathBuf::from(sb);
                        x.set_file_name(sn);
                        x.into_string().into_bytes()
                    };
                    if ur != r {
                        ctx.fail("utf8-set_file_name-agrees", None, rp.clone(), format!("utf8 \"{}\" bytes \"{}\"", lossy(&ur), lossy(&r)));
                    }
                    // with_file_name of the UTF-8, typed and UTF-8-typed forms
                    let forms: Vec<(&str, Vec<u8>)> = if win {
                        vec![
                            ("Utf8Path", Utf8WindowsPath::new(sb).with_file_name(sn).into_string().into_bytes()),
                            ("Utf8TypedPath", Utf8TypedPath::windows(sb).with_file_name(sn).into_string().into_bytes()),
                            ("Utf8TypedPathBuf", Utf8TypedPathBuf::from_windows(sb).with_file_name(sn).into_string().into_bytes()),
                        ]
                    } else {
                        vec![
                            ("Utf8Path", Utf8UnixPath::new(sb).with_file_name(sn).into_string().into_bytes()),
                            ("Utf8TypedPath", Utf8TypedPath::unix(sb).with_file_name(sn).into_string().into_bytes()),
                            ("Utf8TypedPathBuf", Utf8TypedPathBuf::from_unix(sb).with_file_name(sn).into_string().into_bytes()),
                        ]
                    };
                    for (name, v) in forms {
                        if v != r {
                            ctx.fail("utf8-with_file_name-agrees", None, rp.clone(), format!("{} \"{}\" bytes \"{}\"", name, lossy(&v), lossy(&r)));
                        }
                    }
                }
                {
                    let tv: Vec<u8> = if win { TypedPath::windows(b).with_file_name(n).into_vec() } else { TypedPath::unix(b).with_file_name(n).into_vec() };
                    let mut tb = if win { TypedPathBuf::from_windows(b) } else { TypedPathBuf::from_unix(b) };
                    tb.set_file_name(n);
                    if tv != r || tb.into_vec() != r {
                        ctx.fail("typed-with_file_name-agrees", None, rp.clone(), format!("typed \"{}\" bytes \"{}\"", lossy(&tv), lossy(&r)));
                    }
                }
                if file_name_b(win, &r).as_ref() != Some(n) {
                    ctx.fail("new-file-name-is-n", class, rp.clone(), format!("result \"{}\"", lossy(&r)));
                    continue;
                }
                if had {
                    let np = parent_b(win, &r);
                    let same = match (&np, &oldp) {
                        (Some(x), Some(y)) => spec::canon(&comps(win, x)) == spec::canon(&comps(win, y)),
                        _ => false,
                    };
                    if !same {
                        ctx.fail("parent-unchanged-by-set_file_name", class, rp.clone(), format!("old parent {:?} new parent {:?}", oldp.as_ref().map(|x| lossy(x)), np.as_ref().map(|x| lossy(x))));
                    }
                } else if r != push_b(win, b, n) {
                    ctx.fail("no-file-name-means-join", class, rp.clone(), format!("result \"{}\"", lossy(&r)));
                }
            }
        }
    }
    // HUGE names (thorough tier): more than 2^31 bytes, all dots / letters with one late dot — a count or an
    // offset that type inference made an `i32` (the harness is built with overflow checks) shows only here
    if t {
        let n = (1usize << 31) + 5;
        for which in 0..2 {
            let name: Vec<u8> = if which == 0 {
                vec![b'.'; n]
            } else {
                let mut v = vec![b'a'; n];
                v[n - 3] = b'.';
                v
            };
            let (want_stem, want_ext) = if which == 0 { (n - 1, 0usize) } else { (n - 3, 2usize) };
            let text = std::str::from_utf8(&name).expect("ascii");
            for win in [false, true] {
                ctx.evals += 1;
                let rp = format!("x.huge-name {} {} bytes, {}", gen::e(win), n, if which == 0 { "all dots" } else { "letters, a dot before the last two" });
                at(rp.clone());
                let r = crate::util::quiet_catch(|| {
                    let lens = |f: Option<usize>, s: Option<usize>, x: Option<usize>| (f, s, x);
                    let b = if win {
                        let p = WindowsPath::new(&name);
                        lens(p.file_name().map(|x| x.len()), p.file_stem().map(|x| x.len()), p.extension().map(|x| x.len()))
                    } else {
                        let p = UnixPath::new(&name);
                        lens(p.file_name().map(|x| x.len()), p.file_stem().map(|x| x.len()), p.extension().map(|x| x.len()))
                    };
                    let u = if win {
                        let p = Utf8WindowsPath::new(text);
                        lens(p.file_name().map(|x| x.len()), p.file_stem().map(|x| x.len()), p.extension().map(|x| x.len()))
                    } else {
                        let p = Utf8UnixPath::new(text);
                        lens(p.file_name().map(|x| x.len()), p.file_stem().map(|x| x.len()), p.extension().map(|x| x.len()))
                    };
                    let ty = if win { TypedPath::windows(&name) } else { TypedPath::unix(&name) };
                    let tl = lens(ty.file_name().map(|x| x.len()), ty.file_stem().map(|x| x.len()), ty.extension().map(|x| x.len()));
                    (b, u, tl)
                });
                let want = (Some(n), Some(want_stem), Some(want_ext));
                match r {
                    Err(_) => ctx.fail("huge-name", None, rp, "panicked".into()),
                    Ok((b, u, tl)) => {
                        if b != want || u != want || tl != want {
                            ctx.fail("huge-name", None, rp, format!("(file name, stem, extension) lengths: bytes {:?} UTF-8 {:?} typed {:?}, want {:?}", b, u, tl, want));
                        }
                    }
                }
            }
        }
    }
    ctx.sample(format!("fname w {}", hex(br"C:\dir\.hidden.tar.gz\")));
    ctx.sample(format!("setfn u {} {}", hex(b"/a/b.txt/"), hex(b"c.d")));
}

fn set_ext_b(win: bool, s: &[u8], x: &[u8]) -> (Vec<u8>, bool) {
    if win {
        let mut b = WindowsPathBuf::from(s);
        let r = b.set_extension(x);
        (b.into_vec(), r)
    } else {
        let mut b = UnixPathBuf::from(s);
        let r = b.set_extension(x);
        (b.into_vec(), r)
    }
}

pub fn c13(ctx: &mut Ctx, tier: &str, seed: u64) {
    let t = tier_is_thorough(tier);
    for win in [false, true] {
        let e = gen::e(win);
        let mut dom: Vec<Vec<u8>> = if win {
            let mut v = dom_win_small(tier, seed);
            v.extend(strings_b(b"\\.a", if t { 6 } else { 5 }));
            v
        } else {
            strings_b(b"/.a", if t { 7 } else { 6 })
        };
        dom.extend(gen::utf8_dom(tier, seed));
        let dom = dedup_keep_order(dom);
        let mut xs = gen::exts(tier);
        xs.push("é".as_bytes().to_vec());
        for s in &dom {
            let f = file_name_b(win, s);
            let oldp = parent_b(win, s);
            for x in &xs {
                let rp = format!("setext {} {} {}", e, hex(s), hex(x));
                at(rp.clone());
                if x.iter().any(|b| is_sep(win, *b)) {
                    continue;
                }
                let res = crate::util::quiet_catch(|| set_ext_b(win, s, x));
                ctx.case(f.is_some() && s.last().map(|b| is_sep(win, *b) || *b == b'.').unwrap_or(false), (win, s, x));
                ctx.tally(&format!("{}:{}", e, if f.is_some() { "file-name" } else { "no-file-name" }));
                let (r, ok) = match res {
                    Ok(v) => v,
                    Err(_) => {
                        ctx.fail("set_extension-panics", None, rp.clone(), String::new());
                        continue;
                    }
                };
                match &f {
                    None => {
                        if ok || r != *s {
                            ctx.fail("no-file-name-false-untouched", None, rp.clone(), format!("-> \"{}\" {}", lossy(&r), ok));
                        }
                    }
                    Some(name) => {
                        let (stem, _) = {
                            let n = name.as_slice();
                            if n == b".." { (n.to_vec(), None) } else { match n.iter().rposition(|b| *b == b'.') { None | Some(0) => (n.to_vec(), None::<Vec<u8>>), Some(i) => (n[..i].to_vec(), Some(n[i + 1..].to_vec())) } }
                        };
                        let mut want_name = stem.clone();
                        if !x.is_empty() {
                            want_name.push(b'.');
                            want_name.extend_from_slice(x);
                        }
                        if !ok {
                            ctx.fail("file-name-returns-true", None, rp.clone(), String::new());
                        }
                        // DESIGN §2.3: with an empty extension and stem `.`/`..` no *file name* can result
                        let guard = !x.is_empty() || (stem != b"." && stem != b"..");
                        if guard {
                            if file_name_b(win, &r).as_ref() != Some(&want_name) {
                                ctx.fail("new-file-name-is-stem-dot-ext", None, rp.clone(), format!("-> \"{}\" want name \"{}\"", lossy(&r), lossy(&want_name)));
                            }
                            let np = parent_b(win, &r);
                            let same = match (&np, &oldp) {
                                (Some(a), Some(b)) => comps(win, a) == comps(win, b),
                                _ => false,
                            };
                            if !same {
                                ctx.fail("parent-unchanged-by-set_extension", None, rp.clone(), format!("-> \"{}\"", lossy(&r)));
                            }
                        }
                    }
                }
                if !win {
                    let mut d = SPathBuf::from(OsStr::from_bytes(s));
                    let ok2 = d.set_extension(OsStr::from_bytes(x));
                    if ok2 != ok || d.as_os_str().as_bytes() != r.as_slice() {
                        ctx.fail("unix-bytes-equal-std", None, rp.clone(), format!("impl \"{}\" {} std {:?} {}", lossy(&r), ok, d, ok2));
                    }
                }
                // with_extension, typed and UTF-8 forms
                let we: Vec<u8> = if win { WindowsPath::new(s).with_extension(x).into_vec() } else { UnixPath::new(s).with_extension(x).into_vec() };
                if we != r {
                    ctx.fail("with_extension-equals-set_extension", None, rp.clone(), String::new());
                }
                if let (Ok(ss), Ok(sx)) = (std::str::from_utf8(s), std::str::from_utf8(x)) {
                    let ur = crate::util::quiet_catch(|| {
                        if win {
                            let mut b = Utf8WindowsPathBuf::from(ss);
                            let k = b.set_extension(sx);
                            (b.into_string().into_bytes(), k)
                        } else {
                            let mut b = Utf8UnixPathBuf::from(ss);
                            let k = b.set_extension(sx);
                            (b.into_string().into_bytes(), k)
                        }
                    });
                    match ur {
                        Err(_) => ctx.fail("utf8-set_extension-panics", None, rp.clone(), String::new()),
                        Ok((ub, uk)) => {
                            if ub != r || uk != ok || std::str::from_utf8(&ub).is_err() {
                                ctx.fail("utf8-set_extension-agrees", None, rp.clone(), format!("utf8 \"{}\" {}", lossy(&ub), uk));
                            }
                        }
                    }
                }
                // with_extension of the UTF-8, typed and UTF-8-typed forms (separate code paths from set_extension)
                if let (Ok(ss), Ok(sx)) = (std::str::from_utf8(s), std::str::from_utf8(x)) {
                    let ur = crate::util::quiet_catch(|| -> Vec<(&'static str, Vec<u8>)> {
                        if win {
                            vec![
                                ("Utf8Path", Utf8WindowsPath::new(ss).with_extension(sx).into_string().into_bytes()),
                                ("Utf8TypedPath", Utf8TypedPath::windows(ss).with_extension(sx).into_string().into_bytes()),
                                ("Utf8TypedPathBuf", Utf8TypedPathBuf::from_windows(ss).with_extension(sx).into_string().into_bytes()),
                            ]
                        } else {
                            vec![
                                ("Utf8Path", Utf8UnixPath::new(ss).with_extension(sx).into_string().into_bytes()),
                                ("Utf8TypedPath", Utf8TypedPath::unix(ss).with_extension(sx).into_string().into_bytes()),
                                ("Utf8TypedPathBuf", Utf8TypedPathBuf::from_unix(ss).with_extension(sx).into_string().into_bytes()),
                            ]
                        }
                    });
                    match ur {
                        Err(_) => ctx.fail("utf8-with_extension-panics", None, rp.clone(), String::new()),
                        Ok(forms) => {
                            for (name, v) in forms {
                                if v != r {
                                    ctx.fail("utf8-with_extension-agrees", None, rp.clone(), format!("{} \"{}\" bytes \"{}\"", name, lossy(&v), lossy(&r)));
                                }
                            }
                        }
                    }
                }
                {
                    let tv: Vec<u8> = if win { TypedPath::windows(s).with_extension(x).into_vec() } else { TypedPath::unix(s).with_extension(x).into_vec() };
                    let mut tb = if win { TypedPathBuf::from_windows(s) } else { TypedPathBuf::from_unix(s) };
                    let tk = tb.set_extension(x);
                    if tv != r || tb.into_vec() != r || tk != ok {
                        ctx.fail("typed-with_extension-agrees", None, rp.clone(), format!("typed \"{}\" bytes \"{}\"", lossy(&tv), lossy(&r)));
                    }
                }
                // the SAME buffer across calls (spare capacity, earlier truncation): each call must give what
                // a fresh buffer with the same bytes gives
                {
                    let seq: [&[u8]; 4] = [b"rs", x.as_slice(), b"longer_ext", x.as_slice()];
                    macro_rules! same_buf {
                        ($B:ty) => {{
                            let mut b = <$B>::from(s.as_slice());
                            b.reserve(3);
                            let mut bad = None;
                            for (i, e) in seq.iter().enumerate() {
                                let before = b.as_bytes().to_vec();
                                let k = b.set_extension(e);
                                let mut fresh = <$B>::from(before.as_slice());
                                let kf = fresh.set_extension(e);
                                if b.as_bytes() != fresh.as_bytes() || k != kf {
                                    bad = Some(format!("call {} (ext \"{}\") on the reused buffer \"{}\" gave \"{}\", on a fresh one \"{}\"", i, lossy(e), lossy(&before), lossy(b.as_bytes()), lossy(fresh.as_bytes())));
                                    break;
                                }
                            }
                            bad
                        }};
                    }
                    let bad = if win { same_buf!(WindowsPathBuf) } else { same_buf!(UnixPathBuf) };
                    if let Some(dd) = bad {
                        ctx.fail("set_extension-history-independent", None, format!("hist {} {} setext:{} setext:{}", e, hex(s), hex(b"rs"), hex(x)), dd);
                    }
                }
                // repeated application: the second extension wins
                if f.is_some() && !x.contains(&b'.') {
                    let (r2, _) = set_ext_b(win, &r, b"zz");
                    let (r1, _) = set_ext_b(win, s, b"zz");
                    if r2 != r1 && !x.is_empty() {
                        ctx.fail("repeated-set_extension", None, rp.clone(), format!("twice \"{}\" once \"{}\"", lossy(&r2), lossy(&r1)));
                    }
                }
            }
        }
    }
    // GIANT extension arguments and giant stems (a special path for "large" requests, a length kept in
    // 24 bits …): every family, owned and `with_extension`, against the documented bytes and against std
    for m in giant_sizes() {
        ctx.evals += 1;
        let ext: Vec<u8> = (0..m).map(|k| b'a' + (k % 26) as u8).collect();
        let exts = std::str::from_utf8(&ext).unwrap();
        for (base, stem_end) in [(&b"a/b.c/."[..], 3usize), (b"b.c", 1), (b"dir/name", 8)] {
            let want: Vec<u8> = [&base[..stem_end], b".", &ext[..]].concat();
            let rp = format!("x.giant-ext {} bytes onto {}", m, hex(base));
            let r = crate::util::quiet_catch(|| {
                let mut got: Vec<(&str, Vec<u8>, bool)> = Vec::new();
                let mut u = UnixPathBuf::from(base.to_vec());
                let k = u.set_extension(&ext);
                got.push(("unix", u.into_vec(), k));
                let wbase: Vec<u8> = base.iter().map(|b| if *b == b'/' { b'\\' } else { *b }).collect();
                let mut w = WindowsPathBuf::from(wbase.clone());
                let k = w.set_extension(&ext);
                got.push(("windows", w.into_vec().iter().map(|b| if *b == b'\\' { b'/' } else { *b }).collect(), k));
                let mut u8b = Utf8UnixPathBuf::from(std::str::from_utf8(base).unwrap());
                let k = u8b.set_extension(exts);
                got.push(("utf8-unix", u8b.into_string().into_bytes(), k));
                let mut ty = TypedPathBuf::from_unix(base);
                let k = ty.set_extension(&ext);
                got.push(("typed", ty.into_vec(), k));
                got.push(("with_extension", UnixPath::new(base).with_extension(&ext).into_vec(), true));
                got.push(("utf8-with_extension", Utf8WindowsPath::new(std::str::from_utf8(&wbase).unwrap()).with_extension(exts).into_string().into_bytes().iter().map(|b| if *b == b'\\' { b'/' } else { *b }).collect(), true));
                got
            });
            match r {
                Err(_) => ctx.fail("set_extension-panics", None, rp.clone(), format!("extension of {} bytes", m)),
                Ok(got) => {
                    let mut stdb = std::path::PathBuf::from(std::ffi::OsStr::from_bytes(base));
                    stdb.set_extension(std::ffi::OsStr::from_bytes(&ext));
                    for (who, bytes, k) in got {
                        if !k || bytes != want || bytes != stdb.as_os_str().as_bytes() {
                            ctx.fail("giant-extension", None, rp.clone(), format!("{}: returned {} with {} bytes (want {}), tail \"{}\"", who, k, bytes.len(), want.len(), lossy(&bytes[bytes.len().saturating_sub(12)..])));
                            break;
                        }
                    }
                }
            }
        }
        // giant stem, small extension
        let stem: Vec<u8> = (0..m).map(|k| b'a' + (k % 26) as u8).collect();
        let base: Vec<u8> = [b"d/", &stem[..], b".old"].concat();
        let want: Vec<u8> = [b"d/", &stem[..], b".n"].concat();
        let r = crate::util::quiet_catch(|| {
            let mut u = UnixPathBuf::from(base.clone());
            u.set_extension(b"n");
            let mut w = Utf8UnixPathBuf::from(std::str::from_utf8(&base).unwrap());
            w.set_extension("n");
            (u.into_vec(), w.into_string().into_bytes())
        });
        match r {
            Ok((a, b)) if a == want && b == want => {}
            _ => ctx.fail("giant-extension", None, format!("x.giant-stem {} bytes", m), String::new()),
        }
    }
    let _ = sp;
    ctx.sample(format!("setext u {} {}", hex(b"a.txt/"), hex(b"new")));
    ctx.sample(format!("setext w {} {}", hex("aé.é\\.".as_bytes()), hex(b"x")));
}

fn kinds_names(cs: &[SComp]) -> Vec<SComp> {
    cs.iter().filter(|c| !matches!(c, SComp::Prefix(_))).cloned().collect()
}

pub fn c16(ctx: &mut Ctx, tier: &str, seed: u64) {
    let t = tier_is_thorough(tier);
    let mut d = strings_b(b"\\/:.a", if t { 6 } else { 5 });
    d.extend(dom_win_small(tier, seed));
    d.extend(dom_unix_small(tier, seed));
    d.extend(strings_b(b"\\/:?*\"<>|\0a", if t { 3 } else { 2 }));
    // sizes around the magic numbers of the source, small and (oracle only) big
    d.extend(magic_paths(false, 1024));
    d.extend(magic_paths(true, 1024));
    d.extend(big_inputs(false));
    d.extend(big_inputs(true));
    let tails = strings_b(b"\\/:?*\"<>|\0a.", 2);
    for s in WIN_SEEDS {
        for tl in &tails {
            let mut x = s.to_vec();
            x.push(b'\\');
            x.extend_from_slice(tl);
            d.push(x);
        }
    }
    let d = dedup_keep_order(d);
    for s in &d {
        for src_win in [false, true] {
            let se = gen::e(src_win);
            let de = gen::e(!src_win);
            let rp = format!("conv {} {} {}", se, de, hex(s));
            at(rp.clone());
            // the source is classified (prefix, names, the K4 class) by the GRAMMAR's reading of it, not by the
            // implementation's: a parser that cuts a prefix short must not move the input out of the clause
            let cs = spec_comps(src_win, s);
            // same encoding: same bytes
            let same: Vec<u8> = if src_win { WindowsPath::new(s).with_windows_encoding().into_vec() } else { UnixPath::new(s).with_unix_encoding().into_vec() };
            ctx.case(nontrivial_path(&cs), (src_win, s));
            if same != *s {
                ctx.fail("same-encoding-same-bytes", None, format!("conv {} {} {}", se, se, hex(s)), format!("\"{}\"", lossy(&same)));
            }
            let same_c: Result<Vec<u8>, CheckedPathError> = if src_win { WindowsPath::new(s).with_windows_encoding_checked().map(|x| x.into_vec()) } else { UnixPath::new(s).with_unix_encoding_checked().map(|x| x.into_vec()) };
            match &same_c {
                Ok(x) => {
                    if x != s || !spec::names_valid(&cs, src_win) {
                        ctx.fail("checked-same-encoding", None, format!("conv {} {} {}", se, se, hex(s)), format!("Ok(\"{}\")", lossy(x)));
                    }
                }
                Err(_) => {
                    if spec::names_valid(&cs, src_win) {
                        ctx.fail("checked-same-encoding", None, format!("conv {} {} {}", se, se, hex(s)), "Err although valid".into());
                    }
                }
            }
            // other encoding
            let dst_win = !src_win;
            let de = gen::e(dst_win);
            let conv: Vec<u8> = if src_win { WindowsPath::new(s).with_unix_encoding().into_vec() } else { UnixPath::new(s).with_windows_encoding().into_vec() };
            let convc: Result<Vec<u8>, CheckedPathError> = if src_win { WindowsPath::new(s).with_unix_encoding_checked().map(|x| x.into_vec()) } else { UnixPath::new(s).with_windows_encoding_checked().map(|x| x.into_vec()) };
            let cd = comps(dst_win, &conv);
            let has_prefix = matches!(cs.first(), Some(SComp::Prefix(_)));
            let fd = spec::forbidden(dst_win);
            let names: Vec<&Vec<u8>> = cs.iter().filter_map(|c| if let SComp::Normal(n) = c { Some(n) } else { None }).collect();
            let names_ok_both = spec::names_valid(&cs, true) && spec::names_valid(&cs, false);
            // interior `.` only exists in verbatim sources; the Unix parser cannot represent it
            let strip_interior_cur = |v: &[SComp]| -> Vec<SComp> { v.iter().enumerate().filter(|(i, c)| !(matches!(c, SComp::Cur) && *i > 0)).map(|(_, c)| c.clone()).collect() };
            ctx.tally(&format!("{}->{}:{}", se, de, if has_prefix { "prefix" } else if names_ok_both { "portable" } else { "nonportable" }));
            if !has_prefix && names_ok_both {
                if strip_interior_cur(&cd) != strip_interior_cur(&cs) {
                    ctx.fail("prefix-free-conversion-keeps-kinds-and-names", None, rp.clone(), format!("source {} result \"{}\" {}", show_sc(&cs), lossy(&conv), show_sc(&cd)));
                }
                let back: Vec<u8> = if dst_win { WindowsPath::new(&conv).with_unix_encoding().into_vec() } else { UnixPath::new(&conv).with_windows_encoding().into_vec() };
                if !path_eq(src_win, &back, s) && strip_interior_cur(&comps(src_win, &back)) != strip_interior_cur(&cs) {
                    ctx.fail("round-trip-equal", None, rp.clone(), format!("back \"{}\"", lossy(&back)));
                }
            }
            if src_win && has_prefix && names_ok_both {
                let d0 = spec::win_decomp(s);
                // "a rooted or non-disk-prefixed Windows path becomes a rooted Unix path"
                let want_root = d0.root || d0.has_implicit_root();
                if cd.iter().any(|c| matches!(c, SComp::Prefix(_))) || (cd.first() == Some(&SComp::Root)) != want_root {
                    ctx.fail("windows-prefix-dropped-root-kept", None, rp.clone(), format!("result \"{}\" {}", lossy(&conv), show_sc(&cd)));
                }
                let body: Vec<SComp> = kinds_names(&cs).into_iter().filter(|c| *c != SComp::Root).collect();
                let got: Vec<SComp> = cd.iter().filter(|c| **c != SComp::Root).cloned().collect();
                if strip_interior_cur(&got) != strip_interior_cur(&body) && !(want_root && body.first() == Some(&SComp::Cur)) {
                    ctx.fail("windows-prefix-dropped-body-kept", None, rp.clone(), format!("result {}", show_sc(&cd)));
                }
            }
            // checked conversion; K4 = a source name contains a separator of the target
            let k4 = if names.iter().any(|n| n.iter().any(|b| is_sep(dst_win, *b))) { Some("K4") } else { None };
            match &convc {
                Ok(x) => {
                    if *x != conv {
                        ctx.fail("checked-ok-equals-unchecked", k4, rp.clone(), format!("checked \"{}\" unchecked \"{}\"", lossy(x), lossy(&conv)));
                    }
                    let cx = comps(dst_win, x);
                    if !spec::names_valid(&cx, dst_win) {
                        ctx.fail("checked-ok-valid-in-target", k4, rp.clone(), format!("\"{}\"", lossy(x)));
                    }
                    let src_body: Vec<SComp> = { let v = kinds_names(&cs); if src_win && spec::win_decomp(s).has_implicit_root() && v.first() != Some(&SComp::Root) { let mut w = vec![SComp::Root]; w.extend(v); w } else { v } };
                    let src_body = if src_body.first() == Some(&SComp::Root) && src_body.get(1) == Some(&SComp::Cur) { let mut w = src_body.clone(); w.remove(1); w } else { src_body };
                    if strip_interior_cur(&cx) != strip_interior_cur(&src_body) {
                        ctx.fail("checked-ok-same-kinds-and-names", k4, rp.clone(), format!("source {} result {}", show_sc(&cs), show_sc(&cx)));
                    }
                    if names.iter().any(|n| n.iter().any(|b| fd.contains(b))) {
                        ctx.fail("checked-fails-on-forbidden-byte", k4, rp.clone(), format!("Ok(\"{}\")", lossy(x)));
                    }
                }
                Err(_) => {}
            }
            // typed / platform shortcuts agree
            let tp = if src_win { TypedPath::Windows(WindowsPath::new(s)) } else { TypedPath::Unix(UnixPath::new(s)) };
            let tconv = if dst_win { tp.with_windows_encoding() } else { tp.with_unix_encoding() };
            if tconv.as_bytes() != conv.as_slice() || tconv.is_windows() != dst_win {
                ctx.fail("typed-conversion-agrees", None, rp.clone(), String::new());
            }
            // the checked shortcuts of the typed wrappers (borrowed and owned) must agree with the
            // checked conversion of the wrapped path
            let tchk: Result<Vec<u8>, CheckedPathError> = (if dst_win { tp.with_windows_encoding_checked() } else { tp.with_unix_encoding_checked() }).map(|x| x.as_bytes().to_vec());
            let tb = tp.to_path_buf();
            let tbchk: Result<Vec<u8>, CheckedPathError> = (if dst_win { tb.with_windows_encoding_checked() } else { tb.with_unix_encoding_checked() }).map(|x| x.as_bytes().to_vec());
            let tbconv = if dst_win { tb.with_windows_encoding() } else { tb.with_unix_encoding() };
            if tchk != convc || tbchk != convc || tbconv.as_bytes() != conv.as_slice() {
                ctx.fail("typed-checked-conversion-agrees", None, rp.clone(), format!("typed {:?} / {:?}, untyped {:?}", tchk.as_ref().map(|x| lossy(x)), tbchk.as_ref().map(|x| lossy(x)), convc.as_ref().map(|x| lossy(x))));
            }
            // same-encoding shortcuts of the typed wrappers
            let tsame: Result<Vec<u8>, CheckedPathError> = (if src_win { tp.with_windows_encoding_checked() } else { tp.with_unix_encoding_checked() }).map(|x| x.as_bytes().to_vec());
            if tsame != same_c {
                ctx.fail("typed-checked-same-encoding-agrees", None, format!("conv {} {} {}", se, se, hex(s)), String::new());
            }
            let tbsame: Result<Vec<u8>, CheckedPathError> = (if src_win { tb.with_windows_encoding_checked() } else { tb.with_unix_encoding_checked() }).map(|x| x.as_bytes().to_vec());
            if tbsame != same_c {
                ctx.fail("typed-checked-same-encoding-agrees", None, format!("conv {} {} {}", se, se, hex(s)), "TypedPathBuf".into());
            }
            if let Ok(st) = std::str::from_utf8(s) {
                let up = if src_win { Utf8TypedPath::windows(st) } else { Utf8TypedPath::unix(st) };
                let uchk: Result<Vec<u8>, CheckedPathError> = (if dst_win { up.with_windows_encoding_checked() } else { up.with_unix_encoding_checked() }).map(|x| x.as_str().as_bytes().to_vec());
                let uconv = if dst_win { up.with_windows_encoding() } else { up.with_unix_encoding() };
                if uchk != convc || uconv.as_str().as_bytes() != conv.as_slice() || uconv.is_windows() != dst_win {
                    ctx.fail("utf8-typed-conversion-agrees", None, rp.clone(), String::new());
                }
                let upb = up.to_path_buf();
                let ubchk: Result<Vec<u8>, CheckedPathError> = (if dst_win { upb.with_windows_encoding_checked() } else { upb.with_unix_encoding_checked() }).map(|x| x.as_str().as_bytes().to_vec());
                let ubconv = if dst_win { upb.with_windows_encoding() } else { upb.with_unix_encoding() };
                if ubchk != convc || ubconv.as_str().as_bytes() != conv.as_slice() || ubconv.is_windows() != dst_win {
                    ctx.fail("utf8-typed-conversion-agrees", None, rp.clone(), "Utf8TypedPathBuf".into());
                }
                // same-encoding checked shortcuts of the UTF-8 forms (typed borrowed, typed owned, concrete)
                let s1: Result<Vec<u8>, CheckedPathError> = (if src_win { up.with_windows_encoding_checked() } else { up.with_unix_encoding_checked() }).map(|x| x.as_str().as_bytes().to_vec());
                let s2: Result<Vec<u8>, CheckedPathError> = (if src_win { upb.with_windows_encoding_checked() } else { upb.with_unix_encoding_checked() }).map(|x| x.as_str().as_bytes().to_vec());
                let s3: Result<Vec<u8>, CheckedPathError> = if src_win { Utf8WindowsPath::new(st).with_windows_encoding_checked().map(|x| x.into_string().into_bytes()) } else { Utf8UnixPath::new(st).with_unix_encoding_checked().map(|x| x.into_string().into_bytes()) };
                if s1 != same_c || s2 != same_c || s3 != same_c {
                    ctx.fail("utf8-checked-same-encoding-agrees", None, format!("conv {} {} {}", se, se, hex(s)), format!("Utf8TypedPath {:?} Utf8TypedPathBuf {:?} Utf8Path {:?} bytes {:?}", s1.is_ok(), s2.is_ok(), s3.is_ok(), same_c.is_ok()));
                }
            }
            if let Ok(st) = std::str::from_utf8(s) {
                let u: Vec<u8> = if src_win { Utf8WindowsPath::new(st).with_unix_encoding().into_string().into_bytes() } else { Utf8UnixPath::new(st).with_windows_encoding().into_string().into_bytes() };
                let uc: Result<Vec<u8>, CheckedPathError> = if src_win { Utf8WindowsPath::new(st).with_unix_encoding_checked().map(|x| x.into_string().into_bytes()) } else { Utf8UnixPath::new(st).with_windows_encoding_checked().map(|x| x.into_string().into_bytes()) };
                if u != conv || uc != convc {
                    ctx.fail("utf8-conversion-agrees", None, rp.clone(), String::new());
                }
            }
        }
    }
    ctx.sample(format!("conv w u {}", hex(br"C:tmp\foo")));
    ctx.sample(format!("conv u w {}", hex(b"/a/b:c")));
}

pub fn c17(ctx: &mut Ctx, tier: &str, seed: u64) {
    for win in [false, true] {
        let e = gen::e(win);
        let f = spec::forbidden(win);
        let mut d: Vec<Vec<u8>> = Vec::new();
        let pre: &[&[u8]] = if win { &[b"", b"C:\\", br"\\?\C:\", br"\\?\pics\", b"d\\", br"\\s\h\"] } else { &[b"", b"/", b"d/"] };
        for p in pre {
            for x in 0..=255u8 {
                for shape in 0..3 {
                    let mut v = p.to_vec();
                    match shape {
                        0 => v.push(x),
                        1 => v.extend_from_slice(&[b'a', x]),
                        _ => v.extend_from_slice(&[x, b'a']),
                    }
                    d.push(v);
                }
            }
        }
        d.extend(if win { dom_win_small(tier, seed) } else { dom_unix_small(tier, seed) });
        d.extend(if win { strings_b(b"\\/:?*\"<>|\0a.", 3) } else { strings_b(b"/\0a.", 4) });
        // multi-byte characters whose code point's low byte is a forbidden ASCII byte (a char
        // table consulted with a truncating cast would reject them)
        for fb in spec::WINDOWS_FORBIDDEN {
            for hi in [0x100u32, 0x4e00, 0x1f600] {
                if let Some(c) = char::from_u32(hi + *fb as u32) {
                    let mut v = b"d".to_vec();
                    v.push(if win { b'\\' } else { b'/' });
                    v.extend_from_slice(c.to_string().as_bytes());
                    d.push(v);
                }
            }
        }
        // an invalid name that a later `..` cancels is still an invalid name (a verdict computed on what
        // survives normalisation would miss it)
        for fb in if win { spec::WINDOWS_FORBIDDEN } else { spec::UNIX_FORBIDDEN } {
            let sp = if win { b'\\' } else { b'/' };
            if *fb == sp || (win && *fb == b'/') {
                continue;
            }
            d.push(vec![*fb, sp, b'.', b'.']);
            d.push(vec![b'a', *fb, b'b', sp, b'.', b'.', sp, b'c']);
            d.push(vec![b'd', sp, *fb, sp, b'.', b'.', sp, b'.', b'.', sp, b'e', sp, b'f']);
        }
        d.extend(magic_paths(win, 1024));
        d.extend(big_inputs(win));
        let d = dedup_keep_order(d);
        for s in &d {
            let rp = format!("valid {} {}", e, hex(s));
            at(rp.clone());
            let cs = spec_comps(win, s);
            let want = spec::names_valid(&cs, win);
            let got = if win { WindowsPath::new(s).is_valid() } else { UnixPath::new(s).is_valid() };
            ctx.case(!want || cs.len() >= 2, (win, s));
            ctx.tally(&format!("{}:{}", e, if want { "valid" } else { "invalid" }));
            if got != want {
                ctx.fail("path-valid-iff-names-clean", None, rp.clone(), format!("impl {} definition {}", got, want));
            }
            // per-component predicate
            let per: Vec<(SComp, bool)> = if win { WindowsPath::new(s).components().map(|c| (sc_w(&c), c.is_valid())).collect() } else { UnixPath::new(s).components().map(|c| (sc_u(&c), c.is_valid())).collect() };
            for (c, v) in &per {
                let w = match c {
                    SComp::Normal(n) => !n.iter().any(|b| f.contains(b)),
                    _ => true,
                };
                if *v != w {
                    ctx.fail("component-valid-iff-clean", None, rp.clone(), format!("{:?} -> {}", c, v));
                }
            }
            if per.iter().all(|x| x.1) != got {
                ctx.fail("path-valid-is-all-components-valid", None, rp.clone(), String::new());
            }
            // UTF-8 counterpart, typed, and the checked verdict
            if let Ok(st) = std::str::from_utf8(s) {
                let u = if win { Utf8WindowsPath::new(st).is_valid() } else { Utf8UnixPath::new(st).is_valid() };
                let uc = if win { Utf8WindowsPath::new(st).components().all(|c| c.is_valid()) } else { Utf8UnixPath::new(st).components().all(|c| c.is_valid()) };
                if u != got || uc != got {
                    ctx.fail("utf8-valid-agrees", None, rp.clone(), format!("utf8 {} components {}", u, uc));
                }
            }
            // every copy of is_valid and of the same-encoding checked conversion gives this verdict:
            // typed / UTF-8 typed, borrowed and owned
            {
                let tp = if win { TypedPath::windows(s) } else { TypedPath::unix(s) };
                let tb = tp.to_path_buf();
                let same = |r: Result<TypedPathBuf, CheckedPathError>| match r {
                    Ok(x) => x.as_bytes() == s.as_slice() && got,
                    Err(CheckedPathError::InvalidFilename) => !got,
                    Err(_) => false,
                };
                let mut ok = same(if win { tp.with_windows_encoding_checked() } else { tp.with_unix_encoding_checked() })
                    && same(if win { tb.with_windows_encoding_checked() } else { tb.with_unix_encoding_checked() });
                let conc = if win { WindowsPath::new(s).with_windows_encoding_checked().map(|x| x.into_vec()) } else { UnixPath::new(s).with_unix_encoding_checked().map(|x| x.into_vec()) };
                ok = ok && match conc {
                    Ok(x) => x == *s && got,
                    Err(CheckedPathError::InvalidFilename) => !got,
                    Err(_) => false,
                };
                if let Ok(st) = std::str::from_utf8(s) {
                    let up = if win { Utf8TypedPath::windows(st) } else { Utf8TypedPath::unix(st) };
                    let ub = up.to_path_buf();
                    let same8 = |r: Result<Utf8TypedPathBuf, CheckedPathError>| match r {
                        Ok(x) => x.as_str() == st && got,
                        Err(CheckedPathError::InvalidFilename) => !got,
                        Err(_) => false,
                    };
                    ok = ok && same8(if win { up.with_windows_encoding_checked() } else { up.with_unix_encoding_checked() })
                        && same8(if win { ub.with_windows_encoding_checked() } else { ub.with_unix_encoding_checked() });
                    let conc8 = if win { Utf8WindowsPath::new(st).with_windows_encoding_checked().map(|x| x.into_string()) } else { Utf8UnixPath::new(st).with_unix_encoding_checked().map(|x| x.into_string()) };
                    ok = ok && match conc8 {
                        Ok(x) => x == st && got,
                        Err(CheckedPathError::InvalidFilename) => !got,
                        Err(_) => false,
                    };
                }
                if !ok {
                    ctx.fail("validity-verdicts-agree-across-copies", None, rp.clone(), format!("is_valid {}", got));
                }
            }
            // the verdict is a function of the argument alone: the same onto every kind of base (relative, empty,
            // rooted, each prefix kind, verbatim in both spellings), byte and UTF-8 copy
            let bases: &[&[u8]] = if win { &[b"base", b"", b"C:\\", br"\\?\C:\d", br"\\?\pics", br"\\?\UNC\s\h", b"//?/C:/d", br"\\s\h\", br"\\.\dev"] } else { &[b"base", b"", b"/"] };
            let first_offender_is_name = spec::verdict(&cs, win) == spec::Verdict::InvalidFilename;
            for base in bases {
                let (_, r) = push_checked_b(win, base, s);
                let inv = matches!(r, Err(CheckedPathError::InvalidFilename));
                // InvalidFilename is the verdict iff the first offending component is an invalid name
                if inv != first_offender_is_name {
                    ctx.fail("invalid-filename-verdict-agrees", None, format!("pushc {} {} {}", e, hex(base), hex(s)), format!("{:?}", r));
                }
                if !want && r.is_ok() {
                    ctx.fail("checked-accepts-invalid-name", None, format!("pushc {} {} {}", e, hex(base), hex(s)), String::new());
                }
                if let (Ok(st), Ok(bs)) = (std::str::from_utf8(s), std::str::from_utf8(base)) {
                    let ur = if win { Utf8WindowsPathBuf::from(bs).push_checked(st) } else { Utf8UnixPathBuf::from(bs).push_checked(st) };
                    if ur != r {
                        ctx.fail("invalid-filename-verdict-agrees", None, format!("pushc {} {} {}", e, hex(base), hex(s)), format!("UTF-8 copy {:?}, byte copy {:?}", ur, r));
                    }
                }
            }
        }
    }
    // the PUBLIC constant tables are the documented sets (as sets), byte and char tables agree, and the
    // separators / markers are the documented ones
    {
        use typed_path::constants::{unix as cu, windows as cw};
        ctx.evals += 1;
        let set = |v: &[u8]| { let mut x = v.to_vec(); x.sort(); x.dedup(); x };
        let chars = |v: &[char]| { let mut x: Vec<u8> = v.iter().map(|c| *c as u32 as u8).collect(); x.sort(); x.dedup(); x };
        let mut bad: Vec<String> = Vec::new();
        if set(&cu::DISALLOWED_FILENAME_BYTES) != set(spec::UNIX_FORBIDDEN) { bad.push(format!("unix bytes {:?}", cu::DISALLOWED_FILENAME_BYTES)); }
        if set(cw::DISALLOWED_FILENAME_BYTES) != set(spec::WINDOWS_FORBIDDEN) { bad.push(format!("windows bytes {:?}", cw::DISALLOWED_FILENAME_BYTES)); }
        if chars(&cu::DISALLOWED_FILENAME_CHARS) != set(spec::UNIX_FORBIDDEN) || cu::DISALLOWED_FILENAME_CHARS.iter().any(|c| (*c as u32) > 0x7f) { bad.push(format!("unix chars {:?}", cu::DISALLOWED_FILENAME_CHARS)); }
        if chars(cw::DISALLOWED_FILENAME_CHARS) != set(spec::WINDOWS_FORBIDDEN) || cw::DISALLOWED_FILENAME_CHARS.iter().any(|c| (*c as u32) > 0x7f) { bad.push(format!("windows chars {:?}", cw::DISALLOWED_FILENAME_CHARS)); }
        if cu::SEPARATOR != '/' || cu::SEPARATOR_STR != "/" || cw::SEPARATOR != '\\' || cw::SEPARATOR_STR != "\\" || cw::ALT_SEPARATOR != '/' || cw::ALT_SEPARATOR_STR != "/" {
            bad.push("separators".into());
        }
        if cu::CURRENT_DIR != b"." || cu::PARENT_DIR != b".." || cw::CURRENT_DIR != b"." || cw::PARENT_DIR != b".." || cu::CURRENT_DIR_STR != "." || cu::PARENT_DIR_STR != ".." || cw::CURRENT_DIR_STR != "." || cw::PARENT_DIR_STR != ".." {
            bad.push("dot markers".into());
        }
        if !bad.is_empty() {
            ctx.fail("public-tables-are-the-documented-sets", None, format!("valid w {}", hex(b"a")), bad.join("; "));
        }
    }
    ctx.sample(format!("valid w {}", hex(br"C:\a|b")));
    ctx.sample(format!("valid u {}", hex(b"a\0b")));
}
