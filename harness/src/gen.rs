//! Op-line generators: for each property the families of operations whose model/implementation
//! correspondence is checked, over bounded-exhaustive + seeded random domains.

use crate::util::*;

fn enc_sep(win: bool) -> &'static [u8] {
    if win {
        b"\\/"
    } else {
        b"/"
    }
}

/// upper bound on the number of components of `s`
fn ncomp_bound(s: &[u8], win: bool) -> usize {
    let seps = enc_sep(win);
    let mut n = 0;
    let mut in_seg = false;
    for b in s {
        if seps.contains(b) {
            in_seg = false;
        } else if !in_seg {
            in_seg = true;
            n += 1;
        }
    }
    n + 1
}

pub fn e(win: bool) -> &'static str {
    if win {
        "w"
    } else {
        "u"
    }
}

fn masks(steps: usize, all_upto: usize, nrand: usize, rng: &mut Rng) -> Vec<String> {
    let mut out = Vec::new();
    if steps <= all_upto {
        for m in 0u32..(1 << steps) {
            out.push((0..steps).map(|i| if m >> i & 1 == 0 { 'f' } else { 'b' }).collect());
        }
    } else {
        out.push("f".repeat(steps));
        out.push("b".repeat(steps));
        for _ in 0..nrand {
            out.push((0..steps).map(|_| if rng.chance(1, 2) { 'f' } else { 'b' }).collect());
        }
    }
    out
}

pub fn fam_mix(win: bool, dom: &[Vec<u8>], all_upto: usize, nrand: usize, seed: u64, out: &mut Vec<String>) {
    let mut rng = Rng::new(seed ^ 0x41);
    for s in dom {
        let steps = ncomp_bound(s, win) + 2;
        for m in masks(steps, all_upto, nrand, &mut rng) {
            out.push(format!("mix {} {} {}", e(win), hex(s), m));
        }
    }
}

/// the same interleavings, answered on the model side by the combinator transcription
pub fn fam_cmix(win: bool, dom: &[Vec<u8>], all_upto: usize, nrand: usize, seed: u64, out: &mut Vec<String>) {
    let mut rng = Rng::new(seed ^ 0x43);
    for s in dom {
        let steps = ncomp_bound(s, win) + 2;
        for m in masks(steps, all_upto, nrand, &mut rng) {
            out.push(format!("cmix {} {} {}", e(win), hex(s), m));
        }
    }
}

pub fn fam_unary(op: &str, win: bool, dom: &[Vec<u8>], out: &mut Vec<String>) {
    for s in dom {
        out.push(format!("{} {} {}", op, e(win), hex(s)));
    }
}

pub fn fam_wq(dom: &[Vec<u8>], out: &mut Vec<String>) {
    for s in dom {
        out.push(format!("wq {}", hex(s)));
    }
}

/// re-spellings of `a` that should leave its components unchanged (mostly)
pub fn respell(a: &[u8], win: bool, rng: &mut Rng) -> Vec<Vec<u8>> {
    let mut v = Vec::new();
    let sep = if win { b'\\' } else { b'/' };
    let mut t = a.to_vec();
    t.push(sep);
    v.push(t.clone());
    t.push(b'.');
    v.push(t);
    // double each separator / flip slash direction / change case
    let mut d = Vec::new();
    for &b in a {
        d.push(b);
        if enc_sep(win).contains(&b) {
            d.push(b);
        }
    }
    v.push(d);
    if win {
        v.push(a.iter().map(|&b| if b == b'\\' { b'/' } else if b == b'/' { b'\\' } else { b }).collect());
        v.push(a.iter().map(|&b| if b.is_ascii_lowercase() { b.to_ascii_uppercase() } else { b.to_ascii_lowercase() }).collect());
    }
    if win && a.len() >= 4 && enc_sep(true).contains(&a[0]) && enc_sep(true).contains(&a[1]) && (a[2] == b'?' || a[2] == b'.') && enc_sep(true).contains(&a[3]) {
        // only the four marker bytes re-spelled (what follows is byte-identical): exactly one of the
        // eight spellings of `\\?\` switches normalisation off
        for m in 0..8u8 {
            let mut x = a.to_vec();
            x[0] = if m & 1 == 0 { b'\\' } else { b'/' };
            x[1] = if m & 2 == 0 { b'\\' } else { b'/' };
            x[3] = if m & 4 == 0 { b'\\' } else { b'/' };
            if x != a {
                v.push(x);
            }
        }
    }
    // "/./" after a random separator
    let idx: Vec<usize> = a.iter().enumerate().filter(|(_, b)| enc_sep(win).contains(b)).map(|(i, _)| i).collect();
    if !idx.is_empty() {
        let i = *rng.pick(&idx);
        let mut x = a[..=i].to_vec();
        x.push(b'.');
        x.push(sep);
        x.extend_from_slice(&a[i + 1..]);
        v.push(x);
    }
    v
}

/// for a long path: one equal re-spelling per separator position (a doubled separator, and a `.`
/// segment after it), so that a redundant segment is tried at EVERY offset and alignment
pub fn respell_every_position(a: &[u8], win: bool) -> Vec<Vec<u8>> {
    let sep = if win { b'\\' } else { b'/' };
    let mut v = Vec::new();
    // under an exact `\\?\` prefix neither re-spelling is equal: leave those alone
    if win && a.starts_with(br"\\?\") {
        return v;
    }
    for (i, b) in a.iter().enumerate() {
        if !enc_sep(win).contains(b) || i + 1 >= a.len() {
            continue;
        }
        // not inside the first four bytes (a prefix may live there)
        if win && i < 4 {
            continue;
        }
        let mut x = a[..=i].to_vec();
        x.push(sep);
        x.extend_from_slice(&a[i + 1..]);
        v.push(x);
        let mut y = a[..=i].to_vec();
        y.push(b'.');
        y.push(sep);
        y.extend_from_slice(&a[i + 1..]);
        v.push(y);
    }
    v
}

/// one DOT of `a` replaced by a byte that sorts just below / above it (`..` vs `.-`, `a.b` vs `a-b`, `a.` vs `a0`): a
/// dot decides the KIND of a component (`.`, `..`) and its place in the order, which is not the order of the bytes
pub fn dot_neighbours(a: &[u8]) -> Vec<Vec<u8>> {
    let dots: Vec<usize> = a.iter().enumerate().filter(|(_, b)| **b == b'.').map(|(i, _)| i).collect();
    let step = (dots.len() / 4).max(1);
    let mut out = Vec::new();
    for i in dots.iter().step_by(step) {
        for sub in [b'-', b',', b' ', 0u8, b'0'] {
            let mut b = a.to_vec();
            b[*i] = sub;
            out.push(b);
        }
    }
    out
}

pub fn pairs_related(dom: &[Vec<u8>], win: bool, nrand: usize, seed: u64) -> Vec<(Vec<u8>, Vec<u8>)> {
    let mut rng = Rng::new(seed ^ 0x51);
    let mut out = Vec::new();
    for a in dom {
        out.push((a.clone(), a.clone()));
        if a.len() >= 24 {
            for b in respell_every_position(a, win) {
                out.push((a.clone(), b));
            }
        }
        for b in respell(a, win, &mut rng) {
            out.push((a.clone(), b.clone()));
            out.push((b, a.clone()));
        }
        // the same bytes with the CASE of one letter changed (equal only where the letter is a drive letter
        // in prefix position; `cache\\c:index` / `cache\\C:index` are different names)
        let letters: Vec<usize> = a.iter().enumerate().filter(|(_, b)| b.is_ascii_alphabetic()).map(|(i, _)| i).collect();
        let step = (letters.len() / 6).max(1);
        for i in letters.iter().step_by(step) {
            let mut b = a.clone();
            b[*i] ^= 0x20;
            out.push((a.clone(), b));
        }
        // one SEPARATOR replaced by an ordinary byte that sorts below / above it (`ab/cd` vs `ab-cd`: the order
        // of the components is not the order of the bytes)
        let seps: Vec<usize> = a.iter().enumerate().filter(|(_, b)| crate::oracle::is_sep(win, **b)).map(|(i, _)| i).collect();
        let sstep = (seps.len() / 3).max(1);
        for i in seps.iter().step_by(sstep) {
            for sub in [b'-', b' ', b'0', b'z', b'_'] {
                let mut b = a.clone();
                b[*i] = sub;
                out.push((a.clone(), b.clone()));
                out.push((b, a.clone()));
            }
        }
        for b in dot_neighbours(a) {
            out.push((a.clone(), b.clone()));
            out.push((b, a.clone()));
        }
        for _ in 0..nrand {
            out.push((a.clone(), rng.pick(dom).clone()));
        }
    }
    out
}

/// the small domain of the comparison property: the usual one plus every short string over a separator, two
/// letters of different case and `:` (drive-like text in EVERY component position, for the case-flip pairs)
pub fn c05_small(win: bool, tier: &str, seed: u64) -> Vec<Vec<u8>> {
    let t = tier_is_thorough(tier);
    let mut d = if win { dom_win_small(tier, seed) } else { dom_unix_small(tier, seed) };
    d.extend(strings_b(if win { b"\\a:C" } else { b"/a:C" }, if t { 6 } else { 5 }));
    dedup_keep_order(d)
}

/// (path, candidate prefix / suffix) pairs
pub fn pairs_prefixy(dom: &[Vec<u8>], win: bool, nrand: usize, seed: u64) -> Vec<(Vec<u8>, Vec<u8>)> {
    let mut rng = Rng::new(seed ^ 0x52);
    let mut out = Vec::new();
    for a in dom {
        for i in 0..=a.len() {
            out.push((a.clone(), a[..i].to_vec()));
            if i > 0 {
                out.push((a.clone(), a[i..].to_vec()));
            }
        }
        for b in respell(a, win, &mut rng) {
            out.push((a.clone(), b.clone()));
            if b.len() > 2 {
                let k = 1 + rng.below(b.len() - 1);
                out.push((a.clone(), b[..k].to_vec()));
            }
        }
        for b in dot_neighbours(a) {
            out.push((a.clone(), b.clone()));
            out.push((b, a.clone()));
        }
        for _ in 0..nrand {
            out.push((a.clone(), rng.pick(dom).clone()));
        }
    }
    out
}

pub fn fam_pairs(op: &str, win: bool, pairs: &[(Vec<u8>, Vec<u8>)], out: &mut Vec<String>) {
    for (a, b) in pairs {
        out.push(format!("{} {} {} {}", op, e(win), hex(a), hex(b)));
    }
}

pub fn fam_cross(op: &str, win: bool, xs: &[Vec<u8>], ys: &[Vec<u8>], out: &mut Vec<String>) {
    fam_cross_t("thorough", op, win, xs, ys, out)
}

/// the cross product, thinned in the quick tier (`cross_keep`)
pub fn fam_cross_t(tier: &str, op: &str, win: bool, xs: &[Vec<u8>], ys: &[Vec<u8>], out: &mut Vec<String>) {
    let keep = cross_keep(tier, xs.len(), ys.len(), 300, 150);
    for (i, a) in xs.iter().enumerate() {
        for (j, b) in ys.iter().enumerate() {
            if keep(i, j) {
                out.push(format!("{} {} {} {}", op, e(win), hex(a), hex(b)));
            }
        }
    }
}

/// well-formed bases for joins
pub fn bases(win: bool, tier: &str, seed: u64) -> Vec<Vec<u8>> {
    let t = tier_is_thorough(tier);
    let mut v: Vec<Vec<u8>> = Vec::new();
    if win {
        let pre: &[&[u8]] = &[b"", b"C:", b"c:", br"\\?\C:", br"\\?\pics", br"\\?\UNC\s\h", br"\\.\dev", br"\\s\h", b"//s/h",
                               b"//?/C:", br"\\?\UNC\s\h\", br"\\s\h\", br"\\?\c:\"];
        let tails = strings(&[b"\\", b"/", b".", b"..", b"a", b"b.c"], if t { 4 } else { 3 });
        for p in pre {
            for tl in &tails {
                let mut x = p.to_vec();
                x.extend_from_slice(tl);
                v.push(x);
            }
        }
        for x in [&br"C:\a\b"[..], br"C:a", br"\a\b\", br"a\b/", br"a/./b", br"a\..\b", br".\a", br"\\?\C:\a\.\b", br"\\?\pics\a\..", b"/", b"\\", b"\\\\", b"//", b"a/"] {
            v.push(x.to_vec());
        }
    } else {
        v.extend(strings(&[b"/", b".", b"..", b"a", b"b.c"], if t { 5 } else { 4 }));
        for x in [&b"/a/b"[..], b"a//b/", b"./a", b"a/./b", b"/..", b"a/.."] {
            v.push(x.to_vec());
        }
    }
    let mut rng = Rng::new(seed ^ 0x61);
    for _ in 0..(if t { 300 } else { 50 }) {
        v.push(random_path(&mut rng, win));
    }
    for _ in 0..(if t { 60 } else { 12 }) {
        v.push(long_random_path(&mut rng, win));
    }
    if win {
        for sd in WIN_SEEDS {
            v.push(sd.to_vec());
            let mut x = sd.to_vec();
            x.extend_from_slice(b"\\n");
            v.push(x);
        }
        v.extend(marker_unc_seeds());
        let dp = dict_win_paths();
        let step = if t { 1 } else { 3 };
        v.extend(dp.into_iter().step_by(step));
    }
    // every byte value in the drive-letter position of a BARE `X:` base (what counts as a drive decides
    // whether a separator is inserted)
    if win {
        for b in 0..=255u8 {
            if t || !b.is_ascii_alphabetic() || b == b'C' || b == b'z' {
                v.push(vec![b, b':']);
                v.push(vec![b, b':', b'\\', b'n', b'.', b't']);
            }
        }
    }
    // every byte value in the LAST position of a base (tests of "ends in a separator" must not be
    // fooled by a byte that only resembles one), after a name and directly after a separator
    for b in 0..=255u8 {
        v.push(vec![b'd', b'/', b'a', b]);
        if t || b >= 0x80 {
            v.push(if win { vec![b'C', b':', b'\\', b] } else { vec![b'/', b] });
        }
    }
    v.extend(extras());
    dedup_keep_order(v)
}

pub fn names(tier: &str) -> Vec<Vec<u8>> {
    let mut v = strings_b(b".ab", if tier_is_thorough(tier) { 5 } else { 4 });
    for x in NAME_POOL {
        v.push(x.to_vec());
    }
    v.extend(dict_words());
    for c in low_byte_chars() {
        v.push(format!("foo{}bar", c).into_bytes());
        v.push(format!("n.{}z", c).into_bytes());
    }
    // names around every small power of two and beyond (length- and chunk-dependent code), with and
    // without a dot, with the dot at different distances from the end, with a byte >= 0x80
    for n in [7usize, 8, 9, 15, 16, 17, 31, 32, 33, 63, 64, 65, 255, 256, 257, 300] {
        let base: Vec<u8> = (0..n).map(|k| b'a' + (k % 26) as u8).collect();
        v.push(base.clone());
        for d in [1usize, 4, 8, 9, 16, 17] {
            if d < n {
                let mut x = base.clone();
                x[n - d] = b'.';
                v.push(x);
            }
        }
        let mut y = base.clone();
        y[n / 2] = 0xe9;
        v.push(y);
    }
    dedup_keep_order(v)
}

pub fn exts(tier: &str) -> Vec<Vec<u8>> {
    let mut v = strings_b(b".a", if tier_is_thorough(tier) { 4 } else { 3 });
    for x in [&b"txt"[..], b"tar.gz", b"\xc3\xa9", b"\xff", b"a b"] {
        v.push(x.to_vec());
    }
    for n in [8usize, 15, 16, 17, 33, 64, 257] {
        v.push((0..n).map(|k| b'a' + (k % 26) as u8).collect());
    }
    for c in low_byte_chars().into_iter().step_by(3) {
        v.push(format!("{}ld", c).into_bytes());
    }
    v
}

pub fn utf8_dom(tier: &str, seed: u64) -> Vec<Vec<u8>> {
    let t = tier_is_thorough(tier);
    let mut lb: Vec<Vec<u8>> = Vec::new();
    for c in low_byte_chars() {
        lb.push(format!("d/foo{}bar", c).into_bytes());
        lb.push(format!("d\\a.{}z/", c).into_bytes());
    }
    let alpha: Vec<&[u8]> = vec![b"/", b"\\", b".", b":", b"a", "é".as_bytes(), "日".as_bytes(), "😀".as_bytes(), b"?", b"C"];
    let mut v = strings(&alpha, if t { 5 } else { 4 });
    // a name followed by `..` (and by `..` and another name), for EVERY kind of name in the pool — drive-like (`C:`), with
    // forbidden bytes, dotted, multi-byte — after nothing, a root, a drive and each verbatim prefix, with either separator:
    // "which name does this `..` cancel" must be answered on the components, not on re-read text
    for name in NAME_POOL.iter().filter(|n| std::str::from_utf8(n).is_ok()) {
        for pre in [&b""[..], b"d\\", b"/", b"\\", b"C:\\", br"\\?\C:\", br"\\?\pics\", br"\\?\UNC\s\h\", b"//?/C:/"] {
            for sp in [b'\\', b'/'] {
                let mut x = pre.to_vec();
                x.extend_from_slice(name);
                x.push(sp);
                x.extend_from_slice(b"..");
                v.push(x.clone());
                x.push(sp);
                x.extend_from_slice("é".as_bytes());
                v.push(x);
            }
        }
    }
    for x in [&br"\\?\C:\a/b\..\c"[..], br"\\?\UNC\srv\shr\x/y\..", br"foo\C:\..", br"\\?\C:\d/\..\e"] {
        v.push(x.to_vec());
    }
    let tails = strings(&[b"\\", b".", "é".as_bytes(), "日".as_bytes(), b"a"], if t { 4 } else { 3 });
    let seeds: Vec<&[u8]> = vec![b"C:", "\\\\?\\é".as_bytes(), "\\\\?\\UNC\\日\\😀".as_bytes(), "\\\\.\\é".as_bytes(), "\\\\é\\日".as_bytes(), "//é/日".as_bytes()];
    for s in &seeds {
        for tl in &tails {
            let mut x = s.to_vec();
            x.extend_from_slice(tl);
            v.push(x);
        }
    }
    let mut rng = Rng::new(seed ^ 0x71);
    let pool: Vec<&[u8]> = vec![b".", b"..", b"a", "é.é".as_bytes(), "日.txt".as_bytes(), ".😀".as_bytes(), "a.é".as_bytes(), "é.".as_bytes(), "aé".as_bytes()];
    for _ in 0..(if t { 5000 } else { 500 }) {
        let win = rng.chance(1, 2);
        let mut x: Vec<u8> = Vec::new();
        if rng.chance(1, 3) {
            x.extend_from_slice(*rng.pick(&seeds[..]));
        }
        if rng.chance(1, 2) {
            x.push(if win { b'\\' } else { b'/' });
        }
        let n = rng.below(5);
        for i in 0..n {
            x.extend_from_slice(*rng.pick(&pool[..]));
            if i + 1 < n || rng.chance(1, 3) {
                x.push(if win && rng.chance(2, 3) { b'\\' } else { b'/' });
                if rng.chance(1, 6) {
                    x.extend_from_slice(b"./");
                }
            }
        }
        v.push(x);
    }
    v.extend(lb);
    v.extend(extras().into_iter().filter(|x| std::str::from_utf8(x).is_ok()));
    dedup_keep_order(v)
}

pub fn histories(win: bool, tier: &str, seed: u64, with_ext: bool, from_empty: bool) -> Vec<String> {
    let t = tier_is_thorough(tier);
    let mut rng = Rng::new(seed ^ 0x81);
    let starts = if win { dom_win_small(tier, seed) } else { strings_b(b"/.a", if t { 6 } else { 5 }) };
    let args = if win { dom_args(true, tier, seed) } else { strings_b(b"/.a", 3) };
    let xs = exts(tier);
    let (mut starts, mut args) = (starts, args);
    {
        let mut r2 = Rng::new(seed ^ 0x82);
        for _ in 0..(if t { 40 } else { 10 }) {
            starts.push(long_random_path(&mut r2, win));
            args.push(long_random_path(&mut r2, win));
        }
        for nm in names(tier).into_iter().filter(|x| x.len() >= 15) {
            args.push(nm);
        }
    }
    let mut out = Vec::new();
    // exhaustive for <= 2 ops over a tiny argument set
    if !win && !from_empty {
        let tiny = strings_b(b"/.a", 2);
        let small_starts = strings_b(b"/.a", 3);
        let mut ops: Vec<String> = vec!["pop".into(), "clear".into()];
        for a in &tiny {
            ops.push(format!("push:{}", hex(a)));
            ops.push(format!("setfn:{}", hex(a)));
        }
        for s in &small_starts {
            for o1 in &ops {
                for o2 in &ops {
                    out.push(format!("hist u {} {} {}", hex(s), o1, o2));
                }
            }
        }
    }
    // REVISITS: the same long argument pushed again after the buffer shrank (spare capacity, the buffer an
    // ancestor of the argument), a descendant of it, a re-spelling of it — a reuse of the old allocation or a
    // shortcut for "the argument continues the buffer" would show only here
    if !from_empty {
        let sep: u8 = if win { b'\\' } else { b'/' };
        let longs: Vec<Vec<u8>> = args.iter().filter(|a| a.len() >= 24).cloned().collect();
        let few_starts: Vec<Vec<u8>> = starts.iter().step_by((starts.len() / 4).max(1)).take(4).cloned().collect();
        for x in &longs {
            let mut child = x.clone();
            child.push(sep);
            child.push(b'z');
            let mut respelt = x.clone();
            if let Some(i) = x.iter().rposition(|b| *b == sep) {
                respelt.insert(i, sep);
            }
            let mut rooted = vec![sep];
            rooted.extend_from_slice(x);
            for x in [x.clone(), rooted] {
                for st in &few_starts {
                    let hx = hex(&x);
                    out.push(format!("hist {} {} push:{} pop push:{}", e(win), hex(st), hx, hx));
                    out.push(format!("hist {} {} push:{} pop pop push:{}", e(win), hex(st), hx, hx));
                    out.push(format!("hist {} {} push:{} pop push:{}", e(win), hex(st), hx, hex(&child)));
                    out.push(format!("hist {} {} push:{} pop push:{}", e(win), hex(st), hex(&child), hx));
                    out.push(format!("hist {} {} push:{} pop push:{}", e(win), hex(st), hx, hex(&respelt)));
                    out.push(format!("hist {} {} push:{} setfn:{} push:{}", e(win), hex(st), hx, hex(b"n"), hx));
                    out.push(format!("hist {} {} push:{} clear push:{}", e(win), hex(st), hx, hx));
                }
            }
        }
    }
    let n = if t { 200_000 } else { 15_000 };
    let maxops = if t { 12 } else { 6 };
    for _ in 0..n {
        let start = if from_empty { Vec::new() } else { rng.pick(&starts).clone() };
        let k = 1 + rng.below(maxops);
        let mut line = format!("hist {} {}", e(win), hex(&start));
        for _ in 0..k {
            let a = rng.pick(&args);
            let r = rng.below(if from_empty { 1 } else if with_ext { 12 } else { 10 });
            match r {
                0..=4 => line.push_str(&format!(" push:{}", hex(a))),
                5 | 6 => line.push_str(" pop"),
                7 | 8 => line.push_str(&format!(" setfn:{}", hex(a))),
                9 => line.push_str(" clear"),
                _ => line.push_str(&format!(" setext:{}", hex(rng.pick::<Vec<u8>>(&xs[..])))),
            }
        }
        out.push(line);
    }
    out
}

pub fn long_inputs(win: bool) -> Vec<Vec<u8>> {
    let sep: u8 = if win { b'\\' } else { b'/' };
    let n = 4096;
    let mut v: Vec<Vec<u8>> = Vec::new();
    v.push(vec![sep; n]);
    v.push(vec![b'.'; n]);
    v.push(b"../".iter().cycle().take(n).cloned().collect());
    v.push(b"a/".iter().cycle().take(n).cloned().collect());
    v.push(b"./".iter().cycle().take(n).cloned().collect());
    v.push(vec![b'a'; n]);
    let mut x = vec![sep];
    x.extend(b"ab/./../".iter().cycle().take(n));
    v.push(x);
    if win {
        for s in WIN_SEEDS {
            let mut x = s.to_vec();
            x.extend(b"\\a/b\\.\\..".iter().cycle().take(600));
            v.push(x);
        }
    }
    v
}

/// `.`/`..`/name mixes at the component level (all short ones, long random ones)
pub fn norm_extra(win: bool, tier: &str, seed: u64) -> Vec<Vec<u8>> {
    let t = tier_is_thorough(tier);
    let mut v: Vec<Vec<u8>> = Vec::new();
    let sep: &[u8] = if win { b"\\" } else { b"/" };
    let toks: Vec<&[u8]> = vec![sep, b"..", b".", b"a"];
    let bodies = strings(&toks, if t { 7 } else { 6 });
    let pre: Vec<&[u8]> = if win { vec![b"", b"C:", br"\\s\h", br"\\?\C:", br"\\?\pics", br"\\.\dev", br"\\?\UNC\s\h"] } else { vec![b""] };
    for p in &pre {
        for b in &bodies {
            let mut x = p.to_vec();
            x.extend_from_slice(b);
            v.push(x);
        }
    }
    let mut rng = Rng::new(seed ^ 0x91);
    for _ in 0..(if t { 2000 } else { 200 }) {
        let mut x: Vec<u8> = if win { rng.pick::<&[u8]>(WIN_SEEDS).to_vec() } else { Vec::new() };
        if rng.chance(1, 2) {
            x.push(if win { b'\\' } else { b'/' });
        }
        let ncomp = rng.below(if t { 200 } else { 40 });
        for _ in 0..ncomp {
            x.extend_from_slice(*rng.pick::<&[u8]>(&[&b"."[..], b"..", b"..", b"a", b"bc", b"d.e"]));
            x.push(if win { *rng.pick(b"\\\\/") } else { b'/' });
        }
        v.push(x);
    }
    dedup_keep_order(v)
}

pub fn gen(prop: &str, tier: &str, seed: u64) -> Vec<String> {
    let t = tier_is_thorough(tier);
    let mut out: Vec<String> = Vec::new();
    let all_upto = if t { 8 } else { 6 };
    match prop {
        "C01" => {
            let d = dom_unix(tier, seed);
            fam_unary("comps", false, &d, &mut out);
            fam_mix(false, &d, all_upto, 6, seed, &mut out);
            // Spec/StdSpec.lean against real std::path
            for s in &d {
                out.push(format!("stdcomps {}", hex(s)));
            }
        }
        "C02" => {
            let d = dom_win(tier, seed);
            fam_unary("comps", true, &d, &mut out);
            fam_wq(&d, &mut out);
        }
        "C03" => {
            let du = dom_unix(tier, seed);
            let dw = dom_win(tier, seed);
            fam_unary("back", false, &du, &mut out);
            fam_unary("back", true, &dw, &mut out);
            fam_mix(false, &du, 5, 4, seed, &mut out);
            fam_mix(true, &dw, 5, 4, seed, &mut out);
        }
        "C04" | "C17" => {
            for win in [false, true] {
                let b = bases(win, tier, seed);
                let a = dom_args(win, tier, seed);
                fam_cross_t(tier, "pushc", win, &b, &a, &mut out);
            }
            if prop == "C17" {
                for win in [false, true] {
                    let mut d: Vec<Vec<u8>> = Vec::new();
                    let pre: &[&[u8]] = if win { &[b"", b"C:\\", br"\\?\C:\", br"\\?\pics\", b"d\\"] } else { &[b"", b"/", b"d/"] };
                    for p in pre {
                        for x in 0..=255u8 {
                            for shape in 0..3 {
                                let mut v = p.to_vec();
                                match shape {
                                    0 => v.push(x),
                                    1 => v.extend_from_slice(&[b'a', x]),
                                    _ => v.extend_from_slice(&[x, b'a']),
                                }
                                d.push(v);
                            }
                        }
                    }
                    d.extend(if win { dom_win_small(tier, seed) } else { dom_unix_small(tier, seed) });
                    fam_unary("valid", win, &d, &mut out);
                }
            }
        }
        "C05" => {
            for win in [false, true] {
                let d = c05_small(win, tier, seed);
                let p = pairs_related(&d, win, if t { 40 } else { 8 }, seed);
                fam_pairs("rel", win, &p, &mut out);
                let big = if win { dom_win(tier, seed) } else { dom_unix(tier, seed) };
                fam_unary("hash", win, &big, &mut out);
                fam_unary("hashspec", win, &big, &mut out);
            }
        }
        "C06" => {
            let d = dom_unix(tier, seed);
            fam_unary("parent", false, &d, &mut out);
            fam_unary("anc", false, &d, &mut out);
            fam_unary("fname", false, &d, &mut out);
            let s = dom_unix_small(tier, seed);
            fam_pairs("strip", false, &pairs_prefixy(&s, false, if t { 30 } else { 6 }, seed), &mut out);
            fam_pairs("rel", false, &pairs_related(&s, false, if t { 20 } else { 4 }, seed), &mut out);
        }
        "C07" => {
            let h = histories(false, tier, seed, true, false);
            // Spec/StdBuf.lean against a real std::path::PathBuf, on the same histories
            let std_lines: Vec<String> = h.iter().map(|l| l.replacen("hist u ", "stdhist ", 1)).collect();
            out.extend(h);
            out.extend(std_lines);
        }
        "C08" => {
            let b = bases(true, tier, seed);
            let a = dom_args(true, tier, seed);
            fam_cross_t(tier, "push", true, &b, &a, &mut out);
            out.extend(histories(true, tier, seed, false, true));
        }
        "C09" => {
            for win in [false, true] {
                let d = if win { dom_win(tier, seed) } else { dom_unix(tier, seed) };
                fam_unary("parent", win, &d, &mut out);
                fam_unary("pop", win, &d, &mut out);
                fam_unary("anc", win, &d, &mut out);
            }
        }
        "C10" => {
            for win in [false, true] {
                let s = if win { dom_win_small(tier, seed) } else { dom_unix_small(tier, seed) };
                fam_pairs("strip", win, &pairs_prefixy(&s, win, if t { 30 } else { 6 }, seed), &mut out);
                let b = bases(win, tier, seed);
                let a = dom_args(win, tier, seed);
                let a2: Vec<Vec<u8>> = a.iter().take(if t { 400 } else { 60 }).cloned().collect();
                fam_cross("push", win, &b, &a2, &mut out);
            }
        }
        "C11" => {
            for win in [false, true] {
                let d = if win { dom_win(tier, seed) } else { dom_unix(tier, seed) };
                fam_unary("norm", win, &d, &mut out);
                fam_unary("norm", win, &norm_extra(win, tier, seed), &mut out);
                // absolutize against the real current directory (carried in the op line for the model)
                #[cfg(all(feature = "std", unix))]
                {
                    use std::os::unix::ffi::OsStrExt;
                    if let Ok(cwd) = std::env::current_dir() {
                        let c = hex(cwd.as_os_str().as_bytes());
                        for s in d.iter().step_by(if t { 1 } else { 3 }) {
                            out.push(format!("abs {} {} {}", e(win), c, hex(s)));
                        }
                    }
                }
            }
        }
        "C12" => {
            for win in [false, true] {
                let d = if win { dom_win(tier, seed) } else { dom_unix(tier, seed) };
                fam_unary("fname", win, &d, &mut out);
                let b = bases(win, tier, seed);
                let n = names(tier);
                fam_cross_t(tier, "setfn", win, &b, &n, &mut out);
                // names as single-component paths: stem/extension split
                let mut nm: Vec<Vec<u8>> = strings_b(b".ab", if t { 7 } else { 6 });
                nm.extend(strings_b(b".a\xc3\xa9", 4));
                fam_unary("fname", win, &nm, &mut out);
            }
        }
        "C13" => {
            for win in [false, true] {
                let d: Vec<Vec<u8>> = if win {
                    let mut v = dom_win_small(tier, seed);
                    v.extend(strings_b(b"\\.a", if t { 6 } else { 5 }));
                    v
                } else {
                    strings_b(b"/.a", if t { 7 } else { 6 })
                };
                let x = exts(tier);
                fam_cross("setext", win, &dedup_keep_order(d), &x, &mut out);
                let u8d = utf8_dom(tier, seed);
                let x2: Vec<Vec<u8>> = vec![b"".to_vec(), b"x".to_vec(), "é".as_bytes().to_vec()];
                fam_cross("setext", win, &u8d, &x2, &mut out);
            }
            // histories on ONE buffer (capacity, earlier truncations and pushes carry over), both encodings
            out.extend(histories(false, tier, seed ^ 5, true, false).into_iter().take(if t { 50_000 } else { 5_000 }));
            out.extend(histories(true, tier, seed ^ 6, true, false).into_iter().take(if t { 50_000 } else { 5_000 }));
            // repeated set_extension on the same buffer, growing and shrinking
            for win in [false, true] {
                let starts: Vec<&[u8]> = if win { vec![b"foo.txt", br"C:\a\b.tar.gz", br"a\.hidden", b"x"] } else { vec![b"foo.txt", b"/a/b.tar.gz", b"a/.hidden", b"x", b"a.rs/"] };
                let xs = exts(tier);
                for s in &starts {
                    for x1 in &xs {
                        for x2 in xs.iter().step_by(3) {
                            out.push(format!("hist {} {} setext:{} setext:{} setext:{}", e(win), hex(s), hex(x1), hex(x2), hex(x1)));
                            out.push(format!("hist {} {} push:{} setext:{} setext:{}", e(win), hex(b""), hex(s), hex(x2), hex(x1)));
                        }
                    }
                }
            }
        }
        "C14" => {
            let d = utf8_dom(tier, seed);
            for win in [false, true] {
                fam_unary("comps", win, &d, &mut out);
                fam_unary("back", win, &d, &mut out);
                fam_unary("parent", win, &d, &mut out);
                fam_unary("fname", win, &d, &mut out);
                fam_unary("norm", win, &d, &mut out);
                fam_unary("pop", win, &d, &mut out);
                fam_unary("valid", win, &d, &mut out);
                // the two algorithms the UTF-8 family does not delegate (dot split and validity over CHARACTERS)
                // against their character-level model (Spec/Chars.lean)
                fam_unary("u8dot", win, &d, &mut out);
                fam_unary("u8valid", win, &d, &mut out);
                let mut nm: Vec<Vec<u8>> = strings(&[b".", b"a", "é".as_bytes(), "\u{12e}".as_bytes(), "😀".as_bytes()], if t { 6 } else { 5 });
                for c in low_byte_chars() {
                    nm.push(format!("a{}b", c).into_bytes());
                    nm.push(format!("{}.{}", c, c).into_bytes());
                    nm.push(format!("d{}x.{}", if win { '\\' } else { '/' }, c).into_bytes());
                }
                fam_unary("u8dot", win, &nm, &mut out);
                fam_unary("u8valid", win, &nm, &mut out);
                let only_utf8 = |v: Vec<Vec<u8>>| -> Vec<Vec<u8>> { v.into_iter().filter(|x| std::str::from_utf8(x).is_ok()).collect() };
                let pd = only_utf8(if win { dom_win_small(tier, seed) } else { dom_unix_small(tier, seed) });
                fam_unary("u8dot", win, &pd, &mut out);
                fam_unary("u8valid", win, &pd, &mut out);
                fam_mix(win, &d, 4, 3, seed, &mut out);
                let args: Vec<Vec<u8>> = vec![b"".to_vec(), "é".as_bytes().to_vec(), "日/😀".as_bytes().to_vec(), "..\\é".as_bytes().to_vec(), "/é".as_bytes().to_vec(), "C:é".as_bytes().to_vec(), "é.日".as_bytes().to_vec()];
                let dsmall: Vec<Vec<u8>> = d.iter().step_by(if t { 3 } else { 7 }).cloned().collect();
                fam_cross("push", win, &dsmall, &args, &mut out);
                fam_cross("pushc", win, &dsmall, &args, &mut out);
                fam_cross("setfn", win, &dsmall, &args, &mut out);
            }
            // Spec/Utf8.lean (validB) against core::str::from_utf8: every byte string over a
            // boundary alphabet (all lead / continuation class edges), and the UTF-8 domain
            for s in strings_b(b"\x00\x7f\x80\x8f\x90\x9f\xa0\xbf\xc0\xc1\xc2\xdf\xe0\xe1\xec\xed\xee\xef\xf0\xf1\xf3\xf4\xf5\xff", if t { 4 } else { 3 }) {
                out.push(format!("stdutf8 {}", hex(&s)));
            }
            for s in d.iter() {
                out.push(format!("stdutf8 {}", hex(s)));
            }
            out.push(format!("conv u w {}", hex("é/日".as_bytes())));
            for s in d.iter().step_by(3) {
                out.push(format!("conv u w {}", hex(s)));
                out.push(format!("conv w u {}", hex(s)));
            }
        }
        "C15" => {
            let mut d = dom_win(tier, seed);
            d.extend(dom_unix_small(tier, seed));
            for s in &d {
                out.push(format!("derive {}", hex(s)));
            }
            // the typed wrappers are compared with the wrapped concrete types by the oracle;
            // the concrete types themselves are tied to the model here
            let ds = dom_win_small(tier, seed);
            for win in [false, true] {
                fam_unary("comps", win, &ds, &mut out);
                fam_unary("parent", win, &ds, &mut out);
                fam_unary("fname", win, &ds, &mut out);
                fam_unary("norm", win, &ds, &mut out);
            }
        }
        "C16" => {
            let mut d = strings_b(b"\\/:.a", if t { 6 } else { 5 });
            d.extend(dom_win_small(tier, seed));
            d.extend(dom_unix_small(tier, seed));
            d.extend(strings_b(b"\\/:?*\"<>|\0a", if t { 3 } else { 2 }));
            let tails = strings_b(b"\\/:?*\"<>|\0a.", 2);
            for s in WIN_SEEDS {
                for tl in &tails {
                    let mut x = s.to_vec();
                    x.push(b'\\');
                    x.extend_from_slice(tl);
                    d.push(x);
                }
            }
            let d = dedup_keep_order(d);
            for s in &d {
                for (a, b) in [("u", "w"), ("w", "u"), ("u", "u"), ("w", "w")] {
                    out.push(format!("conv {} {} {}", a, b, hex(s)));
                }
            }
        }
        "C18" => {
            for win in [false, true] {
                let d = long_inputs(win);
                for op in ["comps", "back", "parent", "fname", "norm", "pop", "valid", "hash", "anc"] {
                    fam_unary(op, win, &d, &mut out);
                }
                let small = if win { dom_win_small(tier, seed) } else { dom_unix_small(tier, seed) };
                for op in ["comps", "back", "parent", "fname", "norm", "pop", "valid", "hash", "anc"] {
                    fam_unary(op, win, &small, &mut out);
                }
                // the full structured domain (prefix look-alikes of every length) through the parsers
                let full = if win { dom_win(tier, seed) } else { dom_unix(tier, seed) };
                for op in ["comps", "back", "parent", "norm"] {
                    fam_unary(op, win, &full, &mut out);
                }
                // ... and through the byte-level combinator transcription (checked indices, fuelled loops)
                fam_cmix(win, &full, 4, 3, seed, &mut out);
                for s in &d {
                    for m in ["ffffff", "bbbbbb", "fbfbfb", "bffbbf"] {
                        out.push(format!("cmix {} {} {}", e(win), hex(s), m));
                    }
                }
                let a: Vec<Vec<u8>> = dom_args(win, tier, seed).into_iter().take(40).collect();
                for op in ["push", "pushc", "setfn", "setext", "strip"] {
                    fam_cross(op, win, &d, &a, &mut out);
                }
                for s in &d {
                    out.push(format!("conv {} {} {}", e(win), e(!win), hex(s)));
                }
            }
        }
        "C19" => {
            // conversions are the identity on bytes in the model: the model side of this
            // property is `comps`/`rel`/`hash` of the same bytes (what clones must preserve)
            let d = strings_b(b"/a.\xc3\xa9\xff\xe2\x82", if t { 5 } else { 4 });
            for win in [false, true] {
                fam_unary("comps", win, &d, &mut out);
                fam_unary("hash", win, &d, &mut out);
            }
            // `to_str` and the lossy / Display text against Spec/Lossy.lean: every byte string over the
            // class edges of UTF-8 lead and continuation bytes (incl. separators and a dot), the UTF-8
            // domain, and the long realistic paths with raw high bytes
            for s in strings_b(b"/.a\x7f\x80\x8f\x90\x9f\xa0\xbf\xc1\xc2\xdf\xe0\xe1\xec\xed\xee\xef\xf0\xf1\xf3\xf4\xf5\xff", if t { 4 } else { 3 }) {
                out.push(format!("lossy {}", hex(&s)));
            }
            for s in d.iter() {
                out.push(format!("lossy {}", hex(s)));
            }
            for s in utf8_dom(tier, seed).iter().step_by(if t { 1 } else { 5 }) {
                out.push(format!("lossy {}", hex(s)));
            }
            for s in dom_unix_small(tier, seed).iter().chain(dom_win_small(tier, seed).iter()) {
                out.push(format!("lossy {}", hex(s)));
            }
        }
        "C20" => {
            // every method of every type family (bytes, UTF-8, typed, UTF-8 typed, platform, UTF-8
            // platform), compared between the two builds only (`tx` has no model counterpart)
            let args: Vec<&[u8]> = vec![b"", b"a", b"..\\b", b"/x", b"a.b", "é".as_bytes()];
            for win in [false, true] {
                let mut d = if win { dom_win_small("quick", seed) } else { dom_unix_small("quick", seed) };
                d.extend(utf8_dom("quick", seed).into_iter().step_by(41));
                let d = dedup_keep_order(d);
                for (i, s) in d.iter().enumerate() {
                    if !t && i % 4 != 0 {
                        continue;
                    }
                    for (j, a) in args.iter().enumerate() {
                        if !t && (i / 4 + j) % 3 != 0 && j != 0 {
                            continue;
                        }
                        for fam in ["b", "8", "t", "t8", "p", "p8"] {
                            if win && fam.starts_with('p') {
                                continue;
                            }
                            out.push(format!("tx {} {} {} {}", fam, e(win), hex(s), hex(a)));
                        }
                    }
                }
            }
            // a slice of every other property's quick domain; both builds run all of it
            for p in ["C01", "C02", "C03", "C04", "C05", "C06", "C07", "C08", "C09", "C10", "C11", "C12", "C13", "C14", "C15", "C16", "C17"] {
                // (`abs` exists with the `std` feature only)
                let v: Vec<String> = gen(p, "quick", seed).into_iter().filter(|l| !l.starts_with("abs ")).collect();
                let step = if t { 3 } else { 17 };
                out.extend(v.into_iter().step_by(step));
            }
        }
        _ => {}
    }
    out
}
