//! Oracles C14 (UTF-8 twins), C15 (typed / platform wrappers), C18 (totality), C19
//! (construction and conversion).  C14/C15 compare *transcripts*: the same list of operations
//! run through two type families must give the same bytes, outcomes and (for typed values)
//! the same variant.

use crate::gen;
use crate::ops::hash_chunks;
use crate::oracle::*;
use crate::util::*;
use typed_path::*;

pub trait ToB {
    fn tob(&self) -> Vec<u8>;
    /// Some(is_windows) for runtime-typed values
    fn variant(&self) -> Option<bool> {
        None
    }
}
impl ToB for [u8] {
    fn tob(&self) -> Vec<u8> {
        self.to_vec()
    }
}
impl ToB for str {
    fn tob(&self) -> Vec<u8> {
        // every &str handed out must be valid UTF-8 (they are built with from_utf8_unchecked)
        if std::str::from_utf8(self.as_bytes()).is_err() {
            let mut v = b"!INVALID-UTF8:".to_vec();
            v.extend_from_slice(self.as_bytes());
            v
        } else {
            self.as_bytes().to_vec()
        }
    }
}
impl ToB for String {
    fn tob(&self) -> Vec<u8> {
        self.as_str().tob()
    }
}
impl<T: for<'enc> Encoding<'enc>> ToB for Path<T> {
    fn tob(&self) -> Vec<u8> {
        self.as_bytes().to_vec()
    }
}
impl<T: for<'enc> Encoding<'enc>> ToB for PathBuf<T> {
    fn tob(&self) -> Vec<u8> {
        self.as_bytes().to_vec()
    }
}
impl<T: for<'enc> Utf8Encoding<'enc>> ToB for Utf8Path<T> {
    fn tob(&self) -> Vec<u8> {
        self.as_str().tob()
    }
}
impl<T: for<'enc> Utf8Encoding<'enc>> ToB for Utf8PathBuf<T> {
    fn tob(&self) -> Vec<u8> {
        self.as_str().tob()
    }
}
impl ToB for TypedPath<'_> {
    fn tob(&self) -> Vec<u8> {
        self.as_bytes().to_vec()
    }
    fn variant(&self) -> Option<bool> {
        Some(self.is_windows())
    }
}
impl ToB for TypedPathBuf {
    fn tob(&self) -> Vec<u8> {
        self.as_bytes().to_vec()
    }
    fn variant(&self) -> Option<bool> {
        Some(self.is_windows())
    }
}
impl ToB for Utf8TypedPath<'_> {
    fn tob(&self) -> Vec<u8> {
        self.as_str().tob()
    }
    fn variant(&self) -> Option<bool> {
        Some(self.is_windows())
    }
}
impl ToB for Utf8TypedPathBuf {
    fn tob(&self) -> Vec<u8> {
        self.as_str().tob()
    }
    fn variant(&self) -> Option<bool> {
        Some(self.is_windows())
    }
}
impl<X: ToB + ?Sized> ToB for &X {
    fn tob(&self) -> Vec<u8> {
        (**self).tob()
    }
    fn variant(&self) -> Option<bool> {
        (**self).variant()
    }
}

/// a borrowed view of an owned path, whatever the family
trait PathView {
    type V<'a> where Self: 'a;
    fn as_path_view(&self) -> Self::V<'_>;
}
impl<T: for<'enc> Encoding<'enc>> PathView for PathBuf<T> {
    type V<'a> = &'a Path<T> where Self: 'a;
    fn as_path_view(&self) -> &Path<T> {
        self.as_path()
    }
}
impl<T: for<'enc> Utf8Encoding<'enc>> PathView for Utf8PathBuf<T> {
    type V<'a> = &'a Utf8Path<T> where Self: 'a;
    fn as_path_view(&self) -> &Utf8Path<T> {
        self.as_path()
    }
}
impl PathView for TypedPathBuf {
    type V<'a> = TypedPath<'a>;
    fn as_path_view(&self) -> TypedPath<'_> {
        self.to_path()
    }
}
impl PathView for Utf8TypedPathBuf {
    type V<'a> = Utf8TypedPath<'a>;
    fn as_path_view(&self) -> Utf8TypedPath<'_> {
        self.to_path()
    }
}

/// how a family prints under a handful of format specs (width, fill, alignment, precision): the lossy
/// `display()` adapter for the byte families, the path itself for the UTF-8 families
trait FmtSpecs {
    fn fmt_specs(&self) -> String;
}
fn specs_of<D: std::fmt::Display>(d: D) -> String {
    format!("[{}] [{:.4}] [{:>12}] [{:*^9}] [{:<3}] [{:.0}] [{:+>7.2}]", d, d, d, d, d, d, d)
}
impl<T: for<'enc> Encoding<'enc>> FmtSpecs for Path<T> {
    fn fmt_specs(&self) -> String {
        specs_of(self.display())
    }
}
impl<T: for<'enc> Utf8Encoding<'enc>> FmtSpecs for Utf8Path<T> {
    fn fmt_specs(&self) -> String {
        specs_of(self)
    }
}
impl FmtSpecs for TypedPath<'_> {
    fn fmt_specs(&self) -> String {
        specs_of(self.display())
    }
}
impl FmtSpecs for Utf8TypedPath<'_> {
    fn fmt_specs(&self) -> String {
        specs_of(self)
    }
}
impl<X: FmtSpecs + ?Sized> FmtSpecs for &X {
    fn fmt_specs(&self) -> String {
        (**self).fmt_specs()
    }
}

/// state queries of a (possibly partly consumed) component / path iterator: absoluteness, root,
/// the remaining bytes, and the remainder viewed as a path through the type's own accessor
trait IterQ {
    fn iq(&self) -> String;
}
impl IterQ for UnixComponents<'_> {
    fn iq(&self) -> String {
        format!("a{}r{}:{}:{}", self.is_absolute() as u8, self.has_root() as u8, hex(self.as_bytes()), hex(self.as_path::<UnixEncoding>().as_bytes()))
    }
}
impl IterQ for WindowsComponents<'_> {
    fn iq(&self) -> String {
        format!("a{}r{}:{}:{}", self.is_absolute() as u8, self.has_root() as u8, hex(self.as_bytes()), hex(self.as_path::<WindowsEncoding>().as_bytes()))
    }
}
impl IterQ for Utf8UnixComponents<'_> {
    fn iq(&self) -> String {
        format!("a{}r{}:{}:{}", self.is_absolute() as u8, self.has_root() as u8, hex(&self.as_str().tob()), hex(&self.as_path::<Utf8UnixEncoding>().tob()))
    }
}
impl IterQ for Utf8WindowsComponents<'_> {
    fn iq(&self) -> String {
        format!("a{}r{}:{}:{}", self.is_absolute() as u8, self.has_root() as u8, hex(&self.as_str().tob()), hex(&self.as_path::<Utf8WindowsEncoding>().tob()))
    }
}
impl IterQ for TypedComponents<'_> {
    fn iq(&self) -> String {
        format!("a{}r{}:{}:{}", self.is_absolute() as u8, self.has_root() as u8, hex(self.as_bytes()), hex(self.to_path().as_bytes()))
    }
}
impl IterQ for Utf8TypedComponents<'_> {
    fn iq(&self) -> String {
        format!("a{}r{}:{}:{}", self.is_absolute() as u8, self.has_root() as u8, hex(&self.as_str().tob()), hex(&self.to_path().tob()))
    }
}
impl<'a, T: for<'enc> Encoding<'enc> + 'a> IterQ for Iter<'a, T> {
    fn iq(&self) -> String {
        format!("{}", hex(self.as_path().as_bytes()))
    }
}
impl<'a, T: for<'enc> Utf8Encoding<'enc> + 'a> IterQ for Utf8Iter<'a, T> {
    fn iq(&self) -> String {
        format!("{}", hex(&self.as_path().as_str().tob()))
    }
}
impl IterQ for TypedIter<'_> {
    fn iq(&self) -> String {
        format!("{}", hex(self.to_path().as_bytes()))
    }
}
impl IterQ for Utf8TypedIter<'_> {
    fn iq(&self) -> String {
        format!("{}", hex(&self.to_path().tob()))
    }
}
fn iq_states<I: DoubleEndedIterator + Clone + IterQ>(it: I) -> String {
    let mut v = vec![it.iq()];
    let mut a = it.clone();
    a.next();
    v.push(a.iq());
    let mut b = it.clone();
    b.next_back();
    v.push(b.iq());
    a.next_back();
    v.push(a.iq());
    a.next();
    v.push(a.iq());
    b.next_back();
    v.push(b.iq());
    v.join(",")
}

fn show<X: ToB + ?Sized>(x: &X, win: bool) -> String {
    match x.variant() {
        Some(v) if v != win => format!("!VARIANT-CHANGED:{}", hex(&x.tob())),
        _ => hex(&x.tob()),
    }
}
fn show_o<X: ToB>(x: Option<X>, win: bool) -> String {
    match x {
        Some(v) => format!("some:{}", show(&v, win)),
        None => "none".into(),
    }
}

/// read-only operations; `$p` a path value, `$a` the argument in the family's own string type
macro_rules! transcript_path {
    ($t:ident, $p:expr, $a:expr, $win:expr) => {{
        let p = $p;
        let w: bool = $win;
        $t.push(format!("self {}", show(&p, w)));
        $t.push(format!("is_absolute {}", p.is_absolute()));
        $t.push(format!("is_relative {}", p.is_relative()));
        $t.push(format!("has_root {}", p.has_root()));
        $t.push(format!("parent {}", show_o(p.parent(), w)));
        $t.push(format!("ancestors {}", p.ancestors().take(64).map(|x| show(&x, w)).collect::<Vec<_>>().join(",")));
        $t.push(format!("file_name {}", show_o(p.file_name(), w)));
        $t.push(format!("file_stem {}", show_o(p.file_stem(), w)));
        $t.push(format!("extension {}", show_o(p.extension(), w)));
        $t.push(format!("starts_with {}", p.starts_with($a)));
        $t.push(format!("ends_with {}", p.ends_with($a)));
        $t.push(format!("strip_prefix {}", show_o(p.strip_prefix($a).ok(), w)));
        $t.push(format!("normalize {}", show(&p.normalize(), w)));
        $t.push(format!("join {}", show(&p.join($a), w)));
        $t.push(format!("join_checked {}", match p.join_checked($a) { Ok(x) => show(&x, w), Err(e) => format!("err:{:?}", e) }));
        $t.push(format!("with_file_name {}", show(&p.with_file_name($a), w)));
        $t.push(format!("with_extension {}", show(&p.with_extension($a), w)));
        $t.push(format!("to_path_buf {}", show(&p.to_path_buf(), w)));
        $t.push(format!("y.display-specs {}", p.fmt_specs()));
        // what is fed to a Hasher, write by write, by the borrowed and by the owned value (a hasher that is
        // sensitive to the boundaries — Fx, ahash — sees them); compared between the two builds
        $t.push(format!("y.hash-writes {} owned {}", crate::ops::hash_chunks(&p).iter().map(|c| hex(c)).collect::<Vec<_>>().join("|"), crate::ops::hash_chunks(&p.to_path_buf()).iter().map(|c| hex(c)).collect::<Vec<_>>().join("|")));
        {
            // the component ITERATORS carry their own Eq / PartialOrd impls (not the Iterator adaptors)
            let j = p.join($a);
            let jp = j.as_path_view();
            let (ci, cj) = (p.components(), jp.components());
            $t.push(format!("iter-ord {:?} {:?} {} {}", PartialOrd::partial_cmp(&ci, &cj), PartialOrd::partial_cmp(&cj, &ci), ci == cj, ci == p.components()));
        }
        #[cfg(feature = "std")]
        {
            $t.push(format!("absolutize {}", show_o(p.absolutize().ok(), w)));
        }
    }};
}

/// mutating operations on an owned buffer
macro_rules! transcript_buf {
    ($t:ident, $b:expr, $a:expr, $win:expr) => {{
        let w: bool = $win;
        let orig = $b;
        let mut b = orig.clone();
        b.push($a);
        $t.push(format!("push {}", show(&b, w)));
        let mut b = orig.clone();
        let r = b.push_checked($a);
        $t.push(format!("push_checked {:?} {}", r, show(&b, w)));
        let mut b = orig.clone();
        let r = b.pop();
        $t.push(format!("pop {} {}", r, show(&b, w)));
        let mut b = orig.clone();
        b.set_file_name($a);
        $t.push(format!("set_file_name {}", show(&b, w)));
        let mut b = orig.clone();
        let r = b.set_extension($a);
        $t.push(format!("set_extension {} {}", r, show(&b, w)));
        let mut b = orig.clone();
        b.push($a);
        let r1 = b.pop();
        b.set_file_name($a);
        let r2 = b.set_extension($a);
        b.push($a);
        $t.push(format!("sequence {} {} {}", r1, r2, show(&b, w)));
        let mut b = orig.clone();
        b.clear();
        b.push($a);
        $t.push(format!("clear-push {}", show(&b, w)));
        // the capacity operations, step by step (every family wraps one `Vec<u8>` / `String`, so the
        // capacities are the same numbers), and the fallible ones with requests that cannot be met
        {
            let mut b = orig.clone();
            b.shrink_to_fit();
            let len0 = b.capacity();
            let mut caps: Vec<String> = Vec::new();
            macro_rules! cap {
                ($what:expr) => {
                    caps.push(format!("{}={}", $what, b.capacity() as isize - len0 as isize))
                };
            }
            let r = b.try_reserve_exact(1).is_ok();
            cap!(if r { "try_reserve_exact(1)" } else { "try_reserve_exact(1)!" });
            b.reserve_exact(5);
            cap!("reserve_exact(5)");
            let r = b.try_reserve(9).is_ok();
            cap!(if r { "try_reserve(9)" } else { "try_reserve(9)!" });
            b.reserve(70);
            cap!("reserve(70)");
            b.shrink_to(len0 + 33);
            cap!("shrink_to(+33)");
            let r = b.try_reserve_exact(40).is_ok();
            cap!(if r { "try_reserve_exact(40)" } else { "try_reserve_exact(40)!" });
            b.shrink_to_fit();
            cap!("shrink_to_fit");
            let huge = [usize::MAX, usize::MAX / 2, usize::MAX / 2 + 1, (isize::MAX as usize) - len0];
            let refused: Vec<bool> = huge.iter().flat_map(|n| [b.try_reserve(*n).is_err(), b.try_reserve_exact(*n).is_err()]).collect();
            $t.push(format!("capacity {} huge-requests-refused={:?} {}", caps.join(" "), refused, if show(&b, w) == show(&orig, w) { "unchanged".to_string() } else { show(&b, w) }));
        }
        // the read-only methods and the conversions called on the OWNED type (typed buffers have
        // their own implementations; concrete buffers reach the path's through Deref)
        let b = orig.clone();
        let n0 = $t.len();
        {
            let p = &b;
            $t.push(format!("is_absolute {}", p.is_absolute()));
            $t.push(format!("is_relative {}", p.is_relative()));
            $t.push(format!("has_root {}", p.has_root()));
            $t.push(format!("parent {}", show_o(p.parent(), w)));
            $t.push(format!("ancestors {}", p.ancestors().take(64).map(|x| show(&x, w)).collect::<Vec<_>>().join(",")));
            $t.push(format!("file_name {}", show_o(p.file_name(), w)));
            $t.push(format!("file_stem {}", show_o(p.file_stem(), w)));
            $t.push(format!("extension {}", show_o(p.extension(), w)));
            $t.push(format!("starts_with {}", p.starts_with($a)));
            $t.push(format!("ends_with {}", p.ends_with($a)));
            $t.push(format!("strip_prefix {}", show_o(p.strip_prefix($a).ok(), w)));
            $t.push(format!("normalize {}", show(&p.normalize(), w)));
            $t.push(format!("join {}", show(&p.join($a), w)));
            $t.push(format!("join_checked {}", match p.join_checked($a) { Ok(x) => show(&x, w), Err(e) => format!("err:{:?}", e) }));
            $t.push(format!("with_file_name {}", show(&p.with_file_name($a), w)));
            $t.push(format!("with_extension {}", show(&p.with_extension($a), w)));
            #[cfg(feature = "std")]
            {
                $t.push(format!("absolutize {}", show_o(p.absolutize().ok(), w)));
            }
            $t.push(format!("to-unix {} {:?}", show(&p.with_unix_encoding(), false), p.with_unix_encoding_checked().map(|x| show(&x, false))));
            $t.push(format!("to-windows {} {:?}", show(&p.with_windows_encoding(), true), p.with_windows_encoding_checked().map(|x| show(&x, true))));
        }
        for l in $t[n0..].iter_mut() {
            *l = format!("buf.{}", l);
        }
    }};
}

/// component / path iterators driven through `nth`, `nth_back`, `last`, `count`, `skip`, `size_hint`,
/// and queried when partly consumed
macro_rules! partial_iter_lines {
    ($t:ident, $p:expr) => {{
        let p = $p;
        let mut v: Vec<String> = Vec::new();
        let mut it = p.components();
        let a = it.nth(0).map(|c| hex(&c.as_ref_bytes()));
        v.push(format!("nth0={:?} rest={}", a, it.clone().map(|c| hex(&c.as_ref_bytes())).collect::<Vec<_>>().join(",")));
        let a = it.nth(1).map(|c| hex(&c.as_ref_bytes()));
        v.push(format!("nth1={:?} rest={}", a, it.clone().map(|c| hex(&c.as_ref_bytes())).collect::<Vec<_>>().join(",")));
        let a = it.nth_back(0).map(|c| hex(&c.as_ref_bytes()));
        v.push(format!("nthback0={:?} rest={}", a, it.clone().map(|c| hex(&c.as_ref_bytes())).collect::<Vec<_>>().join(",")));
        let mut it = p.components();
        let a = it.nth_back(1).map(|c| hex(&c.as_ref_bytes()));
        v.push(format!("nthback1={:?} rest={}", a, it.clone().map(|c| hex(&c.as_ref_bytes())).collect::<Vec<_>>().join(",")));
        v.push(format!("last={:?} count={} skip1={:?}", p.components().last().map(|c| hex(&c.as_ref_bytes())), p.components().count(), p.components().skip(1).next().map(|c| hex(&c.as_ref_bytes()))));
        let mut it = p.iter();
        let a = it.nth(1).map(|c| hex(&c.tob()));
        let b = it.nth_back(0).map(|c| hex(&c.tob()));
        v.push(format!("iter nth1={:?} nthback0={:?} rest={}", a, b, it.map(|c| hex(&c.tob())).collect::<Vec<_>>().join(",")));
        {
            // size_hint brackets the true count, fresh and after a step from each end
            let mut it = p.components();
            let n = it.clone().count();
            let (lo, hi) = it.size_hint();
            let mut sane = lo <= n && hi.map_or(true, |h| n <= h);
            it.next();
            it.next_back();
            let m = it.clone().count();
            let (lo, hi) = it.size_hint();
            sane = sane && lo <= m && hi.map_or(true, |h| m <= h);
            let mut i2 = p.iter();
            let k = i2.clone().count();
            let (lo, hi) = i2.size_hint();
            sane = sane && lo <= k && hi.map_or(true, |h| k <= h) && k == n;
            i2.next_back();
            let k2 = i2.clone().count();
            let (lo, hi) = i2.size_hint();
            sane = sane && lo <= k2 && hi.map_or(true, |h| k2 <= h);
            v.push(format!("size_hint-sane={}", sane));
        }
        $t.push(format!("partial-iters {}", v.join(" ; ")));
        $t.push(format!("iter-states components {} ; iter {}", iq_states(p.components()), iq_states(p.iter())));
    }};
}

/// Windows prefix / root queries on partly consumed component iterators (after `nth`, `next`, `next_back`)
fn wq_partial_bytes(s: &[u8]) -> String {
    let p = WindowsPath::new(s);
    let mut v = Vec::new();
    macro_rules! q {
        ($name:expr, $c:expr) => {{
            let c = $c;
            v.push(format!("{}:{}{}{}{}{}:{}", $name, c.has_prefix() as u8, c.has_any_verbatim_prefix() as u8, c.has_physical_root() as u8, c.has_implicit_root() as u8, c.has_root() as u8, c.prefix().map(|x| hex(x.as_bytes())).unwrap_or_default()));
            v.push(format!("kinds:{}{}{}{}{}{}:{:?}", c.has_verbatim_prefix() as u8, c.has_verbatim_unc_prefix() as u8, c.has_verbatim_disk_prefix() as u8, c.has_device_ns_prefix() as u8, c.has_unc_prefix() as u8, c.has_disk_prefix() as u8, c.prefix().map(|x| x.kind().is_verbatim())));
        }};
    }
    let mut c = p.components();
    c.nth(0);
    q!("nth0", c);
    let mut c = p.components();
    c.next();
    q!("next", c);
    let mut c = p.components();
    c.next_back();
    q!("next_back", c);
    let mut c = p.components();
    c.nth_back(0);
    c.next();
    q!("nthback0-next", c);
    format!("wq-partial {}", v.join(" "))
}
fn wq_partial_utf8(s: &str) -> String {
    let p = Utf8WindowsPath::new(s);
    let mut v = Vec::new();
    macro_rules! q {
        ($name:expr, $c:expr) => {{
            let c = $c;
            v.push(format!("{}:{}{}{}{}{}:{}", $name, c.has_prefix() as u8, c.has_any_verbatim_prefix() as u8, c.has_physical_root() as u8, c.has_implicit_root() as u8, c.has_root() as u8, c.prefix().map(|x| hex(&x.as_str().tob())).unwrap_or_default()));
            v.push(format!("kinds:{}{}{}{}{}{}:{:?}", c.has_verbatim_prefix() as u8, c.has_verbatim_unc_prefix() as u8, c.has_verbatim_disk_prefix() as u8, c.has_device_ns_prefix() as u8, c.has_unc_prefix() as u8, c.has_disk_prefix() as u8, c.prefix().map(|x| x.kind().is_verbatim())));
        }};
    }
    let mut c = p.components();
    c.nth(0);
    q!("nth0", c);
    let mut c = p.components();
    c.next();
    q!("next", c);
    let mut c = p.components();
    c.next_back();
    q!("next_back", c);
    let mut c = p.components();
    c.nth_back(0);
    c.next();
    q!("nthback0-next", c);
    format!("wq-partial {}", v.join(" "))
}

/// methods only the concrete families have (lines start with `x.`; stripped before comparing with
/// the typed families): the generic conversions, the platform conversions, the capacity operations
macro_rules! extras_bytes {
    ($t:ident, $p:expr, $buf:expr) => {{
        let p = $p;
        $t.push(format!("x.with_encoding<unix> {}", hex(p.with_encoding::<UnixEncoding>().as_bytes())));
        $t.push(format!("x.with_encoding<windows> {}", hex(p.with_encoding::<WindowsEncoding>().as_bytes())));
        $t.push(format!("x.with_encoding_checked<unix> {:?}", p.with_encoding_checked::<UnixEncoding>().map(|x| hex(x.as_bytes()))));
        $t.push(format!("x.with_encoding_checked<windows> {:?}", p.with_encoding_checked::<WindowsEncoding>().map(|x| hex(x.as_bytes()))));
        $t.push(format!("x.with_platform_encoding {} {:?}", hex(p.with_platform_encoding().as_bytes()), p.with_platform_encoding_checked().map(|x| hex(x.as_bytes()))));
        $t.push(format!("x.has_platform_encoding {}", p.has_platform_encoding()));
        let mut b = $buf;
        let before = b.as_bytes().to_vec();
        b.reserve(7);
        b.reserve_exact(3);
        let r1 = b.try_reserve(5).is_ok();
        let r2 = b.try_reserve_exact(2).is_ok();
        let cap_ok = b.capacity() >= before.len();
        b.shrink_to(1);
        b.shrink_to_fit();
        $t.push(format!("x.capacity-ops {} {} {} {}", r1, r2, cap_ok, if b.as_bytes() == before.as_slice() { "unchanged".to_string() } else { hex(b.as_bytes()) }));
    }};
}
macro_rules! extras_utf8 {
    ($t:ident, $p:expr, $buf:expr) => {{
        let p = $p;
        $t.push(format!("x.with_encoding<unix> {}", hex(&p.with_encoding::<Utf8UnixEncoding>().tob())));
        $t.push(format!("x.with_encoding<windows> {}", hex(&p.with_encoding::<Utf8WindowsEncoding>().tob())));
        $t.push(format!("x.with_encoding_checked<unix> {:?}", p.with_encoding_checked::<Utf8UnixEncoding>().map(|x| hex(&x.tob()))));
        $t.push(format!("x.with_encoding_checked<windows> {:?}", p.with_encoding_checked::<Utf8WindowsEncoding>().map(|x| hex(&x.tob()))));
        $t.push(format!("x.with_platform_encoding {} {:?}", hex(&p.with_platform_encoding().tob()), p.with_platform_encoding_checked().map(|x| hex(&x.tob()))));
        $t.push(format!("x.has_platform_encoding {}", p.has_platform_encoding()));
        let mut b = $buf;
        let before = b.as_str().as_bytes().to_vec();
        b.reserve(7);
        b.reserve_exact(3);
        let r1 = b.try_reserve(5).is_ok();
        let r2 = b.try_reserve_exact(2).is_ok();
        let cap_ok = b.capacity() >= before.len();
        b.shrink_to(1);
        b.shrink_to_fit();
        $t.push(format!("x.capacity-ops {} {} {} {}", r1, r2, cap_ok, if b.as_str().as_bytes() == before.as_slice() { "unchanged".to_string() } else { hex(b.as_str().as_bytes()) }));
    }};
}

/// a transcript without the concrete-only `x.` lines
fn no_x(v: &[String]) -> Vec<String> {
    v.iter().filter(|l| !l.starts_with("x.") && !l.starts_with("y.") && !l.starts_with("buf.y.")).cloned().collect()
}

/// a transcript without the `y.` lines (observations that legitimately differ between the byte and UTF-8
/// families, e.g. how a Formatter's width is treated; they are compared between the two BUILDS only)
fn no_y(v: Vec<String>) -> Vec<String> {
    v.into_iter().filter(|l| !l.starts_with("y.") && !l.starts_with("buf.y.")).collect()
}

fn catch(f: impl FnOnce() -> Vec<String> + std::panic::UnwindSafe) -> Vec<String> {
    match crate::util::quiet_catch(f) {
        Ok(v) => v,
        Err(_) => vec!["PANIC".into()],
    }
}

fn comp_line_u(c: &UnixComponent) -> String {
    format!("{} r{} n{} p{} c{} v{} l{} e{}", hex(c.as_bytes()), c.is_root(), c.is_normal(), c.is_parent(), c.is_current(), c.is_valid(), c.len(), c.is_empty())
}
fn comp_line_w(c: &WindowsComponent) -> String {
    format!("{} r{} n{} p{} c{} v{} l{} e{} x{} {}", hex(c.as_bytes()), c.is_root(), c.is_normal(), c.is_parent(), c.is_current(), c.is_valid(), c.len(), c.is_empty(), c.is_prefix(), c.prefix_kind().map(|k| format!("{:?}", kind_of(&k))).unwrap_or_default())
}
fn kind_of8(k: &Utf8WindowsPrefix) -> crate::spec::Kind {
    use crate::spec::Kind;
    match k {
        Utf8WindowsPrefix::Verbatim(a) => Kind::Verbatim(a.tob()),
        Utf8WindowsPrefix::VerbatimUNC(a, b) => Kind::VerbatimUNC(a.tob(), b.tob()),
        Utf8WindowsPrefix::VerbatimDisk(d) => Kind::VerbatimDisk(*d as u32 as u8),
        Utf8WindowsPrefix::DeviceNS(a) => Kind::DeviceNS(a.tob()),
        Utf8WindowsPrefix::UNC(a, b) => Kind::UNC(a.tob(), b.tob()),
        Utf8WindowsPrefix::Disk(d) => Kind::Disk(*d as u32 as u8),
    }
}
fn comp_line_u8(c: &Utf8UnixComponent) -> String {
    format!("{} r{} n{} p{} c{} v{} l{} e{}", hex(&c.as_str().tob()), c.is_root(), c.is_normal(), c.is_parent(), c.is_current(), c.is_valid(), c.len(), c.is_empty())
}
fn comp_line_w8(c: &Utf8WindowsComponent) -> String {
    format!("{} r{} n{} p{} c{} v{} l{} e{} x{} {}", hex(&c.as_str().tob()), c.is_root(), c.is_normal(), c.is_parent(), c.is_current(), c.is_valid(), c.len(), c.is_empty(), c.is_prefix(), c.prefix_kind().map(|k| format!("{:?}", kind_of8(&k))).unwrap_or_default())
}

/// alternate back / front until exhausted (then two more calls, which must stay `None`)
fn alt<I: DoubleEndedIterator>(mut it: I) -> Vec<I::Item> {
    let mut v = Vec::new();
    let mut back = true;
    loop {
        let x = if back { it.next_back() } else { it.next() };
        back = !back;
        match x {
            Some(x) => v.push(x),
            None => break,
        }
    }
    v
}

/// bytes of a component of any family
trait AsRefBytes {
    fn as_ref_bytes(&self) -> Vec<u8>;
}
impl AsRefBytes for UnixComponent<'_> {
    fn as_ref_bytes(&self) -> Vec<u8> {
        self.as_bytes().to_vec()
    }
}
impl AsRefBytes for WindowsComponent<'_> {
    fn as_ref_bytes(&self) -> Vec<u8> {
        self.as_bytes().to_vec()
    }
}
impl AsRefBytes for Utf8UnixComponent<'_> {
    fn as_ref_bytes(&self) -> Vec<u8> {
        self.as_str().as_bytes().to_vec()
    }
}
impl AsRefBytes for Utf8WindowsComponent<'_> {
    fn as_ref_bytes(&self) -> Vec<u8> {
        self.as_str().as_bytes().to_vec()
    }
}
impl AsRefBytes for TypedComponent<'_> {
    fn as_ref_bytes(&self) -> Vec<u8> {
        self.as_bytes().to_vec()
    }
}
impl AsRefBytes for Utf8TypedComponent<'_> {
    fn as_ref_bytes(&self) -> Vec<u8> {
        self.as_str().as_bytes().to_vec()
    }
}

/// a typed component printed through the TYPED component's own accessors (is_valid and the Windows
/// prefix fields do not exist on it and come from the wrapped component)
fn comp_line_t(c: &TypedComponent) -> String {
    let base = |v: bool| format!("{} r{} n{} p{} c{} v{} l{} e{}", hex(c.as_bytes()), c.is_root(), c.is_normal(), c.is_parent(), c.is_current(), v, c.len(), c.is_empty());
    match c {
        TypedComponent::Unix(x) => base(x.is_valid()),
        TypedComponent::Windows(x) => format!("{} x{} {}", base(x.is_valid()), x.is_prefix(), x.prefix_kind().map(|k| format!("{:?}", kind_of(&k))).unwrap_or_default()),
    }
}
fn comp_line_t8(c: &Utf8TypedComponent) -> String {
    let base = |v: bool| format!("{} r{} n{} p{} c{} v{} l{} e{}", hex(&c.as_str().tob()), c.is_root(), c.is_normal(), c.is_parent(), c.is_current(), v, c.len(), c.is_empty());
    match c {
        Utf8TypedComponent::Unix(x) => base(x.is_valid()),
        Utf8TypedComponent::Windows(x) => format!("{} x{} {}", base(x.is_valid()), x.is_prefix(), x.prefix_kind().map(|k| format!("{:?}", kind_of8(&k))).unwrap_or_default()),
    }
}

/// byte-family transcript of (input, arg) for encoding `win`
fn t_bytes(win: bool, s: &[u8], a: &[u8]) -> Vec<String> {
    let (s, a) = (s.to_vec(), a.to_vec());
    catch(move || {
        let mut t = Vec::new();
        if win {
            transcript_path!(t, WindowsPath::new(&s), a.as_slice(), win);
            transcript_buf!(t, WindowsPathBuf::from(s.as_slice()), a.as_slice(), win);
            let p = WindowsPath::new(&s);
            t.push(format!("components {}", p.components().map(|c| comp_line_w(&c)).collect::<Vec<_>>().join(",")));
            t.push(format!("components-rev {}", p.components().rev().map(|c| comp_line_w(&c)).collect::<Vec<_>>().join(",")));
            t.push(format!("iter {}", p.iter().map(|c| hex(c)).collect::<Vec<_>>().join(",")));
            t.push(format!("iter-rev {}", p.iter().rev().map(|c| hex(c)).collect::<Vec<_>>().join(",")));
            t.push(format!("iter-alt {}", alt(p.iter()).into_iter().map(|c| hex(c)).collect::<Vec<_>>().join(",")));
            t.push(format!("components-alt {}", alt(p.components()).into_iter().map(|c| hex(&c.as_ref_bytes())).collect::<Vec<_>>().join(",")));
            partial_iter_lines!(t, p);
            t.push(format!("to-unix {} {:?}", hex(p.with_unix_encoding().as_bytes()), p.with_unix_encoding_checked().map(|x| hex(x.as_bytes()))));
            t.push(format!("to-windows {} {:?}", hex(p.with_windows_encoding().as_bytes()), p.with_windows_encoding_checked().map(|x| hex(x.as_bytes()))));
            let c = p.components();
            t.push(format!("wq {} {} {} {} {}", c.has_prefix(), c.has_any_verbatim_prefix(), c.has_physical_root(), c.has_implicit_root(), c.prefix().map(|x| hex(x.as_bytes())).unwrap_or_default()));
            t.push(format!("wq-kinds {}{}{}{}{}{} {:?}", c.has_verbatim_prefix() as u8, c.has_verbatim_unc_prefix() as u8, c.has_verbatim_disk_prefix() as u8, c.has_device_ns_prefix() as u8, c.has_unc_prefix() as u8, c.has_disk_prefix() as u8, c.prefix().map(|x| x.kind().is_verbatim())));
            t.push(wq_partial_bytes(&s));
            extras_bytes!(t, p, WindowsPathBuf::from(s.as_slice()));
            t.push(format!("x.with_capacity {}", { let mut b = WindowsPathBuf::with_capacity(9); b.push(p); hex(b.as_bytes()) }));
            {
                // the mixed-type comparisons with the raw argument on either side (impl_cmp_bytes!)
                let raw: &[u8] = a.as_slice();
                let owned: Vec<u8> = raw.to_vec();
                let pb = p.to_path_buf();
                t.push(format!("x.cmp-raw {:?} {:?} {:?} {:?} {:?} {:?} {} {} {} {}",
                    PartialOrd::partial_cmp(p, raw), PartialOrd::partial_cmp(raw, p), PartialOrd::partial_cmp(&pb, raw), PartialOrd::partial_cmp(raw, &pb),
                    PartialOrd::partial_cmp(&pb, &owned), PartialOrd::partial_cmp(&owned, &pb), *p == *raw, *raw == *p, pb == owned, owned == pb));
            }
            t.push(format!("x.try_from comp={:?} prefix={:?} prefix-comp={:?}",
                WindowsComponent::try_from(s.as_slice()).ok().map(|c| comp_line_w(&c)),
                WindowsPrefix::try_from(s.as_slice()).ok().map(|k| format!("{:?}", kind_of(&k))),
                typed_path::WindowsPrefixComponent::try_from(s.as_slice()).ok().map(|x| (format!("{:?}", kind_of(&x.kind())), hex(x.as_bytes())))));
        } else {
            transcript_path!(t, UnixPath::new(&s), a.as_slice(), win);
            transcript_buf!(t, UnixPathBuf::from(s.as_slice()), a.as_slice(), win);
            let p = UnixPath::new(&s);
            t.push(format!("components {}", p.components().map(|c| comp_line_u(&c)).collect::<Vec<_>>().join(",")));
            t.push(format!("components-rev {}", p.components().rev().map(|c| comp_line_u(&c)).collect::<Vec<_>>().join(",")));
            t.push(format!("iter {}", p.iter().map(|c| hex(c)).collect::<Vec<_>>().join(",")));
            t.push(format!("iter-rev {}", p.iter().rev().map(|c| hex(c)).collect::<Vec<_>>().join(",")));
            t.push(format!("iter-alt {}", alt(p.iter()).into_iter().map(|c| hex(c)).collect::<Vec<_>>().join(",")));
            t.push(format!("components-alt {}", alt(p.components()).into_iter().map(|c| hex(&c.as_ref_bytes())).collect::<Vec<_>>().join(",")));
            partial_iter_lines!(t, p);
            t.push(format!("to-unix {} {:?}", hex(p.with_unix_encoding().as_bytes()), p.with_unix_encoding_checked().map(|x| hex(x.as_bytes()))));
            t.push(format!("to-windows {} {:?}", hex(p.with_windows_encoding().as_bytes()), p.with_windows_encoding_checked().map(|x| hex(x.as_bytes()))));
            extras_bytes!(t, p, UnixPathBuf::from(s.as_slice()));
            t.push(format!("x.with_capacity {}", { let mut b = UnixPathBuf::with_capacity(9); b.push(p); hex(b.as_bytes()) }));
            {
                // the mixed-type comparisons with the raw argument on either side (impl_cmp_bytes!)
                let raw: &[u8] = a.as_slice();
                let owned: Vec<u8> = raw.to_vec();
                let pb = p.to_path_buf();
                t.push(format!("x.cmp-raw {:?} {:?} {:?} {:?} {:?} {:?} {} {} {} {}",
                    PartialOrd::partial_cmp(p, raw), PartialOrd::partial_cmp(raw, p), PartialOrd::partial_cmp(&pb, raw), PartialOrd::partial_cmp(raw, &pb),
                    PartialOrd::partial_cmp(&pb, &owned), PartialOrd::partial_cmp(&owned, &pb), *p == *raw, *raw == *p, pb == owned, owned == pb));
            }
            t.push(format!("x.try_from comp={:?}", UnixComponent::try_from(s.as_slice()).ok().map(|c| comp_line_u(&c))));
        }
        t
    })
}

fn t_utf8(win: bool, s: &str, a: &str) -> Vec<String> {
    let (s, a) = (s.to_string(), a.to_string());
    catch(move || {
        let mut t = Vec::new();
        if win {
            transcript_path!(t, Utf8WindowsPath::new(&s), a.as_str(), win);
            transcript_buf!(t, Utf8WindowsPathBuf::from(s.as_str()), a.as_str(), win);
            let p = Utf8WindowsPath::new(&s);
            t.push(format!("components {}", p.components().map(|c| comp_line_w8(&c)).collect::<Vec<_>>().join(",")));
            t.push(format!("components-rev {}", p.components().rev().map(|c| comp_line_w8(&c)).collect::<Vec<_>>().join(",")));
            t.push(format!("iter {}", p.iter().map(|c| hex(&c.tob())).collect::<Vec<_>>().join(",")));
            t.push(format!("iter-rev {}", p.iter().rev().map(|c| hex(&c.tob())).collect::<Vec<_>>().join(",")));
            t.push(format!("iter-alt {}", alt(p.iter()).into_iter().map(|c| hex(&c.tob())).collect::<Vec<_>>().join(",")));
            t.push(format!("components-alt {}", alt(p.components()).into_iter().map(|c| hex(&c.as_ref_bytes())).collect::<Vec<_>>().join(",")));
            partial_iter_lines!(t, p);
            t.push(format!("to-unix {} {:?}", hex(&p.with_unix_encoding().tob()), p.with_unix_encoding_checked().map(|x| hex(&x.tob()))));
            t.push(format!("to-windows {} {:?}", hex(&p.with_windows_encoding().tob()), p.with_windows_encoding_checked().map(|x| hex(&x.tob()))));
            let c = p.components();
            t.push(format!("wq {} {} {} {} {}", c.has_prefix(), c.has_any_verbatim_prefix(), c.has_physical_root(), c.has_implicit_root(), c.prefix().map(|x| hex(&x.as_str().tob())).unwrap_or_default()));
            t.push(format!("wq-kinds {}{}{}{}{}{} {:?}", c.has_verbatim_prefix() as u8, c.has_verbatim_unc_prefix() as u8, c.has_verbatim_disk_prefix() as u8, c.has_device_ns_prefix() as u8, c.has_unc_prefix() as u8, c.has_disk_prefix() as u8, c.prefix().map(|x| x.kind().is_verbatim())));
            t.push(wq_partial_utf8(&s));
            extras_utf8!(t, p, Utf8WindowsPathBuf::from(s.as_str()));
            t.push(format!("x.with_capacity {}", { let mut b = Utf8WindowsPathBuf::with_capacity(9); b.push(p); hex(b.as_str().as_bytes()) }));
            {
                let raw: &str = a.as_str();
                let owned: String = raw.to_string();
                let pb = p.to_path_buf();
                t.push(format!("x.cmp-raw {:?} {:?} {:?} {:?} {:?} {:?} {} {} {} {}",
                    PartialOrd::partial_cmp(p, raw), PartialOrd::partial_cmp(raw, p), PartialOrd::partial_cmp(&pb, raw), PartialOrd::partial_cmp(raw, &pb),
                    PartialOrd::partial_cmp(&pb, &owned), PartialOrd::partial_cmp(&owned, &pb), *p == *raw, *raw == *p, pb == owned, owned == pb));
            }
            t.push(format!("x.try_from comp={:?} prefix={:?} prefix-comp={:?}",
                Utf8WindowsComponent::try_from(s.as_str()).ok().map(|c| comp_line_w8(&c)),
                Utf8WindowsPrefix::try_from(s.as_str()).ok().map(|k| format!("{:?}", kind_of8(&k))),
                typed_path::Utf8WindowsPrefixComponent::try_from(s.as_str()).ok().map(|x| (format!("{:?}", kind_of8(&x.kind())), hex(x.as_str().as_bytes())))));
        } else {
            transcript_path!(t, Utf8UnixPath::new(&s), a.as_str(), win);
            transcript_buf!(t, Utf8UnixPathBuf::from(s.as_str()), a.as_str(), win);
            let p = Utf8UnixPath::new(&s);
            t.push(format!("components {}", p.components().map(|c| comp_line_u8(&c)).collect::<Vec<_>>().join(",")));
            t.push(format!("components-rev {}", p.components().rev().map(|c| comp_line_u8(&c)).collect::<Vec<_>>().join(",")));
            t.push(format!("iter {}", p.iter().map(|c| hex(&c.tob())).collect::<Vec<_>>().join(",")));
            t.push(format!("iter-rev {}", p.iter().rev().map(|c| hex(&c.tob())).collect::<Vec<_>>().join(",")));
            t.push(format!("iter-alt {}", alt(p.iter()).into_iter().map(|c| hex(&c.tob())).collect::<Vec<_>>().join(",")));
            t.push(format!("components-alt {}", alt(p.components()).into_iter().map(|c| hex(&c.as_ref_bytes())).collect::<Vec<_>>().join(",")));
            partial_iter_lines!(t, p);
            t.push(format!("to-unix {} {:?}", hex(&p.with_unix_encoding().tob()), p.with_unix_encoding_checked().map(|x| hex(&x.tob()))));
            t.push(format!("to-windows {} {:?}", hex(&p.with_windows_encoding().tob()), p.with_windows_encoding_checked().map(|x| hex(&x.tob()))));
            extras_utf8!(t, p, Utf8UnixPathBuf::from(s.as_str()));
            t.push(format!("x.with_capacity {}", { let mut b = Utf8UnixPathBuf::with_capacity(9); b.push(p); hex(b.as_str().as_bytes()) }));
            {
                let raw: &str = a.as_str();
                let owned: String = raw.to_string();
                let pb = p.to_path_buf();
                t.push(format!("x.cmp-raw {:?} {:?} {:?} {:?} {:?} {:?} {} {} {} {}",
                    PartialOrd::partial_cmp(p, raw), PartialOrd::partial_cmp(raw, p), PartialOrd::partial_cmp(&pb, raw), PartialOrd::partial_cmp(raw, &pb),
                    PartialOrd::partial_cmp(&pb, &owned), PartialOrd::partial_cmp(&owned, &pb), *p == *raw, *raw == *p, pb == owned, owned == pb));
            }
            t.push(format!("x.try_from comp={:?}", Utf8UnixComponent::try_from(s.as_str()).ok().map(|c| comp_line_u8(&c))));
        }
        t
    })
}

fn first_diff(a: &[String], b: &[String]) -> String {
    for (x, y) in a.iter().zip(b.iter()) {
        if x != y {
            return format!("byte family: `{}`; other family: `{}`", x, y);
        }
    }
    format!("lengths {} vs {}", a.len(), b.len())
}

/// Every property is stated for the byte, UTF-8 and runtime-typed families alike ("in every encoding", "every Unix path
/// buffer"): after a property's own oracle, the transcript LINES that belong to that property's operations are compared
/// between the four families (bytes, UTF-8, typed, UTF-8 typed), borrowed and owned, on a slice of the property's own
/// domains.  A copy of an operation that stops agreeing with the byte family is then reported by the check of the property
/// the operation belongs to (not only by C14 / C15, which compare every line).
pub fn families_agree(ctx: &mut Ctx, prop: &str, tier: &str, seed: u64) {
    let labels: &[&str] = match prop {
        "C01" => &["components", "components-rev", "components-alt", "iter", "iter-rev", "iter-alt", "has_root", "is_absolute", "is_relative", "partial-iters", "iter-states"],
        "C02" => &["components", "components-rev", "components-alt", "wq", "wq-kinds", "wq-partial", "has_root", "is_absolute", "is_relative"],
        "C03" => &["components", "components-rev", "components-alt", "iter", "iter-rev", "iter-alt", "partial-iters", "iter-states"],
        "C04" => &["push_checked", "join_checked"],
        "C06" => &["parent", "ancestors", "file_name", "file_stem", "extension", "starts_with", "ends_with", "strip_prefix", "iter-ord"],
        "C07" => &["push", "pop", "set_file_name", "join", "with_file_name", "clear-push", "sequence"],
        "C08" => &["push", "join", "clear-push", "sequence"],
        "C09" => &["parent", "ancestors", "pop"],
        "C10" => &["starts_with", "ends_with", "strip_prefix", "join"],
        "C11" => &["normalize"],
        "C12" => &["file_name", "file_stem", "extension", "set_file_name", "with_file_name"],
        "C13" => &["set_extension", "with_extension"],
        "C16" => &["to-unix", "to-windows"],
        _ => return,
    };
    let (unix_ok, win_ok) = (!matches!(prop, "C02" | "C08"), !matches!(prop, "C01" | "C06" | "C07"));
    let t = tier_is_thorough(tier);
    let keep = |v: Vec<String>| -> Vec<String> {
        no_x(&no_y(v)).into_iter().filter(|l| {
            let k = l.split(' ').next().unwrap_or("");
            let k = k.strip_prefix("buf.").unwrap_or(k);
            labels.contains(&k) || l == "PANIC"
        }).collect()
    };
    let args: Vec<&str> = vec!["", "a", "..", "b.c", "/x", "\u{e9}", "..\\\u{e9}", "C:d"];
    for win in [false, true] {
        if (win && !win_ok) || (!win && !unix_ok) {
            continue;
        }
        let mut dom: Vec<Vec<u8>> = if win { dom_win_small(tier, seed) } else { dom_unix_small(tier, seed) };
        dom.extend(gen::utf8_dom(tier, seed).into_iter().step_by(if t { 11 } else { 9 }));
        let dom: Vec<Vec<u8>> = dedup_keep_order(dom).into_iter().filter(|x| std::str::from_utf8(x).is_ok() && x.len() <= 300).collect();
        let step = if t { 1 } else { (dom.len() / 1500).max(1) };
        for (i, s) in dom.iter().enumerate().step_by(step) {
            let st = std::str::from_utf8(s).unwrap();
            for (j, a) in args.iter().enumerate() {
                if !t && (i / step + j) % 4 != 0 {
                    continue;
                }
                crate::util::at(format!("comps {} {}", gen::e(win), hex(s)));
                ctx.evals += 1;
                let tb = keep(t_bytes(win, s, a.as_bytes()));
                for (who, other) in [("UTF-8", keep(t_utf8(win, st, a))), ("typed", keep(t_typed(win, s, a.as_bytes()))), ("UTF-8 typed", keep(t_typed8(win, st, a)))] {
                    if other != tb {
                        ctx.fail("families-agree", None, format!("comps {} {}", gen::e(win), hex(s)), format!("{} family, arg \"{}\": {}", who, a, first_diff(&tb, &other)));
                        break;
                    }
                }
            }
        }
    }
}

pub fn c14(ctx: &mut Ctx, tier: &str, seed: u64) {
    let t = tier_is_thorough(tier);
    let dom = gen::utf8_dom(tier, seed);
    let args: Vec<&str> = vec!["", "é", "日/😀", "..\\é", "/é", "C:é", "é.日", "a", ".", "x.😀"];
    for s in &dom {
        crate::util::at(format!("comps w {}", hex(s)));
        let st = std::str::from_utf8(s).unwrap();
        let multibyte = s.iter().any(|b| *b >= 0x80);
        for win in [false, true] {
            let e = gen::e(win);
            for (i, a) in args.iter().enumerate() {
                if !t && i >= 4 && (s.len() + i) % 3 != 0 {
                    continue;
                }
                let tb = no_y(t_bytes(win, s, a.as_bytes()));
                let tu = no_y(t_utf8(win, st, a));
                ctx.case(multibyte && comps(win, s).len() >= 2, (win, s, i));
                ctx.tally(&format!("{}:{}", e, if multibyte { "multibyte" } else { "ascii" }));
                if tb != tu || tu.iter().any(|l| l.contains("!INVALID") || l == "PANIC" || l.contains("size_hint-sane=false")) {
                    let d = if tu.iter().any(|l| l == "PANIC") { "UTF-8 family panicked".to_string() } else { first_diff(&tb, &tu) };
                    // replay: the model-side op closest to the first differing operation
                    let opname = d.split('`').nth(1).unwrap_or("").split(' ').next().unwrap_or("").to_string();
                    let rp = match opname.as_str() {
                        "set_extension" => format!("setext {} {} {}", e, hex(s), hex(a.as_bytes())),
                        "push" | "join" => format!("push {} {} {}", e, hex(s), hex(a.as_bytes())),
                        "pop" | "parent" => format!("pop {} {}", e, hex(s)),
                        "set_file_name" | "with_file_name" => format!("setfn {} {} {}", e, hex(s), hex(a.as_bytes())),
                        _ => format!("comps {} {}", e, hex(s)),
                    };
                    ctx.fail("utf8-twin-transcript", None, rp, format!("arg \"{}\": {}", a, d));
                }
            }
        }
    }
    // the same comparison where the ENVIRONMENT matters (`absolutize` reads the current directory): inside
    // directories whose names re-encode to a Windows prefix, contain a space or a non-ASCII letter
    #[cfg(feature = "std")]
    {
        use std::os::unix::ffi::OsStrExt;
        let old = std::env::current_dir().expect("cwd");
        let base = std::env::temp_dir().join(format!("tpverif-c14-{}", std::process::id()));
        for name in [&b"D:"[..], br"\\server\share", b"x y", "d\u{e9}".as_bytes()] {
            let dir = base.join(std::ffi::OsStr::from_bytes(name));
            if std::fs::create_dir_all(&dir).is_err() || std::env::set_current_dir(&dir).is_err() {
                continue;
            }
            for st in ["\\foo\\bar", "foo", "/x/../y", "C:foo", "D:foo", ".", "..", "\u{e9}/a"] {
                for win in [false, true] {
                    ctx.evals += 1;
                    let tb = no_y(t_bytes(win, st.as_bytes(), b"a"));
                    let tu = no_y(t_utf8(win, st, "a"));
                    let tt = no_x(&t_typed(win, st.as_bytes(), b"a"));
                    let t8 = no_x(&t_typed8(win, st, "a"));
                    if tb != tu || no_x(&tb) != tt || tt != t8 {
                        let d = if tb != tu { first_diff(&tb, &tu) } else if no_x(&tb) != tt { first_diff(&no_x(&tb), &tt) } else { first_diff(&tt, &t8) };
                        ctx.fail("utf8-twin-transcript", None, format!("x.in-cwd-named {} {} {}", hex(name), gen::e(win), hex(st.as_bytes())), d);
                    }
                }
            }
        }
        std::env::set_current_dir(&old).expect("restore cwd");
        let _ = std::fs::remove_dir_all(&base);
    }
    // conversions between the families succeed exactly for valid UTF-8 and keep the bytes
    for s in strings_b(b"a/\xc3\xa9\xff\xe2\x82\xac\xf0", if t { 5 } else { 4 }) {
        let valid = std::str::from_utf8(&s).is_ok();
        ctx.case(!valid || s.iter().any(|b| *b >= 0x80), (&s, 9u8));
        ctx.tally(if valid { "conv:valid" } else { "conv:invalid" });
        let p = UnixPath::new(&s);
        let r1 = Utf8UnixPath::from_bytes_path(p).ok().map(|x| x.as_str().as_bytes().to_vec());
        let r2 = Utf8UnixPathBuf::from_bytes_path_buf(p.to_path_buf()).ok().map(|x| x.into_string().into_bytes());
        let r3 = Utf8WindowsPath::from_bytes_path(WindowsPath::new(&s)).ok().map(|x| x.as_str().as_bytes().to_vec());
        let want = if valid { Some(s.clone()) } else { None };
        if r1 != want || r2 != want || r3 != want || (p.to_str().is_some() != valid) {
            ctx.fail("family-conversion-iff-valid-utf8", None, format!("comps u {}", hex(&s)), format!("{:?} {:?} {:?}", r1, r2, r3));
        }
        if let Ok(st) = std::str::from_utf8(&s) {
            let u = Utf8UnixPath::new(st);
            let b: &UnixPath = u.as_bytes_path();
            let bb: UnixPathBuf = u.to_path_buf().into_bytes_path_buf();
            if b.as_bytes() != s.as_slice() || bb.as_bytes() != s.as_slice() {
                ctx.fail("family-conversion-keeps-bytes", None, format!("comps u {}", hex(&s)), String::new());
            }
        }
    }
    // mutation sequences: the UTF-8 buffer and its byte twin stay identical, valid UTF-8 throughout
    let mut rng = Rng::new(seed ^ 0xd4);
    let pool: Vec<&str> = vec!["", "é", "日.txt", "..", ".", "a/é", "\\é", "C:", "é.é", "😀", "x", "/"];
    for _ in 0..(if t { 60_000 } else { 6_000 }) {
        let win = rng.chance(1, 2);
        let start = rng.pick(&dom).clone();
        let st = std::str::from_utf8(&start).unwrap().to_string();
        let n = 1 + rng.below(6);
        let ops: Vec<(usize, &str)> = (0..n).map(|_| (rng.below(6), *rng.pick(&pool))).collect();
        let line = format!("hist {} {} {}", gen::e(win), hex(&start), ops.iter().map(|(k, a)| match k { 0 | 1 => format!("push:{}", hex(a.as_bytes())), 2 => "pop".into(), 3 => format!("setfn:{}", hex(a.as_bytes())), 4 => format!("setext:{}", hex(a.as_bytes())), _ => format!("pushc:{}", hex(a.as_bytes())) }).collect::<Vec<_>>().join(" "));
        ctx.case(true, &line);
        let res = crate::util::quiet_catch(|| {
            macro_rules! go {
                ($B:ty, $U:ty) => {{
                    let mut b = <$B>::from(start.as_slice());
                    let mut u = <$U>::from(st.as_str());
                    for (k, a) in &ops {
                        match k {
                            0 | 1 => {
                                b.push(a.as_bytes());
                                u.push(a);
                            }
                            2 => {
                                if b.pop() != u.pop() {
                                    return Some("pop result differs".to_string());
                                }
                            }
                            3 => {
                                b.set_file_name(a.as_bytes());
                                u.set_file_name(a);
                            }
                            4 => {
                                if b.set_extension(a.as_bytes()) != u.set_extension(a) {
                                    return Some("set_extension result differs".to_string());
                                }
                            }
                            _ => {
                                if b.push_checked(a.as_bytes()) != u.push_checked(a) {
                                    return Some("push_checked result differs".to_string());
                                }
                            }
                        }
                        if b.as_bytes() != u.as_str().as_bytes() || std::str::from_utf8(u.as_str().as_bytes()).is_err() {
                            return Some(format!("after op {}: bytes \"{}\" utf8 \"{}\"", k, lossy(b.as_bytes()), lossy(u.as_str().as_bytes())));
                        }
                    }
                    None
                }};
            }
            if win {
                go!(WindowsPathBuf, Utf8WindowsPathBuf)
            } else {
                go!(UnixPathBuf, Utf8UnixPathBuf)
            }
        });
        match res {
            Err(_) => ctx.fail("utf8-mutation-sequence-panics", None, line, String::new()),
            Ok(Some(d)) => ctx.fail("utf8-mutation-sequence-diverges", None, line, d),
            Ok(None) => {}
        }
    }
    ctx.sample(format!("setext u {} {}", hex("aé.é/".as_bytes()), hex(b"x")));
    ctx.sample(format!("comps w {}", hex("\\\\?\\UNC\\日\\😀\\é".as_bytes())));
}

fn t_typed(win: bool, s: &[u8], a: &[u8]) -> Vec<String> {
    let (s, a) = (s.to_vec(), a.to_vec());
    catch(move || {
        let mut t = Vec::new();
        let p = if win { TypedPath::windows(&s) } else { TypedPath::unix(&s) };
        transcript_path!(t, p, a.as_slice(), win);
        let b = if win { TypedPathBuf::from_windows(&s) } else { TypedPathBuf::from_unix(&s) };
        transcript_buf!(t, b, a.as_slice(), win);
        t.push(format!(
            "components {}",
            p.components()
                .map(|c| {
                    let pth = c.to_path();
                    let flag = if pth.is_windows() != win { "!VARIANT-CHANGED" } else { "" };
                    match c {
                        TypedComponent::Unix(_) => format!("{}{}", flag, comp_line_t(&c)),
                        TypedComponent::Windows(_) => format!("{}{}", flag, comp_line_t(&c)),
                    }
                })
                .collect::<Vec<_>>()
                .join(",")
        ));
        t.push(format!(
            "components-rev {}",
            p.components()
                .rev()
                .map(|c| match c {
                    TypedComponent::Unix(_) => comp_line_t(&c),
                    TypedComponent::Windows(_) => comp_line_t(&c),
                })
                .collect::<Vec<_>>()
                .join(",")
        ));
        t.push(format!("iter {}", p.iter().map(|c| hex(c)).collect::<Vec<_>>().join(",")));
            t.push(format!("iter-rev {}", p.iter().rev().map(|c| hex(c)).collect::<Vec<_>>().join(",")));
            t.push(format!("iter-alt {}", alt(p.iter()).into_iter().map(|c| hex(c)).collect::<Vec<_>>().join(",")));
            t.push(format!("components-alt {}", alt(p.components()).into_iter().map(|c| hex(&c.as_ref_bytes())).collect::<Vec<_>>().join(",")));
            partial_iter_lines!(t, p);
        // explicit conversions are the only operations allowed to change the variant
        let (tu, tuc) = (p.with_unix_encoding(), p.with_unix_encoding_checked());
        t.push(format!("to-unix {}{} {:?}", if tu.is_unix() { "" } else { "!VARIANT" }, hex(tu.as_bytes()), tuc.map(|x| format!("{}{}", if x.is_unix() { "" } else { "!VARIANT" }, hex(x.as_bytes())))));
        let (tw, twc) = (p.with_windows_encoding(), p.with_windows_encoding_checked());
        t.push(format!("to-windows {}{} {:?}", if tw.is_windows() { "" } else { "!VARIANT" }, hex(tw.as_bytes()), twc.map(|x| format!("{}{}", if x.is_windows() { "" } else { "!VARIANT" }, hex(x.as_bytes())))));
        if win {
            let wp = WindowsPath::new(&s);
            let c = wp.components();
            t.push(format!("wq {} {} {} {} {}", c.has_prefix(), c.has_any_verbatim_prefix(), c.has_physical_root(), c.has_implicit_root(), c.prefix().map(|x| hex(x.as_bytes())).unwrap_or_default()));
            t.push(format!("wq-kinds {}{}{}{}{}{} {:?}", c.has_verbatim_prefix() as u8, c.has_verbatim_unc_prefix() as u8, c.has_verbatim_disk_prefix() as u8, c.has_device_ns_prefix() as u8, c.has_unc_prefix() as u8, c.has_disk_prefix() as u8, c.prefix().map(|x| x.kind().is_verbatim())));
            t.push(wq_partial_bytes(s.as_ref()));
        }
        t
    })
}

fn t_typed8(win: bool, s: &str, a: &str) -> Vec<String> {
    let (s, a) = (s.to_string(), a.to_string());
    catch(move || {
        let mut t = Vec::new();
        let p = if win { Utf8TypedPath::windows(&s) } else { Utf8TypedPath::unix(&s) };
        transcript_path!(t, p, a.as_str(), win);
        let b = if win { Utf8TypedPathBuf::from_windows(&s) } else { Utf8TypedPathBuf::from_unix(&s) };
        transcript_buf!(t, b, a.as_str(), win);
        t.push(format!(
            "components {}",
            p.components()
                .map(|c| {
                    let pth = c.to_path();
                    let flag = if pth.is_windows() != win { "!VARIANT-CHANGED" } else { "" };
                    match c {
                        Utf8TypedComponent::Unix(_) => format!("{}{}", flag, comp_line_t8(&c)),
                        Utf8TypedComponent::Windows(_) => format!("{}{}", flag, comp_line_t8(&c)),
                    }
                })
                .collect::<Vec<_>>()
                .join(",")
        ));
        t.push(format!(
            "components-rev {}",
            p.components()
                .rev()
                .map(|c| match c {
                    Utf8TypedComponent::Unix(_) => comp_line_t8(&c),
                    Utf8TypedComponent::Windows(_) => comp_line_t8(&c),
                })
                .collect::<Vec<_>>()
                .join(",")
        ));
        t.push(format!("iter {}", p.iter().map(|c| hex(&c.tob())).collect::<Vec<_>>().join(",")));
            t.push(format!("iter-rev {}", p.iter().rev().map(|c| hex(&c.tob())).collect::<Vec<_>>().join(",")));
            t.push(format!("iter-alt {}", alt(p.iter()).into_iter().map(|c| hex(&c.tob())).collect::<Vec<_>>().join(",")));
            t.push(format!("components-alt {}", alt(p.components()).into_iter().map(|c| hex(&c.as_ref_bytes())).collect::<Vec<_>>().join(",")));
            partial_iter_lines!(t, p);
        let (tu, tuc) = (p.with_unix_encoding(), p.with_unix_encoding_checked());
        t.push(format!("to-unix {}{} {:?}", if tu.is_unix() { "" } else { "!VARIANT" }, hex(&tu.tob()), tuc.map(|x| format!("{}{}", if x.is_unix() { "" } else { "!VARIANT" }, hex(&x.tob())))));
        let (tw, twc) = (p.with_windows_encoding(), p.with_windows_encoding_checked());
        t.push(format!("to-windows {}{} {:?}", if tw.is_windows() { "" } else { "!VARIANT" }, hex(&tw.tob()), twc.map(|x| format!("{}{}", if x.is_windows() { "" } else { "!VARIANT" }, hex(&x.tob())))));
        if win {
            let wp = WindowsPath::new(s.as_bytes());
            let c = wp.components();
            t.push(format!("wq {} {} {} {} {}", c.has_prefix(), c.has_any_verbatim_prefix(), c.has_physical_root(), c.has_implicit_root(), c.prefix().map(|x| hex(x.as_bytes())).unwrap_or_default()));
            t.push(format!("wq-kinds {}{}{}{}{}{} {:?}", c.has_verbatim_prefix() as u8, c.has_verbatim_unc_prefix() as u8, c.has_verbatim_disk_prefix() as u8, c.has_device_ns_prefix() as u8, c.has_unc_prefix() as u8, c.has_disk_prefix() as u8, c.prefix().map(|x| x.kind().is_verbatim())));
            t.push(wq_partial_bytes(s.as_bytes()));
        }
        t
    })
}

fn t_platform(s: &[u8], a: &[u8]) -> Vec<String> {
    let (s, a) = (s.to_vec(), a.to_vec());
    catch(move || {
        let mut t = Vec::new();
        transcript_path!(t, PlatformPath::new(&s), a.as_slice(), false);
        transcript_buf!(t, PlatformPathBuf::from(s.as_slice()), a.as_slice(), false);
        let p = PlatformPath::new(&s);
        t.push(format!("components {}", p.components().map(|c| comp_line_u(&c)).collect::<Vec<_>>().join(",")));
        t.push(format!("components-rev {}", p.components().rev().map(|c| comp_line_u(&c)).collect::<Vec<_>>().join(",")));
        t.push(format!("iter {}", p.iter().map(|c| hex(c)).collect::<Vec<_>>().join(",")));
            t.push(format!("iter-rev {}", p.iter().rev().map(|c| hex(c)).collect::<Vec<_>>().join(",")));
            t.push(format!("iter-alt {}", alt(p.iter()).into_iter().map(|c| hex(c)).collect::<Vec<_>>().join(",")));
            t.push(format!("components-alt {}", alt(p.components()).into_iter().map(|c| hex(&c.as_ref_bytes())).collect::<Vec<_>>().join(",")));
            partial_iter_lines!(t, p);
        t.push(format!("to-unix {} {:?}", hex(p.with_unix_encoding().as_bytes()), p.with_unix_encoding_checked().map(|x| hex(x.as_bytes()))));
        t.push(format!("to-windows {} {:?}", hex(p.with_windows_encoding().as_bytes()), p.with_windows_encoding_checked().map(|x| hex(x.as_bytes()))));
        t
    })
}

fn t_platform8(s: &str, a: &str) -> Vec<String> {
    let (s, a) = (s.to_string(), a.to_string());
    catch(move || {
        let mut t = Vec::new();
        transcript_path!(t, Utf8PlatformPath::new(&s), a.as_str(), false);
        transcript_buf!(t, Utf8PlatformPathBuf::from(s.as_str()), a.as_str(), false);
        let p = Utf8PlatformPath::new(&s);
        t.push(format!("components {}", p.components().map(|c| comp_line_u8(&c)).collect::<Vec<_>>().join(",")));
        t.push(format!("components-rev {}", p.components().rev().map(|c| comp_line_u8(&c)).collect::<Vec<_>>().join(",")));
        t.push(format!("iter {}", p.iter().map(|c| hex(&c.tob())).collect::<Vec<_>>().join(",")));
        t.push(format!("iter-rev {}", p.iter().rev().map(|c| hex(&c.tob())).collect::<Vec<_>>().join(",")));
        t.push(format!("iter-alt {}", alt(p.iter()).into_iter().map(|c| hex(&c.tob())).collect::<Vec<_>>().join(",")));
        t.push(format!("components-alt {}", alt(p.components()).into_iter().map(|c| hex(&c.as_ref_bytes())).collect::<Vec<_>>().join(",")));
        partial_iter_lines!(t, p);
        t.push(format!("to-unix {} {:?}", hex(&p.with_unix_encoding().tob()), p.with_unix_encoding_checked().map(|x| hex(&x.tob()))));
        t.push(format!("to-windows {} {:?}", hex(&p.with_windows_encoding().tob()), p.with_windows_encoding_checked().map(|x| hex(&x.tob()))));
        t
    })
}

/// the transcript of one type family (`b` bytes, `8` UTF-8, `t` typed, `t8` UTF-8 typed, `p` platform,
/// `p8` UTF-8 platform) — the `tx` op of the line protocol (C20 compares the two builds on it)
pub fn transcript(family: &str, win: bool, s: &[u8], a: &[u8]) -> Vec<String> {
    let utf = |f: &dyn Fn(&str, &str) -> Vec<String>| match (std::str::from_utf8(s), std::str::from_utf8(a)) {
        (Ok(st), Ok(sa)) => f(st, sa),
        _ => vec!["not-utf8".into()],
    };
    match family {
        "b" => t_bytes(win, s, a),
        "8" => utf(&|st, sa| t_utf8(win, st, sa)),
        "t" => t_typed(win, s, a),
        "t8" => utf(&|st, sa| t_typed8(win, st, sa)),
        "p" => t_platform(s, a),
        "p8" => utf(&|st, sa| t_platform8(st, sa)),
        _ => vec!["bad-family".into()],
    }
}

pub fn c15(ctx: &mut Ctx, tier: &str, seed: u64) {
    let t = tier_is_thorough(tier);
    let mut dom = dom_win_small(tier, seed);
    dom.extend(dom_unix_small(tier, seed));
    dom.extend(gen::utf8_dom("quick", seed).into_iter().step_by(if t { 5 } else { 23 }));
    // names that one or both encodings forbid (checked conversions and validity must agree across families)
    for s in [&b"a\0b/c"[..], b"/tmp/fo\0o/bar.txt", br"C:\logs\*.txt", b"a|b", br"\\?\C:\a?b", b"a:b/c", b"x/a\"b", b"d\\a<b>c", br"\\s\h\a\0"] {
        dom.push(s.to_vec());
    }
    let dom = dedup_keep_order(dom);
    // the rarely travelled surface (constructors taking a PathType, TryFrom out of a typed buffer, Debug of
    // the typed iterators, …): see orc_e.rs
    {
        let mut rd: Vec<Vec<u8>> = dom.clone();
        rd.extend(WIN_SEEDS.iter().map(|x| x.to_vec()));
        rd.push(b"\xff/a".to_vec());
        for win in [false, true] {
            crate::orc_e::rare_surface_clause(ctx, "rarely-used-surface-agrees", win, &rd);
        }
    }
    let args: Vec<&[u8]> = vec![b"", b"a", b"..\\b", b"/x", b"C:y", b"a.b", br"\\?\C:\z", b".", b"a/../..", "é".as_bytes()];
    for s in &dom {
        crate::util::at(format!("derive {}", hex(s)));
        // deriving the type from raw bytes
        let d = TypedPath::derive(s);
        let want_win = s.first() == Some(&b'\\') || crate::spec::win_prefix(s).is_some();
        ctx.tally(if want_win { "derive:windows" } else { "derive:unix" });
        if d.is_windows() != want_win || d.as_bytes() != s.as_slice() {
            ctx.fail("derive-rule", None, format!("derive {}", hex(s)), format!("is_windows {} want {}", d.is_windows(), want_win));
        }
        if let Ok(st) = std::str::from_utf8(s) {
            let d8 = Utf8TypedPath::derive(st);
            if d8.is_windows() != want_win {
                ctx.fail("derive-rule-utf8", None, format!("derive {}", hex(s)), String::new());
            }
        }
        // accessors that exist on the typed component only
        for win in [false, true] {
            let tp = if win { TypedPath::windows(s) } else { TypedPath::unix(s) };
            for c in tp.components() {
                let want: Option<&[u8]> = match &c {
                    TypedComponent::Unix(UnixComponent::Normal(x)) => Some(*x),
                    TypedComponent::Windows(WindowsComponent::Normal(x)) => Some(*x),
                    _ => None,
                };
                ctx.evals += 1;
                if c.as_normal_bytes() != want || c.is_normal() != want.is_some() {
                    ctx.fail("typed-component-accessors", None, format!("comps {} {}", gen::e(win), hex(s)), format!("as_normal_bytes {:?}", c.as_normal_bytes().map(|x| lossy(x))));
                }
            }
            if let Ok(st) = std::str::from_utf8(s) {
                let up = if win { Utf8TypedPath::windows(st) } else { Utf8TypedPath::unix(st) };
                for c in up.components() {
                    let want: Option<&str> = match &c {
                        Utf8TypedComponent::Unix(Utf8UnixComponent::Normal(x)) => Some(*x),
                        Utf8TypedComponent::Windows(Utf8WindowsComponent::Normal(x)) => Some(*x),
                        _ => None,
                    };
                    if c.as_normal_str() != want || c.is_normal() != want.is_some() {
                        ctx.fail("typed-component-accessors", None, format!("comps {} {}", gen::e(win), hex(s)), format!("as_normal_str {:?}", c.as_normal_str()));
                    }
                }
            }
        }
        for win in [false, true] {
            let e = gen::e(win);
            for (i, a) in args.iter().enumerate() {
                if !t && i >= 5 && (s.len() + i) % 3 != 0 {
                    continue;
                }
                let tb = no_x(&t_bytes(win, s, a));
                let tt = no_y(t_typed(win, s, a));
                ctx.case(comps(win, s).len() >= 2, (win, s, i));
                if tb != tt || tt.iter().any(|l| l.contains("!VARIANT") || l == "PANIC" || l.contains("size_hint-sane=false")) {
                    let d = tt.iter().find(|l| l.contains("!VARIANT")).map(|l| format!("variant changed in `{}`", l)).unwrap_or_else(|| first_diff(&tb, &tt));
                    ctx.fail("typed-wrapper-transparent", None, format!("comps {} {}", e, hex(s)), format!("arg \"{}\": {}", lossy(a), d));
                }
                if let (Ok(st), Ok(sa)) = (std::str::from_utf8(s), std::str::from_utf8(a)) {
                    let t8 = no_y(t_typed8(win, st, sa));
                    if tb != t8 || t8.iter().any(|l| l.contains("!VARIANT") || l == "PANIC" || l.contains("size_hint-sane=false")) {
                        let d = t8.iter().find(|l| l.contains("!VARIANT")).map(|l| format!("variant changed in `{}`", l)).unwrap_or_else(|| first_diff(&tb, &t8));
                        ctx.fail("utf8-typed-wrapper-transparent", None, format!("comps {} {}", e, hex(s)), format!("arg \"{}\": {}", lossy(a), d));
                    }
                }
                if !win {
                    // the platform encoding is the native (Unix, on this host) encoding
                    let tp = no_y(t_platform(s, a));
                    if tb != tp {
                        ctx.fail("platform-equals-native", None, format!("comps u {}", hex(s)), format!("arg \"{}\": {}", lossy(a), first_diff(&tb, &tp)));
                    }
                    if let (Ok(st), Ok(sa)) = (std::str::from_utf8(s), std::str::from_utf8(a)) {
                        let tp8 = no_y(t_platform8(st, sa));
                        if tb != tp8 {
                            ctx.fail("utf8-platform-equals-native", None, format!("comps u {}", hex(s)), format!("arg \"{}\": {}", lossy(a), first_diff(&tb, &tp8)));
                        }
                    }
                }
            }
        }
        // concrete -> typed conversions and the encoding-label tests of the concrete types
        {
            ctx.evals += 1;
            let (u, w) = (UnixPath::new(s), WindowsPath::new(s));
            let ok = u.has_unix_encoding() && !u.has_windows_encoding() && w.has_windows_encoding() && !w.has_unix_encoding()
                && u.to_typed_path() == TypedPath::Unix(u) && w.to_typed_path() == TypedPath::Windows(w)
                && u.to_typed_path().is_unix() && w.to_typed_path().is_windows()
                && u.to_typed_path_buf() == TypedPathBuf::Unix(u.to_path_buf()) && w.to_typed_path_buf() == TypedPathBuf::Windows(w.to_path_buf())
                && u.to_typed_path_buf().is_unix() && w.to_typed_path_buf().is_windows()
                && u.to_typed_path().as_bytes() == s.as_slice() && w.to_typed_path_buf().as_bytes() == s.as_slice();
            if !ok {
                ctx.fail("concrete-to-typed", None, format!("derive {}", hex(s)), String::new());
            }
            if let Ok(st) = std::str::from_utf8(s) {
                let (u, w) = (Utf8UnixPath::new(st), Utf8WindowsPath::new(st));
                // the unchecked constructors are the identity on valid UTF-8
                let (ub, wb) = (UnixPath::new(s), WindowsPath::new(s));
                let uu: &Utf8UnixPath = unsafe { Utf8UnixPath::from_bytes_path_unchecked(ub) };
                let wu: &Utf8WindowsPath = unsafe { Utf8WindowsPath::from_bytes_path_unchecked(wb) };
                let ubuf = unsafe { Utf8UnixPathBuf::from_bytes_path_buf_unchecked(ub.to_path_buf()) };
                let wbuf = unsafe { Utf8WindowsPathBuf::from_bytes_path_buf_unchecked(wb.to_path_buf()) };
                let ok = u.has_unix_encoding() && !u.has_windows_encoding() && w.has_windows_encoding() && !w.has_unix_encoding()
                    && u.to_typed_path() == Utf8TypedPath::Unix(u) && w.to_typed_path() == Utf8TypedPath::Windows(w)
                    && u.to_typed_path_buf() == Utf8TypedPathBuf::Unix(u.to_path_buf()) && w.to_typed_path_buf() == Utf8TypedPathBuf::Windows(w.to_path_buf())
                    && u.to_typed_path().as_str() == st && w.to_typed_path_buf().as_str() == st
                    && uu.as_str() == st && wu.as_str() == st && ubuf.as_str() == st && wbuf.as_str() == st;
                if !ok {
                    ctx.fail("utf8-concrete-to-typed", None, format!("derive {}", hex(s)), String::new());
                }
                // components built without a check are what parsing yields
                for (bc, c) in ub.components().zip(u.components()) {
                    if unsafe { Utf8UnixComponent::from_utf8_unchecked(&bc) } != c {
                        ctx.fail("utf8-component-unchecked", None, format!("comps u {}", hex(s)), c.as_str().to_string());
                    }
                }
                for (bc, c) in wb.components().zip(w.components()) {
                    let back = unsafe { Utf8WindowsComponent::from_utf8_unchecked(&bc) };
                    if back != c {
                        ctx.fail("utf8-component-unchecked", None, format!("comps w {}", hex(s)), c.as_str().to_string());
                    }
                    if let (WindowsComponent::Prefix(bp), Utf8WindowsComponent::Prefix(up)) = (&bc, &c) {
                        let p2 = unsafe { typed_path::Utf8WindowsPrefixComponent::from_utf8_unchecked(bp) };
                        if p2 != *up || unsafe { Utf8WindowsPrefix::from_utf8_unchecked(&bp.kind()) } != up.kind() {
                            ctx.fail("utf8-component-unchecked", None, format!("comps w {}", hex(s)), c.as_str().to_string());
                        }
                    }
                }
            }
        }
        // typed paths of DIFFERENT variants are never equal — borrowed, owned and mixed, either order —
        // and the comparison returns (a mutual delegation between the mixed impls would recurse for ever)
        {
            ctx.evals += 1;
            crate::util::at(format!("derive {}", hex(s)));
            let (tu, tw) = (TypedPath::unix(s), TypedPath::windows(s));
            let (bu, bw) = (tu.to_path_buf(), tw.to_path_buf());
            let mut ok = tu != tw && tw != tu && bu != bw && bw != bu && tu != bw && bw != tu && tw != bu && bu != tw
                && tu == bu && bu == tu && tw == bw && bw == tw;
            if let Ok(st) = std::str::from_utf8(s) {
                let (tu, tw) = (Utf8TypedPath::unix(st), Utf8TypedPath::windows(st));
                let (bu, bw) = (tu.to_path_buf(), tw.to_path_buf());
                ok = ok && tu != tw && tw != tu && bu != bw && bw != bu && tu != bw && bw != tu && tw != bu && bu != tw
                    && tu == bu && bu == tu && tw == bw && bw == tw;
            }
            if !ok {
                ctx.fail("typed-variants-never-equal", None, format!("derive {}", hex(s)), String::new());
            }
        }
        // the typed component iterators compare like the wrapped ones, and never across variants
        {
            ctx.evals += 1;
            let others: [&[u8]; 4] = [s.as_slice(), b"a", b"/a/b", br"C:\a"];
            let mut ok = true;
            for o in others {
                let (u1, u2) = (UnixPath::new(s).components(), UnixPath::new(o).components());
                let (w1, w2) = (WindowsPath::new(s).components(), WindowsPath::new(o).components());
                let (tu1, tu2) = (TypedPath::unix(s), TypedPath::unix(o));
                let (tw1, tw2) = (TypedPath::windows(s), TypedPath::windows(o));
                ok = ok && (tu1.components() == tu2.components()) == (u1 == u2)
                    && (tw1.components() == tw2.components()) == (w1 == w2)
                    && PartialOrd::partial_cmp(&tu1.components(), &tu2.components()) == PartialOrd::partial_cmp(&u1, &u2)
                    && PartialOrd::partial_cmp(&tw1.components(), &tw2.components()) == PartialOrd::partial_cmp(&w1, &w2)
                    && tu1.components() != tw2.components() && tw1.components() != tu2.components()
                    && PartialOrd::partial_cmp(&tu1.components(), &tw2.components()).is_none()
                    && PartialOrd::partial_cmp(&tw1.components(), &tu2.components()).is_none();
                if let (Ok(st), Ok(so)) = (std::str::from_utf8(s), std::str::from_utf8(o)) {
                    let (u1, u2) = (Utf8UnixPath::new(st).components(), Utf8UnixPath::new(so).components());
                    let (w1, w2) = (Utf8WindowsPath::new(st).components(), Utf8WindowsPath::new(so).components());
                    let (tu1, tu2) = (Utf8TypedPath::unix(st), Utf8TypedPath::unix(so));
                    let (tw1, tw2) = (Utf8TypedPath::windows(st), Utf8TypedPath::windows(so));
                    ok = ok && (tu1.components() == tu2.components()) == (u1 == u2)
                        && (tw1.components() == tw2.components()) == (w1 == w2)
                        && PartialOrd::partial_cmp(&tu1.components(), &tu2.components()) == PartialOrd::partial_cmp(&u1, &u2)
                        && PartialOrd::partial_cmp(&tw1.components(), &tw2.components()) == PartialOrd::partial_cmp(&w1, &w2)
                        && tu1.components() != tw2.components() && tw1.components() != tu2.components()
                        && PartialOrd::partial_cmp(&tu1.components(), &tw2.components()).is_none()
                        && PartialOrd::partial_cmp(&tw1.components(), &tu2.components()).is_none();
                }
            }
            if !ok {
                ctx.fail("typed-components-compare", None, format!("derive {}", hex(s)), String::new());
            }
        }
        // formatting: the typed wrappers hand the caller's Formatter (width, fill, alignment, precision)
        // to the wrapped path, so every format spec prints what the wrapped type prints
        {
            ctx.evals += 1;
            macro_rules! specs {
                ($v:expr) => {{
                    let v = &$v;
                    vec![format!("{}", v), format!("{:.4}", v), format!("{:>12}", v), format!("{:*^9}", v), format!("{:<3}|", v), format!("{:.0}", v), format!("{:+>7.2}", v)]
                }};
            }
            let mut ok = true;
            for win in [false, true] {
                let tp = if win { TypedPath::windows(s) } else { TypedPath::unix(s) };
                let tb = tp.to_path_buf();
                let want = if win { specs!(WindowsPath::new(s).display()) } else { specs!(UnixPath::new(s).display()) };
                let (wb, ub0) = (WindowsPathBuf::from(s.as_slice()), UnixPathBuf::from(s.as_slice()));
                let want_b = if win { specs!(wb.display()) } else { specs!(ub0.display()) };
                let tbp = tb.to_path();
                ok = ok && specs!(tp.display()) == want && specs!(tbp.display()) == want && want_b == want;
                if let Ok(st) = std::str::from_utf8(s) {
                    let up = if win { Utf8TypedPath::windows(st) } else { Utf8TypedPath::unix(st) };
                    let ub = up.to_path_buf();
                    let want8 = if win { specs!(Utf8WindowsPath::new(st)) } else { specs!(Utf8UnixPath::new(st)) };
                    let want8b = if win { specs!(Utf8WindowsPathBuf::from(st)) } else { specs!(Utf8UnixPathBuf::from(st)) };
                    ok = ok && specs!(&up) == want8 && specs!(&ub) == want8 && want8b == want8 && want8 == specs!(st);
                }
            }
            if !ok {
                ctx.fail("typed-display-honours-format-spec", None, format!("derive {}", hex(s)), String::new());
            }
        }
        // the `From` constructors of the typed types ARE `derive`; `try_as_ref` hands out the wrapped
        // path for the right variant only
        {
            ctx.evals += 1;
            let same = |a: &TypedPath, b: &TypedPath| a.is_windows() == b.is_windows() && a.as_bytes() == b.as_bytes();
            let mut ok = same(&TypedPath::from(s.as_slice()), &d)
                && same(&TypedPathBuf::from(s.as_slice()).to_path(), &d)
                && same(&TypedPathBuf::from(s.clone()).to_path(), &d);
            if let Ok(a2) = <&[u8; 2]>::try_from(s.as_slice()) {
                ok = ok && same(&TypedPathBuf::from(a2).to_path(), &d);
            }
            if let Ok(st) = std::str::from_utf8(s) {
                ok = ok && same(&TypedPath::from(st), &d) && same(&TypedPathBuf::from(st).to_path(), &d) && same(&TypedPathBuf::from(st.to_string()).to_path(), &d);
                let d8 = Utf8TypedPath::derive(st);
                let same8 = |a: &Utf8TypedPath, b: &Utf8TypedPath| a.is_windows() == b.is_windows() && a.as_str() == b.as_str();
                ok = ok && same8(&Utf8TypedPath::from(st), &d8) && same8(&Utf8TypedPathBuf::from(st).to_path(), &d8) && same8(&Utf8TypedPathBuf::from(st.to_string()).to_path(), &d8);
                let (tu, tw) = (Utf8TypedPath::unix(st), Utf8TypedPath::windows(st));
                let (a, b): (Option<&Utf8UnixPath>, Option<&Utf8WindowsPath>) = (tu.try_as_ref(), tu.try_as_ref());
                let (c, e): (Option<&Utf8UnixPath>, Option<&Utf8WindowsPath>) = (tw.try_as_ref(), tw.try_as_ref());
                ok = ok && a.map(|x| x.as_str()) == Some(st) && b.is_none() && c.is_none() && e.map(|x| x.as_str()) == Some(st);
            }
            let (tu, tw) = (TypedPath::unix(s), TypedPath::windows(s));
            let (a, b): (Option<&UnixPath>, Option<&WindowsPath>) = (tu.try_as_ref(), tu.try_as_ref());
            let (c, e): (Option<&UnixPath>, Option<&WindowsPath>) = (tw.try_as_ref(), tw.try_as_ref());
            ok = ok && a.map(|x| x.as_bytes()) == Some(s.as_slice()) && b.is_none() && c.is_none() && e.map(|x| x.as_bytes()) == Some(s.as_slice());
            if !ok {
                ctx.fail("typed-from-is-derive", None, format!("derive {}", hex(s)), String::new());
            }
        }
        // From / TryFrom round trips keep bytes and variant
        for win in [false, true] {
            let tb = if win { TypedPathBuf::from_windows(s) } else { TypedPathBuf::from_unix(s) };
            let ok = if win {
                WindowsPathBuf::try_from(tb.clone()).map(|x| x.into_vec()).ok() == Some(s.clone()) && UnixPathBuf::try_from(tb.clone()).is_err() && TypedPathBuf::Windows(WindowsPathBuf::from(s.as_slice())) == tb
            } else {
                UnixPathBuf::try_from(tb.clone()).map(|x| x.into_vec()).ok() == Some(s.clone()) && WindowsPathBuf::try_from(tb.clone()).is_err() && TypedPathBuf::Unix(UnixPathBuf::from(s.as_slice())) == tb
            };
            ctx.evals += 1;
            // a refused conversion hands the original value back
            let payload_ok = if win {
                matches!(UnixPathBuf::try_from(tb.clone()), Err(ref o) if *o == tb && o.is_windows())
            } else {
                matches!(WindowsPathBuf::try_from(tb.clone()), Err(ref o) if *o == tb && o.is_unix())
            };
            if !ok || !payload_ok || tb.to_path().is_windows() != win || tb.to_path().to_path_buf() != tb {
                ctx.fail("typed-round-trips", None, format!("comps {} {}", gen::e(win), hex(s)), String::new());
            }
        }
    }
    ctx.sample(format!("derive {}", hex(b"C:a")));
    ctx.sample(format!("comps w {}", hex(br"a\b")));
}

/// every way of building a path value from raw bytes / strings, and of formatting one; returns a
/// digest so that nothing is optimised away (C18 runs it under catch_unwind)
fn constructors(s: &[u8]) -> usize {
    use std::str::FromStr;
    let mut n = 0usize;
    let v = s.to_vec();
    n += UnixPathBuf::from(s).as_bytes().len() + WindowsPathBuf::from(s).as_bytes().len();
    n += UnixPathBuf::from(v.clone()).as_bytes().len() + WindowsPathBuf::from(v.clone()).as_bytes().len();
    n += TypedPath::derive(s).as_bytes().len() + TypedPath::from(s).as_bytes().len();
    n += TypedPathBuf::from(s).as_bytes().len() + TypedPathBuf::from(v.clone()).as_bytes().len();
    n += TypedPathBuf::from_unix(s).as_bytes().len() + TypedPathBuf::from_windows(s).as_bytes().len();
    n += format!("{} {:?}", UnixPath::new(s).display(), UnixPath::new(s)).len();
    n += format!("{} {:?}", WindowsPath::new(s).display(), WindowsPath::new(s)).len();
    n += format!("{} {:?}", TypedPath::unix(s).display(), TypedPath::windows(s)).len();
    n += UnixPath::new(s).to_string_lossy().len() + WindowsPath::new(s).to_string_lossy().len() + TypedPath::derive(s).to_string_lossy().len();
    n += UnixPath::new(s).to_str().map_or(0, |x| x.len()) + TypedPath::derive(s).to_str().map_or(0, |x| x.len());
    n += UnixComponent::try_from(s).is_ok() as usize + WindowsComponent::try_from(s).is_ok() as usize + WindowsPrefix::try_from(s).is_ok() as usize;
    {
        // comparisons between the two variants of the typed types, borrowed / owned / mixed (must return)
        let (tu, tw) = (TypedPath::unix(s), TypedPath::windows(s));
        let (bu, bw) = (tu.to_path_buf(), tw.to_path_buf());
        n += (tu == tw) as usize + (bu == bw) as usize + (tu == bw) as usize + (bw == tu) as usize + (tw == bu) as usize + (bu == tw) as usize;
        n += tu.partial_cmp(&tw).is_some() as usize + bu.partial_cmp(&bw).is_some() as usize;
    }
    n += Utf8UnixPath::from_bytes_path(UnixPath::new(s)).is_ok() as usize + Utf8WindowsPathBuf::from_bytes_path_buf(WindowsPathBuf::from(s)).is_ok() as usize;
    if let Ok(st) = std::str::from_utf8(s) {
        let owned = st.to_string();
        n += UnixPathBuf::from(st).as_bytes().len() + WindowsPathBuf::from(owned.clone()).as_bytes().len();
        n += UnixPathBuf::from_str(st).map_or(0, |x| x.as_bytes().len()) + WindowsPathBuf::from_str(st).map_or(0, |x| x.as_bytes().len());
        n += Utf8UnixPathBuf::from(st).as_str().len() + Utf8WindowsPathBuf::from(owned.clone()).as_str().len();
        n += Utf8UnixPathBuf::from_str(st).map_or(0, |x| x.as_str().len()) + Utf8WindowsPathBuf::from_str(st).map_or(0, |x| x.as_str().len());
        n += TypedPath::from(st).as_bytes().len() + TypedPathBuf::from(st).as_bytes().len() + TypedPathBuf::from(owned.clone()).as_bytes().len();
        n += Utf8TypedPath::derive(st).as_str().len() + Utf8TypedPath::from(st).as_str().len();
        n += Utf8TypedPathBuf::from(st).as_str().len() + Utf8TypedPathBuf::from(owned.clone()).as_str().len();
        n += Utf8TypedPathBuf::from_unix(st).as_str().len() + Utf8TypedPathBuf::from_windows(st).as_str().len();
        n += format!("{} {:?} {} {:?}", Utf8UnixPath::new(st), Utf8WindowsPath::new(st), Utf8TypedPath::derive(st), Utf8TypedPath::unix(st)).len();
        n += Utf8UnixComponent::try_from(st).is_ok() as usize + Utf8WindowsComponent::try_from(st).is_ok() as usize + Utf8WindowsPrefix::try_from(st).is_ok() as usize;
        {
            let (tu, tw) = (Utf8TypedPath::unix(st), Utf8TypedPath::windows(st));
            let (bu, bw) = (tu.to_path_buf(), tw.to_path_buf());
            n += (tu == tw) as usize + (bu == bw) as usize + (tu == bw) as usize + (bw == tu) as usize + (tw == bu) as usize + (bu == tw) as usize;
            n += tu.partial_cmp(&tw).is_some() as usize + bu.partial_cmp(&bw).is_some() as usize;
        }
        n += UnixComponent::try_from(st).is_ok() as usize + WindowsComponent::try_from(st).is_ok() as usize;
    }
    n
}

pub fn c18(ctx: &mut Ctx, tier: &str, seed: u64) {
    let t = tier_is_thorough(tier);
    let big = if t { 65536 } else { 16384 };
    let mut shapes: Vec<(String, Vec<u8>)> = Vec::new();
    for win in [false, true] {
        let sep: u8 = if win { b'\\' } else { b'/' };
        let e = gen::e(win);
        shapes.push((format!("{}:seps", e), vec![sep; big]));
        shapes.push((format!("{}:dots", e), vec![b'.'; big]));
        shapes.push((format!("{}:dotdot", e), [b'.', b'.', sep].iter().cycle().take(big).cloned().collect()));
        shapes.push((format!("{}:components", e), [b'a', sep].iter().cycle().take(if t { 10_000 } else { 4_000 }).cloned().collect()));
        shapes.push((format!("{}:curdirs", e), [b'.', sep].iter().cycle().take(big).cloned().collect()));
        shapes.push((format!("{}:name", e), vec![b'a'; big]));
        shapes.push((format!("{}:dotted-name", e), [b'a', b'.'].iter().cycle().take(big).cloned().collect()));
        shapes.push((format!("{}:nonutf8", e), [0xffu8, sep, 0x80].iter().cycle().take(big).cloned().collect()));
        if win {
            for s in WIN_SEEDS {
                let mut x = s.to_vec();
                x.extend([b'\\', b'a', b'/', b'.', b'.', b'\\', b'.'].iter().cycle().take(big / 4));
                shapes.push((format!("w:seed:{}", lossy(s)), x));
            }
            shapes.push(("w:mixed-seps".into(), [b'\\', b'/'].iter().cycle().take(big).cloned().collect()));
        }
    }
    let args: Vec<Vec<u8>> = vec![b"".to_vec(), b"a".to_vec(), b"../..".to_vec(), vec![b'/'; 100], b"x.y".to_vec(), [b'.', b'.', b'/'].iter().cycle().take(3000).cloned().collect()];
    for (name, s) in &shapes {
        let win = name.starts_with("w:");
        for a in &args {
            crate::util::at(format!("push {} {} {}", gen::e(win), hex(&s[..s.len().min(64)]), hex(&a[..a.len().min(64)])));
            let started = std::time::Instant::now();
            let tb = t_bytes(win, s, a);
            let tt = no_y(t_typed(win, s, a));
            let h = crate::util::quiet_catch(|| if win { hash_chunks(WindowsPath::new(s)).len() } else { hash_chunks(UnixPath::new(s)).len() });
            let el = started.elapsed();
            ctx.case(true, (name, a));
            ctx.tally(&format!("long:{}", name.split(':').nth(1).unwrap_or("")));
            if tb.iter().any(|l| l == "PANIC") || tt.iter().any(|l| l == "PANIC") || h.is_err() {
                ctx.fail("panic-on-long-input", None, format!("comps {} {}", gen::e(win), hex(&s[..s.len().min(64)])), format!("shape {} ({} bytes) arg {} bytes", name, s.len(), a.len()));
            }
            if a.is_empty() {
                crate::util::at(format!("derive {}", hex(&s[..s.len().min(96)])));
            }
            if a.is_empty() && crate::util::quiet_catch(|| constructors(s)).is_err() {
                ctx.fail("panic-in-constructor", None, format!("derive {}", hex(&s[..s.len().min(64)])), format!("shape {}", name));
            }
            if el.as_secs_f64() > 20.0 {
                ctx.fail("too-slow-on-long-input", None, format!("comps {} {}", gen::e(win), hex(&s[..s.len().min(64)])), format!("shape {} ({} bytes): {:?} for one transcript", name, s.len(), el));
            }
            if let (Ok(st), Ok(sa)) = (std::str::from_utf8(s), std::str::from_utf8(a)) {
                if t_utf8(win, st, sa).iter().any(|l| l == "PANIC") {
                    ctx.fail("panic-on-long-input-utf8", None, format!("comps {} {}", gen::e(win), hex(&s[..s.len().min(64)])), format!("shape {}", name));
                }
            }
        }
    }
    // every operation on every short input, both encodings, under catch_unwind
    for win in [false, true] {
        let mut dom = if win { dom_win(tier, seed) } else { dom_unix(tier, seed) };
        if !t {
            dom = dom.into_iter().step_by(3).collect();
        }
        let aa: Vec<&[u8]> = vec![b"", b"a", b"../b", b"/", b"C:", b"\\\\", b"a.b."];
        for (i, s) in dom.iter().enumerate() {
            let a = aa[i % aa.len()];
            crate::util::at(format!("push {} {} {}", gen::e(win), hex(s), hex(a)));
            let tb = t_bytes(win, s, a);
            ctx.case(comps(win, s).len() >= 2, (win, s, a));
            if tb.iter().any(|l| l == "PANIC") {
                ctx.fail("panic", None, format!("comps {} {}", gen::e(win), hex(s)), format!("arg \"{}\"", lossy(a)));
            }
            crate::util::at(format!("derive {}", hex(&s[..s.len().min(96)])));
            if crate::util::quiet_catch(|| constructors(s)).is_err() {
                ctx.fail("panic-in-constructor", None, format!("derive {}", hex(s)), "a From / FromStr / TryFrom / derive / Display call panicked".into());
            }
            if crate::util::quiet_catch(|| crate::orc_e::rare_surface(win, s)).is_err() {
                ctx.fail("panic-in-rarely-used-surface", None, format!("comps {} {}", gen::e(win), hex(s)), "a Debug / IntoIterator / TryFrom / as_path / from_utf8 call panicked".into());
            }
            if let (Ok(st), Ok(sa)) = (std::str::from_utf8(s), std::str::from_utf8(a)) {
                if t_utf8(win, st, sa).iter().any(|l| l == "PANIC") {
                    ctx.fail("panic-utf8", None, format!("comps {} {}", gen::e(win), hex(s)), format!("arg \"{}\"", lossy(a)));
                }
            }
            // iterators end: more steps than bytes is a violation
            let n = if win { WindowsPath::new(s).components().take(s.len() + 2).count() } else { UnixPath::new(s).components().take(s.len() + 2).count() };
            let m = if win { WindowsPath::new(s).ancestors().take(s.len() + 3).count() } else { UnixPath::new(s).ancestors().take(s.len() + 3).count() };
            if n > s.len() || m > s.len() + 1 {
                ctx.fail("iterator-does-not-end", None, format!("comps {} {}", gen::e(win), hex(s)), format!("{} components, {} ancestors from {} bytes", n, m, s.len()));
            }
        }
    }
    // multi-byte characters next to separators and dots: every UTF-8 operation under catch_unwind
    let u8d = gen::utf8_dom(tier, seed);
    let aa: Vec<&str> = vec!["", "x", "é", "a.é"];
    for (i, s) in u8d.iter().enumerate() {
        let st = std::str::from_utf8(s).unwrap();
        crate::util::at(format!("derive {}", hex(&s[..s.len().min(96)])));
            if crate::util::quiet_catch(|| constructors(s)).is_err() {
            ctx.fail("panic-in-constructor", None, format!("derive {}", hex(s)), "a From / FromStr / TryFrom / derive / Display call panicked".into());
        }
        for win in [false, true] {
            let a = aa[(i + win as usize) % aa.len()];
            crate::util::at(format!("setext {} {} {}", gen::e(win), hex(s), hex(a.as_bytes())));
            ctx.case(s.iter().any(|b| *b >= 0x80), (win, s, a, 7u8));
            if t_utf8(win, st, a).iter().any(|l| l == "PANIC") || t_typed8(win, st, a).iter().any(|l| l == "PANIC") {
                ctx.fail("panic-utf8", None, format!("setext {} {} {}", gen::e(win), hex(s), hex(a.as_bytes())), format!("some UTF-8 operation panicked on \"{}\" with argument \"{}\"", st, a));
            }
        }
    }
    ctx.sample("w:dotdot 65536 bytes x every operation".into());
    ctx.sample(format!("comps u {}", hex(b"//././/")));
}

pub fn c19(ctx: &mut Ctx, tier: &str, _seed: u64) {
    use std::borrow::Cow;
    use std::rc::Rc;
    use std::sync::Arc;
    let t = tier_is_thorough(tier);
    let dom = strings_b(b"/a.\\\xc3\xa9\xff\xe2\x82\xac", if t { 5 } else { 4 });
    {
        let mut rd: Vec<Vec<u8>> = dom.clone();
        rd.extend(WIN_SEEDS.iter().map(|x| x.to_vec()));
        rd.extend(dict_win_paths().into_iter().step_by(7));
        for win in [false, true] {
            crate::orc_e::rare_surface_clause(ctx, "rarely-used-surface-agrees", win, &rd);
        }
    }
    // a borrowed path compared with a borrowed sub-slice of itself orders like their owned copies
    for win in [false, true] {
        let mut ad: Vec<Vec<u8>> = dom.iter().take(600).cloned().collect();
        ad.extend(if win { dom_win_small("quick", 1) } else { dom_unix_small("quick", 1) }.into_iter().take(300));
        for a in &ad {
            for (lo, hi) in alias_ranges(win, a) {
                ctx.evals += 1;
                if let Some(d) = cmp_alias_mismatch(win, a, lo, hi) {
                    ctx.fail("wrapping-keeps-comparisons", None, format!("rel {} {} {}", gen::e(win), hex(a), hex(&a[lo..hi])), d);
                }
            }
        }
    }
    // the process-level helpers hand out std's answers, byte for byte, in the native encoding
    #[cfg(all(feature = "std", unix))]
    {
        use std::os::unix::ffi::OsStrExt;
        let pairs: Vec<(&str, Option<Vec<u8>>, Option<Vec<u8>>, Option<Vec<u8>>)> = vec![
            ("current_dir", std::env::current_dir().ok().map(|p| p.as_os_str().as_bytes().to_vec()),
             typed_path::utils::current_dir().ok().map(|p| p.into_vec()), typed_path::utils::utf8_current_dir().ok().map(|p| p.into_string().into_bytes())),
            ("current_exe", std::env::current_exe().ok().map(|p| p.as_os_str().as_bytes().to_vec()),
             typed_path::utils::current_exe().ok().map(|p| p.into_vec()), typed_path::utils::utf8_current_exe().ok().map(|p| p.into_string().into_bytes())),
            ("temp_dir", Some(std::env::temp_dir().as_os_str().as_bytes().to_vec()),
             typed_path::utils::temp_dir().ok().map(|p| p.into_vec()), typed_path::utils::utf8_temp_dir().ok().map(|p| p.into_string().into_bytes())),
        ];
        for (name, want, got, got8) in pairs {
            ctx.evals += 1;
            let want8 = want.clone().filter(|w| std::str::from_utf8(w).is_ok());
            if want != got || want8 != got8 {
                ctx.fail("utils-equal-std-env", None, format!("tx bytes u {} {}", hex(b"."), hex(b"")), format!("{}: std {:?} typed-path {:?} utf8 {:?}", name, want.as_ref().map(|v| lossy(v)), got.as_ref().map(|v| lossy(v)), got8.as_ref().map(|v| lossy(v))));
            }
        }
    }
    {
        use std::borrow::Borrow;
        ctx.evals += 1;
        let e1 = UnixPathBuf::default().into_vec().is_empty() && WindowsPathBuf::default().into_vec().is_empty()
            && Utf8UnixPathBuf::default().into_string().is_empty() && Utf8WindowsPathBuf::default().into_string().is_empty();
        let mut ok = e1;
        for s in dom.iter().take(400) {
            let b = UnixPathBuf::from(s.as_slice());
            let r: &UnixPath = b.borrow();
            let w = WindowsPathBuf::from(s.as_slice());
            let rw: &WindowsPath = w.borrow();
            ok = ok && r.as_bytes() == s.as_slice() && rw.as_bytes() == s.as_slice();
            #[cfg(all(feature = "std", unix))]
            {
                use std::ffi::{OsStr, OsString};
                use std::os::unix::ffi::OsStrExt;
                let os = OsStr::from_bytes(s);
                let osb: OsString = os.to_os_string();
                let valid = std::str::from_utf8(s).is_ok();
                let a: Option<&Utf8UnixPath> = os.try_as_ref();
                let b2: Option<&Utf8WindowsPath> = osb.try_as_ref();
                ok = ok && a.map(|x| x.as_str().as_bytes()) == (if valid { Some(s.as_slice()) } else { None })
                    && b2.map(|x| x.as_str().as_bytes()) == (if valid { Some(s.as_slice()) } else { None });
                if let Ok(st) = std::str::from_utf8(s) {
                    let o: &OsStr = Utf8UnixPath::new(st).as_ref();
                    ok = ok && o.as_bytes() == s.as_slice();
                }
            }
        }
        if !ok {
            ctx.fail("default-borrow-osstr", None, format!("tx bytes u {} {}", hex(b"."), hex(b"")), String::new());
        }
    }
    macro_rules! chains {
        ($ctx:ident, $s:expr, $P:ty, $B:ty, $e:expr) => {{
            let s: &Vec<u8> = $s;
            let p = <$P>::new(s);
            let mut outs: Vec<(&str, Vec<u8>)> = Vec::new();
            outs.push(("Path::new", p.as_bytes().to_vec()));
            outs.push(("to_path_buf", p.to_path_buf().into_vec()));
            outs.push(("PathBuf::from(&[u8])", <$B>::from(s.as_slice()).into_vec()));
            outs.push(("PathBuf::from(Vec)", <$B>::from(s.clone()).into_vec()));
            let bx: Box<$P> = Box::from(p);
            outs.push(("Box<Path>", bx.as_bytes().to_vec()));
            outs.push(("Box::clone", bx.clone().as_bytes().to_vec()));
            outs.push(("into_path_buf", bx.into_path_buf().into_vec()));
            outs.push(("into_boxed_path", p.to_path_buf().into_boxed_path().as_bytes().to_vec()));
            let rc: Rc<$P> = Rc::from(p);
            outs.push(("Rc<Path>", rc.as_bytes().to_vec()));
            let arc: Arc<$P> = Arc::from(p);
            outs.push(("Arc<Path>", arc.as_bytes().to_vec()));
            let rc2: Rc<$P> = Rc::from(p.to_path_buf());
            outs.push(("Rc<Path> from PathBuf", rc2.as_bytes().to_vec()));
            let arc2: Arc<$P> = Arc::from(p.to_path_buf());
            outs.push(("Arc<Path> from PathBuf", arc2.as_bytes().to_vec()));
            let cow: Cow<$P> = Cow::from(p);
            outs.push(("Cow::Borrowed", cow.as_bytes().to_vec()));
            outs.push(("Cow::into_owned", cow.clone().into_owned().into_vec()));
            let cow2: Cow<$P> = Cow::from(p.to_path_buf());
            outs.push(("Cow::Owned", cow2.as_bytes().to_vec()));
            let bx2: Box<$P> = Box::from(cow2.clone());
            outs.push(("Box from Cow", bx2.as_bytes().to_vec()));
            let bx3: Box<$P> = Box::from(cow.clone());
            outs.push(("Box from Cow::Borrowed", bx3.as_bytes().to_vec()));
            outs.push(("PathBuf from Cow", <$B>::from(cow2).into_vec()));
            outs.push(("Vec::from(PathBuf)", Vec::<u8>::from(p.to_path_buf())));
            let r: &[u8] = p.as_ref();
            outs.push(("AsRef<[u8]>", r.to_vec()));
            let r2: &$P = s.as_slice().as_ref();
            outs.push(("AsRef<Path> for [u8]", r2.as_bytes().to_vec()));
            outs.push(("clone", p.to_path_buf().clone().into_vec()));
            let cow_raw = Cow::<[u8]>::Borrowed(s.as_slice());
            let r3: &$P = cow_raw.as_ref();
            outs.push(("AsRef<Path> for Cow<[u8]>", r3.as_bytes().to_vec()));
            let r4: &$P = s.as_ref();
            outs.push(("AsRef<Path> for Vec<u8>", r4.as_bytes().to_vec()));
            let r5: &$P = p.as_ref();
            outs.push(("AsRef<Path> for Path", r5.as_bytes().to_vec()));
            let owned_pb = p.to_path_buf();
            let r6: &$P = owned_pb.as_ref();
            outs.push(("AsRef<Path> for PathBuf", r6.as_bytes().to_vec()));
            let r7: &[u8] = owned_pb.as_ref();
            outs.push(("AsRef<[u8]> for PathBuf", r7.to_vec()));
            let cow3: Cow<$P> = Cow::from(&owned_pb);
            outs.push(("Cow from &PathBuf", cow3.as_bytes().to_vec()));
            outs.push(("PathBuf from Box<Path>", <$B>::from(Box::<$P>::from(p)).into_vec()));
            outs.push(("to_owned", p.to_owned().into_vec()));
            // iterating a reference is `iter()`
            let via_ref: Vec<Vec<u8>> = (&*p).into_iter().map(|c| c.to_vec()).collect();
            let via_ref2: Vec<Vec<u8>> = (&owned_pb).into_iter().map(|c| c.to_vec()).collect();
            let via_iter: Vec<Vec<u8>> = p.iter().map(|c| c.to_vec()).collect();
            if via_ref != via_iter || via_ref2 != via_iter {
                $ctx.fail("into-iter-is-iter", None, format!("comps {} {}", $e, hex(s)), String::new());
            }
            // the iterators and components as byte / path references
            {
                let mut it = p.components();
                let whole: &[u8] = it.as_ref();
                let wholep: &$P = it.as_ref();
                let i2 = p.iter();
                let iw: &[u8] = i2.as_ref();
                let iwp: &$P = i2.as_ref();
                let mut ok = whole == s.as_slice() && wholep.as_bytes() == s.as_slice() && iw == s.as_slice() && iwp.as_bytes() == s.as_slice();
                if let Some(c) = it.next() {
                    let cb: &[u8] = c.as_ref();
                    let cp: &$P = c.as_ref();
                    ok = ok && cb == c.as_bytes() && cp.as_bytes() == c.as_bytes();
                    let rest: &[u8] = it.as_ref();
                    ok = ok && rest == it.as_bytes();
                }
                if !ok {
                    $ctx.fail("iterator-asref", None, format!("comps {} {}", $e, hex(s)), String::new());
                }
            }
            if let Ok(st) = std::str::from_utf8(s) {
                let r8: &$P = st.as_ref();
                outs.push(("AsRef<Path> for str", r8.as_bytes().to_vec()));
                let owned_st = st.to_string();
                let r9: &$P = owned_st.as_ref();
                outs.push(("AsRef<Path> for String", r9.as_bytes().to_vec()));
                outs.push(("PathBuf::from(String)", <$B>::from(st.to_string()).into_vec()));
                outs.push(("FromStr", st.parse::<$B>().unwrap().into_vec()));
                outs.push(("PathBuf::from(&str)", <$B>::from(st).into_vec()));
            }
            for (name, o) in &outs {
                $ctx.evals += 1;
                if o != s {
                    $ctx.fail("conversion-keeps-bytes", None, format!("comps {} {}", $e, hex(s)), format!("{} -> \"{}\"", name, lossy(o)));
                }
            }
            // cloning / converting never changes equality, ordering or hash
            let pb = p.to_path_buf();
            if pb.as_path() != p || pb.cmp(&p.to_path_buf()) != std::cmp::Ordering::Equal || hash_chunks(&pb) != hash_chunks(p) || hash_chunks(&*rc) != hash_chunks(p) || &*arc != p {
                $ctx.fail("conversion-keeps-eq-ord-hash", None, format!("hash {} {}", $e, hex(s)), String::new());
            }
            // to_str / lossy / Display
            let valid = std::str::from_utf8(s).ok();
            if p.to_str() != valid {
                $ctx.fail("to_str-iff-valid-utf8", None, format!("comps {} {}", $e, hex(s)), format!("{:?}", p.to_str()));
            }
            let lossy_std = String::from_utf8_lossy(s);
            if p.to_string_lossy() != lossy_std || format!("{}", p.display()) != lossy_std || format!("{}", p) != lossy_std || format!("{}", pb.display()) != lossy_std {
                $ctx.fail("lossy-display-equals-std-lossy", None, format!("comps {} {}", $e, hex(s)), format!("\"{}\" vs \"{}\"", p.to_string_lossy(), lossy_std));
            }
        }};
    }
    // wrapping a raw value as a path never changes how it compares: raw-vs-path (either side) = path-vs-path
    {
        let mut rng = Rng::new(0xc19b);
        let pool: Vec<Vec<u8>> = {
            let mut v: Vec<Vec<u8>> = dom.iter().filter(|s| !s.is_empty()).step_by(11).cloned().collect();
            for x in [&b"foo/bar"[..], b"foo.txt", b"a//b/.", b"a/b", b"-rf", b"/usr", b"c:/x/y", br"C:\x\y", b"a.b", b"a/b/"] {
                v.push(x.to_vec());
            }
            v
        };
        for a in &pool {
            let mut others = gen::respell(a, false, &mut rng);
            others.push(rng.pick(&pool).clone());
            others.push(rng.pick(&pool).clone());
            for b in &others {
                ctx.evals += 1;
                macro_rules! raw_vs {
                    ($P:ty, $B:ty, $ra:expr, $rb:expr, $raw:ty) => {{
                        let (ra, rb): (&$raw, &$raw) = ($ra, $rb);
                        let (pa, pb): (&$P, &$P) = (<$P>::new(ra), <$P>::new(rb));
                        let (xa, xb): ($B, $B) = (pa.to_path_buf(), pb.to_path_buf());
                        let (eq, ord) = (pa == pb, pa.partial_cmp(pb));
                        let rev = ord.map(|o| o.reverse());
                        (*pa == *rb) == eq && (*rb == *pa) == eq && (xa == *rb) == eq && (*rb == xa) == eq
                            && PartialOrd::partial_cmp(pa, rb) == ord && PartialOrd::partial_cmp(rb, pa) == rev
                            && PartialOrd::partial_cmp(&xa, rb) == ord && PartialOrd::partial_cmp(rb, &xa) == rev
                            && PartialOrd::partial_cmp(ra, pb) == ord && PartialOrd::partial_cmp(ra, &xb) == ord
                            // … nor does moving both sides into an owned, boxed, counted or copy-on-write value
                            && PartialOrd::partial_cmp(&xa, &xb) == ord && (xa == xb) == eq && Some(Ord::cmp(&xa, &xb)) == ord && Some(Ord::cmp(pa, pb)) == ord
                            && PartialOrd::partial_cmp(&Box::<$P>::from(pa), &Box::<$P>::from(pb)) == ord
                            && PartialOrd::partial_cmp(&Rc::<$P>::from(pa), &Rc::<$P>::from(pb)) == ord
                            && PartialOrd::partial_cmp(&Arc::<$P>::from(pa), &Arc::<$P>::from(pb)) == ord
                            && PartialOrd::partial_cmp(&Cow::Borrowed(pa), &Cow::<$P>::Owned(xb.clone())) == ord
                            && (Box::<$P>::from(pa) == Box::<$P>::from(pb)) == eq
                    }};
                }
                let mut ok = raw_vs!(UnixPath, UnixPathBuf, a.as_slice(), b.as_slice(), [u8]) && raw_vs!(WindowsPath, WindowsPathBuf, a.as_slice(), b.as_slice(), [u8]);
                if let (Ok(sa), Ok(sb)) = (std::str::from_utf8(a), std::str::from_utf8(b)) {
                    ok = ok && raw_vs!(Utf8UnixPath, Utf8UnixPathBuf, sa, sb, str) && raw_vs!(Utf8WindowsPath, Utf8WindowsPathBuf, sa, sb, str);
                }
                if !ok {
                    ctx.fail("wrapping-keeps-comparisons", None, format!("rel u {} {}", hex(a), hex(b)), String::new());
                }
            }
        }
    }
    // cloning INTO an existing value (clone_into / clone_from, also through Cow) overwrites it with exactly the
    // source's bytes, whatever the target held before: in particular an equal path spelled differently
    {
        let mut rng = Rng::new(0xc19);
        let mut pool: Vec<Vec<u8>> = dom.iter().filter(|s| s.len() >= 2).step_by(7).cloned().collect();
        for x in [&b"a//b/./c/"[..], b"a/b/c", br"C:/users\.\me", br"c:\users\me", b"/", b"//", b"", b"a/", "é/./é".as_bytes(), "é/é".as_bytes()] {
            pool.push(x.to_vec());
        }
        macro_rules! into_checks {
            ($P:ty, $B:ty, $src:expr, $tgt:expr, $bytes:expr) => {{
                let (src, tgt): (&$P, &$P) = ($src, $tgt);
                let want: Vec<u8> = $bytes;
                let mut b1: $B = tgt.to_path_buf();
                src.clone_into(&mut b1);
                let mut b2: $B = tgt.to_path_buf();
                b2.clone_from(&src.to_path_buf());
                let mut c1: Cow<$P> = Cow::Owned(tgt.to_path_buf());
                c1.clone_from(&Cow::Owned(src.to_path_buf()));
                let mut c2: Cow<$P> = Cow::Owned(tgt.to_path_buf());
                c2.clone_from(&Cow::Borrowed(src));
                let mut bx: Box<$P> = Box::from(tgt);
                bx.clone_from(&Box::from(src));
                b1.tob() == want && b2.tob() == want && c1.tob() == want && c2.tob() == want && bx.tob() == want
            }};
        }
        for a in &pool {
            let mut targets = gen::respell(a, false, &mut rng);
            targets.extend(gen::respell(a, true, &mut rng));
            targets.push(rng.pick(&pool).clone());
            for t2 in &targets {
                ctx.evals += 1;
                let mut ok = into_checks!(UnixPath, UnixPathBuf, UnixPath::new(a), UnixPath::new(t2), a.clone())
                    && into_checks!(WindowsPath, WindowsPathBuf, WindowsPath::new(a), WindowsPath::new(t2), a.clone());
                let (mut tb1, mut tb2) = (TypedPathBuf::from_unix(t2), TypedPathBuf::from_windows(t2));
                tb1.clone_from(&TypedPathBuf::from_unix(a));
                tb2.clone_from(&TypedPathBuf::from_windows(a));
                ok = ok && tb1.as_bytes() == a.as_slice() && tb1.is_unix() && tb2.as_bytes() == a.as_slice() && tb2.is_windows();
                if let (Ok(sa), Ok(st)) = (std::str::from_utf8(a), std::str::from_utf8(t2)) {
                    ok = ok && into_checks!(Utf8UnixPath, Utf8UnixPathBuf, Utf8UnixPath::new(sa), Utf8UnixPath::new(st), a.clone())
                        && into_checks!(Utf8WindowsPath, Utf8WindowsPathBuf, Utf8WindowsPath::new(sa), Utf8WindowsPath::new(st), a.clone());
                    let (mut ub1, mut ub2) = (Utf8TypedPathBuf::from_unix(st), Utf8TypedPathBuf::from_windows(st));
                    ub1.clone_from(&Utf8TypedPathBuf::from_unix(sa));
                    ub2.clone_from(&Utf8TypedPathBuf::from_windows(sa));
                    ok = ok && ub1.as_str() == sa && ub1.is_unix() && ub2.as_str() == sa && ub2.is_windows();
                }
                if !ok {
                    ctx.fail("clone-into-overwrites-exactly", None, format!("rel u {} {}", hex(a), hex(t2)), format!("source \"{}\" into a value holding \"{}\"", lossy(a), lossy(t2)));
                }
            }
        }
    }
    for s in &dom {
        crate::util::at(format!("comps w {}", hex(s)));
        ctx.case(s.iter().any(|b| *b >= 0x80), s);
        ctx.tally(if std::str::from_utf8(s).is_ok() { "valid-utf8" } else { "invalid-utf8" });
        chains!(ctx, s, UnixPath, UnixPathBuf, "u");
        chains!(ctx, s, WindowsPath, WindowsPathBuf, "w");
        // UTF-8 twins
        if let Ok(st) = std::str::from_utf8(s) {
            let p = Utf8UnixPath::new(st);
            let outs: Vec<(&str, String)> = vec![
                ("to_path_buf", p.to_path_buf().into_string()),
                ("Box", Box::<Utf8UnixPath>::from(p).as_str().to_string()),
                ("Rc", Rc::<Utf8UnixPath>::from(p).as_str().to_string()),
                ("Arc", Arc::<Utf8UnixPath>::from(p).as_str().to_string()),
                ("Cow", Cow::<Utf8UnixPath>::from(p).into_owned().into_string()),
                ("From<String>", Utf8UnixPathBuf::from(st.to_string()).into_string()),
                ("FromStr", st.parse::<Utf8UnixPathBuf>().unwrap().into_string()),
                ("into_boxed_path", p.to_path_buf().into_boxed_path().into_path_buf().into_string()),
                ("From<&str>", Utf8UnixPathBuf::from(st).into_string()),
                ("Rc from PathBuf", Rc::<Utf8UnixPath>::from(p.to_path_buf()).as_str().to_string()),
                ("Arc from PathBuf", Arc::<Utf8UnixPath>::from(p.to_path_buf()).as_str().to_string()),
                ("Box from PathBuf", Box::<Utf8UnixPath>::from(p.to_path_buf()).as_str().to_string()),
                ("Box from Cow", Box::<Utf8UnixPath>::from(Cow::<Utf8UnixPath>::from(p.to_path_buf())).as_str().to_string()),
                ("Box from Cow::Borrowed", Box::<Utf8UnixPath>::from(Cow::<Utf8UnixPath>::from(p)).as_str().to_string()),
                ("Cow from PathBuf", Cow::<Utf8UnixPath>::from(p.to_path_buf()).as_str().to_string()),
                ("Cow from &PathBuf", Cow::<Utf8UnixPath>::from(&p.to_path_buf()).as_str().to_string()),
                ("PathBuf from Cow", Utf8UnixPathBuf::from(Cow::<Utf8UnixPath>::from(p)).into_string()),
                ("PathBuf from Box", Utf8UnixPathBuf::from(Box::<Utf8UnixPath>::from(p)).into_string()),
                ("String from PathBuf", String::from(p.to_path_buf())),
                ("AsRef<str>", { let r: &str = p.as_ref(); r.to_string() }),
                ("AsRef<[u8]>", { let r: &[u8] = p.as_ref(); String::from_utf8_lossy(r).into_owned() }),
                ("AsRef<Utf8Path> for str", { let r: &Utf8WindowsPath = st.as_ref(); r.as_str().to_string() }),
                ("AsRef<Utf8Path> for String", { let o = st.to_string(); let r: &Utf8UnixPath = o.as_ref(); r.as_str().to_string() }),
                ("AsRef<Utf8Path> for Cow<str>", { let c = Cow::<str>::Borrowed(st); let r: &Utf8UnixPath = c.as_ref(); r.as_str().to_string() }),
                ("AsRef<Utf8Path> for PathBuf", { let o = p.to_path_buf(); let r: &Utf8UnixPath = o.as_ref(); r.as_str().to_string() }),
                ("AsRef<str> for PathBuf", { let o = p.to_path_buf(); let r: &str = o.as_ref(); r.to_string() }),
                ("AsRef<[u8]> for PathBuf", { let o = p.to_path_buf(); let r: &[u8] = o.as_ref(); String::from_utf8_lossy(r).into_owned() }),
                ("iter AsRef<str>", { let i = p.iter(); let r: &str = i.as_ref(); r.to_string() }),
                ("iter AsRef<[u8]>", { let i = p.iter(); let r: &[u8] = i.as_ref(); String::from_utf8_lossy(r).into_owned() }),
                ("iter AsRef<Utf8Path>", { let i = p.iter(); let r: &Utf8UnixPath = i.as_ref(); r.as_str().to_string() }),
                ("components AsRef<str>", { let i = p.components(); let r: &str = i.as_ref(); r.to_string() }),
                ("components AsRef<[u8]>", { let i = p.components(); let r: &[u8] = i.as_ref(); String::from_utf8_lossy(r).into_owned() }),
                ("components AsRef<Utf8Path>", { let i = p.components(); let r: &Utf8UnixPath = i.as_ref(); r.as_str().to_string() }),
                ("windows components AsRef<str>", { let i = Utf8WindowsPath::new(st).components(); let r: &str = i.as_ref(); r.to_string() }),
                ("windows components AsRef<Utf8Path>", { let i = Utf8WindowsPath::new(st).components(); let r: &Utf8WindowsPath = i.as_ref(); r.as_str().to_string() }),
                ("typed AsRef<str>", { let t = Utf8TypedPath::derive(st); let r: &str = t.as_ref(); r.to_string() }),
                ("typed buf AsRef<str>", { let t = Utf8TypedPathBuf::from(st); let r: &str = t.as_ref(); r.to_string() }),
                ("typed buf AsRef<[u8]>", { let t = Utf8TypedPathBuf::from(st); let r: &[u8] = t.as_ref(); String::from_utf8_lossy(r).into_owned() }),
                ("typed AsRef<[u8]> (bytes)", { let t = TypedPath::derive(s.as_slice()); let r: &[u8] = t.as_ref(); String::from_utf8_lossy(r).into_owned() }),
                ("typed buf AsRef<[u8]> (bytes)", { let t = TypedPathBuf::from(s.as_slice()); let r: &[u8] = t.as_ref(); String::from_utf8_lossy(r).into_owned() }),
                ("typed iter AsRef<[u8]>", { let t = TypedPath::derive(s.as_slice()); let i = t.iter(); let r: &[u8] = i.as_ref(); String::from_utf8_lossy(r).into_owned() }),
                ("typed components AsRef<[u8]>", { let t = TypedPath::derive(s.as_slice()); let i = t.components(); let r: &[u8] = i.as_ref(); String::from_utf8_lossy(r).into_owned() }),
                ("utf8 typed iter AsRef<str>", { let t = Utf8TypedPath::derive(st); let i = t.iter(); let r: &str = i.as_ref(); r.to_string() }),
                ("utf8 typed components AsRef<str>", { let t = Utf8TypedPath::derive(st); let i = t.components(); let r: &str = i.as_ref(); r.to_string() }),
            ];
            // single components as references
            for c in p.components() {
                let a: &str = c.as_ref();
                let b: &[u8] = c.as_ref();
                let d: &Utf8UnixPath = c.as_ref();
                if a != c.as_str() || b != c.as_str().as_bytes() || d.as_str() != c.as_str() {
                    ctx.fail("utf8-conversion-keeps-bytes", None, format!("comps u {}", hex(s)), "component AsRef".into());
                }
            }
            for c in Utf8WindowsPath::new(st).components() {
                let a: &str = c.as_ref();
                let b: &[u8] = c.as_ref();
                let d: &Utf8WindowsPath = c.as_ref();
                if a != c.as_str() || b != c.as_str().as_bytes() || d.as_str() != c.as_str() {
                    ctx.fail("utf8-conversion-keeps-bytes", None, format!("comps w {}", hex(s)), "component AsRef".into());
                }
            }
            for c in Utf8TypedPath::derive(st).components() {
                let a: &str = c.as_ref();
                let b: &[u8] = c.as_ref();
                if a != c.as_str() || b != c.as_str().as_bytes() {
                    ctx.fail("utf8-conversion-keeps-bytes", None, format!("comps u {}", hex(s)), "typed component AsRef".into());
                }
            }
            for c in TypedPath::derive(s.as_slice()).components() {
                let b: &[u8] = c.as_ref();
                if b != c.as_bytes() {
                    ctx.fail("conversion-keeps-bytes", None, format!("comps u {}", hex(s)), "typed component AsRef".into());
                }
            }
            for (name, o) in &outs {
                ctx.evals += 1;
                if o != st {
                    ctx.fail("utf8-conversion-keeps-bytes", None, format!("comps u {}", hex(s)), format!("{} -> \"{}\"", name, o));
                }
            }
            if format!("{}", p) != st || p.as_str() != st {
                ctx.fail("utf8-display", None, format!("comps u {}", hex(s)), String::new());
            }
        }
        #[cfg(feature = "std")]
        {
            use std::ffi::{OsStr, OsString};
            use std::os::unix::ffi::{OsStrExt, OsStringExt};
            // OsStr / std::path conversions (Unix host: NativePath = UnixPath)
            let os = OsStr::from_bytes(s);
            let valid = std::str::from_utf8(s).is_ok();
            let np: &UnixPath = os.as_ref();
            let back: &OsStr = np.as_ref();
            let osb: OsString = OsString::from(np.to_path_buf());
            let np2: &UnixPath = osb.as_ref();
            let owned = np.to_path_buf();
            let back2: &OsStr = owned.as_ref();
            if back2.as_bytes() != s.as_slice() {
                ctx.fail("std-path-conversion-keeps-bytes", None, format!("comps u {}", hex(s)), "PathBuf as OsStr".into());
            }
            let b = std::path::PathBuf::try_from(np.to_path_buf());
            let d = UnixPathBuf::try_from(std::path::PathBuf::from(os));
            ctx.evals += 4;
            let ok = np.as_bytes() == s.as_slice()
                && back.as_bytes() == s.as_slice()
                && osb.as_bytes() == s.as_slice()
                && np2.as_bytes() == s.as_slice()
                && match &b { Ok(x) => valid && x.as_os_str().as_bytes() == s.as_slice(), Err(orig) => !valid && orig.as_bytes() == s.as_slice() }
                && match &d { Ok(x) => valid && x.as_bytes() == s.as_slice(), Err(orig) => !valid && orig.as_os_str().as_bytes() == s.as_slice() };
            if !ok {
                ctx.fail("std-path-conversion-keeps-bytes", None, format!("comps u {}", hex(s)), String::new());
            }
            let from_os = UnixPathBuf::from(OsString::from_vec(s.clone()).into_vec());
            if from_os.as_bytes() != s.as_slice() {
                ctx.fail("osstring-conversion-keeps-bytes", None, format!("comps u {}", hex(s)), String::new());
            }
            // single components <-> std::path::Component (Unix host), and into the UTF-8 component
            let std_cs: Vec<std::path::Component> = std::path::Path::new(os).components().collect();
            for (i, c) in UnixPath::new(s).components().enumerate() {
                ctx.evals += 1;
                let cvalid = std::str::from_utf8(c.as_bytes()).is_ok();
                let to_std = std::path::Component::try_from(c);
                // both directions go through `str`: Ok exactly for valid UTF-8, the original handed back otherwise
                let back = std_cs.get(i).map(|sc| UnixComponent::try_from(*sc));
                let to_u8 = Utf8UnixComponent::try_from(c);
                let ok = match (&to_std, std_cs.get(i)) {
                    (Ok(x), Some(y)) => cvalid && x == y,
                    (Err(orig), _) => !cvalid && *orig == c,
                    _ => false,
                } && match (&back, std_cs.get(i)) {
                    (Some(Ok(x)), _) => cvalid && *x == c,
                    (Some(Err(orig)), Some(sc)) => !cvalid && orig == sc,
                    _ => false,
                }
                    && match &to_u8 { Ok(u) => cvalid && u.as_str().as_bytes() == c.as_bytes(), Err(_) => !cvalid };
                if !ok {
                    ctx.fail("std-component-conversion", None, format!("comps u {}", hex(s)), format!("component {} -> {:?}", i, to_std));
                }
            }
            if let Ok(st) = std::str::from_utf8(s) {
                // UTF-8 owned forms as OsStr / OsString, and the UTF-8 platform path as a std path
                let ub = Utf8UnixPathBuf::from(st);
                let a: &OsStr = ub.as_ref();
                let o: OsString = OsString::from(ub.clone());
                let pp = Utf8PlatformPath::new(st);
                let sp1: &std::path::Path = pp.as_ref();
                let pb = pp.to_path_buf();
                let sp2: &std::path::Path = pb.as_ref();
                let sp3: std::path::PathBuf = std::path::PathBuf::from(pb.clone());
                ctx.evals += 1;
                if a.as_bytes() != s.as_slice() || o.as_bytes() != s.as_slice() || sp1.as_os_str().as_bytes() != s.as_slice()
                    || sp2.as_os_str().as_bytes() != s.as_slice() || sp3.as_os_str().as_bytes() != s.as_slice() {
                    ctx.fail("std-path-conversion-keeps-bytes", None, format!("comps u {}", hex(s)), "UTF-8 owned / platform forms".into());
                }
            }
        }
        // Display of the UTF-8 components, typed components and owned UTF-8 paths is their text
        if let Ok(st) = std::str::from_utf8(s) {
            ctx.evals += 1;
            let mut ok = format!("{}", Utf8UnixPathBuf::from(st)) == st && format!("{}", Utf8TypedPath::derive(st)) == st && format!("{}", Utf8TypedPathBuf::from(st)) == st;
            for c in Utf8UnixPath::new(st).components() {
                ok = ok && format!("{}", c) == c.as_str();
            }
            for c in Utf8WindowsPath::new(st).components() {
                ok = ok && format!("{}", c) == c.as_str();
            }
            for c in Utf8TypedPath::derive(st).components() {
                ok = ok && format!("{}", c) == c.as_str();
            }
            if !ok {
                ctx.fail("utf8-display", None, format!("comps u {}", hex(s)), "component / owned Display".into());
            }
        }
    }
    {
        ctx.evals += 1;
        let labels = [format!("{}", UnixEncoding), format!("{}", WindowsEncoding), format!("{}", Utf8UnixEncoding), format!("{}", Utf8WindowsEncoding), format!("{}", PlatformEncoding), format!("{}", Utf8PlatformEncoding)];
        let errs = [format!("{}", CheckedPathError::InvalidFilename), format!("{}", CheckedPathError::PathTraversalAttack), format!("{}", CheckedPathError::UnexpectedPrefix), format!("{}", CheckedPathError::UnexpectedRoot), format!("{}", UnixPath::new("a").strip_prefix("b").unwrap_err())];
        let distinct = |v: &[String]| v.iter().all(|x| !x.is_empty()) && (0..v.len()).all(|i| (0..i).all(|j| v[i] != v[j]));
        if !distinct(&labels[..4]) || labels[4].is_empty() || labels[5].is_empty() || !distinct(&errs) {
            ctx.fail("labels-and-error-messages", None, format!("comps u {}", hex(b"a")), format!("{:?} {:?}", labels, errs));
        }
    }
    ctx.sample(format!("comps u {}", hex(b"/a\xff")));
    ctx.sample(format!("hash w {}", hex("a\\é".as_bytes())));
}
