//! The RARELY TRAVELLED SURFACE: functions of the crate that no other clause executed (found by running
//! the whole harness under `-C instrument-coverage`, `tools/coverage.sh`): the `Debug` impls of the
//! iterators and encodings, `IntoIterator` for references, the constructors that take a `PathType`, the
//! `TryFrom` impls that unwrap a typed buffer, `as_path` of a component, `AsRef<[u8]>` of the UTF-8
//! iterators, the std-component conversions of the Windows component, the comparison / hash impls of the
//! prefix component, the `from_utf8` constructors.  Each is compared with the obvious definition in terms
//! of functions that the other clauses do check.  `rare_surface` returns the first mismatch.

use crate::ops::hash_chunks;
use crate::util::*;
use typed_path::*;

fn list_tail<T: std::fmt::Debug>(dbg: &str, items: &[T]) -> bool {
    // `debug_tuple(NAME).field(&LIST)`: the text ends with "(" LIST ")"
    dbg.ends_with(&format!("({:?})", items))
}

pub fn rare_surface(win: bool, s: &[u8]) -> Option<String> {
    macro_rules! bad {
        ($($a:tt)*) => {
            return Some(format!($($a)*))
        };
    }
    // ---- byte family -----------------------------------------------------------------------------
    macro_rules! bytes_family {
        ($P:ty, $B:ty, $C:ty) => {{
            let p = <$P>::new(s);
            let items: Vec<&[u8]> = p.iter().collect();
            if !list_tail(&format!("{:?}", p.iter()), &items) {
                bad!("Debug of Iter: {:?}", p.iter());
            }
            let mut it = p.iter();
            it.next();
            // (a partly consumed iterator prints its remaining BYTES re-read as a path — under `\\?\` a name
            // `/` then shows as a root; only "does not panic" is asked of it)
            let _ = format!("{:?}", it);
            let comps: Vec<$C> = p.components().collect();
            if !list_tail(&format!("{:?}", p.components()), &comps) {
                bad!("Debug of Components: {:?}", p.components());
            }
            if format!("{:?}", p.display()) != format!("{:?}", p) {
                bad!("Debug of Display differs from Debug of the path");
            }
            let b: $B = p.to_path_buf();
            let via_ref: Vec<&[u8]> = (&b).into_iter().collect();
            let via_ref2: Vec<&[u8]> = p.into_iter().collect();
            if via_ref != items || via_ref2 != items {
                bad!("IntoIterator for a reference");
            }
            for c in &comps {
                let cp: &$P = c.as_path();
                if cp.as_bytes() != c.as_bytes() {
                    bad!("Component::as_path keeps the bytes");
                }
            }
        }};
    }
    if win {
        bytes_family!(WindowsPath, WindowsPathBuf, WindowsComponent);
    } else {
        bytes_family!(UnixPath, UnixPathBuf, UnixComponent);
    }
    // ---- typed family ----------------------------------------------------------------------------
    let ty = || if win { PathType::Windows } else { PathType::Unix };
    let tp = TypedPath::new(s, ty());
    let tp2 = if win { TypedPath::windows(s) } else { TypedPath::unix(s) };
    if tp != tp2 || tp.is_windows() != win || tp.is_unix() == win || tp.as_bytes() != s {
        bad!("TypedPath::new(_, PathType) is the variant constructor");
    }
    let tcomps: Vec<TypedComponent> = tp.components().collect();
    if !list_tail(&format!("{:?}", tp.components()), &tcomps) {
        bad!("Debug of TypedComponents: {:?}", tp.components());
    }
    let titems: Vec<&[u8]> = tp.iter().collect();
    if !list_tail(&format!("{:?}", tp.iter()), &titems) {
        bad!("Debug of TypedIter: {:?}", tp.iter());
    }
    for (e, want_win) in [(TypedPathBuf::new(ty()), win), (TypedPathBuf::unix(), false), (TypedPathBuf::windows(), true)] {
        if !e.as_bytes().is_empty() || e.is_windows() != want_win || e.is_unix() == want_win {
            bad!("empty typed buffer constructors");
        }
    }
    let tb = tp.to_path_buf();
    if tb.to_str() != std::str::from_utf8(s).ok() || tb.to_string_lossy() != String::from_utf8_lossy(s) {
        bad!("TypedPathBuf::to_str / to_string_lossy");
    }
    #[cfg(feature = "std")]
    {
        use std::os::unix::ffi::OsStrExt;
        match std::path::PathBuf::try_from(tb.clone()) {
            Ok(pb) => {
                if win || pb.as_os_str().as_bytes() != s {
                    bad!("TryFrom<TypedPathBuf> for std PathBuf: Ok({:?})", pb);
                }
            }
            // (the crate converts through `&str`: a native path that is not UTF-8 comes back unchanged)
            Err(back) => {
                if !(win || std::str::from_utf8(s).is_err()) || back != tb {
                    bad!("TryFrom<TypedPathBuf> for std PathBuf: Err on a native UTF-8 path / payload changed");
                }
            }
        }
    }
    // ---- Windows components <-> std components, prefix component comparisons ----------------------
    if win {
        let p = WindowsPath::new(s);
        for c in p.components() {
            #[cfg(feature = "std")]
            {
                let r = std::path::Component::try_from(c);
                match (&c, &r) {
                    (WindowsComponent::Prefix(_), Err(_)) => {}
                    (WindowsComponent::RootDir, Ok(std::path::Component::RootDir)) => {}
                    (WindowsComponent::CurDir, Ok(std::path::Component::CurDir)) => {}
                    (WindowsComponent::ParentDir, Ok(std::path::Component::ParentDir)) => {}
                    (WindowsComponent::Normal(n), Ok(std::path::Component::Normal(o))) => {
                        use std::os::unix::ffi::OsStrExt;
                        if o.as_bytes() != *n {
                            bad!("std Component from a Windows component changed the name");
                        }
                    }
                    // a name that is not UTF-8 cannot become an OsStr through &str: refusal is accepted
                    (WindowsComponent::Normal(n), Err(_)) if std::str::from_utf8(n).is_err() => {}
                    _ => bad!("std Component from WindowsComponent {:?}: {:?}", c, r),
                }
            }
            let u = Utf8WindowsComponent::from_utf8(&c);
            match (std::str::from_utf8(c.as_bytes()), u) {
                (Ok(t), Ok(u)) => {
                    if u.as_str() != t {
                        bad!("Utf8WindowsComponent::from_utf8 changed the text");
                    }
                    let up: &Utf8WindowsPath = u.as_path();
                    if up.as_str() != t {
                        bad!("Utf8WindowsComponent::as_path keeps the text");
                    }
                }
                (Err(_), Err(_)) => {}
                _ => bad!("Utf8WindowsComponent::from_utf8 succeeds exactly on UTF-8"),
            }
        }
        #[cfg(feature = "std")]
        {
            use std::os::unix::ffi::OsStrExt;
            for sc in std::path::Path::new(std::ffi::OsStr::from_bytes(s)).components() {
                let r = WindowsComponent::try_from(sc);
                let ok = match (&sc, &r) {
                    (std::path::Component::RootDir, Ok(WindowsComponent::RootDir)) => true,
                    (std::path::Component::CurDir, Ok(WindowsComponent::CurDir)) => true,
                    (std::path::Component::ParentDir, Ok(WindowsComponent::ParentDir)) => true,
                    (std::path::Component::Normal(o), Ok(WindowsComponent::Normal(n))) => o.as_bytes() == *n,
                    (std::path::Component::Normal(o), Err(_)) => std::str::from_utf8(o.as_bytes()).is_err(),
                    _ => false,
                };
                if !ok {
                    bad!("WindowsComponent from std Component {:?}: {:?}", sc, r);
                }
            }
        }
        let c = p.components();
        if let Some(pc) = c.prefix() {
            let oc = WindowsPath::new(br"\\?\pics").components();
            let other = oc.prefix().unwrap();
            for q in [pc, other] {
                let want = pc.kind().cmp(&q.kind());
                if pc.partial_cmp(&q) != Some(want) || pc.cmp(&q) != want || (pc == q) != (want == std::cmp::Ordering::Equal) {
                    bad!("WindowsPrefixComponent comparisons are those of the kinds");
                }
            }
            if hash_chunks(&pc) != hash_chunks(&pc.kind()) {
                bad!("WindowsPrefixComponent hashes as its kind");
            }
            let uk = Utf8WindowsPrefix::from_utf8(&pc.kind());
            let upc = Utf8WindowsPrefixComponent::from_utf8(&pc);
            match (std::str::from_utf8(pc.as_bytes()), upc, uk) {
                (Ok(t), Ok(u), Ok(k)) => {
                    if u.as_str() != t || u.len() != t.len() || u.kind() != k || u.kind().len() != pc.kind().len() {
                        bad!("Utf8WindowsPrefixComponent::from_utf8 / len / kind");
                    }
                    let uoc = Utf8WindowsPath::new(r"\\?\pics").components();
                    let uother = uoc.prefix().unwrap();
                    for q in [u, uother] {
                        let want = u.kind().cmp(&q.kind());
                        if u.partial_cmp(&q) != Some(want) || u.cmp(&q) != want || (u == q) != (want == std::cmp::Ordering::Equal) {
                            bad!("Utf8WindowsPrefixComponent comparisons are those of the kinds");
                        }
                    }
                    if hash_chunks(&u) != hash_chunks(&u.kind()) {
                        bad!("Utf8WindowsPrefixComponent hashes as its kind");
                    }
                }
                (Err(_), Err(_), _) => {}
                // the raw text may be UTF-8 while … no: the payloads are sub-slices of the raw text
                _ => bad!("from_utf8 of a prefix component succeeds exactly on UTF-8"),
            }
        }
    }
    // ---- UTF-8 families --------------------------------------------------------------------------
    if let Ok(st) = std::str::from_utf8(s) {
        macro_rules! utf8_family {
            ($P:ty, $B:ty, $C:ty) => {{
                let p = <$P>::new(st);
                let items: Vec<&str> = p.iter().collect();
                if !list_tail(&format!("{:?}", p.iter()), &items) {
                    bad!("Debug of Utf8Iter: {:?}", p.iter());
                }
                let comps: Vec<$C> = p.components().collect();
                if !list_tail(&format!("{:?}", p.components()), &comps) {
                    bad!("Debug of Utf8Components: {:?}", p.components());
                }
                let b: $B = p.to_path_buf();
                let v1: Vec<&str> = (&b).into_iter().collect();
                let v2: Vec<&str> = p.into_iter().collect();
                if v1 != items || v2 != items {
                    bad!("IntoIterator for a UTF-8 reference");
                }
                let mut c = p.components();
                c.next();
                let as_b: &[u8] = c.as_ref();
                if as_b != c.as_str().as_bytes() {
                    bad!("AsRef<[u8]> for the UTF-8 components iterator");
                }
                for c in &comps {
                    let cp: &$P = c.as_path();
                    if cp.as_str() != c.as_str() {
                        bad!("Utf8Component::as_path keeps the text");
                    }
                }
            }};
        }
        if win {
            utf8_family!(Utf8WindowsPath, Utf8WindowsPathBuf, Utf8WindowsComponent);
        } else {
            utf8_family!(Utf8UnixPath, Utf8UnixPathBuf, Utf8UnixComponent);
        }
        let up = Utf8TypedPath::new(st, ty());
        let up2 = if win { Utf8TypedPath::windows(st) } else { Utf8TypedPath::unix(st) };
        if up != up2 || up.is_windows() != win || up.is_unix() == win || up.as_str() != st {
            bad!("Utf8TypedPath::new(_, PathType) is the variant constructor");
        }
        let ucomps: Vec<Utf8TypedComponent> = up.components().collect();
        if !list_tail(&format!("{:?}", up.components()), &ucomps) {
            bad!("Debug of Utf8TypedComponents: {:?}", up.components());
        }
        let uitems: Vec<&str> = up.iter().collect();
        if !list_tail(&format!("{:?}", up.iter()), &uitems) {
            bad!("Debug of Utf8TypedIter: {:?}", up.iter());
        }
        let mut uc = up.components();
        uc.next();
        let a1: &[u8] = uc.as_ref();
        let a2: &str = uc.as_ref();
        let mut ui = up.iter();
        ui.next_back();
        let a3: &[u8] = ui.as_ref();
        let a4: &str = ui.as_ref();
        if a1 != a2.as_bytes() || a3 != a4.as_bytes() || a2 != uc.to_path().as_str() || a4 != ui.to_path().as_str() {
            bad!("AsRef of the typed UTF-8 iterators");
        }
        for (e, want_win) in [(Utf8TypedPathBuf::new(ty()), win), (Utf8TypedPathBuf::unix(), false), (Utf8TypedPathBuf::windows(), true)] {
            if !e.as_str().is_empty() || e.is_windows() != want_win || e.is_unix() == want_win {
                bad!("empty UTF-8 typed buffer constructors");
            }
        }
        let ub = up.to_path_buf();
        match (Utf8UnixPathBuf::try_from(ub.clone()), Utf8WindowsPathBuf::try_from(ub.clone())) {
            (Ok(x), Err(back)) if !win => {
                if x.as_str() != st || back != ub {
                    bad!("TryFrom<Utf8TypedPathBuf>: payload changed");
                }
            }
            (Err(back), Ok(x)) if win => {
                if x.as_str() != st || back != ub {
                    bad!("TryFrom<Utf8TypedPathBuf>: payload changed");
                }
            }
            _ => bad!("TryFrom<Utf8TypedPathBuf> succeeds exactly for the buffer's own variant"),
        }
    }
    // ---- encoding labels ---------------------------------------------------------------------------
    let pairs = [
        (format!("{:?}", UnixEncoding), format!("{}", UnixEncoding)),
        (format!("{:?}", WindowsEncoding), format!("{}", WindowsEncoding)),
        (format!("{:?}", Utf8UnixEncoding), format!("{}", Utf8UnixEncoding)),
        (format!("{:?}", Utf8WindowsEncoding), format!("{}", Utf8WindowsEncoding)),
        (format!("{:?}", PlatformEncoding), format!("{}", PlatformEncoding)),
        (format!("{:?}", Utf8PlatformEncoding), format!("{}", Utf8PlatformEncoding)),
    ];
    for (d, l) in &pairs {
        if d != l || d.is_empty() {
            bad!("Debug of an encoding is its label: {:?} vs {:?}", d, l);
        }
    }
    None
}

/// run `rare_surface` over a domain; the first mismatch per encoding is reported under `clause`
pub fn rare_surface_clause(ctx: &mut crate::oracle::Ctx, clause: &str, win: bool, dom: &[Vec<u8>]) {
    for s in dom {
        ctx.evals += 1;
        let rp = format!("comps {} {}", crate::gen::e(win), hex(s));
        at(rp.clone());
        match quiet_catch(|| rare_surface(win, s)) {
            Ok(None) => {}
            Ok(Some(d)) => {
                ctx.fail(clause, None, rp, d);
                return;
            }
            Err(_) => {
                ctx.fail(clause, None, rp, "panicked".into());
                return;
            }
        }
    }
}
