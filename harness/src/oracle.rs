//! Property predicates evaluated directly on the implementation (with std::path, or the
//! independent specifications of `spec.rs`, as oracle).  Output: JSON lines —
//!   {"t":"fail", "prop":…, "clause":…, "class":null|"K1"…, "replay":<op line>, "detail":…}
//!   {"t":"stat", "evaluations":…, "distinct_nontrivial":…, "dist":{…}, "samples":[…]}
//! `class` names a known-finding class (narrow predicate, see DESIGN.md §2.2); whether a class
//! is actually suppressed is decided by `check` from known_findings.jsonl, never here.

use crate::gen;
use crate::spec::{self, SComp};
use crate::util::*;
use std::collections::hash_map::DefaultHasher;
use std::collections::{BTreeMap, HashMap, HashSet};
use std::hash::{Hash, Hasher};
use std::io::Write;
use typed_path::*;

pub struct Ctx<'a> {
    pub out: &'a mut dyn Write,
    pub prop: String,
    pub evals: u64,
    pub nontrivial: HashSet<u64>,
    pub fails: HashMap<String, u64>,
    pub samples: Vec<String>,
    pub dist: BTreeMap<String, u64>,
}

impl<'a> Ctx<'a> {
    pub fn new(out: &'a mut dyn Write, prop: &str) -> Self {
        Ctx { out, prop: prop.into(), evals: 0, nontrivial: HashSet::new(), fails: HashMap::new(), samples: Vec::new(), dist: BTreeMap::new() }
    }
    /// count one evaluated case; `nontrivial` by the property's rule; distinct by `key`
    pub fn case<K: Hash>(&mut self, nontrivial: bool, key: K) {
        self.evals += 1;
        if nontrivial {
            let mut h = DefaultHasher::new();
            key.hash(&mut h);
            self.nontrivial.insert(h.finish());
        }
    }
    pub fn tally(&mut self, k: &str) {
        *self.dist.entry(k.to_string()).or_insert(0) += 1;
    }
    pub fn sample(&mut self, s: String) {
        if self.samples.len() < 12 {
            self.samples.push(s);
        }
    }
    pub fn fail(&mut self, clause: &str, class: Option<&str>, replay: String, detail: String) {
        let key = format!("{}|{}", clause, class.unwrap_or("-"));
        let n = self.fails.entry(key).or_insert(0);
        *n += 1;
        if *n <= 5 {
            let cls = match class {
                Some(c) => json_str(c),
                None => "null".into(),
            };
            writeln!(
                self.out,
                "{{\"t\":\"fail\",\"prop\":{},\"clause\":{},\"class\":{},\"replay\":{},\"detail\":{}}}",
                json_str(&self.prop),
                json_str(clause),
                cls,
                json_str(&replay),
                json_str(&detail)
            )
            .unwrap();
        }
    }
    pub fn finish(self) {
        let dist: Vec<String> = self.dist.iter().map(|(k, v)| format!("{}:{}", json_str(k), v)).collect();
        let samples: Vec<String> = self.samples.iter().map(|s| json_str(s)).collect();
        let fails: Vec<String> = self.fails.iter().map(|(k, v)| format!("{}:{}", json_str(k), v)).collect();
        writeln!(
            self.out,
            "{{\"t\":\"stat\",\"prop\":{},\"evaluations\":{},\"distinct_nontrivial\":{},\"dist\":{{{}}},\"fail_counts\":{{{}}},\"samples\":[{}]}}",
            json_str(&self.prop),
            self.evals,
            self.nontrivial.len(),
            dist.join(","),
            fails.join(","),
            samples.join(",")
        )
        .unwrap();
    }
}

// ---------- views of the implementation ----------

pub fn kind_of(k: &WindowsPrefix) -> spec::Kind {
    match k {
        WindowsPrefix::Verbatim(a) => spec::Kind::Verbatim(a.to_vec()),
        WindowsPrefix::VerbatimUNC(a, b) => spec::Kind::VerbatimUNC(a.to_vec(), b.to_vec()),
        WindowsPrefix::VerbatimDisk(d) => spec::Kind::VerbatimDisk(*d),
        WindowsPrefix::DeviceNS(a) => spec::Kind::DeviceNS(a.to_vec()),
        WindowsPrefix::UNC(a, b) => spec::Kind::UNC(a.to_vec(), b.to_vec()),
        WindowsPrefix::Disk(d) => spec::Kind::Disk(*d),
    }
}

pub fn sc_w(c: &WindowsComponent) -> SComp {
    match c {
        WindowsComponent::Prefix(p) => SComp::Prefix(kind_of(&p.kind())),
        WindowsComponent::RootDir => SComp::Root,
        WindowsComponent::CurDir => SComp::Cur,
        WindowsComponent::ParentDir => SComp::Parent,
        WindowsComponent::Normal(s) => SComp::Normal(s.to_vec()),
    }
}

pub fn sc_u(c: &UnixComponent) -> SComp {
    match c {
        UnixComponent::RootDir => SComp::Root,
        UnixComponent::CurDir => SComp::Cur,
        UnixComponent::ParentDir => SComp::Parent,
        UnixComponent::Normal(s) => SComp::Normal(s.to_vec()),
    }
}

pub fn comps(win: bool, b: &[u8]) -> Vec<SComp> {
    if win {
        WindowsPath::new(b).components().map(|c| sc_w(&c)).collect()
    } else {
        UnixPath::new(b).components().map(|c| sc_u(&c)).collect()
    }
}

pub fn spec_comps(win: bool, b: &[u8]) -> Vec<SComp> {
    if win {
        spec::win_decomp(b).comps
    } else {
        spec::unix_decomp(b)
    }
}

pub fn show_sc(cs: &[SComp]) -> String {
    let v: Vec<String> = cs
        .iter()
        .map(|c| match c {
            SComp::Prefix(k) => format!("Prefix({:?})", k),
            SComp::Root => "Root".into(),
            SComp::Cur => ".".into(),
            SComp::Parent => "..".into(),
            SComp::Normal(s) => format!("N({})", lossy(s)),
        })
        .collect();
    format!("[{}]", v.join(", "))
}

pub fn is_sep(win: bool, b: u8) -> bool {
    b == b'/' || (win && b == b'\\')
}

/// valid names + a complete prefix, or an incomplete one that the grammar keeps unchanged when the path is
/// extended (DESIGN.md §2.3, §11.4 round 10)
pub fn well_formed(win: bool, b: &[u8]) -> bool {
    let cs = spec_comps(win, b);
    spec::names_valid(&cs, win) && (!win || spec::win_complete_prefix(b) || spec::win_stable_prefix(b))
}

/// Well-formed in the WIDE sense: the prefix as in `well_formed`, but names restricted only as far as the clauses about
/// joining and re-building need — a name must read as itself when it is pushed on its own: no separator of either kind
/// inside it (possible under the exact verbatim marker) and no `X:` at its start (a drive).  Bytes that are merely
/// forbidden in file names (`? * " < > | :` elsewhere, NUL) do not matter to parsing or joining, so paths with such
/// names are inside those clauses too.
pub fn well_formed_wide(win: bool, b: &[u8]) -> bool {
    if !win {
        return true;
    }
    let cs = spec_comps(win, b);
    let names_ok = cs.iter().all(|c| match c {
        SComp::Normal(n) => !n.iter().any(|x| spec::any_sep(*x)) && !(n.len() >= 2 && n[0].is_ascii_alphabetic() && n[1] == b':'),
        _ => true,
    });
    names_ok && (spec::win_complete_prefix(b) || spec::win_stable_prefix(b))
}

/// K3: no prefix, begins with two separator bytes (the UNC introducer hazard)
pub fn k3_shape(win: bool, b: &[u8]) -> bool {
    win && b.len() >= 2 && spec::any_sep(b[0]) && spec::any_sep(b[1]) && spec::win_prefix(b).is_none()
}

pub fn nontrivial_path(cs: &[SComp]) -> bool {
    cs.len() >= 2 || matches!(cs.first(), Some(SComp::Prefix(_)))
}

pub fn push_b(win: bool, a: &[u8], b: &[u8]) -> Vec<u8> {
    if win {
        let mut x = WindowsPathBuf::from(a);
        x.push(b);
        x.into_vec()
    } else {
        let mut x = UnixPathBuf::from(a);
        x.push(b);
        x.into_vec()
    }
}

pub fn push_checked_b(win: bool, a: &[u8], b: &[u8]) -> (Vec<u8>, Result<(), CheckedPathError>) {
    if win {
        let mut x = WindowsPathBuf::from(a);
        let r = x.push_checked(b);
        (x.into_vec(), r)
    } else {
        let mut x = UnixPathBuf::from(a);
        let r = x.push_checked(b);
        (x.into_vec(), r)
    }
}

pub fn path_eq(win: bool, a: &[u8], b: &[u8]) -> bool {
    if win {
        WindowsPath::new(a) == WindowsPath::new(b)
    } else {
        UnixPath::new(a) == UnixPath::new(b)
    }
}

pub fn parent_b(win: bool, a: &[u8]) -> Option<Vec<u8>> {
    if win {
        WindowsPath::new(a).parent().map(|p| p.as_bytes().to_vec())
    } else {
        UnixPath::new(a).parent().map(|p| p.as_bytes().to_vec())
    }
}

pub fn file_name_b(win: bool, a: &[u8]) -> Option<Vec<u8>> {
    if win {
        WindowsPath::new(a).file_name().map(|p| p.to_vec())
    } else {
        UnixPath::new(a).file_name().map(|p| p.to_vec())
    }
}

pub fn run(prop: &str, tier: &str, seed: u64, out: &mut dyn Write) {
    let mut ctx = Ctx::new(out, prop);
    match prop {
        "C01" => crate::orc_a::c01(&mut ctx, tier, seed),
        "C02" => crate::orc_a::c02(&mut ctx, tier, seed),
        "C03" => crate::orc_a::c03(&mut ctx, tier, seed),
        "C04" => crate::orc_a::c04(&mut ctx, tier, seed),
        "C05" => crate::orc_a::c05(&mut ctx, tier, seed),
        "C06" => crate::orc_b::c06(&mut ctx, tier, seed),
        "C07" => crate::orc_b::c07(&mut ctx, tier, seed),
        "C08" => crate::orc_b::c08(&mut ctx, tier, seed),
        "C09" => crate::orc_b::c09(&mut ctx, tier, seed),
        "C10" => crate::orc_b::c10(&mut ctx, tier, seed),
        "C11" => crate::orc_c::c11(&mut ctx, tier, seed),
        "C12" => crate::orc_c::c12(&mut ctx, tier, seed),
        "C13" => crate::orc_c::c13(&mut ctx, tier, seed),
        "C14" => crate::orc_d::c14(&mut ctx, tier, seed),
        "C15" => crate::orc_d::c15(&mut ctx, tier, seed),
        "C16" => crate::orc_c::c16(&mut ctx, tier, seed),
        "C17" => crate::orc_c::c17(&mut ctx, tier, seed),
        "C18" => crate::orc_d::c18(&mut ctx, tier, seed),
        "C19" => crate::orc_d::c19(&mut ctx, tier, seed),
        "C20" => {
            // decided by running two builds on the same op file (see `check`); the op file is
            // generated by gen::gen("C20"), nothing to evaluate here beyond counting it
            let n = gen::gen("C20", tier, seed).len();
            ctx.evals = n as u64;
        }
        _ => {}
    }
    crate::orc_d::families_agree(&mut ctx, prop, tier, seed);
    ctx.finish();
}

/// `==` / `cmp` / `partial_cmp` must depend on the BYTES of their operands, not on where they live: a path
/// compared with a sub-slice of its OWN buffer (its parent, an ancestor, a tail) must answer like the same
/// comparison between separately allocated copies — in the byte, UTF-8 and typed families, both operand
/// orders.  Returns a description on a mismatch.
pub fn cmp_alias_mismatch(win: bool, p: &[u8], lo: usize, hi: usize) -> Option<String> {
    use std::cmp::Ordering;
    if lo > hi || hi > p.len() {
        return None;
    }
    let q = &p[lo..hi];
    let copy_p = p.to_vec();
    let copy_q = q.to_vec();
    fn quad_b(win: bool, a: &[u8], b: &[u8]) -> (bool, Ordering, Ordering, Option<Ordering>) {
        if win {
            let (x, y) = (WindowsPath::new(a), WindowsPath::new(b));
            (x == y, x.cmp(y), y.cmp(x), x.partial_cmp(y))
        } else {
            let (x, y) = (UnixPath::new(a), UnixPath::new(b));
            (x == y, x.cmp(y), y.cmp(x), x.partial_cmp(y))
        }
    }
    fn quad_u(win: bool, a: &str, b: &str) -> (bool, Ordering, Ordering, Option<Ordering>) {
        if win {
            let (x, y) = (Utf8WindowsPath::new(a), Utf8WindowsPath::new(b));
            (x == y, x.cmp(y), y.cmp(x), x.partial_cmp(y))
        } else {
            let (x, y) = (Utf8UnixPath::new(a), Utf8UnixPath::new(b));
            (x == y, x.cmp(y), y.cmp(x), x.partial_cmp(y))
        }
    }
    fn tri_t(win: bool, a: &[u8], b: &[u8]) -> (bool, Option<Ordering>, Option<Ordering>) {
        let (x, y) = if win { (TypedPath::windows(a), TypedPath::windows(b)) } else { (TypedPath::unix(a), TypedPath::unix(b)) };
        (x == y, x.partial_cmp(&y), y.partial_cmp(&x))
    }
    fn tri_t8(win: bool, a: &str, b: &str) -> (bool, Option<Ordering>, Option<Ordering>) {
        let (x, y) = if win { (Utf8TypedPath::windows(a), Utf8TypedPath::windows(b)) } else { (Utf8TypedPath::unix(a), Utf8TypedPath::unix(b)) };
        (x == y, x.partial_cmp(&y), y.partial_cmp(&x))
    }
    let want = quad_b(win, &copy_p, &copy_q);
    let got = quad_b(win, p, q);
    if got != want {
        return Some(format!("byte family, operand = the path's own bytes [{}..{}]: {:?}; separate copies: {:?}", lo, hi, got, want));
    }
    if tri_t(win, p, q) != tri_t(win, &copy_p, &copy_q) {
        return Some(format!("typed family, operand = the path's own bytes [{}..{}]", lo, hi));
    }
    if let Ok(sp) = std::str::from_utf8(p) {
        if sp.is_char_boundary(lo) && sp.is_char_boundary(hi) {
            let sq = &sp[lo..hi];
            let (cp, cq) = (sp.to_string(), sq.to_string());
            let want8 = quad_u(win, &cp, &cq);
            let got8 = quad_u(win, sp, sq);
            if got8 != want8 || got8 != want {
                return Some(format!("UTF-8 family, operand = the path's own text [{}..{}]: {:?}; separate copies: {:?}; byte family {:?}", lo, hi, got8, want8, want));
            }
            if tri_t8(win, sp, sq) != tri_t8(win, &cp, &cq) {
                return Some(format!("UTF-8 typed family, operand = the path's own text [{}..{}]", lo, hi));
            }
        }
    }
    None
}

/// the sub-slices worth comparing a path with: its parent, every ancestor, its tail after the first byte,
/// everything but the last byte, itself
pub fn alias_ranges(win: bool, p: &[u8]) -> Vec<(usize, usize)> {
    let mut v = vec![(0, p.len())];
    if !p.is_empty() {
        v.push((1, p.len()));
        v.push((0, p.len() - 1));
    }
    let lens: Vec<usize> = if win { WindowsPath::new(p).ancestors().map(|a| a.as_bytes().len()).collect() } else { UnixPath::new(p).ancestors().map(|a| a.as_bytes().len()).collect() };
    for l in lens.into_iter().take(6) {
        if !v.contains(&(0, l)) {
            v.push((0, l));
        }
    }
    v
}

/// `starts_with` / `ends_with` / `strip_prefix` must depend on the BYTES of their arguments, not on where
/// they live: when `q` occurs inside `p`'s own buffer (as a prefix, a suffix, anywhere), the call with that
/// sub-slice must answer like the call with a separately allocated copy.  Returns a description on a
/// mismatch.
pub fn alias_mismatch(win: bool, p: &[u8], q: &[u8]) -> Option<String> {
    fn triple(win: bool, p: &[u8], q: &[u8]) -> (bool, bool, Option<Vec<u8>>) {
        if win {
            let (a, b) = (WindowsPath::new(p), WindowsPath::new(q));
            (a.starts_with(b), a.ends_with(b), a.strip_prefix(b).ok().map(|r| r.as_bytes().to_vec()))
        } else {
            let (a, b) = (UnixPath::new(p), UnixPath::new(q));
            (a.starts_with(b), a.ends_with(b), a.strip_prefix(b).ok().map(|r| r.as_bytes().to_vec()))
        }
    }
    if q.is_empty() || q.len() > p.len() {
        return None;
    }
    let copy = q.to_vec();
    let want = triple(win, p, &copy);
    let mut offs: Vec<usize> = Vec::new();
    if p.starts_with(q) {
        offs.push(0);
    }
    if p.ends_with(q) {
        offs.push(p.len() - q.len());
    }
    if let Some(i) = p.windows(q.len()).position(|w| w == q) {
        offs.push(i);
    }
    for o in offs {
        let got = triple(win, p, &p[o..o + q.len()]);
        if got != want {
            return Some(format!("argument = the path's own bytes [{}..{}]: starts_with {} ends_with {} strip {:?}; as a separate copy: {} {} {:?}",
                o, o + q.len(), got.0, got.1, got.2.as_ref().map(|x| lossy(x)), want.0, want.1, want.2.as_ref().map(|x| lossy(x))));
        }
    }
    // and the other way round: the path is a sub-slice of the argument's buffer
    if q.len() >= p.len() {
        return None;
    }
    None
}
