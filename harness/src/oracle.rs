use std::io::Write;
pub fn run(_prop: &str, _tier: &str, _seed: u64, _out: &mut impl Write) {}
