//! tpharness — the Rust side of the typed-path verification machinery.
//!
//!   tpharness run                      stdin: op lines, stdout: implementation results
//!   tpharness gen <prop> <tier> <seed> op lines of the property's correspondence families
//!   tpharness oracle <prop> <tier> <seed>
//!                                      evaluate the property's predicate directly on the
//!                                      implementation; JSON lines on stdout

mod gen;
mod ops;
mod oracle;
mod orc_a;
mod orc_b;
mod orc_c;
mod orc_d;
mod orc_e;
mod spec;
mod util;

use std::io::{BufRead, BufWriter, Write};

fn main() {
    // panics of the implementation are results, keep stderr quiet
    std::panic::set_hook(Box::new(|info| {
        // inside an intentional catch scope a panic of the implementation is a result; outside
        // one (oracle mode) it is reported as a failure of the case being evaluated
        if util::IN_CATCH.with(|c| c.get()) > 0 {
            return;
        }
        let args: Vec<String> = std::env::args().collect();
        if std::env::var("VERIF_BT").is_ok() { eprintln!("{}", std::backtrace::Backtrace::force_capture()); }
        if args.get(1).map(|s| s.as_str()) == Some("oracle") {
            let cur = util::CURRENT.with(|c| c.borrow().clone());
            let msg = format!("{}", info).replace('\n', " ");
            println!(
                "{{\"t\":\"fail\",\"prop\":{},\"clause\":\"implementation-panicked\",\"class\":null,\"replay\":{},\"detail\":{}}}",
                util::json_str(&args[2]),
                util::json_str(&cur),
                util::json_str(&msg)
            );
            println!("{{\"t\":\"stat\",\"prop\":{},\"evaluations\":1,\"distinct_nontrivial\":0,\"dist\":{{}},\"fail_counts\":{{\"implementation-panicked|-\":1}},\"samples\":[{}]}}", util::json_str(&args[2]), util::json_str(&cur));
            std::process::exit(0);
        }
    }));
    let args: Vec<String> = std::env::args().collect();
    let out = std::io::stdout();
    let mut out = BufWriter::with_capacity(1 << 20, out.lock());
    match args.get(1).map(|s| s.as_str()) {
        Some("run") => {
            let stdin = std::io::stdin();
            for line in stdin.lock().lines() {
                let line = line.expect("read");
                writeln!(out, "{}", ops::exec(&line)).unwrap();
            }
        }
        Some("gen") => {
            let prop = &args[2];
            let tier = &args[3];
            let seed: u64 = args[4].parse().expect("seed");
            for l in gen::gen(prop, tier, seed) {
                writeln!(out, "{}", l).unwrap();
            }
        }
        Some("oracle") => {
            // the oracles compare the implementation with Rust specifications / std, not with the Lean model:
            // their domains may therefore also hold inputs far larger than the model driver is run on
            util::ORACLE_MODE.store(true, std::sync::atomic::Ordering::Relaxed);
            let prop = &args[2];
            let tier = &args[3];
            let seed: u64 = args[4].parse().expect("seed");
            oracle::run(prop, tier, seed, &mut out);
        }
        _ => {
            eprintln!("usage: tpharness run | gen <prop> <tier> <seed> | oracle <prop> <tier> <seed>");
            std::process::exit(2);
        }
    }
    out.flush().unwrap();
}
