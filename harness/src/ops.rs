//! Implementation side of the line protocol: every op is executed on the real crate
//! through its public API and printed in the canonical format of `lean/Driver.lean`.

use crate::util::{hex, unhex};
use std::hash::{Hash, Hasher};
use typed_path::*;

#[derive(Default)]
pub struct Rec(pub Vec<Vec<u8>>);
impl Hasher for Rec {
    fn finish(&self) -> u64 {
        0
    }
    fn write(&mut self, b: &[u8]) {
        self.0.push(b.to_vec());
    }
}
pub fn hash_chunks<T: Hash + ?Sized>(t: &T) -> Vec<Vec<u8>> {
    let mut r = Rec::default();
    t.hash(&mut r);
    r.0
}

pub fn show_kind(k: &WindowsPrefix) -> String {
    match k {
        WindowsPrefix::Verbatim(a) => format!("0:{}:x", hex(a)),
        WindowsPrefix::VerbatimUNC(a, b) => format!("1:{}:{}", hex(a), hex(b)),
        WindowsPrefix::VerbatimDisk(d) => format!("2:{}:x", hex(&[*d])),
        WindowsPrefix::DeviceNS(a) => format!("3:{}:x", hex(a)),
        WindowsPrefix::UNC(a, b) => format!("4:{}:{}", hex(a), hex(b)),
        WindowsPrefix::Disk(d) => format!("5:{}:x", hex(&[*d])),
    }
}

pub fn show_wprefix(p: &WindowsPrefixComponent) -> String {
    format!("P:{}:{}", show_kind(&p.kind()), hex(p.as_bytes()))
}

pub fn show_u(c: &UnixComponent) -> String {
    match c {
        UnixComponent::RootDir => "R".into(),
        UnixComponent::CurDir => "C".into(),
        UnixComponent::ParentDir => "U".into(),
        UnixComponent::Normal(s) => format!("N:{}", hex(s)),
    }
}

pub fn show_w(c: &WindowsComponent) -> String {
    match c {
        WindowsComponent::Prefix(p) => show_wprefix(p),
        WindowsComponent::RootDir => "R".into(),
        WindowsComponent::CurDir => "C".into(),
        WindowsComponent::ParentDir => "U".into(),
        WindowsComponent::Normal(s) => format!("N:{}", hex(s)),
    }
}

fn b01(b: bool) -> &'static str {
    if b {
        "1"
    } else {
        "0"
    }
}

fn opt_bytes(o: Option<&[u8]>) -> String {
    match o {
        Some(b) => format!("some:{}", hex(b)),
        None => "none".into(),
    }
}

pub fn show_err(e: &CheckedPathError) -> &'static str {
    match e {
        CheckedPathError::InvalidFilename => "InvalidFilename",
        CheckedPathError::PathTraversalAttack => "PathTraversalAttack",
        CheckedPathError::UnexpectedPrefix => "UnexpectedPrefix",
        CheckedPathError::UnexpectedRoot => "UnexpectedRoot",
    }
}

fn show_ord(o: std::cmp::Ordering) -> &'static str {
    match o {
        std::cmp::Ordering::Less => "lt",
        std::cmp::Ordering::Equal => "eq",
        std::cmp::Ordering::Greater => "gt",
    }
}

macro_rules! enc_ops {
    ($m:ident, $Path:ty, $PathBuf:ty, $show:ident) => {
        pub mod $m {
            use super::*;

            pub fn comps_list(b: &[u8]) -> String {
                let v: Vec<String> = <$Path>::new(b).components().map(|c| $show(&c)).collect();
                format!("[{}]", v.join(" "))
            }

            pub fn mix(b: &[u8], mask: &str) -> String {
                let mut it = <$Path>::new(b).components();
                let mut out = Vec::new();
                for ch in mask.chars() {
                    let r = if ch == 'f' { it.next() } else { it.next_back() };
                    match r {
                        Some(c) => out.push(format!("{}@{}", $show(&c), hex(it.as_bytes()))),
                        None => out.push(format!("none@{}", hex(it.as_bytes()))),
                    }
                }
                out.join(" ")
            }

            pub fn comps(b: &[u8]) -> String {
                let p = <$Path>::new(b);
                format!(
                    "{} root={} abs={}",
                    comps_list(b),
                    b01(p.has_root()),
                    b01(p.is_absolute())
                )
            }

            pub fn back(b: &[u8]) -> String {
                let v: Vec<String> = <$Path>::new(b).components().rev().map(|c| $show(&c)).collect();
                format!("[{}]", v.join(" "))
            }

            pub fn parent(b: &[u8]) -> String {
                opt_bytes(<$Path>::new(b).parent().map(|p| p.as_bytes()))
            }

            pub fn anc(b: &[u8]) -> String {
                let v: Vec<String> = <$Path>::new(b).ancestors().take(b.len() + 5).map(|p| hex(p.as_bytes())).collect();
                v.join(" ")
            }

            pub fn fname(b: &[u8]) -> String {
                let p = <$Path>::new(b);
                format!("{} {} {}", opt_bytes(p.file_name()), opt_bytes(p.file_stem()), opt_bytes(p.extension()))
            }

            pub fn strip(p: &[u8], q: &[u8]) -> String {
                let pp = <$Path>::new(p);
                let qq = <$Path>::new(q);
                format!(
                    "{} sw={} ew={}",
                    opt_bytes(pp.strip_prefix(qq).ok().map(|r| r.as_bytes())),
                    b01(pp.starts_with(qq)),
                    b01(pp.ends_with(qq))
                )
            }

            pub fn norm(b: &[u8]) -> String {
                hex(<$Path>::new(b).normalize().as_bytes())
            }

            pub fn push(a: &[u8], b: &[u8]) -> String {
                let mut buf = <$PathBuf>::from(a);
                buf.push(b);
                hex(buf.as_bytes())
            }

            pub fn pushc(a: &[u8], b: &[u8]) -> String {
                let mut buf = <$PathBuf>::from(a);
                match buf.push_checked(b) {
                    Ok(()) => format!("ok:{}", hex(buf.as_bytes())),
                    Err(e) => {
                        if buf.as_bytes() != a {
                            format!("err:{}:MUTATED:{}", show_err(&e), hex(buf.as_bytes()))
                        } else {
                            format!("err:{}", show_err(&e))
                        }
                    }
                }
            }

            pub fn pop(a: &[u8]) -> String {
                let mut buf = <$PathBuf>::from(a);
                let r = buf.pop();
                format!("{}:{}", hex(buf.as_bytes()), b01(r))
            }

            pub fn setfn(a: &[u8], n: &[u8]) -> String {
                let mut buf = <$PathBuf>::from(a);
                buf.set_file_name(n);
                hex(buf.as_bytes())
            }

            pub fn setext(a: &[u8], x: &[u8]) -> String {
                let mut buf = <$PathBuf>::from(a);
                let r = buf.set_extension(x);
                format!("{}:{}", hex(buf.as_bytes()), b01(r))
            }

            pub fn valid(b: &[u8]) -> String {
                b01(<$Path>::new(b).is_valid()).into()
            }

            pub fn rel(a: &[u8], b: &[u8]) -> String {
                let (pa, pb) = (<$Path>::new(a), <$Path>::new(b));
                format!("eq={} cmp={}", b01(pa == pb), show_ord(pa.cmp(pb)))
            }

            pub fn hash(a: &[u8]) -> String {
                let v: Vec<String> = hash_chunks(<$Path>::new(a)).iter().map(|c| hex(c)).collect();
                v.join(" ")
            }

            pub fn conv_u(b: &[u8]) -> String {
                let p = <$Path>::new(b);
                let c = match p.with_unix_encoding_checked() {
                    Ok(q) => format!("ok:{}", hex(q.as_bytes())),
                    Err(e) => format!("err:{}", show_err(&e)),
                };
                format!("{} {}", hex(p.with_unix_encoding().as_bytes()), c)
            }

            pub fn conv_w(b: &[u8]) -> String {
                let p = <$Path>::new(b);
                let c = match p.with_windows_encoding_checked() {
                    Ok(q) => format!("ok:{}", hex(q.as_bytes())),
                    Err(e) => format!("err:{}", show_err(&e)),
                };
                format!("{} {}", hex(p.with_windows_encoding().as_bytes()), c)
            }

            pub fn hist(start: &[u8], ops: &[&str]) -> Option<String> {
                let mut buf = <$PathBuf>::from(start);
                let mut out = Vec::new();
                for op in ops {
                    let parts: Vec<&str> = op.split(':').collect();
                    match parts.as_slice() {
                        ["pop"] => {
                            let r = buf.pop();
                            out.push(format!("{}:{}", hex(buf.as_bytes()), b01(r)));
                        }
                        ["clear"] => {
                            buf.clear();
                            out.push(hex(buf.as_bytes()));
                        }
                        [name, arg] => {
                            let a = unhex(arg)?;
                            match *name {
                                "push" => {
                                    buf.push(&a);
                                    out.push(hex(buf.as_bytes()));
                                }
                                "setfn" => {
                                    buf.set_file_name(&a);
                                    out.push(hex(buf.as_bytes()));
                                }
                                "setext" => {
                                    let r = buf.set_extension(&a);
                                    out.push(format!("{}:{}", hex(buf.as_bytes()), b01(r)));
                                }
                                "pushc" => match buf.push_checked(&a) {
                                    Ok(()) => out.push(format!("{}:ok", hex(buf.as_bytes()))),
                                    Err(e) => out.push(format!("{}:{}", hex(buf.as_bytes()), show_err(&e))),
                                },
                                _ => return None,
                            }
                        }
                        _ => return None,
                    }
                }
                Some(out.join(" "))
            }
        }
    };
}

enc_ops!(u, UnixPath, UnixPathBuf, show_u);
enc_ops!(w, WindowsPath, WindowsPathBuf, show_w);

pub fn wq(b: &[u8]) -> String {
    let p = WindowsPath::new(b);
    let c = p.components();
    let pfx = match c.prefix() {
        Some(p) => show_wprefix(&p),
        None => "none".into(),
    };
    let len = c.prefix().map(|p| p.len()).unwrap_or(0);
    format!(
        "pfx={} len={} has={} any={} v={} vu={} vd={} dn={} unc={} disk={} phys={} impl={} root={} abs={}",
        pfx,
        len,
        b01(c.has_prefix()),
        b01(c.has_any_verbatim_prefix()),
        b01(c.has_verbatim_prefix()),
        b01(c.has_verbatim_unc_prefix()),
        b01(c.has_verbatim_disk_prefix()),
        b01(c.has_device_ns_prefix()),
        b01(c.has_unc_prefix()),
        b01(c.has_disk_prefix()),
        b01(c.has_physical_root()),
        b01(c.has_implicit_root()),
        b01(c.has_root()),
        b01(c.is_absolute())
    )
}

const BAD: &str = "bad-op";

fn exec_inner(line: &str) -> String {
    let parts: Vec<&str> = line.trim().split(' ').collect();
    macro_rules! h {
        ($s:expr) => {
            match unhex($s) {
                Some(v) => v,
                None => return BAD.into(),
            }
        };
    }
    macro_rules! by_enc {
        ($e:expr, $f:ident $(, $a:expr)*) => {
            match $e {
                "u" => u::$f($($a),*),
                "w" => w::$f($($a),*),
                _ => return BAD.into(),
            }
        };
    }
    match parts.as_slice() {
        // `cmix` is the same operation on the implementation; the model side answers it with the
        // byte-level combinator transcription (Model/Comb) instead of the token-level parser
        ["mix", e, s, mask] | ["cmix", e, s, mask] => {
            let b = h!(s);
            let m = if *mask == "-" { "" } else { *mask };
            if !m.chars().all(|c| c == 'f' || c == 'b') {
                return BAD.into();
            }
            by_enc!(*e, mix, &b, m)
        }
        // the whole method transcript of one type family (implementation only; the model has no
        // counterpart: used to compare the two feature configurations, C20)
        ["tx", fam, e, s, a] => {
            let (b, x) = (h!(s), h!(a));
            let win = match *e {
                "u" => false,
                "w" => true,
                _ => return BAD.into(),
            };
            // `absolutize` exists only with the `std` feature: not part of the cross-build comparison
            crate::orc_d::transcript(fam, win, &b, &x).into_iter().filter(|l| !l.starts_with("absolutize ") && !l.starts_with("buf.absolutize ")).collect::<Vec<_>>().join(" | ")
        }
        ["comps", e, s] => {
            let b = h!(s);
            by_enc!(*e, comps, &b)
        }
        ["back", e, s] => {
            let b = h!(s);
            by_enc!(*e, back, &b)
        }
        ["wq", s] => wq(&h!(s)),
        ["parent", e, s] => {
            let b = h!(s);
            by_enc!(*e, parent, &b)
        }
        ["anc", e, s] => {
            let b = h!(s);
            by_enc!(*e, anc, &b)
        }
        ["fname", e, s] => {
            let b = h!(s);
            by_enc!(*e, fname, &b)
        }
        ["strip", e, p, q] => {
            let (p, q) = (h!(p), h!(q));
            by_enc!(*e, strip, &p, &q)
        }
        ["norm", e, s] => {
            let b = h!(s);
            by_enc!(*e, norm, &b)
        }
        // `absolutize` against the process's current directory, which the op line carries (native bytes)
        // so that the model can be given the same one
        ["abs", e, cwd, s] => {
            #[cfg(all(feature = "std", unix))]
            {
                use std::os::unix::ffi::OsStrExt;
                let (want_cwd, b) = (h!(cwd), h!(s));
                let here = match std::env::current_dir() {
                    Ok(p) => p,
                    Err(_) => return BAD.into(),
                };
                if here.as_os_str().as_bytes() != want_cwd.as_slice() && std::env::set_current_dir(std::ffi::OsStr::from_bytes(&want_cwd)).is_err() {
                    return BAD.into();
                }
                let r = match *e {
                    "u" => UnixPath::new(&b).absolutize().map(|x| x.into_vec()),
                    "w" => WindowsPath::new(&b).absolutize().map(|x| x.into_vec()),
                    _ => return BAD.into(),
                };
                match r {
                    Ok(v) => hex(&v),
                    Err(_) => "io-error".into(),
                }
            }
            #[cfg(not(all(feature = "std", unix)))]
            {
                let _ = (e, cwd, s);
                BAD.into()
            }
        }
        ["push", e, a, b] => {
            let (a, b) = (h!(a), h!(b));
            by_enc!(*e, push, &a, &b)
        }
        ["pushc", e, a, b] => {
            let (a, b) = (h!(a), h!(b));
            by_enc!(*e, pushc, &a, &b)
        }
        ["pop", e, a] => {
            let a = h!(a);
            by_enc!(*e, pop, &a)
        }
        ["setfn", e, a, n] => {
            let (a, n) = (h!(a), h!(n));
            by_enc!(*e, setfn, &a, &n)
        }
        ["setext", e, a, x] => {
            let (a, x) = (h!(a), h!(x));
            by_enc!(*e, setext, &a, &x)
        }
        ["conv", s, t, b] => {
            let b = h!(b);
            match (*s, *t) {
                ("u", "u") => u::conv_u(&b),
                ("u", "w") => u::conv_w(&b),
                ("w", "u") => w::conv_u(&b),
                ("w", "w") => w::conv_w(&b),
                _ => BAD.into(),
            }
        }
        ["valid", e, s] => {
            let b = h!(s);
            by_enc!(*e, valid, &b)
        }
        ["rel", e, a, b] => {
            let (a, b) = (h!(a), h!(b));
            by_enc!(*e, rel, &a, &b)
        }
        ["hash", e, a] | ["hashspec", e, a] => {
            let a = h!(a);
            by_enc!(*e, hash, &a)
        }
        ["u8dot", e, s] => {
            // the UTF-8 family's own dot split (characters), through file_stem / extension of every UTF-8 form
            let b = h!(s);
            let Ok(st) = std::str::from_utf8(&b) else { return BAD.into() };
            let win = *e == "w";
            let (stem, ext): (Option<Vec<u8>>, Option<Vec<u8>>) = if win {
                let p = Utf8WindowsPath::new(st);
                (p.file_stem().map(|x| x.as_bytes().to_vec()), p.extension().map(|x| x.as_bytes().to_vec()))
            } else {
                let p = Utf8UnixPath::new(st);
                (p.file_stem().map(|x| x.as_bytes().to_vec()), p.extension().map(|x| x.as_bytes().to_vec()))
            };
            let tp = if win { Utf8TypedPath::windows(st) } else { Utf8TypedPath::unix(st) };
            let tb = tp.to_path_buf();
            let same = tp.file_stem().map(|x| x.as_bytes().to_vec()) == stem
                && tp.extension().map(|x| x.as_bytes().to_vec()) == ext
                && tb.file_stem().map(|x| x.as_bytes().to_vec()) == stem
                && tb.extension().map(|x| x.as_bytes().to_vec()) == ext;
            format!("stem={} ext={}{}", opt_bytes(stem.as_deref()), opt_bytes(ext.as_deref()), if same { "" } else { " FAMILIES-DISAGREE" })
        }
        ["u8valid", e, s] => {
            let b = h!(s);
            let Ok(st) = std::str::from_utf8(&b) else { return BAD.into() };
            let win = *e == "w";
            let v = if win { Utf8WindowsPath::new(st).is_valid() } else { Utf8UnixPath::new(st).is_valid() };
            let vc = if win { Utf8WindowsPath::new(st).components().all(|c| c.is_valid()) } else { Utf8UnixPath::new(st).components().all(|c| c.is_valid()) };
            let vo = if win { Utf8WindowsPathBuf::from(st).is_valid() } else { Utf8UnixPathBuf::from(st).is_valid() };
            let same = vc == v && vo == v;
            format!("{}{}", b01(v), if same { "" } else { " FAMILIES-DISAGREE" })
        }
        ["lossy", s] => {
            // `to_str` / `to_string_lossy` / `display()` / `Display` of every family that offers them, on the
            // same bytes; all must say the same, and that is what the model (Spec/Lossy.lean) is compared with
            let b = h!(s);
            let up = UnixPath::new(&b);
            let wp = WindowsPath::new(&b);
            let st = up.to_str().map(|x| x.as_bytes().to_vec());
            let lo = up.to_string_lossy().into_owned().into_bytes();
            let mut all_str = vec![wp.to_str().map(|x| x.as_bytes().to_vec()), up.to_path_buf().to_str().map(|x| x.as_bytes().to_vec()), TypedPath::unix(&b).to_str().map(|x| x.as_bytes().to_vec()), TypedPath::windows(&b).to_str().map(|x| x.as_bytes().to_vec())];
            all_str.push(TypedPathBuf::from_unix(&b).to_path().to_str().map(|x| x.as_bytes().to_vec()));
            let all_lossy: Vec<Vec<u8>> = vec![
                wp.to_string_lossy().into_owned().into_bytes(),
                up.display().to_string().into_bytes(),
                wp.display().to_string().into_bytes(),
                format!("{}", up.to_path_buf().display()).into_bytes(),
                format!("{}", wp.to_path_buf().display()).into_bytes(),
                TypedPath::unix(&b).to_string_lossy().into_owned().into_bytes(),
                TypedPath::windows(&b).to_string_lossy().into_owned().into_bytes(),
                TypedPath::unix(&b).display().to_string().into_bytes(),
                TypedPath::windows(&b).display().to_string().into_bytes(),
                TypedPathBuf::from_unix(&b).to_path().display().to_string().into_bytes(),
            ];
            let same = all_str.iter().all(|x| *x == st) && all_lossy.iter().all(|x| *x == lo);
            format!("str={} lossy={}{}", st.map(|x| hex(&x)).unwrap_or("none".into()), hex(&lo), if same { "" } else { " FAMILIES-DISAGREE" })
        }
        ["stdutf8", s] => {
            let b = h!(s);
            b01(std::str::from_utf8(&b).is_ok()).into()
        }
        ["stdcomps", s] => {
            // real std::path on a Unix host: validates Spec/StdSpec.lean, not the crate
            use std::os::unix::ffi::OsStrExt;
            let b = h!(s);
            let p = std::path::Path::new(std::ffi::OsStr::from_bytes(&b));
            let v: Vec<String> = p
                .components()
                .map(|c| match c {
                    std::path::Component::RootDir => "R".to_string(),
                    std::path::Component::CurDir => "C".to_string(),
                    std::path::Component::ParentDir => "U".to_string(),
                    std::path::Component::Normal(x) => format!("N:{}", hex(x.as_bytes())),
                    std::path::Component::Prefix(_) => "P".to_string(),
                })
                .collect();
            format!("[{}] root={}", v.join(" "), b01(p.has_root()))
        }
        ["derive", s] => {
            let b = h!(s);
            if TypedPath::derive(&b).is_windows() {
                "w".into()
            } else {
                "u".into()
            }
        }
        ["stdhist", start, ops @ ..] => {
            // a real std::path::PathBuf: validates Spec/StdBuf.lean, not the crate
            use std::ffi::OsStr;
            use std::os::unix::ffi::OsStrExt;
            let b = h!(start);
            let mut buf = std::path::PathBuf::from(OsStr::from_bytes(&b));
            let mut out = Vec::new();
            for op in ops {
                let parts: Vec<&str> = op.split(':').collect();
                match parts.as_slice() {
                    ["pop"] => {
                        let r = buf.pop();
                        out.push(format!("{}:{}", hex(buf.as_os_str().as_bytes()), b01(r)));
                    }
                    ["clear"] => {
                        buf.clear();
                        out.push(hex(buf.as_os_str().as_bytes()));
                    }
                    ["push", a] => {
                        let a = h!(a);
                        buf.push(OsStr::from_bytes(&a));
                        out.push(hex(buf.as_os_str().as_bytes()));
                    }
                    ["setfn", a] => {
                        let a = h!(a);
                        buf.set_file_name(OsStr::from_bytes(&a));
                        out.push(hex(buf.as_os_str().as_bytes()));
                    }
                    ["setext", a] => {
                        let a = h!(a);
                        // std panics on an extension that contains a separator: not generated
                        if a.contains(&b'/') {
                            return BAD.into();
                        }
                        let r = buf.set_extension(OsStr::from_bytes(&a));
                        out.push(format!("{}:{}", hex(buf.as_os_str().as_bytes()), b01(r)));
                    }
                    _ => return BAD.into(),
                }
            }
            out.join(" ")
        }
        ["hist", e, start, ops @ ..] => {
            let b = h!(start);
            let r = match *e {
                "u" => u::hist(&b, ops),
                "w" => w::hist(&b, ops),
                _ => None,
            };
            r.unwrap_or_else(|| BAD.into())
        }
        _ => BAD.into(),
    }
}

/// Execute one op line; a panic of the implementation is a result (`PANIC`), not a crash.
pub fn exec(line: &str) -> String {
    let l = line.to_string();
    match crate::util::quiet_catch(move || exec_inner(&l)) {
        Ok(s) => s,
        Err(_) => "PANIC".into(),
    }
}
