//! Oracles C01–C05.

use crate::gen;
use crate::ops::hash_chunks;
use crate::oracle::*;
use crate::spec::{self, SComp};
use crate::util::*;
use std::borrow::Cow;
use std::collections::{BTreeSet, HashSet};
use std::ffi::OsStr;
use std::os::unix::ffi::OsStrExt;
use std::path::{Component as SC, Path as SPath};
use typed_path::*;

pub fn sp(b: &[u8]) -> &SPath {
    SPath::new(OsStr::from_bytes(b))
}

pub fn sc_std(c: &SC) -> SComp {
    match c {
        SC::Prefix(_) => SComp::Normal(b"<std-prefix>".to_vec()),
        SC::RootDir => SComp::Root,
        SC::CurDir => SComp::Cur,
        SC::ParentDir => SComp::Parent,
        SC::Normal(s) => SComp::Normal(s.as_bytes().to_vec()),
    }
}

pub fn std_comps(b: &[u8]) -> Vec<SComp> {
    sp(b).components().map(|c| sc_std(&c)).collect()
}

fn all_masks(steps: usize, cap: usize, rng: &mut Rng) -> Vec<Vec<bool>> {
    if steps <= cap {
        (0u32..(1 << steps)).map(|m| (0..steps).map(|i| m >> i & 1 == 1).collect()).collect()
    } else {
        let mut v = vec![vec![false; steps], vec![true; steps]];
        for _ in 0..6 {
            v.push((0..steps).map(|_| rng.chance(1, 2)).collect());
        }
        v
    }
}

/// drive a byte-yielding double-ended iterator by a front/back mask against the expected forward list;
/// after every step the clone's remaining forward sequence must be the untouched middle
fn drive_bytes<I>(mut it: I, fwd: &[Vec<u8>], m: &[bool]) -> Option<String>
where
    I: DoubleEndedIterator<Item = Vec<u8>> + Clone,
{
    let (mut lo, mut hi) = (0usize, fwd.len());
    for (i, bk) in m.iter().enumerate() {
        let x = if *bk { it.next_back() } else { it.next() };
        let y = if lo < hi {
            if *bk {
                hi -= 1;
                Some(fwd[hi].clone())
            } else {
                lo += 1;
                Some(fwd[lo - 1].clone())
            }
        } else {
            None
        };
        let rem: Vec<Vec<u8>> = it.clone().collect();
        if x != y || rem != fwd[lo..hi] {
            return Some(format!("step {} ({}): got {:?} want {:?}; rest {:?} want {:?}", i, if *bk { "back" } else { "front" }, x, y, rem, &fwd[lo..hi]));
        }
    }
    None
}

fn mask_str(m: &[bool]) -> String {
    m.iter().map(|b| if *b { 'b' } else { 'f' }).collect()
}

/// the const-generic `&[u8; N]` form of a conversion, for every length up to 12 (`N` is a compile-time
/// constant: each length is its own instantiation)
macro_rules! via_array {
    ($s:expr, $a:ident => $e:expr) => {{
        let sl: &[u8] = $s;
        macro_rules! arm {
            ($n:literal) => {
                <&[u8; $n]>::try_from(sl).ok().map(|$a| $e)
            };
        }
        match sl.len() {
            0 => arm!(0), 1 => arm!(1), 2 => arm!(2), 3 => arm!(3), 4 => arm!(4), 5 => arm!(5), 6 => arm!(6),
            7 => arm!(7), 8 => arm!(8), 9 => arm!(9), 10 => arm!(10), 11 => arm!(11), 12 => arm!(12),
            _ => None,
        }
    }};
}

pub fn c01(ctx: &mut Ctx, tier: &str, seed: u64) {
    let dom = dom_unix(tier, seed);
    let mut rng = Rng::new(seed ^ 0xa1);
    let cap = if tier_is_thorough(tier) { 8 } else { 6 };
    for s in &dom {
        at(format!("comps u {}", hex(s)));
        let p = UnixPath::new(s);
        let fwd = comps(false, s);
        let sfwd = std_comps(s);
        ctx.tally(&format!("ncomp={}", fwd.len().min(8)));
        ctx.case(nontrivial_path(&fwd), (s, 0u8));
        if fwd != sfwd {
            ctx.fail("components-vs-std", None, format!("comps u {}", hex(s)), format!("impl {} std {}", show_sc(&fwd), show_sc(&sfwd)));
        }
        // the declarative spec must agree with std too (validates the spec, not the crate)
        if spec::unix_decomp(s) != sfwd {
            ctx.fail("SPEC-vs-std", Some("INTERNAL"), format!("comps u {}", hex(s)), format!("spec {} std {}", show_sc(&spec::unix_decomp(s)), show_sc(&sfwd)));
        }
        if p.has_root() != sp(s).has_root() || p.is_absolute() != sp(s).is_absolute() || p.is_relative() != sp(s).is_relative() {
            ctx.fail("root-abs-vs-std", None, format!("comps u {}", hex(s)), format!("has_root {} abs {}", p.has_root(), p.is_absolute()));
        }
        let steps = fwd.len() + 1;
        for m in all_masks(steps, cap, &mut rng) {
            at(format!("mix u {} {}", hex(s), mask_str(&m)));
            let mut a = p.components();
            let mut b = sp(s).components();
            ctx.case(fwd.len() >= 2, (s, &m));
            for (i, back) in m.iter().enumerate() {
                let (x, y) = if *back { (a.next_back(), b.next_back()) } else { (a.next(), b.next()) };
                let (x, y) = (x.map(|c| sc_u(&c)), y.map(|c| sc_std(&c)));
                // the remainder through both accessors (raw bytes and `as_path`), and its root / absoluteness
                let ap = a.as_path::<UnixEncoding>();
                let rem_ok = sp(a.as_bytes()) == b.as_path()
                    && sp(ap.as_bytes()) == b.as_path()
                    && ap.has_root() == b.as_path().has_root()
                    && a.has_root() == b.as_path().has_root()
                    && a.is_absolute() == b.as_path().is_absolute();
                if x != y || !rem_ok {
                    ctx.fail(
                        "interleaving-vs-std",
                        None,
                        format!("mix u {} {}", hex(s), mask_str(&m)),
                        format!("step {}: impl {:?} std {:?}; remainder impl \"{}\" std {:?}", i, x, y, lossy(a.as_bytes()), b.as_path()),
                    );
                    break;
                }
            }
        }
        // single-component conversion: succeeds exactly on one-component paths, with that component
        {
            let want = if fwd.len() == 1 { Some(fwd[0].clone()) } else { None };
            let r = UnixComponent::try_from(s.as_slice()).ok().map(|c| sc_u(&c));
            let r2 = std::str::from_utf8(s).ok().map(|st| UnixComponent::try_from(st).ok().map(|c| sc_u(&c)));
            let r3 = via_array!(s.as_slice(), a => UnixComponent::try_from(a).ok().map(|c| sc_u(&c)));
            if r != want || r2.map_or(false, |x| x != want) || r3.map_or(false, |x| x != want) {
                ctx.fail("component-try-from", None, format!("comps u {}", hex(s)), format!("{:?}", r));
            }
        }
    }
    // GIANT runs (more than 2^20 separators / `.` segments in one run): a cap on repetitions, a 16- or
    // 20-bit counter … would show only here.  Implementation against std directly (the model is not run
    // on megabyte inputs).
    {
        let n = (1usize << 20) + 5;
        let mut giants: Vec<Vec<u8>> = Vec::new();
        let mut g = b"a".to_vec();
        g.extend(std::iter::repeat(b'/').take(n));
        g.push(b'b');
        giants.push(g);
        // and a run just above every large magic number of the source (a repetition cap, a chunk size …)
        for m in magic_numbers().iter().filter(|m| **m > 4096) {
            let mut g = b"/a".to_vec();
            g.extend(std::iter::repeat(b'/').take(*m + 3));
            g.push(b'b');
            giants.push(g);
        }
        giants.push(std::iter::repeat(b'/').take(n).collect());
        // GIANT names (a scan limited to so many bytes, a length kept in 24 bits …)
        for m in giant_sizes() {
            let name: Vec<u8> = (0..m).map(|k| b'a' + (k % 26) as u8).collect();
            giants.push([&name[..], b"/b"].concat());
            giants.push([b"/x/", &name[..], b"/y"].concat());
            giants.push([b"a/", &name[..]].concat());
        }
        let mut g = b"/x/".to_vec();
        for _ in 0..(n / 2 + 3) {
            g.extend_from_slice(b"./");
        }
        g.extend_from_slice(b"y/");
        giants.push(g);
        for g in &giants {
            ctx.evals += 1;
            let p = UnixPath::new(g);
            let short = format!("comps u {}", hex(&g[..g.len().min(24)]));
            let fwd: Vec<SComp> = p.components().map(|c| sc_u(&c)).collect();
            let mut back: Vec<SComp> = p.components().rev().map(|c| sc_u(&c)).collect();
            back.reverse();
            let sfwd = std_comps(g);
            let mut it = p.components();
            let mut sit = sp(g).components();
            it.next();
            sit.next();
            let rem_ok = sp(it.as_bytes()) == sit.as_path() && it.as_path::<UnixEncoding>().has_root() == sit.as_path().has_root();
            it.next_back();
            sit.next_back();
            let rem_ok2 = sp(it.as_bytes()) == sit.as_path();
            if fwd != sfwd || back != sfwd || !rem_ok || !rem_ok2 {
                ctx.fail("giant-run-vs-std", None, short, format!("{} bytes: front {} back {} std {} remainder-ok {} {}", g.len(), show_sc(&fwd), show_sc(&back), show_sc(&sfwd), rem_ok, rem_ok2));
            }
        }
    }
    ctx.sample(format!("mix u {} fbfb", hex(b"/a/./b/")));
    ctx.sample(format!("comps u {}", hex(&dom[dom.len() / 2])));
}

pub fn c02(ctx: &mut Ctx, tier: &str, seed: u64) {
    let dom = dom_win(tier, seed);
    for s in &dom {
        let rp = format!("comps w {}", hex(s));
        at(rp.clone());
        let p = WindowsPath::new(s);
        let d = spec::win_decomp(s);
        let got: Vec<WindowsComponent> = p.components().collect();
        let got_sc: Vec<SComp> = got.iter().map(sc_w).collect();
        let kind = match &d.prefix {
            Some((k, _)) => format!("{:?}", k).split('(').next().unwrap().to_string(),
            None => "none".into(),
        };
        ctx.tally(&format!("prefix={}", kind));
        ctx.case(nontrivial_path(&got_sc), s);
        if got_sc != d.comps {
            ctx.fail("decomposition-vs-grammar", None, rp.clone(), format!("impl {} grammar {}", show_sc(&got_sc), show_sc(&d.comps)));
            continue;
        }
        // the decomposition is the same from the back and under interleavings of both ends
        {
            let mut back: Vec<SComp> = p.components().rev().map(|c| sc_w(&c)).collect();
            back.reverse();
            if back != d.comps {
                ctx.fail("decomposition-vs-grammar-from-back", None, format!("back w {}", hex(s)), format!("impl(reversed) {} grammar {}", show_sc(&back), show_sc(&d.comps)));
            }
            let n = d.comps.len();
            let mut rng2 = Rng::new(0xc02 ^ s.len() as u64);
            for m in all_masks(n + 1, 4, &mut rng2) {
                let mut it = p.components();
                let (mut lo, mut hi) = (0usize, n);
                let mut bad = None;
                for (i, bk) in m.iter().enumerate() {
                    let x = if *bk { it.next_back() } else { it.next() }.map(|c| sc_w(&c));
                    let y = if lo < hi {
                        if *bk {
                            hi -= 1;
                            Some(d.comps[hi].clone())
                        } else {
                            lo += 1;
                            Some(d.comps[lo - 1].clone())
                        }
                    } else {
                        None
                    };
                    let rem: Vec<SComp> = it.clone().map(|c| sc_w(&c)).collect();
                    if x != y || rem != d.comps[lo..hi] {
                        bad = Some(format!("step {}: got {:?} want {:?}; rest {} want {}", i, x, y, show_sc(&rem), show_sc(&d.comps[lo..hi])));
                        break;
                    }
                }
                if let Some(dd) = bad {
                    ctx.fail("interleaving-vs-grammar", None, format!("mix w {} {}", hex(s), mask_str(&m)), dd);
                    break;
                }
            }
        }
        // at most one prefix, only in first position, raw text is the leading bytes
        for (i, c) in got.iter().enumerate() {
            if let WindowsComponent::Prefix(pc) = c {
                let n = d.prefix.as_ref().map(|x| x.1).unwrap_or(usize::MAX);
                if i != 0 || pc.len() != n || pc.as_bytes() != &s[..n.min(s.len())] {
                    ctx.fail("prefix-position-raw", None, rp.clone(), format!("index {} len {} grammar len {}", i, pc.len(), n));
                }
                if let WindowsPrefix::Disk(x) | WindowsPrefix::VerbatimDisk(x) = pc.kind() {
                    if !x.is_ascii_uppercase() {
                        ctx.fail("drive-letter-ascii-upper", None, rp.clone(), format!("drive byte {:#x}", x));
                    }
                }
            }
        }
        let c = p.components();
        let q = [
            ("has_prefix", c.has_prefix(), d.has_prefix()),
            ("has_physical_root", c.has_physical_root(), d.root),
            ("has_implicit_root", c.has_implicit_root(), d.has_implicit_root()),
            ("has_root", c.has_root(), d.has_root()),
            ("is_absolute", c.is_absolute(), d.is_absolute()),
            ("path.has_root", p.has_root(), d.has_root()),
            ("path.is_absolute", p.is_absolute(), d.is_absolute()),
            ("path.is_relative", p.is_relative(), !d.is_absolute()),
            ("has_any_verbatim_prefix", c.has_any_verbatim_prefix(), d.any_verbatim()),
            ("has_verbatim_prefix", c.has_verbatim_prefix(), matches!(&d.prefix, Some((spec::Kind::Verbatim(_), _)))),
            ("has_verbatim_unc_prefix", c.has_verbatim_unc_prefix(), matches!(&d.prefix, Some((spec::Kind::VerbatimUNC(..), _)))),
            ("has_verbatim_disk_prefix", c.has_verbatim_disk_prefix(), matches!(&d.prefix, Some((spec::Kind::VerbatimDisk(_), _)))),
            ("has_device_ns_prefix", c.has_device_ns_prefix(), matches!(&d.prefix, Some((spec::Kind::DeviceNS(_), _)))),
            ("has_unc_prefix", c.has_unc_prefix(), matches!(&d.prefix, Some((spec::Kind::UNC(..), _)))),
            ("has_disk_prefix", c.has_disk_prefix(), matches!(&d.prefix, Some((spec::Kind::Disk(_), _)))),
        ];
        for (name, got, want) in q {
            if got != want {
                ctx.fail(&format!("query-{}", name), None, format!("wq {}", hex(s)), format!("impl {} grammar {}", got, want));
            }
        }
        let pk = c.prefix_kind().map(|k| kind_of(&k));
        if pk != d.prefix.as_ref().map(|x| x.0.clone()) || c.prefix().map(|x| kind_of(&x.kind())) != pk {
            ctx.fail("query-prefix-kind", None, format!("wq {}", hex(s)), format!("{:?}", pk));
        }
        if let Some(k) = c.prefix_kind() {
            if k.is_verbatim() != d.any_verbatim() {
                ctx.fail("query-is-verbatim", None, format!("wq {}", hex(s)), format!("{:?}", k));
            }
            // the documented length of the canonical spelling of the kind
            let doc_len = match kind_of(&k) {
                spec::Kind::Verbatim(x) => 4 + x.len(),
                spec::Kind::VerbatimUNC(x, y) => 8 + x.len() + if y.is_empty() { 0 } else { 1 + y.len() },
                spec::Kind::VerbatimDisk(_) => 6,
                spec::Kind::DeviceNS(x) => 4 + x.len(),
                spec::Kind::UNC(x, y) => 2 + x.len() + if y.is_empty() { 0 } else { 1 + y.len() },
                spec::Kind::Disk(_) => 2,
            };
            if k.len() != doc_len {
                ctx.fail("prefix-kind-len", None, format!("wq {}", hex(s)), format!("{:?}.len() = {} documented {}", k, k.len(), doc_len));
            }
            if let Ok(st) = std::str::from_utf8(s) {
                let c8 = Utf8WindowsPath::new(st).components();
                let k8 = c8.prefix_kind();
                if k8.map(|x| (x.len(), x.is_verbatim())) != Some((doc_len, k.is_verbatim())) {
                    ctx.fail("prefix-kind-len", None, format!("wq {}", hex(s)), format!("utf8 {:?}", k8.map(|x| x.len())));
                }
            }
        }
        // single-item conversions: a component from a one-component path, a prefix (component) from a
        // path that is exactly one prefix; anything else is refused
        {
            let want_c = if d.comps.len() == 1 { Some(d.comps[0].clone()) } else { None };
            let rc = WindowsComponent::try_from(s.as_slice()).ok().map(|c| sc_w(&c));
            let rc2 = std::str::from_utf8(s).ok().map(|st| WindowsComponent::try_from(st).ok().map(|c| sc_w(&c)));
            let rc3 = via_array!(s.as_slice(), a => WindowsComponent::try_from(a).ok().map(|c| sc_w(&c)));
            if rc != want_c || rc2.map_or(false, |x| x != want_c) || rc3.map_or(false, |x| x != want_c) {
                ctx.fail("component-try-from", None, rp.clone(), format!("{:?} want {:?}", rc, want_c));
            }
            let want_k = match (&d.prefix, d.comps.len()) {
                (Some((k, _)), 1) => Some(k.clone()),
                _ => None,
            };
            let rk = WindowsPrefix::try_from(s.as_slice()).ok().map(|x| kind_of(&x));
            let rk2 = std::str::from_utf8(s).ok().map(|st| WindowsPrefix::try_from(st).ok().map(|x| kind_of(&x)));
            let rk3 = via_array!(s.as_slice(), a => WindowsPrefix::try_from(a).ok().map(|x| kind_of(&x)));
            let rp1 = typed_path::WindowsPrefixComponent::try_from(s.as_slice()).ok().map(|x| (kind_of(&x.kind()), x.as_bytes().to_vec()));
            let rp2 = std::str::from_utf8(s).ok().map(|st| typed_path::WindowsPrefixComponent::try_from(st).ok().map(|x| (kind_of(&x.kind()), x.as_bytes().to_vec())));
            let rp3 = via_array!(s.as_slice(), a => typed_path::WindowsPrefixComponent::try_from(a).ok().map(|x| (kind_of(&x.kind()), x.as_bytes().to_vec())));
            let want_p = want_k.clone().map(|k| (k, s.clone()));
            if rk != want_k || rk2.map_or(false, |x| x != want_k) || rk3.map_or(false, |x| x != want_k)
                || rp1 != want_p || rp2.map_or(false, |x| x != want_p) || rp3.map_or(false, |x| x != want_p) {
                ctx.fail("prefix-try-from", None, rp.clone(), format!("{:?} / {:?} want {:?}", rk, rp1.map(|x| x.0), want_k));
            }
        }
    }
    {
        let n = (1usize << 20) + 5;
        let mut giants: Vec<Vec<u8>> = Vec::new();
        for pre in [&b"a"[..], br"C:\x", br"\\?\C:\x", br"\\s\h\x"] {
            let mut g = pre.to_vec();
            g.extend(std::iter::repeat(b'\\').take(n));
            g.push(b'b');
            giants.push(g);
        }
        for m in giant_sizes() {
            let name: Vec<u8> = (0..m).map(|k| b'a' + (k % 26) as u8).collect();
            giants.push([&name[..], br"\b"].concat());
            giants.push([br"C:\x\", &name[..], b"/y"].concat());
            giants.push([br"\\?\C:\", &name[..]].concat());
            giants.push([br"\\", &name[..], br"\share\a"].concat());
        }
        let mut g = br"C:\x\".to_vec();
        for _ in 0..(n / 2 + 3) {
            g.extend_from_slice(b".\\");
        }
        g.extend_from_slice(b"y");
        giants.push(g);
        for g in &giants {
            ctx.evals += 1;
            let p = WindowsPath::new(g);
            let d = spec::win_decomp(g);
            let fwd: Vec<SComp> = p.components().map(|c| sc_w(&c)).collect();
            let mut back: Vec<SComp> = p.components().rev().map(|c| sc_w(&c)).collect();
            back.reverse();
            if fwd != d.comps || back != d.comps {
                ctx.fail("giant-run-vs-grammar", None, format!("comps w {}", hex(&g[..g.len().min(24)])), format!("{} bytes: front {} back {} grammar {}", g.len(), show_sc(&fwd), show_sc(&back), show_sc(&d.comps)));
            }
        }
    }
    ctx.sample(format!("comps w {}", hex(br"\\?\UNC\server\share\a\.\b")));
    ctx.sample(format!("wq {}", hex(b"c:/a/./b")));
}

fn offsets(base: &[u8], sub: &[u8]) -> Option<(usize, usize)> {
    let b0 = base.as_ptr() as usize;
    let s0 = sub.as_ptr() as usize;
    if s0 < b0 || s0 + sub.len() > b0 + base.len() {
        return None;
    }
    Some((s0 - b0, s0 - b0 + sub.len()))
}

fn gap_ok(win: bool, verb: bool, g: &[u8]) -> bool {
    // only separators and `.` / `..` segments
    let sep = |b: u8| if verb { b == b'\\' } else { is_sep(win, b) };
    g.split(|b| sep(*b)).all(|seg| seg.is_empty() || seg == b"." || seg == b"..")
}

pub fn c03(ctx: &mut Ctx, tier: &str, seed: u64) {
    let mut rng = Rng::new(seed ^ 0xa3);
    let cap = if tier_is_thorough(tier) { 7 } else { 5 };
    for win in [false, true] {
        let dom = if win { dom_win(tier, seed) } else { dom_unix(tier, seed) };
        let e = gen::e(win);
        for s in &dom {
            at(format!("back {} {}", e, hex(s)));
            let fwd = comps(win, s);
            let mut back: Vec<SComp> = if win {
                WindowsPath::new(s).components().rev().map(|c| sc_w(&c)).collect()
            } else {
                UnixPath::new(s).components().rev().map(|c| sc_u(&c)).collect()
            };
            back.reverse();
            ctx.tally(&format!("{}:ncomp={}", e, fwd.len().min(8)));
            ctx.case(nontrivial_path(&fwd), (win, s, 0u8));
            if fwd != back {
                ctx.fail("back-is-reverse-of-front", None, format!("back {} {}", e, hex(s)), format!("front {} back(reversed) {}", show_sc(&fwd), show_sc(&back)));
                continue;
            }
            if fwd.len() > s.len() {
                ctx.fail("more-components-than-bytes", None, format!("comps {} {}", e, hex(s)), String::new());
            }
            let n = fwd.len();
            for m in all_masks(n + 1, cap, &mut rng) {
                at(format!("mix {} {} {}", e, hex(s), mask_str(&m)));
                ctx.case(n >= 2, (win, s, &m));
                let (mut lo, mut hi) = (0usize, n);
                macro_rules! drive {
                    ($it:expr, $sc:expr) => {{
                        let mut it = $it;
                        let mut bad = None;
                        for (i, bk) in m.iter().enumerate() {
                            let x = if *bk { it.next_back() } else { it.next() };
                            let y = if lo < hi {
                                if *bk {
                                    hi -= 1;
                                    Some(fwd[hi].clone())
                                } else {
                                    lo += 1;
                                    Some(fwd[lo - 1].clone())
                                }
                            } else {
                                None
                            };
                            let x = x.map(|c| $sc(&c));
                            let rem: Vec<SComp> = it.clone().map(|c| $sc(&c)).collect();
                            if x != y || rem != fwd[lo..hi] {
                                bad = Some(format!("step {}: got {:?} want {:?}; rest {} want {}", i, x, y, show_sc(&rem), show_sc(&fwd[lo..hi])));
                                break;
                            }
                        }
                        if bad.is_none() {
                            // fused: stays exhausted
                            while it.next().is_some() {}
                            for _ in 0..3 {
                                if it.next().is_some() || it.next_back().is_some() {
                                    bad = Some("yields again after exhaustion".into());
                                }
                            }
                        }
                        bad
                    }};
                }
                let bad = if win { drive!(WindowsPath::new(s).components(), sc_w) } else { drive!(UnixPath::new(s).components(), sc_u) };
                if let Some(d) = bad {
                    ctx.fail("interleaving-coherent", None, format!("mix {} {} {}", e, hex(s), mask_str(&m)), d);
                    break;
                }
            }
            // conservation: prefix and normals are in-order, non-overlapping sub-slices; gaps are
            // separators and `.`/`..` segments only
            let verb = win && s.starts_with(br"\\?\");
            let mut pos = 0usize;
            let mut ok = true;
            let mut slices: Vec<&[u8]> = Vec::new();
            if win {
                for c in WindowsPath::new(s).components() {
                    match c {
                        WindowsComponent::Prefix(p) => slices.push(p.as_bytes()),
                        WindowsComponent::Normal(x) => slices.push(x),
                        _ => {}
                    }
                }
            } else {
                for c in UnixPath::new(s).components() {
                    if let UnixComponent::Normal(x) = c {
                        slices.push(x)
                    }
                }
            }
            for sl in &slices {
                match offsets(s, sl) {
                    Some((a, b)) if a >= pos && gap_ok(win, verb, &s[pos..a]) => pos = b,
                    _ => {
                        ok = false;
                        break;
                    }
                }
            }
            if ok && !gap_ok(win, verb, &s[pos..]) {
                ok = false;
            }
            if !ok {
                ctx.fail("byte-conservation", None, format!("comps {} {}", e, hex(s)), format!("slices {:?}", slices.iter().map(|x| lossy(x)).collect::<Vec<_>>()));
            }
            // byte-slice iterator, typed wrapper, UTF-8 counterparts: same sequences both ways
            let as_b: Vec<Vec<u8>> = if win {
                WindowsPath::new(s).components().map(|c| c.as_bytes().to_vec()).collect()
            } else {
                UnixPath::new(s).components().map(|c| c.as_bytes().to_vec()).collect()
            };
            let (it_f, it_b): (Vec<Vec<u8>>, Vec<Vec<u8>>) = if win {
                (WindowsPath::new(s).iter().map(|x| x.to_vec()).collect(), WindowsPath::new(s).iter().rev().map(|x| x.to_vec()).collect())
            } else {
                (UnixPath::new(s).iter().map(|x| x.to_vec()).collect(), UnixPath::new(s).iter().rev().map(|x| x.to_vec()).collect())
            };
            let mut it_b2 = it_b.clone();
            it_b2.reverse();
            if it_f != as_b || it_b2 != as_b {
                ctx.fail("iter-matches-components", None, format!("comps {} {}", e, hex(s)), format!("{:?} / {:?}", it_f, it_b));
            }
            let tp = if win { TypedPath::Windows(WindowsPath::new(s)) } else { TypedPath::Unix(UnixPath::new(s)) };
            let t_f: Vec<Vec<u8>> = tp.components().map(|c| c.as_bytes().to_vec()).collect();
            let mut t_b: Vec<Vec<u8>> = tp.components().rev().map(|c| c.as_bytes().to_vec()).collect();
            t_b.reverse();
            let ti_f: Vec<Vec<u8>> = tp.iter().map(|c| c.to_vec()).collect();
            if t_f != as_b || t_b != as_b || ti_f != as_b {
                ctx.fail("typed-components-match", None, format!("comps {} {}", e, hex(s)), format!("{:?}", t_f));
            }
            // ... and under interleavings, for every wrapper iterator the crate offers
            for m in all_masks(as_b.len() + 1, 4, &mut rng) {
                let v = |x: &[u8]| x.to_vec();
                let mut bad: Vec<(&str, String)> = Vec::new();
                macro_rules! chk {
                    ($name:expr, $it:expr) => {
                        if let Some(d) = drive_bytes($it, &as_b, &m) {
                            bad.push(($name, d));
                        }
                    };
                }
                if win {
                    let p = WindowsPath::new(s);
                    chk!("Path::iter", p.iter().map(v));
                    chk!("Components as_bytes", p.components().map(|c| c.as_bytes().to_vec()));
                    let pb = p.to_path_buf();
                    chk!("PathBuf::iter", pb.iter().map(v));
                } else {
                    let p = UnixPath::new(s);
                    chk!("Path::iter", p.iter().map(v));
                    chk!("Components as_bytes", p.components().map(|c| c.as_bytes().to_vec()));
                    let pb = p.to_path_buf();
                    chk!("PathBuf::iter", pb.iter().map(v));
                }
                chk!("TypedPath::components", tp.components().map(|c| c.as_bytes().to_vec()));
                chk!("TypedPath::iter", tp.iter().map(v));
                let tpb = tp.to_path_buf();
                chk!("TypedPathBuf::components", tpb.components().map(|c| c.as_bytes().to_vec()));
                chk!("TypedPathBuf::iter", tpb.iter().map(v));
                if let Ok(st) = std::str::from_utf8(s) {
                    let vs = |x: &str| x.as_bytes().to_vec();
                    if win {
                        let p = Utf8WindowsPath::new(st);
                        chk!("Utf8Path::iter", p.iter().map(vs));
                        chk!("Utf8Components", p.components().map(|c| c.as_str().as_bytes().to_vec()));
                    } else {
                        let p = Utf8UnixPath::new(st);
                        chk!("Utf8Path::iter", p.iter().map(vs));
                        chk!("Utf8Components", p.components().map(|c| c.as_str().as_bytes().to_vec()));
                    }
                    let up = if win { Utf8TypedPath::windows(st) } else { Utf8TypedPath::unix(st) };
                    chk!("Utf8TypedPath::components", up.components().map(|c| c.as_str().as_bytes().to_vec()));
                    chk!("Utf8TypedPath::iter", up.iter().map(vs));
                    let upb = up.to_path_buf();
                    chk!("Utf8TypedPathBuf::components", upb.components().map(|c| c.as_str().as_bytes().to_vec()));
                    chk!("Utf8TypedPathBuf::iter", upb.iter().map(vs));
                }
                if let Some((name, d)) = bad.first() {
                    ctx.fail("wrapper-iterators-interleave", None, format!("mix {} {} {}", e, hex(s), mask_str(&m)), format!("{}: {}", name, d));
                    break;
                }
            }
            if let Ok(st) = std::str::from_utf8(s) {
                let (u_f, mut u_b): (Vec<Vec<u8>>, Vec<Vec<u8>>) = if win {
                    (Utf8WindowsPath::new(st).components().map(|c| c.as_str().as_bytes().to_vec()).collect(), Utf8WindowsPath::new(st).components().rev().map(|c| c.as_str().as_bytes().to_vec()).collect())
                } else {
                    (Utf8UnixPath::new(st).components().map(|c| c.as_str().as_bytes().to_vec()).collect(), Utf8UnixPath::new(st).components().rev().map(|c| c.as_str().as_bytes().to_vec()).collect())
                };
                u_b.reverse();
                let ui: Vec<Vec<u8>> = if win { Utf8WindowsPath::new(st).iter().map(|c| c.as_bytes().to_vec()).collect() } else { Utf8UnixPath::new(st).iter().map(|c| c.as_bytes().to_vec()).collect() };
                if u_f != as_b || u_b != as_b || ui != as_b {
                    ctx.fail("utf8-components-match", None, format!("comps {} {}", e, hex(s)), format!("{:?}", u_f));
                }
            }
        }
    }
    ctx.sample(format!("mix w {} fbbf", hex(br"C:\a\.\b\")));
    ctx.sample(format!("back u {}", hex(b"./a//b/.")));
}

fn checked_err_to_verdict(e: &CheckedPathError) -> spec::Verdict {
    match e {
        CheckedPathError::InvalidFilename => spec::Verdict::InvalidFilename,
        CheckedPathError::PathTraversalAttack => spec::Verdict::PathTraversalAttack,
        CheckedPathError::UnexpectedPrefix => spec::Verdict::UnexpectedPrefix,
        CheckedPathError::UnexpectedRoot => spec::Verdict::UnexpectedRoot,
    }
}

pub fn c04(ctx: &mut Ctx, tier: &str, seed: u64) {
    for win in [false, true] {
        let e = gen::e(win);
        let bases: Vec<Vec<u8>> = gen::bases(win, tier, seed).into_iter().filter(|b| well_formed_wide(win, b)).collect();
        let mut args = dom_args(win, tier, seed);
        // all byte strings: also short strings over hostile bytes
        args.extend(strings_b(if win { b"\\.:a|" } else { b"/.\0a" }, 3));
        let args = dedup_keep_order(args);
        let keep = cross_keep(tier, bases.len(), args.len(), 300, 150);
        for (bi, base) in bases.iter().enumerate() {
            let cb = spec::canon(&spec_comps(win, base));
            for (pi, p) in args.iter().enumerate() {
                if !keep(bi, pi) {
                    continue;
                }
                let rp = format!("pushc {} {} {}", e, hex(base), hex(p));
                at(rp.clone());
                let v = spec::verdict(&spec_comps(win, p), win);
                let (buf, r) = push_checked_b(win, base, p);
                ctx.tally(&format!("{}:{:?}", e, v));
                ctx.case(spec_comps(win, p).len() >= 2 || v != spec::Verdict::Ok, (win, base, p));
                match &r {
                    Err(err) => {
                        if buf != *base {
                            ctx.fail("failed-push-mutated-buffer", None, rp.clone(), format!("buffer now \"{}\"", lossy(&buf)));
                        }
                        if checked_err_to_verdict(err) != v {
                            ctx.fail("verdict", None, rp.clone(), format!("impl {:?} rule {:?}", err, v));
                        }
                    }
                    Ok(()) => {
                        if v != spec::Verdict::Ok {
                            ctx.fail("verdict", None, rp.clone(), format!("impl Ok rule {:?}", v));
                            continue;
                        }
                        let j = push_b(win, base, p);
                        if buf != j {
                            ctx.fail("ok-equals-unchecked-join", None, rp.clone(), format!("checked \"{}\" join \"{}\"", lossy(&buf), lossy(&j)));
                        }
                        let cr = spec::canon(&comps(win, &buf));
                        let class = if k3_shape(win, base) { Some("K3") } else { None };
                        if !cr.starts_with(&cb) {
                            ctx.fail("result-begins-with-base", class, rp.clone(), format!("base {} result {}", show_sc(&cb), show_sc(&cr)));
                            continue;
                        }
                        let added = &cr[cb.len()..];
                        let mut depth: i64 = 0;
                        let mut bad = false;
                        for c in added {
                            match c {
                                SComp::Prefix(_) | SComp::Root => bad = true,
                                SComp::Normal(_) => depth += 1,
                                SComp::Parent => {
                                    depth -= 1;
                                    if depth < 0 {
                                        bad = true
                                    }
                                }
                                SComp::Cur => {}
                            }
                        }
                        if bad {
                            ctx.fail("added-components-climb-or-reroot", class, rp.clone(), format!("added {}", show_sc(added)));
                        }
                    }
                }
                // join_checked, UTF-8 and typed forms agree with push_checked
                let jc: Result<Vec<u8>, CheckedPathError> = if win {
                    WindowsPath::new(base).join_checked(p).map(|x| x.into_vec())
                } else {
                    UnixPath::new(base).join_checked(p).map(|x| x.into_vec())
                };
                let same = match (&jc, &r) {
                    (Ok(x), Ok(())) => *x == buf,
                    (Err(a), Err(b)) => a == b,
                    _ => false,
                };
                if !same {
                    ctx.fail("join_checked-vs-push_checked", None, rp.clone(), format!("{:?}", jc.as_ref().map(|x| lossy(x))));
                }
                let tb = if win { TypedPathBuf::Windows(WindowsPathBuf::from(base.as_slice())) } else { TypedPathBuf::Unix(UnixPathBuf::from(base.as_slice())) };
                let mut tb2 = tb.clone();
                let tr = tb2.push_checked(p.as_slice());
                if tr.is_ok() != r.is_ok() || tb2.as_bytes() != buf.as_slice() || tr.as_ref().err() != r.as_ref().err() {
                    ctx.fail("typed-push_checked-agrees", None, rp.clone(), format!("{:?} \"{}\"", tr, lossy(tb2.as_bytes())));
                }
                if let (Ok(sb), Ok(spth)) = (std::str::from_utf8(base), std::str::from_utf8(p)) {
                    let (ub, ur): (Vec<u8>, Result<(), CheckedPathError>) = if win {
                        let mut x = Utf8WindowsPathBuf::from(sb);
                        let r = x.push_checked(spth);
                        (x.into_string().into_bytes(), r)
                    } else {
                        let mut x = Utf8UnixPathBuf::from(sb);
                        let r = x.push_checked(spth);
                        (x.into_string().into_bytes(), r)
                    };
                    if ub != buf || ur != r {
                        ctx.fail("utf8-push_checked-agrees", None, rp.clone(), format!("{:?} \"{}\"", ur, lossy(&ub)));
                    }
                }
            }
        }
    }
    // DEEP arguments (hundreds to tens of thousands of components around the magic numbers and the limits of
    // narrow integers), each against a few bases: accepted exactly when no `..` outnumbers the names before
    // it, and then equal to the unchecked join
    for win in [false, true] {
        let bases: Vec<&[u8]> = if win { vec![b"", b"x", br"C:\x", br"\\?\C:\x"] } else { vec![b"", b"x", b"/x"] };
        for arg in deep_arguments(win) {
            let cs = spec_comps(win, &arg);
            let want_ok = spec::verdict(&cs, win) == spec::Verdict::Ok;
            for b in &bases {
                ctx.evals += 1;
                at(format!("pushc {} {} {}", gen::e(win), hex(b), hex(&arg[..arg.len().min(48)])));
                let (res, r) = push_checked_b(win, b, &arg);
                let plain = push_b(win, b, &arg);
                if r.is_ok() != want_ok || (r.is_ok() && res != plain) || (!want_ok && !matches!(r, Err(CheckedPathError::PathTraversalAttack))) {
                    ctx.fail("deep-arguments", None, format!("pushc {} {} {}", gen::e(win), hex(b), hex(&arg[..arg.len().min(48)])), format!("{} components: {:?}, expected {}", cs.len(), r.as_ref().map(|_| ()), if want_ok { "Ok" } else { "PathTraversalAttack" }));
                }
            }
        }
    }
    ctx.sample(format!("pushc w {} {}", hex(br"C:\base"), hex(br"a\..\..\b")));
    ctx.sample(format!("pushc u {} {}", hex(b"/base"), hex(b"a/../b\0")));
}

pub fn c05(ctx: &mut Ctx, tier: &str, seed: u64) {
    let t = tier_is_thorough(tier);
    for win in [false, true] {
        let e = gen::e(win);
        let dom = gen::c05_small(win, tier, seed);
        // operands that ALIAS each other: a path against its own parent / ancestors / tails
        for a in &dom {
            for (lo, hi) in alias_ranges(win, a) {
                ctx.evals += 1;
                if let Some(d) = cmp_alias_mismatch(win, a, lo, hi) {
                    ctx.fail("comparison-depends-on-bytes-only", None, format!("rel {} {} {}", e, hex(a), hex(&a[lo..hi])), d);
                }
            }
        }
        let pairs = gen::pairs_related(&dom, win, if t { 40 } else { 8 }, seed);
        let mut hs: HashSet<WindowsPathBuf> = HashSet::new();
        let mut bs: BTreeSet<WindowsPathBuf> = BTreeSet::new();
        let mut hu: HashSet<UnixPathBuf> = HashSet::new();
        let mut bu: BTreeSet<UnixPathBuf> = BTreeSet::new();
        for (a, b) in &pairs {
            let rp = format!("rel {} {} {}", e, hex(a), hex(b));
            at(rp.clone());
            let (ca, cb) = (comps(win, a), comps(win, b));
            let (eq, ord, ha, hb) = if win {
                let (pa, pb) = (WindowsPath::new(a), WindowsPath::new(b));
                (pa == pb, pa.cmp(pb), hash_chunks(pa), hash_chunks(pb))
            } else {
                let (pa, pb) = (UnixPath::new(a), UnixPath::new(b));
                (pa == pb, pa.cmp(pb), hash_chunks(pa), hash_chunks(pb))
            };
            ctx.tally(if ca == cb { if a == b { "identical" } else { "equal-respelled" } } else { "different" });
            ctx.case(ca == cb && a != b || nontrivial_path(&ca), (win, a, b));
            if eq != (ca == cb) {
                ctx.fail("eq-iff-components-equal", None, rp.clone(), format!("eq {} comps {} vs {}", eq, show_sc(&ca), show_sc(&cb)));
            }
            if ord != ca.cmp(&cb) {
                ctx.fail("cmp-lexicographic", None, rp.clone(), format!("cmp {:?} lexicographic {:?}", ord, ca.cmp(&cb)));
            }
            if (ord == std::cmp::Ordering::Equal) != eq {
                ctx.fail("cmp-equal-iff-eq", None, rp.clone(), format!("cmp {:?} eq {}", ord, eq));
            }
            if eq && ha != hb {
                ctx.fail("eq-implies-same-hasher-input", None, format!("hash {} {}", e, hex(a)), format!("other {}: {:?} vs {:?}", hex(b), ha, hb));
            }
            // the component iterators carry their own Eq / PartialOrd / Ord impls (the path impls call
            // them): all three must tell the same story (fresh iterators: a partly consumed one compares its
            // remaining BYTES re-read as a path, which is outside this property)
            {
                macro_rules! iter_cmp {
                    ($ia:expr, $ib:expr) => {{
                        let (ia, ib) = ($ia, $ib);
                        let ok = (ia == ib) == eq && Ord::cmp(&ia, &ib) == ord && PartialOrd::partial_cmp(&ia, &ib) == Some(ord)
                            && Ord::cmp(&ib, &ia) == ord.reverse();
                        ok
                    }};
                }
                let mut ok = if win { iter_cmp!(WindowsPath::new(a).components(), WindowsPath::new(b).components()) } else { iter_cmp!(UnixPath::new(a).components(), UnixPath::new(b).components()) };
                if let (Ok(sa), Ok(sb)) = (std::str::from_utf8(a), std::str::from_utf8(b)) {
                    ok = ok && if win { iter_cmp!(Utf8WindowsPath::new(sa).components(), Utf8WindowsPath::new(sb).components()) } else { iter_cmp!(Utf8UnixPath::new(sa).components(), Utf8UnixPath::new(sb).components()) };
                }
                if !ok {
                    ctx.fail("component-iterator-cmp-agrees", None, rp.clone(), String::new());
                }
            }
            // owned / typed / UTF-8 / mixed impls agree
            let (beq, bord, bh) = if win {
                let (x, y) = (WindowsPathBuf::from(a.as_slice()), WindowsPathBuf::from(b.as_slice()));
                (x == y && x.as_path() == &y && WindowsPath::new(a) == &y, x.cmp(&y), hash_chunks(&x))
            } else {
                let (x, y) = (UnixPathBuf::from(a.as_slice()), UnixPathBuf::from(b.as_slice()));
                (x == y && x.as_path() == &y && UnixPath::new(a) == &y, x.cmp(&y), hash_chunks(&x))
            };
            if beq != eq || bord != ord || bh != ha {
                ctx.fail("pathbuf-agrees-with-path", None, rp.clone(), format!("eq {} cmp {:?}", beq, bord));
            }
            let (ta, tb) = if win { (TypedPath::Windows(WindowsPath::new(a)), TypedPath::Windows(WindowsPath::new(b))) } else { (TypedPath::Unix(UnixPath::new(a)), TypedPath::Unix(UnixPath::new(b))) };
            if (ta == tb) != eq || ta.partial_cmp(&tb) != Some(ord) || (ta.to_path_buf() == tb.to_path_buf()) != eq {
                ctx.fail("typed-agrees-with-path", None, rp.clone(), format!("eq {} cmp {:?}", ta == tb, ta.partial_cmp(&tb)));
            }
            // typed values against owned typed values and (UTF-8) against plain strings, both operand orders
            {
                let (tpa, tpb) = (ta.to_path_buf(), tb.to_path_buf());
                if (ta == tpb) != eq || (tpb == ta) != eq || (tpa == tb) != eq || (tb == tpa) != eq {
                    ctx.fail("typed-mixed-eq-agrees", None, rp.clone(), "TypedPath ~ TypedPathBuf".into());
                }
            }
            if let (Ok(sa), Ok(sb)) = (std::str::from_utf8(a), std::str::from_utf8(b)) {
                let ua = if win { Utf8TypedPath::windows(sa) } else { Utf8TypedPath::unix(sa) };
                let ub = if win { Utf8TypedPath::windows(sb) } else { Utf8TypedPath::unix(sb) };
                let (uab, ubb) = (ua.to_path_buf(), ub.to_path_buf());
                if (ua == ub) != eq || (ua == ubb) != eq || (ubb == ua) != eq || (uab == ubb) != eq || ua.partial_cmp(&ub) != Some(ord) {
                    ctx.fail("typed-mixed-eq-agrees", None, rp.clone(), "Utf8TypedPath ~ Utf8TypedPathBuf".into());
                }
                // against plain strings the typed types compare TEXT: all four impls must say the same
                let text_eq = sa == sb;
                let v = [ua == *sb, *sb == ua, ua == sb, sb == ua, uab == *sb, *sb == uab, uab == sb, sb == uab];
                if v.iter().any(|x| *x != text_eq) {
                    ctx.fail("typed-vs-str-impls-agree", None, rp.clone(), format!("{:?} text-equal {}", v, text_eq));
                }
            }
            if let (Ok(sa), Ok(sb)) = (std::str::from_utf8(a), std::str::from_utf8(b)) {
                let (ueq, uord, uh) = if win {
                    let (x, y) = (Utf8WindowsPath::new(sa), Utf8WindowsPath::new(sb));
                    (x == y, x.cmp(y), hash_chunks(x))
                } else {
                    let (x, y) = (Utf8UnixPath::new(sa), Utf8UnixPath::new(sb));
                    (x == y, x.cmp(y), hash_chunks(x))
                };
                if ueq != eq || uord != ord || uh != ha {
                    ctx.fail("utf8-agrees-with-path", None, rp.clone(), format!("eq {} cmp {:?}", ueq, uord));
                }
            }
            // every mixed-type impl the crate offers (impl_cmp! / impl_cmp_bytes!, byte and UTF-8 copies),
            // in both operand orders
            {
                let mut bad: Option<&'static str> = None;
                macro_rules! mixed {
                    ($name:expr, $l:expr, $r:expr) => {{
                        let l = $l;
                        let r = $r;
                        if (l == r) != eq || (r == l) != eq || l.partial_cmp(&r) != Some(ord) || r.partial_cmp(&l) != Some(ord.reverse()) {
                            bad.get_or_insert($name);
                        }
                    }};
                }
                macro_rules! mixed_all {
                    ($P:ident, $B:ident, $pa:expr, $pb:expr, $ra:expr, $rb:expr, $own:ty, $raw:ty) => {{
                        let (pa, pb): (&$P, &$P) = ($pa, $pb);
                        let (xa, xb): ($B, $B) = (pa.to_path_buf(), pb.to_path_buf());
                        let (ca, cb): (Cow<$P>, Cow<$P>) = (Cow::Borrowed(pa), Cow::Owned(xb.clone()));
                        let (ra, rb): (&$raw, &$raw) = ($ra, $rb);
                        let (oa, ob): ($own, $own) = (ra.to_owned(), rb.to_owned());
                        let (wa, wb): (Cow<$raw>, Cow<$raw>) = (Cow::Borrowed(ra), Cow::Owned(ob.clone()));
                        mixed!("PathBuf~Path", xa.clone(), &*pb);
                        mixed!("PathBuf~&Path", xa.clone(), pb);
                        mixed!("Cow~Path", ca.clone(), &*pb);
                        mixed!("Cow~&Path", ca.clone(), pb);
                        mixed!("Cow~PathBuf", ca.clone(), xb.clone());
                        mixed!("PathBuf~Cow(owned)", xa.clone(), cb.clone());
                        if (*pa == *pb) != eq || pa.partial_cmp(pb) != Some(ord) || (xa == xb) != eq || xa.partial_cmp(&xb) != Some(ord) {
                            bad.get_or_insert("same-type");
                        }
                        // against raw bytes / strings: the raw side is parsed as a path
                        if (xa == *rb) != eq || (*rb == xa) != eq || xa.partial_cmp(rb) != Some(ord) || rb.partial_cmp(&xa) != Some(ord.reverse()) {
                            bad.get_or_insert("PathBuf~raw");
                        }
                        if (xa == rb) != eq || (rb == xa) != eq || xa.partial_cmp(&rb) != Some(ord) || rb.partial_cmp(&xa) != Some(ord.reverse()) {
                            bad.get_or_insert("PathBuf~&raw");
                        }
                        if (xa == wb) != eq || (wb == xa) != eq || xa.partial_cmp(&wb) != Some(ord) || wb.partial_cmp(&xa) != Some(ord.reverse()) {
                            bad.get_or_insert("PathBuf~Cow<raw>");
                        }
                        if (xa == ob) != eq || (ob == xa) != eq || xa.partial_cmp(&ob) != Some(ord) || ob.partial_cmp(&xa) != Some(ord.reverse()) {
                            bad.get_or_insert("PathBuf~owned-raw");
                        }
                        if (*pa == *rb) != eq || (*rb == *pa) != eq || pa.partial_cmp(rb) != Some(ord) || rb.partial_cmp(pa) != Some(ord.reverse()) {
                            bad.get_or_insert("Path~raw");
                        }
                        if (*pa == rb) != eq || (rb == *pa) != eq || (*pa).partial_cmp(&rb) != Some(ord) || rb.partial_cmp(&*pa) != Some(ord.reverse()) {
                            bad.get_or_insert("Path~&raw");
                        }
                        if (*pa == wb) != eq || (wb == *pa) != eq || pa.partial_cmp(&wb) != Some(ord) || wb.partial_cmp(pa) != Some(ord.reverse()) {
                            bad.get_or_insert("Path~Cow<raw>");
                        }
                        if (*pa == ob) != eq || (ob == *pa) != eq || pa.partial_cmp(&ob) != Some(ord) || ob.partial_cmp(pa) != Some(ord.reverse()) {
                            bad.get_or_insert("Path~owned-raw");
                        }
                        if (pa == *rb) != eq || (*rb == pa) != eq || pa.partial_cmp(rb) != Some(ord) || rb.partial_cmp(&pa) != Some(ord.reverse()) {
                            bad.get_or_insert("&Path~raw");
                        }
                        if (pa == wb) != eq || (wb == pa) != eq || pa.partial_cmp(&wb) != Some(ord) || wb.partial_cmp(&pa) != Some(ord.reverse()) {
                            bad.get_or_insert("&Path~Cow<raw>");
                        }
                        if (pa == ob) != eq || (ob == pa) != eq || pa.partial_cmp(&ob) != Some(ord) || ob.partial_cmp(&pa) != Some(ord.reverse()) {
                            bad.get_or_insert("&Path~owned-raw");
                        }
                        let _ = (wa, oa);
                    }};
                }
                if win {
                    mixed_all!(WindowsPath, WindowsPathBuf, WindowsPath::new(a), WindowsPath::new(b), a.as_slice(), b.as_slice(), Vec<u8>, [u8]);
                } else {
                    mixed_all!(UnixPath, UnixPathBuf, UnixPath::new(a), UnixPath::new(b), a.as_slice(), b.as_slice(), Vec<u8>, [u8]);
                }
                if let Some(which) = bad {
                    ctx.fail("mixed-type-impls-agree", None, rp.clone(), format!("byte types, {}", which));
                }
                if let (Ok(sa), Ok(sb)) = (std::str::from_utf8(a), std::str::from_utf8(b)) {
                    bad = None;
                    if win {
                        mixed_all!(Utf8WindowsPath, Utf8WindowsPathBuf, Utf8WindowsPath::new(sa), Utf8WindowsPath::new(sb), sa, sb, String, str);
                    } else {
                        mixed_all!(Utf8UnixPath, Utf8UnixPathBuf, Utf8UnixPath::new(sa), Utf8UnixPath::new(sb), sa, sb, String, str);
                    }
                    if let Some(which) = bad {
                        ctx.fail("mixed-type-impls-agree", None, rp.clone(), format!("UTF-8 types, {}", which));
                    }
                }
            }
            // collections: insert a, look up b
            if eq && a != b {
                if win {
                    hs.clear();
                    bs.clear();
                    hs.insert(WindowsPathBuf::from(a.as_slice()));
                    bs.insert(WindowsPathBuf::from(a.as_slice()));
                    if !hs.contains(WindowsPath::new(b)) || !bs.contains(WindowsPath::new(b)) {
                        ctx.fail("collection-lookup-under-respelling", None, rp.clone(), String::new());
                    }
                } else {
                    hu.clear();
                    bu.clear();
                    hu.insert(UnixPathBuf::from(a.as_slice()));
                    bu.insert(UnixPathBuf::from(a.as_slice()));
                    if !hu.contains(UnixPath::new(b)) || !bu.contains(UnixPath::new(b)) {
                        ctx.fail("collection-lookup-under-respelling", None, rp.clone(), String::new());
                    }
                }
            }
        }
        // transitivity / antisymmetry on random triples
        let mut rng = Rng::new(seed ^ 0xa5);
        for _ in 0..(if t { 400_000 } else { 40_000 }) {
            let (a, b, c) = (rng.pick(&dom), rng.pick(&dom), rng.pick(&dom));
            let cmp = |x: &Vec<u8>, y: &Vec<u8>| if win { WindowsPath::new(x).cmp(WindowsPath::new(y)) } else { UnixPath::new(x).cmp(UnixPath::new(y)) };
            let (ab, bc, ac, ba) = (cmp(a, b), cmp(b, c), cmp(a, c), cmp(b, a));
            ctx.evals += 1;
            if ab != ba.reverse() {
                ctx.fail("cmp-antisymmetric", None, format!("rel {} {} {}", e, hex(a), hex(b)), format!("{:?} vs {:?}", ab, ba));
            }
            use std::cmp::Ordering::*;
            if (ab != Greater && bc != Greater && ac == Greater) || (ab == Equal && bc == Equal && ac != Equal) {
                ctx.fail("cmp-transitive", None, format!("rel {} {} {}", e, hex(a), hex(c)), format!("via {}: {:?} {:?} {:?}", hex(b), ab, bc, ac));
            }
        }
    }
    ctx.sample(format!("rel w {} {}", hex(br"C:\a\b"), hex(b"c:/a//b/.")));
    ctx.sample(format!("hash u {}", hex(b"/a/./b")));
}
