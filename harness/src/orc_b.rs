//! Oracles C06–C10.

use crate::gen;
use crate::oracle::*;
use crate::orc_a::{sp, std_comps};
use crate::spec::{self, SComp};
use crate::util::*;
use std::ffi::OsStr;
use std::os::unix::ffi::OsStrExt;
use std::path::PathBuf as SPathBuf;
use typed_path::*;

fn ob(o: Option<&[u8]>) -> String {
    match o {
        Some(b) => format!("Some(\"{}\")", lossy(b)),
        None => "None".into(),
    }
}

pub fn c06(ctx: &mut Ctx, tier: &str, seed: u64) {
    let t = tier_is_thorough(tier);
    let dom = dom_unix(tier, seed);
    for s in &dom {
        let rp = format!("fname u {}", hex(s));
        at(rp.clone());
        let rp = format!("parent u {}", hex(s));
        at(rp.clone());
        let p = UnixPath::new(s);
        let q = sp(s);
        let cs = comps(false, s);
        ctx.case(nontrivial_path(&cs), (s, 0u8));
        ctx.tally(&format!("ncomp={}", cs.len().min(8)));
        let (a, b) = (p.parent().map(|x| x.as_bytes()), q.parent().map(|x| x.as_os_str().as_bytes()));
        if a != b {
            ctx.fail("parent-vs-std", None, rp.clone(), format!("impl {} std {}", ob(a), ob(b)));
        }
        let ia: Vec<&[u8]> = p.ancestors().take(s.len() + 5).map(|x| x.as_bytes()).collect();
        let sa: Vec<&[u8]> = q.ancestors().map(|x| x.as_os_str().as_bytes()).collect();
        if ia != sa {
            ctx.fail("ancestors-vs-std", None, format!("anc u {}", hex(s)), format!("impl {:?} std {:?}", ia.iter().map(|x| lossy(x)).collect::<Vec<_>>(), sa.iter().map(|x| lossy(x)).collect::<Vec<_>>()));
        }
        let (a, b) = (p.file_name(), q.file_name().map(|x| x.as_bytes()));
        if a != b {
            ctx.fail("file_name-vs-std", None, rp.clone(), format!("impl {} std {}", ob(a), ob(b)));
        }
        let (a, b) = (p.file_stem(), q.file_stem().map(|x| x.as_bytes()));
        if a != b {
            ctx.fail("file_stem-vs-std", None, rp.clone(), format!("impl {} std {}", ob(a), ob(b)));
        }
        let (a, b) = (p.extension(), q.extension().map(|x| x.as_bytes()));
        if a != b {
            ctx.fail("extension-vs-std", None, rp.clone(), format!("impl {} std {}", ob(a), ob(b)));
        }
    }
    let small = dom_unix_small(tier, seed);
    let pairs = gen::pairs_prefixy(&small, false, if t { 30 } else { 6 }, seed);
    for (a, b) in &pairs {
        let rp = format!("strip u {} {}", hex(a), hex(b));
        at(rp.clone());
        let (pa, pb) = (UnixPath::new(a), UnixPath::new(b));
        let (qa, qb) = (sp(a), sp(b));
        ctx.case(qa.starts_with(qb) && !std_comps(b).is_empty(), (a, b));
        ctx.tally(if qa.starts_with(qb) { "starts_with" } else if qa.ends_with(qb) { "ends_with" } else { "unrelated" });
        if pa.starts_with(pb) != qa.starts_with(qb) {
            ctx.fail("starts_with-vs-std", None, rp.clone(), format!("impl {}", pa.starts_with(pb)));
        }
        if pa.ends_with(pb) != qa.ends_with(qb) {
            ctx.fail("ends_with-vs-std", None, rp.clone(), format!("impl {}", pa.ends_with(pb)));
        }
        let (x, y) = (pa.strip_prefix(pb).ok().map(|r| r.as_bytes()), qa.strip_prefix(qb).ok().map(|r| r.as_os_str().as_bytes()));
        if x != y {
            // K1: same components, the implementation keeps the path's trailing separators / `.`
            let class = match (x, y) {
                (Some(x), Some(y)) if x.starts_with(y) && std_comps(x) == std_comps(y) && x[y.len()..].split(|c| *c == b'/').all(|g| g.is_empty() || g == b".") => Some("K1"),
                _ => None,
            };
            ctx.fail("strip_prefix-bytes-vs-std", class, rp.clone(), format!("impl {} std {}", ob(x), ob(y)));
        }
        if (pa == pb) != (qa == qb) || pa.cmp(pb) != qa.cmp(qb) {
            ctx.fail("eq-cmp-vs-std", None, format!("rel u {} {}", hex(a), hex(b)), format!("impl eq {} cmp {:?}; std eq {} cmp {:?}", pa == pb, pa.cmp(pb), qa == qb, qa.cmp(qb)));
        }
        if let Some(d) = alias_mismatch(false, a, b) {
            ctx.fail("answers-depend-on-bytes-only", None, rp.clone(), d);
        }
    }
    for (a, b) in gen::pairs_related(&small, false, if t { 20 } else { 4 }, seed) {
        let (pa, pb) = (UnixPath::new(&a), UnixPath::new(&b));
        let (qa, qb) = (sp(&a), sp(&b));
        ctx.evals += 1;
        // the same verdict from every mixed-kind pairing (borrowed / owned / Cow, either side), as std gives
        {
            use std::borrow::Cow;
            let (xa, xb) = (pa.to_path_buf(), pb.to_path_buf());
            let (ca, cb): (Cow<UnixPath>, Cow<UnixPath>) = (Cow::Borrowed(pa), Cow::Owned(xb.clone()));
            let want = qa == qb;
            let got = [*pa == xb, xb == *pa, pa == xb, xb == pa, xa == *pb, *pb == xa, xa == pb, pb == xa, ca == *pb, *pb == ca, ca == pb, pb == ca, ca == xb, xb == ca, xa == cb, cb == xa, *pa == cb, cb == *pa];
            if got.iter().any(|g| *g != want) {
                ctx.fail("mixed-eq-vs-std", None, format!("rel u {} {}", hex(&a), hex(&b)), format!("std {} impl {:?}", want, got));
            }
            let wantc = Some(qa.cmp(qb));
            let gotc = [pa.partial_cmp(&xb), xa.partial_cmp(pb), PartialOrd::partial_cmp(&ca, pb), PartialOrd::partial_cmp(&xa, &cb)];
            if gotc.iter().any(|g| *g != wantc) || xb.partial_cmp(&pa) != wantc.map(|o| o.reverse()) {
                ctx.fail("mixed-cmp-vs-std", None, format!("rel u {} {}", hex(&a), hex(&b)), format!("std {:?} impl {:?}", wantc, gotc));
            }
        }
        if (pa == pb) != (qa == qb) || pa.cmp(pb) != qa.cmp(qb) {
            ctx.fail("eq-cmp-vs-std", None, format!("rel u {} {}", hex(&a), hex(&b)), format!("impl eq {} cmp {:?}; std eq {} cmp {:?}", pa == pb, pa.cmp(pb), qa == qb, qa.cmp(qb)));
        }
    }
    ctx.sample(format!("strip u {} {}", hex(b"/a/b/c/"), hex(b"/a//b")));
    ctx.sample(format!("fname u {}", hex(b"/x/.hidden.tar.gz/")));
}

pub fn c07(ctx: &mut Ctx, tier: &str, seed: u64) {
    let t = tier_is_thorough(tier);
    let lines = gen::histories(false, tier, seed, true, false);
    let _ = t;
    for line in &lines {
        let parts: Vec<&str> = line.split(' ').collect();
        let start = unhex(parts[2]).unwrap();
        let mut tb = UnixPathBuf::from(start.as_slice());
        let mut db = SPathBuf::from(OsStr::from_bytes(&start));
        ctx.case(parts.len() >= 5, line);
        ctx.tally(&format!("ops={}", (parts.len() - 3).min(12)));
        for (i, op) in parts[3..].iter().enumerate() {
            let kv: Vec<&str> = op.split(':').collect();
            let arg = kv.get(1).map(|h| unhex(h).unwrap()).unwrap_or_default();
            let mut bools: Option<(bool, bool)> = None;
            let mut bytes_must_match = false;
            match kv[0] {
                "push" => {
                    tb.push(&arg);
                    db.push(sp(&arg));
                    bytes_must_match = !arg.is_empty();
                }
                "pop" => bools = Some((tb.pop(), db.pop())),
                "setfn" => {
                    tb.set_file_name(&arg);
                    db.set_file_name(OsStr::from_bytes(&arg));
                    bytes_must_match = !arg.is_empty();
                }
                "clear" => {
                    tb.clear();
                    db.clear();
                    bytes_must_match = true;
                }
                "setext" => {
                    if arg.contains(&b'/') {
                        continue; // std rejects such extensions by panicking
                    }
                    bools = Some((tb.set_extension(&arg), db.set_extension(OsStr::from_bytes(&arg))));
                }
                _ => {}
            }
            let prefix_line = parts[..3 + i + 1].join(" ");
            if let Some((x, y)) = bools {
                if x != y {
                    ctx.fail("boolean-result-vs-std", None, prefix_line.clone(), format!("impl {} std {}", x, y));
                }
            }
            if sp(tb.as_bytes()) != db.as_path() {
                ctx.fail("component-equal-to-std", None, prefix_line.clone(), format!("impl \"{}\" std {:?}", lossy(tb.as_bytes()), db));
                break;
            }
            if bytes_must_match && tb.as_bytes() != db.as_os_str().as_bytes() {
                ctx.fail("bytes-equal-after-nonempty-push", None, prefix_line.clone(), format!("impl \"{}\" std {:?}", lossy(tb.as_bytes()), db));
            }
        }
    }
    // join / with_file_name / extend / collect forms
    let small = strings_b(b"/.a", 4);
    let args = strings_b(b"/.a", 3);
    for a in &small {
        for b in &args {
            ctx.evals += 1;
            let j = UnixPath::new(a).join(b);
            let sj = sp(a).join(sp(b));
            if sp(j.as_bytes()) != sj.as_path() || (!b.is_empty() && j.as_bytes() != sj.as_os_str().as_bytes()) {
                ctx.fail("join-vs-std", None, format!("push u {} {}", hex(a), hex(b)), format!("impl \"{}\" std {:?}", lossy(j.as_bytes()), sj));
            }
            let w = UnixPath::new(a).with_file_name(b);
            let sw = sp(a).with_file_name(OsStr::from_bytes(b));
            if sp(w.as_bytes()) != sw.as_path() || (!b.is_empty() && w.as_bytes() != sw.as_os_str().as_bytes()) {
                ctx.fail("with_file_name-vs-std", None, format!("setfn u {} {}", hex(a), hex(b)), format!("impl \"{}\" std {:?}", lossy(w.as_bytes()), sw));
            }
            // the other Unix path buffers track std as well: owned, UTF-8 (borrowed and owned), typed, UTF-8 typed,
            // through `join`, `with_file_name` and `push` / `set_file_name` on a copy
            if let (Ok(sa), Ok(sb)) = (std::str::from_utf8(a), std::str::from_utf8(b)) {
                let mut ub = Utf8UnixPathBuf::from(sa);
                ub.set_file_name(sb);
                let mut up = Utf8UnixPathBuf::from(sa);
                up.push(sb);
                let mut tb = TypedPathBuf::from_unix(a);
                tb.set_file_name(b);
                let forms: Vec<(&str, Vec<u8>, &SPathBuf)> = vec![
                    ("UnixPathBuf::join", UnixPathBuf::from(a.as_slice()).join(b).into_vec(), &sj),
                    ("Utf8UnixPath::join", Utf8UnixPath::new(sa).join(sb).into_string().into_bytes(), &sj),
                    ("Utf8UnixPathBuf::push", up.into_string().into_bytes(), &sj),
                    ("Utf8TypedPath::join", Utf8TypedPath::unix(sa).join(sb).as_str().as_bytes().to_vec(), &sj),
                    ("TypedPath::join", TypedPath::unix(a).join(b).as_bytes().to_vec(), &sj),
                    ("UnixPathBuf::with_file_name", UnixPathBuf::from(a.as_slice()).with_file_name(b).into_vec(), &sw),
                    ("Utf8UnixPath::with_file_name", Utf8UnixPath::new(sa).with_file_name(sb).into_string().into_bytes(), &sw),
                    ("Utf8UnixPathBuf::with_file_name", Utf8UnixPathBuf::from(sa).with_file_name(sb).into_string().into_bytes(), &sw),
                    ("Utf8UnixPathBuf::set_file_name", ub.into_string().into_bytes(), &sw),
                    ("TypedPath::with_file_name", TypedPath::unix(a).with_file_name(b).as_bytes().to_vec(), &sw),
                    ("TypedPathBuf::set_file_name", tb.as_bytes().to_vec(), &sw),
                    ("Utf8TypedPath::with_file_name", Utf8TypedPath::unix(sa).with_file_name(sb).as_str().as_bytes().to_vec(), &sw),
                ];
                for (who, got, want) in forms {
                    if sp(&got) != want.as_path() || (!b.is_empty() && got != want.as_os_str().as_bytes()) {
                        ctx.fail("other-unix-buffers-vs-std", None, format!("setfn u {} {}", hex(a), hex(b)), format!("{}: \"{}\" std {:?}", who, lossy(&got), want));
                    }
                }
            }
            let mut x = UnixPathBuf::from(a.as_slice());
            x.extend([b.as_slice(), a.as_slice()]);
            let mut y = SPathBuf::from(OsStr::from_bytes(a));
            y.extend([sp(b), sp(a)]);
            let c: UnixPathBuf = [a.as_slice(), b.as_slice()].iter().collect();
            let sc: SPathBuf = [sp(a), sp(b)].iter().collect();
            if sp(x.as_bytes()) != y.as_path() || sp(c.as_bytes()) != sc.as_path() {
                ctx.fail("extend-collect-vs-std", None, format!("hist u {} push:{} push:{}", hex(a), hex(b), hex(a)), format!("impl \"{}\" std {:?}", lossy(x.as_bytes()), y));
            }
            // Extend / FromIterator = repeated push, whatever kind of iterator delivers the pieces (exact size,
            // lower bound only, lower bound 1 with more to come, no bound at all)
            {
                let pieces: Vec<&[u8]> = vec![b.as_slice(), a.as_slice(), b".", b.as_slice()];
                macro_rules! by_push {
                    ($B:ty, $start:expr, $items:expr) => {{
                        let mut w: $B = <$B>::from($start);
                        for it in $items {
                            w.push(it);
                        }
                        w
                    }};
                }
                macro_rules! ext_kinds {
                    ($B:ty, $start:expr, $pieces:expr) => {{
                        let pieces = $pieces;
                        let want = by_push!($B, $start, pieces.iter().cloned());
                        let want_c = by_push!($B, "", pieces.iter().cloned());
                        let mut bad: Option<&'static str> = None;
                        let mut e1: $B = <$B>::from($start);
                        e1.extend(pieces.clone().into_iter());
                        let mut e2: $B = <$B>::from($start);
                        e2.extend(pieces.iter().cloned().filter(|_| true));
                        let mut e3: $B = <$B>::from($start);
                        e3.extend(std::iter::once(pieces[0]).chain(pieces[1..].iter().cloned().filter(|_| true)));
                        let mut e4: $B = <$B>::from($start);
                        e4.extend(std::iter::successors(Some(0usize), |i| if *i + 1 < pieces.len() { Some(*i + 1) } else { None }).map(|i| pieces[i]));
                        let mut e5: $B = <$B>::from($start);
                        e5.extend(std::iter::from_fn({ let mut k = 0; let ps = pieces.clone(); move || { k += 1; ps.get(k - 1).cloned() } }));
                        let c1: $B = pieces.clone().into_iter().collect();
                        let c2: $B = std::iter::once(pieces[0]).chain(pieces[1..].iter().cloned().filter(|_| true)).collect();
                        let c3: $B = std::iter::successors(Some(0usize), |i| if *i + 1 < pieces.len() { Some(*i + 1) } else { None }).map(|i| pieces[i]).collect();
                        // an iterator that is NOT fused: None after the second piece, then more pieces.  `extend` and
                        // `collect` take what comes before the first None and leave the rest in the source
                        let script: Vec<Option<usize>> = vec![Some(0), Some(1), None, Some(2), None, Some(3)];
                        let mut pos = 0usize;
                        let mut src = std::iter::from_fn(|| { pos += 1; script.get(pos - 1).cloned().flatten().map(|i| pieces[i]) });
                        let mut e6: $B = <$B>::from($start);
                        e6.extend(&mut src);
                        let c6: $B = (&mut src).collect();
                        let rest: Vec<_> = (&mut src).collect();
                        let want6 = by_push!($B, $start, pieces[..2].iter().cloned());
                        let want6c = by_push!($B, "", pieces[2..3].iter().cloned());
                        if e6 != want6 || format!("{:?}", e6) != format!("{:?}", want6) || c6 != want6c || format!("{:?}", c6) != format!("{:?}", want6c) || rest.len() != 1 {
                            bad.get_or_insert("non-fused iterator");
                        }
                        // an iterator whose FIRST answer is None
                        let mut pos0 = 0usize;
                        let script0: Vec<Option<usize>> = vec![None, Some(0), Some(1)];
                        let mut src0 = std::iter::from_fn(|| { pos0 += 1; script0.get(pos0 - 1).cloned().flatten().map(|i| pieces[i]) });
                        let c7: $B = (&mut src0).collect();
                        let left: Vec<_> = (&mut src0).collect();
                        if format!("{:?}", c7) != format!("{:?}", by_push!($B, "", pieces[..0].iter().cloned())) || left.len() != 2 {
                            bad.get_or_insert("iterator starting with None");
                        }
                        for (nm, got, w) in [("extend(exact)", &e1, &want), ("extend(filter)", &e2, &want), ("extend(once+filter)", &e3, &want), ("extend(successors)", &e4, &want), ("extend(from_fn)", &e5, &want),
                                             ("collect(exact)", &c1, &want_c), ("collect(once+filter)", &c2, &want_c), ("collect(successors)", &c3, &want_c)] {
                            if got != w || format!("{:?}", got) != format!("{:?}", w) {
                                bad.get_or_insert(nm);
                            }
                        }
                        bad
                    }};
                }
                let mut bad = ext_kinds!(UnixPathBuf, a.as_slice(), pieces.clone()).or(ext_kinds!(WindowsPathBuf, a.as_slice(), pieces.clone()));
                if let (Ok(sa), Ok(sb)) = (std::str::from_utf8(a), std::str::from_utf8(b)) {
                    let sp8: Vec<&str> = vec![sb, sa, ".", sb];
                    bad = bad.or(ext_kinds!(Utf8UnixPathBuf, sa, sp8.clone())).or(ext_kinds!(Utf8WindowsPathBuf, sa, sp8.clone()));
                }
                if let Some(which) = bad {
                    ctx.fail("extend-collect-is-repeated-push", None, format!("hist u {} push:{} push:{}", hex(a), hex(b), hex(a)), which.to_string());
                }
            }
        }
    }
    ctx.sample(lines[lines.len() / 2].clone());
    ctx.sample(lines[lines.len() - 1].clone());
}

pub fn c08(ctx: &mut Ctx, tier: &str, seed: u64) {
    let bases = gen::bases(true, tier, seed);
    let args = dom_args(true, tier, seed);
    let keep = cross_keep(tier, bases.len(), args.len(), 300, 150);
    for (ai, a) in bases.iter().enumerate() {
        let wa = well_formed_wide(true, a);
        let ca = spec_comps(true, a);
        let da = spec::win_decomp(a);
        for (bi, b) in args.iter().enumerate() {
            if !keep(ai, bi) {
                continue;
            }
            let rp = format!("push w {} {}", hex(a), hex(b));
            at(rp.clone());
            let got = push_b(true, a, b);
            let db = spec::win_decomp(b);
            let rule = if b.is_empty() { "empty" } else if db.has_prefix() { "prefix" } else if da.any_verbatim() { "verbatim" } else if db.root { "rooted" } else { "append" };
            ctx.tally(rule);
            ctx.case(rule != "empty", (a, b));
            // byte clause (no well-formedness needed)
            if let Some(want) = spec::join_rules_bytes(a, b) {
                if got != want {
                    ctx.fail("bytes-follow-join-rules", None, rp.clone(), format!("impl \"{}\" rules \"{}\" ({})", lossy(&got), lossy(&want), rule));
                }
            }
            if !(wa && well_formed_wide(true, b)) {
                continue;
            }
            let cg = spec::canon(&comps(true, &got));
            if rule == "verbatim" {
                let want = spec::join_rules_verbatim(&spec::canon(&ca), &db.comps);
                if cg != want {
                    ctx.fail("verbatim-join-components", None, rp.clone(), format!("impl {} rules {}", show_sc(&cg), show_sc(&want)));
                }
                if cg.iter().skip(spec::canon(&ca).len()).any(|c| matches!(c, SComp::Cur)) {
                    ctx.fail("verbatim-join-no-dot", None, rp.clone(), show_sc(&cg));
                }
                // byte clause for the verbatim rule: a's prefix text, then the components of the scan
                // each preceded by exactly one `\` (the root IS that `\`)
                if let Some((_, n)) = &da.prefix {
                    let mut wb = a[..*n].to_vec();
                    let mut after_root = false;
                    // (the buffer the code rebuilds is made of a's OWN components: no implicit root)
                    let want_raw = spec::join_rules_verbatim(&ca, &db.comps);
                    for c in want_raw.iter().skip(1) {
                        match c {
                            SComp::Root => {
                                wb.push(b'\\');
                                after_root = true;
                            }
                            other => {
                                if !after_root {
                                    wb.push(b'\\');
                                }
                                after_root = false;
                                match other {
                                    SComp::Cur => wb.push(b'.'),
                                    SComp::Parent => wb.extend_from_slice(b".."),
                                    SComp::Normal(x) => wb.extend_from_slice(x),
                                    _ => {}
                                }
                            }
                        }
                    }
                    if got != wb {
                        ctx.fail("verbatim-join-bytes", None, rp.clone(), format!("impl \"{}\" rules \"{}\"", lossy(&got), lossy(&wb)));
                    }
                }
            } else if rule == "append" {
                // a leading `.` of b survives only if it still starts the path, i.e. when a is
                // empty or a bare disk prefix
                let mut add = db.comps.clone();
                if spec::canon(&ca).iter().any(|c| !matches!(c, SComp::Prefix(_))) && add.first() == Some(&SComp::Cur) {
                    add.remove(0);
                }
                let mut want = spec::canon(&ca);
                want.extend(add);
                if cg != want {
                    let class = if k3_shape(true, a) { Some("K3") } else { None };
                    ctx.fail("append-join-components", class, rp.clone(), format!("impl {} want {}", show_sc(&cg), show_sc(&want)));
                }
            } else if rule == "rooted" {
                let mut want: Vec<SComp> = ca.iter().take(if da.has_prefix() { 1 } else { 0 }).cloned().collect();
                want.extend(db.comps.clone());
                if cg != spec::canon(&want) {
                    let class = if k3_shape(true, &got) || (b.len() >= 2 && spec::any_sep(b[0]) && spec::any_sep(b[1])) { Some("K3") } else { None };
                    ctx.fail("rooted-join-components", class, rp.clone(), format!("impl {} want {}", show_sc(&cg), show_sc(&want)));
                }
            }
            // join / UTF-8 push are the same function
            let j = WindowsPath::new(a).join(b).into_vec();
            if j != got {
                ctx.fail("join-equals-push", None, rp.clone(), format!("join \"{}\"", lossy(&j)));
            }
            if let (Ok(sa), Ok(sb)) = (std::str::from_utf8(a), std::str::from_utf8(b)) {
                let mut x = Utf8WindowsPathBuf::from(sa);
                x.push(sb);
                if x.as_str().as_bytes() != got.as_slice() {
                    ctx.fail("utf8-push-equals-push", None, rp.clone(), format!("utf8 \"{}\"", x));
                }
            }
        }
    }
    // sequences of pushes from the empty buffer: Extend / FromIterator = repeated push
    for line in gen::histories(true, tier, seed, false, true).iter().take(if tier_is_thorough(tier) { 50_000 } else { 5_000 }) {
        let parts: Vec<&str> = line.split(' ').collect();
        let argv: Vec<Vec<u8>> = parts[3..].iter().map(|o| unhex(o.split(':').nth(1).unwrap()).unwrap()).collect();
        let mut x = WindowsPathBuf::new();
        let mut spec_buf: Option<Vec<u8>> = Some(Vec::new());
        for a in &argv {
            spec_buf = spec_buf.and_then(|s| spec::join_rules_bytes(&s, a));
            x.push(a);
            if spec_buf.is_none() {
                spec_buf = Some(x.as_bytes().to_vec());
            }
        }
        let c: WindowsPathBuf = argv.iter().map(|v| v.as_slice()).collect();
        let mut ex = WindowsPathBuf::new();
        ex.extend(argv.iter().map(|v| v.as_slice()));
        ctx.case(argv.len() >= 2, line);
        if c.as_bytes() != x.as_bytes() || ex.as_bytes() != x.as_bytes() {
            ctx.fail("collect-extend-equal-repeated-push", None, line.clone(), format!("push \"{}\" collect \"{}\"", lossy(x.as_bytes()), lossy(c.as_bytes())));
        }
        if Some(x.as_bytes().to_vec()) != spec_buf {
            ctx.fail("push-sequence-follows-rules", None, line.clone(), format!("impl \"{}\" rules {:?}", lossy(x.as_bytes()), spec_buf.map(|v| lossy(&v))));
        }
    }
    ctx.sample(format!("push w {} {}", hex(br"\\?\C:\a"), hex(br"..\b\.\c")));
    ctx.sample(format!("push w {} {}", hex(b"C:"), hex(b"a")));
}

pub fn c09(ctx: &mut Ctx, tier: &str, seed: u64) {
    for win in [false, true] {
        let e = gen::e(win);
        let dom = if win { dom_win(tier, seed) } else { dom_unix(tier, seed) };
        for s in &dom {
            let rp = format!("parent {} {}", e, hex(s));
            at(rp.clone());
            let cs = comps(win, s);
            let expect_none = matches!(cs.last(), None | Some(SComp::Root) | Some(SComp::Prefix(_)));
            let par = parent_b(win, s);
            ctx.case(nontrivial_path(&cs), (win, s));
            ctx.tally(&format!("{}:last={}", e, match cs.last() { None => "none", Some(SComp::Root) => "root", Some(SComp::Prefix(_)) => "prefix", Some(SComp::Cur) => "cur", Some(SComp::Parent) => "parent", Some(SComp::Normal(_)) => "normal" }));
            match &par {
                None => {
                    if !expect_none {
                        ctx.fail("parent-absent-iff-terminal", None, rp.clone(), format!("None but components {}", show_sc(&cs)));
                    }
                }
                Some(q) => {
                    if expect_none {
                        ctx.fail("parent-absent-iff-terminal", None, rp.clone(), format!("Some(\"{}\") but components {}", lossy(q), show_sc(&cs)));
                    } else {
                        if !s.starts_with(q) {
                            ctx.fail("parent-is-leading-slice", None, rp.clone(), format!("\"{}\"", lossy(q)));
                        }
                        let cq = comps(win, q);
                        if cq != cs[..cs.len() - 1] {
                            ctx.fail("parent-components-drop-last", None, rp.clone(), format!("parent \"{}\" {} of {}", lossy(q), show_sc(&cq), show_sc(&cs)));
                        }
                    }
                }
            }
            // pop = truncate to the parent
            let (pb, pr) = if win {
                let mut x = WindowsPathBuf::from(s.as_slice());
                let r = x.pop();
                (x.into_vec(), r)
            } else {
                let mut x = UnixPathBuf::from(s.as_slice());
                let r = x.pop();
                (x.into_vec(), r)
            };
            let want = par.clone().unwrap_or_else(|| s.clone());
            if pr != par.is_some() || pb != want {
                ctx.fail("pop-equals-parent", None, format!("pop {} {}", e, hex(s)), format!("pop -> \"{}\" {}", lossy(&pb), pr));
            }
            // ancestors = chain of repeated parents, finite
            let anc: Vec<Vec<u8>> = if win { WindowsPath::new(s).ancestors().take(s.len() + 5).map(|x| x.as_bytes().to_vec()).collect() } else { UnixPath::new(s).ancestors().take(s.len() + 5).map(|x| x.as_bytes().to_vec()).collect() };
            let mut chain = vec![s.clone()];
            let mut cur = s.clone();
            while let Some(q) = parent_b(win, &cur) {
                if chain.len() > s.len() + 3 {
                    break;
                }
                chain.push(q.clone());
                cur = q;
            }
            if anc != chain || chain.len() > s.len() + 2 {
                ctx.fail("ancestors-is-parent-chain", None, format!("anc {} {}", e, hex(s)), format!("{:?}", anc.iter().map(|x| lossy(x)).collect::<Vec<_>>()));
            }
            // typed and UTF-8 forms
            let tp = if win { TypedPath::Windows(WindowsPath::new(s)) } else { TypedPath::Unix(UnixPath::new(s)) };
            if tp.parent().map(|x| x.as_bytes().to_vec()) != par {
                ctx.fail("typed-parent-agrees", None, rp.clone(), String::new());
            }
            if let Ok(st) = std::str::from_utf8(s) {
                let up = if win { Utf8WindowsPath::new(st).parent().map(|x| x.as_str().as_bytes().to_vec()) } else { Utf8UnixPath::new(st).parent().map(|x| x.as_str().as_bytes().to_vec()) };
                if up != par {
                    ctx.fail("utf8-parent-agrees", None, rp.clone(), String::new());
                }
            }
            if !win {
                let sq = sp(s).parent().map(|x| x.as_os_str().as_bytes().to_vec());
                if sq != par {
                    ctx.fail("unix-parent-vs-std", None, rp.clone(), format!("std {:?}", sq.map(|x| lossy(&x))));
                }
            }
        }
    }
    ctx.sample(format!("parent w {}", hex(b"C:")));
    ctx.sample(format!("anc w {}", hex(br"\\s\h\a\b\")));
}

fn prefix_spelling_differs(a: &[u8], b: &[u8]) -> bool {
    // K2: both have a prefix of equal kind+payload (as `==` sees it) whose raw text differs
    match (spec::win_prefix(a), spec::win_prefix(b)) {
        (Some((ka, na)), Some((kb, nb))) => ka == kb && a[..na] != b[..nb],
        _ => false,
    }
}

pub fn c10(ctx: &mut Ctx, tier: &str, seed: u64) {
    let t = tier_is_thorough(tier);
    for win in [false, true] {
        let e = gen::e(win);
        // under the exact marker `\\?\` a `/` is an ordinary byte of a name: such paths are let in as well (C10 speaks
        // of all paths; only the join-back clause needs a remainder that reads the same as an argument)
        let wf10 = |s: &[u8]| -> bool {
            if well_formed(win, s) {
                return true;
            }
            if !win || !s.starts_with(br"\\?\") || !spec::win_complete_prefix(s) {
                return false;
            }
            let f: Vec<u8> = spec::forbidden(true).into_iter().filter(|b| *b != b'/').collect();
            spec_comps(true, s).iter().all(|c| match c {
                SComp::Normal(n) => !n.iter().any(|b| f.contains(b)),
                _ => true,
            })
        };
        let mut small: Vec<Vec<u8>> = if win { dom_win_small(tier, seed) } else { dom_unix_small(tier, seed) };
        if win {
            for pre in [&br"\\?\C:\"[..], br"\\?\pics\", br"\\?\UNC\s\h\", br"\\?\UNC\s\h/x\"] {
                for tl in [&b"d/"[..], b"d/\\f.t", b"a\\d/\\f", b"/", b"/\\a", b"a/b", b"a/b\\c", b"d/\\..\\e"] {
                    small.push([pre, tl].concat());
                }
            }
        }
        let small: Vec<Vec<u8>> = small.into_iter().filter(|s| wf10(s)).collect();
        let pairs = gen::pairs_prefixy(&small, win, if t { 30 } else { 6 }, seed);
        for (p, q) in &pairs {
            let rp = format!("strip {} {} {}", e, hex(p), hex(q));
            at(rp.clone());
            if !wf10(q) {
                continue;
            }
            let (cp, cq) = (comps(win, p), comps(win, q));
            let (sw, ew, st): (bool, bool, Option<Vec<u8>>) = if win {
                let (a, b) = (WindowsPath::new(p), WindowsPath::new(q));
                (a.starts_with(b), a.ends_with(b), a.strip_prefix(b).ok().map(|r| r.as_bytes().to_vec()))
            } else {
                let (a, b) = (UnixPath::new(p), UnixPath::new(q));
                (a.starts_with(b), a.ends_with(b), a.strip_prefix(b).ok().map(|r| r.as_bytes().to_vec()))
            };
            let k2 = if win && prefix_spelling_differs(p, q) { Some("K2") } else { None };
            ctx.case(cp.starts_with(&cq) && !cq.is_empty() && cq.len() < cp.len(), (win, p, q));
            ctx.tally(&format!("{}:{}", e, if cp.starts_with(&cq) { "prefix" } else if cp.ends_with(&cq) { "suffix" } else { "unrelated" }));
            if sw != cp.starts_with(&cq) {
                ctx.fail("starts_with-iff-leading-run", k2, rp.clone(), format!("impl {} components {} / {}", sw, show_sc(&cp), show_sc(&cq)));
            }
            if ew != cp.ends_with(&cq) {
                ctx.fail("ends_with-iff-trailing-run", k2, rp.clone(), format!("impl {} components {} / {}", ew, show_sc(&cp), show_sc(&cq)));
            }
            if st.is_some() != sw {
                ctx.fail("strip_prefix-succeeds-iff-starts_with", None, rp.clone(), format!("strip {:?} starts_with {}", st.as_ref().map(|x| lossy(x)), sw));
            }
            if let Some(d) = alias_mismatch(win, p, q) {
                ctx.fail("answers-depend-on-bytes-only", None, rp.clone(), d);
            }
            // (a remainder with `/` inside a name is read differently as an argument: outside the clause)
            let rest_has_slash = win && spec_comps(win, p).iter().skip(cq.len()).any(|c| matches!(c, SComp::Normal(n) if n.contains(&b'/')));
            if let (Some(r), false) = (&st, rest_has_slash) {
                let j = push_b(win, q, r);
                // "up to the normalisation that joining onto a verbatim prefix applies"
                let verb = win && spec::win_decomp(q).any_verbatim();
                let ok = if verb {
                    spec::canon(&comps(win, &j)) == spec::join_rules_verbatim(&spec::canon(&cq), &cp.get(cq.len()..).unwrap_or(&[]).to_vec())
                } else {
                    spec::canon(&comps(win, &j)) == spec::canon(&cp) || path_eq(win, &j, p)
                };
                if !ok {
                    let class = if win && r.len() >= 2 && spec::any_sep(r[0]) && spec::any_sep(r[1]) { Some("K3") } else if k3_shape(win, q) { Some("K3") } else { None };
                    ctx.fail("strip-then-join-restores", class, rp.clone(), format!("remainder \"{}\" joined \"{}\"", lossy(r), lossy(&j)));
                }
            }
            // typed / UTF-8 agree
            if let (Ok(sp_), Ok(sq)) = (std::str::from_utf8(p), std::str::from_utf8(q)) {
                let (usw, uew) = if win { (Utf8WindowsPath::new(sp_).starts_with(sq), Utf8WindowsPath::new(sp_).ends_with(sq)) } else { (Utf8UnixPath::new(sp_).starts_with(sq), Utf8UnixPath::new(sp_).ends_with(sq)) };
                if usw != sw || uew != ew {
                    ctx.fail("utf8-starts-ends-agree", None, rp.clone(), String::new());
                }
            }
        }
        // join then starts_with / strip_prefix
        let bases: Vec<Vec<u8>> = gen::bases(win, tier, seed).into_iter().filter(|b| well_formed_wide(win, b)).collect();
        let args: Vec<Vec<u8>> = dom_args(win, tier, seed).into_iter().filter(|b| well_formed_wide(win, b)).take(if t { 400 } else { 60 }).collect();
        for a in &bases {
            if win && spec::win_decomp(a).any_verbatim() {
                continue;
            }
            let ca = comps(win, a);
            for b in &args {
                let rp = format!("push {} {} {}", e, hex(a), hex(b));
                at(rp.clone());
                let cb = spec_comps(win, b);
                if cb.iter().any(|c| matches!(c, SComp::Prefix(_) | SComp::Root)) {
                    continue;
                }
                let j = push_b(win, a, b);
                let (sw, st) = if win {
                    (WindowsPath::new(&j).starts_with(a), WindowsPath::new(&j).strip_prefix(a).ok().map(|r| r.as_bytes().to_vec()))
                } else {
                    (UnixPath::new(&j).starts_with(a), UnixPath::new(&j).strip_prefix(a).ok().map(|r| r.as_bytes().to_vec()))
                };
                ctx.case(!cb.is_empty() && !ca.is_empty(), (win, a, b, 1u8));
                let class = if k3_shape(win, a) { Some("K3") } else { None };
                if !sw {
                    ctx.fail("join-starts-with-base", class, rp.clone(), format!("joined \"{}\"", lossy(&j)));
                    continue;
                }
                let mut want = cb.clone();
                if spec::canon(&ca).iter().any(|c| !matches!(c, SComp::Prefix(_))) && want.first() == Some(&SComp::Cur) {
                    want.remove(0);
                }
                // DESIGN §2.3 (implicit root): joining onto a bare non-disk prefix materialises its
                // implicit root, which then leads the remainder
                let mut got = st.as_ref().map(|r| comps(win, r));
                if ca.len() == 1 && matches!(&ca[0], SComp::Prefix(k) if !k.is_disk()) {
                    if let Some(g) = got.as_mut() {
                        if g.first() == Some(&SComp::Root) {
                            g.remove(0);
                        }
                    }
                }
                if got.as_ref() != Some(&want) {
                    ctx.fail("join-then-strip-yields-argument", class, rp.clone(), format!("remainder {:?} want {}", st.as_ref().map(|x| lossy(x)), show_sc(&want)));
                }
            }
        }
    }
    ctx.sample(format!("strip w {} {}", hex(br"c:\a\b"), hex(br"C:\")));
    ctx.sample(format!("strip u {} {}", hex(b"/a/./b//c"), hex(b"/a/b")));
}
