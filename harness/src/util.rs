//! Helpers shared by the op executor, the generators and the oracles.

use std::cell::{Cell, RefCell};

thread_local! {
    /// depth of intentional catch_unwind scopes (a panic inside one is a *result*)
    pub static IN_CATCH: Cell<u32> = Cell::new(0);
    /// replay op line of the case the oracle is working on (reported if the implementation
    /// panics outside an intentional catch scope)
    pub static CURRENT: RefCell<String> = RefCell::new(String::new());
}

/// catch_unwind that tells the panic hook the panic is expected
pub fn quiet_catch<R>(f: impl FnOnce() -> R + std::panic::UnwindSafe) -> std::thread::Result<R> {
    IN_CATCH.with(|c| c.set(c.get() + 1));
    let r = std::panic::catch_unwind(f);
    IN_CATCH.with(|c| c.set(c.get() - 1));
    r
}

/// remember what the oracle is looking at.  When $VERIF_TRACE_AT names a file (set by `check` only when it
/// re-runs an oracle that died: stack overflow, abort, hang), the marker is also written there, so that the
/// case that killed the process can be read afterwards.
pub fn at(replay: String) {
    use std::io::{Seek, SeekFrom, Write};
    static TRACE: std::sync::OnceLock<Option<std::sync::Mutex<std::fs::File>>> = std::sync::OnceLock::new();
    let t = TRACE.get_or_init(|| std::env::var("VERIF_TRACE_AT").ok().and_then(|p| std::fs::File::create(p).ok()).map(std::sync::Mutex::new));
    if let Some(m) = t {
        if let Ok(mut f) = m.lock() {
            let _ = f.seek(SeekFrom::Start(0));
            let _ = f.set_len(0);
            let _ = f.write_all(replay.as_bytes());
            let _ = f.flush();
        }
    }
    CURRENT.with(|c| *c.borrow_mut() = replay);
}

pub fn hex(b: &[u8]) -> String {
    let mut s = String::with_capacity(1 + 2 * b.len());
    s.push('x');
    for x in b {
        s.push(char::from_digit((x >> 4) as u32, 16).unwrap());
        s.push(char::from_digit((x & 15) as u32, 16).unwrap());
    }
    s
}

pub fn unhex(s: &str) -> Option<Vec<u8>> {
    let s = s.strip_prefix('x')?;
    if s.len() % 2 != 0 {
        return None;
    }
    let b = s.as_bytes();
    let mut out = Vec::with_capacity(b.len() / 2);
    for i in (0..b.len()).step_by(2) {
        let hi = (b[i] as char).to_digit(16)?;
        let lo = (b[i + 1] as char).to_digit(16)?;
        if (b[i] as char).is_ascii_uppercase() || (b[i + 1] as char).is_ascii_uppercase() {
            return None;
        }
        out.push((hi * 16 + lo) as u8);
    }
    Some(out)
}

/// printable rendering for replay files
pub fn lossy(b: &[u8]) -> String {
    let mut s = String::new();
    for &x in b {
        if (0x20..0x7f).contains(&x) && x != b'"' && x != b'\\' {
            s.push(x as char);
        } else if x == b'\\' {
            s.push_str("\\\\");
        } else {
            s.push_str(&format!("\\x{:02x}", x));
        }
    }
    s
}

pub fn json_str(s: &str) -> String {
    let mut o = String::from("\"");
    for c in s.chars() {
        match c {
            '"' => o.push_str("\\\""),
            '\\' => o.push_str("\\\\"),
            '\n' => o.push_str("\\n"),
            c if (c as u32) < 0x20 => o.push_str(&format!("\\u{:04x}", c as u32)),
            c => o.push(c),
        }
    }
    o.push('"');
    o
}

/// xorshift64*; every random choice of the harness derives from one of these
#[derive(Clone)]
pub struct Rng(pub u64);

impl Rng {
    pub fn new(seed: u64) -> Self {
        Rng(seed.wrapping_mul(0x9E3779B97F4A7C15) ^ 0xD1B54A32D192ED03 | 1)
    }
    pub fn next(&mut self) -> u64 {
        let mut x = self.0;
        x ^= x >> 12;
        x ^= x << 25;
        x ^= x >> 27;
        self.0 = x;
        x.wrapping_mul(0x2545F4914F6CDD1D)
    }
    pub fn below(&mut self, n: usize) -> usize {
        (self.next() % (n as u64)) as usize
    }
    pub fn chance(&mut self, num: u64, den: u64) -> bool {
        self.next() % den < num
    }
    pub fn pick<'a, T>(&mut self, xs: &'a [T]) -> &'a T {
        &xs[self.below(xs.len())]
    }
}

/// every string of at most `maxlen` letters over `alpha` (letters are byte strings), by
/// increasing length
pub fn strings(alpha: &[&[u8]], maxlen: usize) -> Vec<Vec<u8>> {
    let mut out: Vec<Vec<u8>> = vec![vec![]];
    let mut cur: Vec<Vec<u8>> = vec![vec![]];
    for _ in 0..maxlen {
        let mut next = Vec::with_capacity(cur.len() * alpha.len());
        for p in &cur {
            for a in alpha {
                let mut q = p.clone();
                q.extend_from_slice(a);
                next.push(q);
            }
        }
        out.extend(next.iter().cloned());
        cur = next;
    }
    out
}

pub fn bytes_alpha(a: &[u8]) -> Vec<Vec<u8>> {
    a.iter().map(|b| vec![*b]).collect()
}

pub fn strings_b(alpha: &[u8], maxlen: usize) -> Vec<Vec<u8>> {
    let a = bytes_alpha(alpha);
    let r: Vec<&[u8]> = a.iter().map(|v| v.as_slice()).collect();
    strings(&r, maxlen)
}

pub fn dedup_keep_order(v: Vec<Vec<u8>>) -> Vec<Vec<u8>> {
    let mut seen = std::collections::HashSet::new();
    let mut out = Vec::with_capacity(v.len());
    for x in v {
        if seen.insert(x.clone()) {
            out.push(x);
        }
    }
    out
}

pub const WIN_SEEDS: &[&[u8]] = &[
    b"",
    b"C:",
    b"c:",
    br"\\?\C:",
    br"\\?\c:",
    b"//?/C:",
    br"\\?/C:",
    br"\\?\pics",
    br"\\?\",
    br"\\?\UNC\s\h",
    br"\\?\UNC\s",
    br"\\?\UNC\s\",
    b"//?/UNC/s/",
    br"\\s\",
    br"\\?\UNC\",
    br"\\?\UNC",
    b"//?/UNC/s/h",
    br"\\.\dev",
    b"//./dev",
    br"\\.\",
    br"\\s\h",
    b"//s/h",
    br"\\s",
    b"\xe9:",
];

pub const NAME_POOL: &[&[u8]] = &[
    b".", b"..", b"a", b"b", b"b.txt", b".hidden", b"a.", b"a..b", b"...", b"..a", b"c.tar.gz",
    b"\xc3\xa9", b"\xff", b"a:b", b"a?b", b"a|b", b"a\0b", b"x y", b"UNC", b"C:", b"?", b"c:index", b"Z:x",
    // a dictionary of the names the library itself knows about (the reserved DOS device names of
    // `constants::windows::RESERVED_DEVICE_NAMES`, in both cases, bare and with an extension) and of
    // characters whose LOW BYTE is a separator / forbidden byte (U+042F, U+015C, U+012F, U+203A …)
    b"CON", b"PRN", b"AUX", b"NUL", b"COM1", b"COM0", b"LPT1", b"LPT9", b"con", b"nul", b"aux.txt", b"NUL.tar.gz", b"COM10",
    "\u{42f}\u{43d}\u{430}".as_bytes(), "a\u{15c}".as_bytes(), "\u{12f}".as_bytes(), "\u{203a}x".as_bytes(), "\u{62f}".as_bytes(), "\u{1f62f}".as_bytes(), "\u{100}".as_bytes(),
];

/// tokens harvested from the literals of the library's own source, with case variants (gen/dict.py ->
/// work/dict.txt, named by $VERIF_DICT): special words the implementation knows about and their near-misses
pub fn dictionary() -> &'static Vec<Vec<u8>> {
    static D: std::sync::OnceLock<Vec<Vec<u8>>> = std::sync::OnceLock::new();
    D.get_or_init(|| {
        let mut v: Vec<Vec<u8>> = Vec::new();
        if let Ok(p) = std::env::var("VERIF_DICT") {
            if let Ok(text) = std::fs::read_to_string(p) {
                for l in text.lines() {
                    if let Some(h) = l.trim().strip_prefix('x') {
                        if h.len() % 2 == 0 && !h.is_empty() {
                            if let Ok(b) = (0..h.len()).step_by(2).map(|i| u8::from_str_radix(&h[i..i + 2], 16)).collect::<Result<Vec<u8>, _>>() {
                                v.push(b);
                            }
                        }
                    }
                }
            }
        }
        v
    })
}

/// set by `tpharness oracle`: the domains then also contain BIG inputs (see `big_inputs`)
pub static ORACLE_MODE: std::sync::atomic::AtomicBool = std::sync::atomic::AtomicBool::new(false);

/// inputs sized around the LARGE magic numbers of the source (257 … 2^17): one long name — plain, with
/// its only dot early, with a dot near the end, ending in a forbidden byte, made of forbidden bytes —,
/// one long run, one deep chain.  Only for the oracles (implementation vs specification): the model
/// driver is not run on them.
pub fn big_inputs(win: bool) -> Vec<Vec<u8>> {
    let sep: u8 = if win { b'\\' } else { b'/' };
    let head: &[u8] = if win { b"C:\\d\\" } else { b"/d/" };
    let mut sizes: Vec<usize> = Vec::new();
    for n in magic_numbers().iter().chain([256usize, 4096, 32768, 65536].iter()) {
        for m in [n.saturating_sub(1), *n, n + 1] {
            if m > 128 && m <= (1 << 17) + 1 && !sizes.contains(&m) {
                sizes.push(m);
            }
        }
    }
    sizes.sort();
    let mut v: Vec<Vec<u8>> = Vec::new();
    for m in sizes {
        let letters = |k: usize| -> Vec<u8> { (0..k).map(|i| b'a' + (i % 26) as u8).collect() };
        let wrap = |name: Vec<u8>| -> Vec<u8> {
            let mut x = head.to_vec();
            x.extend_from_slice(&name);
            x.push(sep);
            x.push(b'f');
            x
        };
        v.push(wrap(letters(m)));
        let mut early = letters(m);
        early[1] = b'.';
        v.push(wrap(early.clone()));
        let mut x = head.to_vec();
        x.extend_from_slice(&early);
        v.push(x); // the long dotted name LAST (file_stem / extension / set_extension look at it)
        let mut late = letters(m);
        late[m - 3] = b'.';
        let mut y = head.to_vec();
        y.extend_from_slice(&late);
        v.push(y);
        let mut bad = letters(m);
        bad[m - 1] = b'|';
        v.push(wrap(bad));
        v.push(wrap(vec![b'?'; m]));
        let mut run = vec![b'a'];
        run.extend(std::iter::repeat(sep).take(m));
        run.push(b'b');
        v.push(run);
        if win {
            // the same sizes as PREFIX PAYLOADS (a prefix length kept in a narrow integer, a cap on server
            // names …): server, share, verbatim name, device, verbatim-UNC share
            let s_ = vec![b's'; m];
            let cat = |parts: &[&[u8]]| -> Vec<u8> { parts.concat() };
            v.push(cat(&[br"\\", &s_, br"\share"]));
            v.push(cat(&[br"\\", &s_, br"\share\file.txt"]));
            v.push(cat(&[br"\\server\", &s_, br"\d"]));
            v.push(cat(&[br"\\?\", &s_, br"\a"]));
            v.push(cat(&[br"\\.\", &s_]));
            v.push(cat(&[br"\\?\UNC\server\", &s_, br"\a"]));
        }
    }
    v
}

/// sizes for the few dedicated single-input "giant" clauses: 2^20 + 5 always, and a little above every
/// integer of the source that is larger than the other generators go (2^17 … 2^25: `1 << 24`, `4 << 20` …)
pub fn giant_sizes() -> Vec<usize> {
    let mut v = vec![(1usize << 20) + 5];
    for m in magic_numbers() {
        if *m > (1 << 17) {
            for k in [*m, *m + 5] {
                if !v.contains(&k) {
                    v.push(k);
                }
            }
        }
    }
    v
}

/// DEEP arguments sized around the magic numbers (and the limits of the narrow integer types): `d/` x m,
/// and the same followed by as many / one more `..` — only for the clause that looks at them one by one
/// (`deep-arguments` in C04): every other oracle would spend quadratic time on them
pub fn deep_arguments(win: bool) -> Vec<Vec<u8>> {
    let sep: u8 = if win { b'\\' } else { b'/' };
    let mut sizes: Vec<usize> = Vec::new();
    for n in magic_numbers().iter().chain([127usize, 255, 32767, 65535].iter()) {
        for m in [n.saturating_sub(1), *n, n + 1, n + 2] {
            if m >= 100 && m <= 70_000 && !sizes.contains(&m) {
                sizes.push(m);
            }
        }
    }
    sizes.sort();
    let mut v = Vec::new();
    for m in sizes {
        let mut deep: Vec<u8> = Vec::new();
        for _ in 0..m {
            deep.push(b'd');
            deep.push(sep);
        }
        v.push(deep.clone());
        for _ in 0..m {
            deep.extend_from_slice(&[b'.', b'.', sep]);
        }
        v.push(deep.clone());
        deep.extend_from_slice(b"..");
        v.push(deep);
    }
    v
}

/// the integer literals of the library's source (gen/dict.py -> work/nums.txt, next to the dictionary)
pub fn magic_numbers() -> &'static Vec<usize> {
    static N: std::sync::OnceLock<Vec<usize>> = std::sync::OnceLock::new();
    N.get_or_init(|| {
        let mut v: Vec<usize> = Vec::new();
        if let Ok(p) = std::env::var("VERIF_DICT") {
            let np = std::path::Path::new(&p).with_file_name("nums.txt");
            if let Ok(text) = std::fs::read_to_string(np) {
                for l in text.lines() {
                    if let Ok(n) = l.trim().parse::<usize>() {
                        v.push(n);
                    }
                }
            }
        }
        v
    })
}

/// paths whose sizes sit just below, at and just above every magic number (up to `cap`): name length,
/// extension position, component count, separator-run length, `.`-run length, total length
pub fn magic_paths(win: bool, cap: usize) -> Vec<Vec<u8>> {
    let sep: u8 = if win { b'\\' } else { b'/' };
    let mut v: Vec<Vec<u8>> = Vec::new();
    let mut sizes: Vec<usize> = Vec::new();
    for n in magic_numbers() {
        for m in [n.saturating_sub(1), *n, n + 1] {
            if m >= 2 && m <= cap && !sizes.contains(&m) {
                sizes.push(m);
            }
        }
    }
    for m in sizes {
        let name: Vec<u8> = (0..m).map(|k| b'a' + (k % 26) as u8).collect();
        let mut a = vec![b'd', sep];
        a.extend_from_slice(&name);
        v.push(a.clone());
        if m >= 3 {
            let mut early = name.clone();
            early[1] = b'.';
            let mut e0 = vec![b'd', sep];
            e0.extend_from_slice(&early);
            v.push(e0);
            let mut q = vec![b'd', sep];
            q.extend(std::iter::repeat(b'?').take(m));
            v.push(q);
        }
        let mut dotted = name.clone();
        dotted[m - 2] = b'.';
        let mut b = vec![b'd', sep];
        b.extend_from_slice(&dotted);
        b.push(sep);
        v.push(b);
        let mut c: Vec<u8> = Vec::new();
        for k in 0..m {
            c.push(b'a' + (k % 26) as u8);
            c.push(sep);
        }
        v.push(c);
        let mut d = vec![b'a'];
        d.extend(std::iter::repeat(sep).take(m));
        d.push(b'b');
        v.push(d);
        let mut e2 = vec![b'a', sep];
        for _ in 0..m {
            e2.push(b'.');
            e2.push(sep);
        }
        e2.push(b'b');
        v.push(e2);
        // total length exactly m, made of short components
        let mut f: Vec<u8> = Vec::new();
        while f.len() + 3 <= m {
            f.extend_from_slice(&[b'x', b'y', sep]);
        }
        while f.len() < m {
            f.push(b'z');
        }
        v.push(f);
    }
    v
}

/// dictionary words usable as a name / prefix payload: alphanumeric, at most 8 bytes
pub fn dict_words() -> Vec<Vec<u8>> {
    dictionary().iter().filter(|t| t.len() <= 8 && t.iter().all(|b| b.is_ascii_alphanumeric())).cloned().collect()
}

/// every spelling of the verbatim marker (2 x 2 x 2 separators) followed by `UNC`, server and share
/// with either separator after each: the one exact spelling `\\?\` must be told from the other seven
/// everywhere a prefix is read
pub fn marker_unc_seeds() -> Vec<Vec<u8>> {
    let mut v = Vec::new();
    let sp = [b'\\', b'/'];
    for m in 0..8usize {
        let marker = [sp[m & 1], sp[(m >> 1) & 1], b'?', sp[(m >> 2) & 1]];
        for a in sp {
            for b in sp {
                let mut x = marker.to_vec();
                x.extend_from_slice(b"UNC");
                x.push(a);
                x.extend_from_slice(b"srv");
                v.push(x.clone());
                x.push(b);
                x.extend_from_slice(b"shr");
                v.push(x.clone());
                x.push(a);
                x.extend_from_slice(b"d");
                x.push(b);
                x.extend_from_slice(b"..");
                v.push(x);
            }
        }
        let mut y = marker.to_vec();
        y.extend_from_slice(b"C:");
        y.push(sp[(m >> 1) & 1]);
        y.extend_from_slice(b"a/b");
        v.push(y);
        let mut z = marker.to_vec();
        z.extend_from_slice(b"pics\\a\\.\\b/c");
        v.push(z);
    }
    v
}

/// characters whose LOW BYTE is an ASCII byte the parsers treat specially (separators, dot, colon, the
/// forbidden bytes, `?`, NUL) — in three planes: a `c as u8` truncation turns them into that byte
pub fn low_byte_chars() -> Vec<String> {
    let mut v = Vec::new();
    for b in b"/\\.:?*\"<>|\0" {
        for hi in [0x100u32, 0x4e00, 0x1f600] {
            if let Some(c) = char::from_u32(hi + *b as u32) {
                v.push(c.to_string());
            }
        }
    }
    v
}

/// Windows paths built around every dictionary word in every prefix position
pub fn dict_win_paths() -> Vec<Vec<u8>> {
    let mut v = Vec::new();
    for w in dict_words() {
        let s = String::from_utf8_lossy(&w).into_owned();
        for pat in [r"\\?\{}", r"\\?\{}\", r"\\?\{}\s\h\x", r"\\?\{}\s", r"//?/{}/s/h/x", r"\\.\{}\x", r"\\{}\h\x", r"\\s\{}\x", r"{}\x", r"x\{}", r"x\{}.txt", r"C:\{}\y"] {
            v.push(pat.replace("{}", &s).into_bytes());
        }
    }
    v
}

/// mostly well-formed structured random path for encoding `win`
pub fn random_path(rng: &mut Rng, win: bool) -> Vec<u8> {
    let mut v: Vec<u8> = Vec::new();
    let seps: &[u8] = if win { b"\\/" } else { b"/" };
    if win && rng.chance(1, 2) {
        v.extend_from_slice(*rng.pick::<&[u8]>(WIN_SEEDS));
    }
    if rng.chance(1, 2) {
        let m = if rng.chance(1, 6) { 3 } else { 1 };
        let n = 1 + rng.below(m);
        for _ in 0..n {
            v.push(*rng.pick(seps));
        }
    }
    let ncomp = rng.below(7);
    let dw = dict_words();
    for i in 0..ncomp {
        if !dw.is_empty() && rng.chance(1, 8) {
            v.extend_from_slice(rng.pick::<Vec<u8>>(&dw[..]));
        } else {
            v.extend_from_slice(*rng.pick::<&[u8]>(NAME_POOL));
        }
        if i + 1 < ncomp || rng.chance(1, 3) {
            let m = if rng.chance(1, 5) { 3 } else { 1 };
            let n = 1 + rng.below(m);
            for _ in 0..n {
                v.push(if win && rng.chance(3, 4) { b'\\' } else { *rng.pick(seps) });
            }
        }
    }
    if rng.chance(1, 5) && !v.is_empty() {
        // byte-level mutation: the separate malformed stream
        let i = rng.below(v.len());
        match rng.below(3) {
            0 => v[i] = (rng.next() & 0xff) as u8,
            1 => {
                v.remove(i);
            }
            _ => v.insert(i, *rng.pick(b"\\/.:?a\0\xff")),
        }
    }
    v
}

/// long, realistic paths: 8-30 components, names of 1-40 bytes (ASCII words, dotted names, multi-byte
/// UTF-8, now and then a raw byte >= 0x80), `.` / `..` sprinkled in, runs of separators; 24-600 bytes.
/// The exhaustive small-alphabet domains never reach these sizes: anything that depends on a length,
/// a count, a chunk boundary or the high bit only shows here.
pub fn long_random_path(rng: &mut Rng, win: bool) -> Vec<u8> {
    const WORDS: &[&[u8]] = &[b"a", b"bc", b"usr", b"local", b"share", b"Program Files", b"node_modules", b"x86_64-unknown-linux-gnu",
        b"very-long-directory-name-with-dashes", b"file.tar.gz", b".hidden", b"..data", b"name.", b"a.b.c.d", b"README.md",
        "caf\u{e9}".as_bytes(), "\u{65e5}\u{672c}\u{8a9e}".as_bytes(), "\u{1f600}.txt".as_bytes(), b"0123456789abcdef", b"0123456789abcdefg",
        b"ABCDEFGHIJKLMNOPQRSTUVWXYZabcdef", b"ABCDEFGHIJKLMNOPQRSTUVWXYZabcdefg"];
    let mut v: Vec<u8> = Vec::new();
    let seps: &[u8] = if win { b"\\/" } else { b"/" };
    if win && rng.chance(1, 2) {
        v.extend_from_slice(*rng.pick::<&[u8]>(WIN_SEEDS));
        if rng.chance(2, 3) {
            v.push(b'\\');
        }
    } else if rng.chance(1, 2) {
        v.push(*rng.pick(seps));
    }
    let ncomp = 8 + rng.below(23);
    for i in 0..ncomp {
        match rng.below(12) {
            0 => v.extend_from_slice(b"."),
            1 => v.extend_from_slice(b".."),
            2 | 4 => {
                // a synthetic name of a random length, so that every length up to 40 occurs; now and
                // then with leading / trailing dots (`.name`, `..name`, `name.`, `name..`)
                match rng.below(8) {
                    0 => v.push(b'.'),
                    1 => v.extend_from_slice(b".."),
                    _ => {}
                }
                let n = 1 + rng.below(40);
                for k in 0..n {
                    v.push(b'a' + ((k + i) % 26) as u8);
                }
                match rng.below(8) {
                    0 | 1 | 2 => v.extend_from_slice(b".ext"),
                    3 => v.push(b'.'),
                    4 => v.extend_from_slice(b".."),
                    _ => {}
                }
            }
            3 => {
                v.extend_from_slice(*rng.pick::<&[u8]>(WORDS));
                v.push(0x80 | (rng.next() & 0x7f) as u8);
            }
            _ => v.extend_from_slice(*rng.pick::<&[u8]>(WORDS)),
        }
        if i + 1 < ncomp || rng.chance(1, 3) {
            let n = if rng.chance(1, 8) { 2 + rng.below(3) } else { 1 };
            for _ in 0..n {
                v.push(if win && rng.chance(3, 4) { b'\\' } else { *rng.pick(seps) });
            }
        }
    }
    v
}

/// Inputs harvested by `check` from op lines on which model and implementation disagreed
/// (file named by $VERIF_EXTRA, one `x<hex>` per line).  They are added to every oracle domain
/// so that the search for a failing input starts where the correspondence broke.  Never set
/// when op lines are generated.
pub fn extras() -> Vec<Vec<u8>> {
    match std::env::var("VERIF_EXTRA") {
        Ok(p) => std::fs::read_to_string(p).unwrap_or_default().lines().filter_map(|l| unhex(l.trim())).take(400).collect(),
        Err(_) => Vec::new(),
    }
}

fn with_extras(mut v: Vec<Vec<u8>>) -> Vec<Vec<u8>> {
    let mut e = extras();
    if !e.is_empty() {
        e.extend(v.drain(..));
        return dedup_keep_order(e);
    }
    dedup_keep_order(v)
}

/// which (i, j) of a cross product to run.  Thorough tier: all of them.  Quick tier: every x with a stride
/// sample of about `ky` of the ys, and every y with a stride sample of about `kx` of the xs — each element of
/// either list still meets a representative sample of the other (the lists have grown to thousands of
/// special-purpose entries; the full product is the thorough tier's job)
pub fn cross_keep(tier: &str, nx: usize, ny: usize, kx: usize, ky: usize) -> impl Fn(usize, usize) -> bool {
    let full = tier_is_thorough(tier) || nx * ny <= 400_000;
    let sx = (nx / kx.max(1)).max(1);
    let sy = (ny / ky.max(1)).max(1);
    move |i: usize, j: usize| full || i % sx == 0 || j % sy == 0
}

pub fn tier_is_thorough(tier: &str) -> bool {
    tier == "thorough"
}

/// Unix unary domain
pub fn dom_unix(tier: &str, seed: u64) -> Vec<Vec<u8>> {
    let t = tier_is_thorough(tier);
    let mut v = strings_b(b"/.a", if t { 9 } else { 7 });
    v.extend(strings_b(b"/.ab\0\xff", if t { 5 } else { 4 }));
    let mut rng = Rng::new(seed ^ 0x11);
    for _ in 0..(if t { 50_000 } else { 3_000 }) {
        v.push(random_path(&mut rng, false));
    }
    for _ in 0..(if t { 3_000 } else { 300 }) {
        v.push(long_random_path(&mut rng, false));
    }
    v.extend(magic_paths(false, 4096));
    if ORACLE_MODE.load(std::sync::atomic::Ordering::Relaxed) {
        v.extend(big_inputs(false));
    }
    for c in low_byte_chars() {
        v.push(format!("/d/a{}b.x{}/", c, c).into_bytes());
    }
    for w in dict_words() {
        let mut a = b"/d/".to_vec();
        a.extend_from_slice(&w);
        v.push(a.clone());
        a.extend_from_slice(b".x/");
        v.push(a);
        v.push(w);
    }
    with_extras(v)
}

/// Unix domain small enough for pairs
pub fn dom_unix_small(tier: &str, seed: u64) -> Vec<Vec<u8>> {
    let t = tier_is_thorough(tier);
    let mut v = strings_b(b"/.a", if t { 6 } else { 5 });
    v.extend(strings_b(b"/.ab", if t { 4 } else { 3 }));
    let mut rng = Rng::new(seed ^ 0x12);
    for _ in 0..(if t { 400 } else { 100 }) {
        v.push(random_path(&mut rng, false));
    }
    for _ in 0..(if t { 60 } else { 20 }) {
        v.push(long_random_path(&mut rng, false));
    }
    // one component longer than 256 bytes (and than every small magic number), so that the pair generators
    // reach prefixes / suffixes that differ from it by 256, 512 … bytes
    {
        let sep: u8 = if false { b'\\' } else { b'/' };
        let mut x = vec![b'd', sep];
        x.extend((0..600usize).map(|k| b'a' + (k % 26) as u8));
        x.push(sep);
        x.push(b'f');
        v.push(x);
    }
    with_extras(v)
}

/// Windows unary domain: prefix seeds x tails, near-miss prefix alphabet, random
pub fn dom_win(tier: &str, seed: u64) -> Vec<Vec<u8>> {
    let t = tier_is_thorough(tier);
    let tails = strings_b(b"\\/.a", if t { 5 } else { 4 });
    let mut v: Vec<Vec<u8>> = Vec::new();
    for s in WIN_SEEDS {
        for tl in &tails {
            let mut x = s.to_vec();
            x.extend_from_slice(tl);
            v.push(x);
        }
    }
    v.extend(strings_b(b"\\/.a", if t { 7 } else { 6 }));
    v.extend(strings_b(b"\\/?.UNC:ca\xe9", if t { 5 } else { 4 }));
    // every byte value in the drive-letter position of both disk forms
    for d in 0..=255u8 {
        v.push(vec![d, b':', b'\\', b'a']);
        let mut x = br"\\?\".to_vec();
        x.extend_from_slice(&[d, b':', b'\\', b'a']);
        v.push(x);
    }
    let mut rng = Rng::new(seed ^ 0x21);
    for _ in 0..(if t { 50_000 } else { 3_000 }) {
        v.push(random_path(&mut rng, true));
    }
    for _ in 0..(if t { 3_000 } else { 300 }) {
        v.push(long_random_path(&mut rng, true));
    }
    v.extend(dict_win_paths());
    v.extend(magic_paths(true, 4096));
    if ORACLE_MODE.load(std::sync::atomic::Ordering::Relaxed) {
        v.extend(big_inputs(true));
    }
    v.extend(marker_unc_seeds());
    for c in low_byte_chars() {
        v.push(format!("d\\a{}b.x{}", c, c).into_bytes());
    }
    with_extras(v)
}

pub fn dom_win_small(tier: &str, seed: u64) -> Vec<Vec<u8>> {
    let t = tier_is_thorough(tier);
    let tails = strings_b(b"\\/.a", if t { 3 } else { 2 });
    let mut v: Vec<Vec<u8>> = Vec::new();
    for s in WIN_SEEDS {
        for tl in &tails {
            let mut x = s.to_vec();
            x.extend_from_slice(tl);
            v.push(x);
        }
    }
    v.extend(strings_b(b"\\/.a", if t { 4 } else { 3 }));
    for x in [&br"C:\a\b"[..], br"c:/a//b", br"C:\a\.\b", br"\\?\C:\a\.\b", br"\\?\C:\a\b", br"//?/C:/a/b",
              br"\\S\H\a", br"\\s\h\a\", br"a\b.txt", br"a/b.txt/", br"\\?\pics\a\..\b", br"C:a\..\b"] {
        v.push(x.to_vec());
    }
    let mut rng = Rng::new(seed ^ 0x22);
    for _ in 0..(if t { 400 } else { 100 }) {
        v.push(random_path(&mut rng, true));
    }
    for _ in 0..(if t { 60 } else { 20 }) {
        v.push(long_random_path(&mut rng, true));
    }
    // one component longer than 256 bytes (and than every small magic number), so that the pair generators
    // reach prefixes / suffixes that differ from it by 256, 512 … bytes
    {
        let sep: u8 = if true { b'\\' } else { b'/' };
        let mut x = vec![b'd', sep];
        x.extend((0..600usize).map(|k| b'a' + (k % 26) as u8));
        x.push(sep);
        x.push(b'f');
        v.push(x);
    }
    with_extras(v)
}

/// arguments for joins: short relative / rooted / prefixed / hostile
pub fn dom_args(win: bool, tier: &str, seed: u64) -> Vec<Vec<u8>> {
    let t = tier_is_thorough(tier);
    let mut v = if win { strings_b(b"\\/.a", if t { 4 } else { 3 }) } else { strings_b(b"/.a", if t { 5 } else { 4 }) };
    for x in NAME_POOL {
        v.push(x.to_vec());
    }
    let extra: &[&[u8]] = if win {
        &[br"a\b", br"a\..\..\b", br"..\a", br"a\..", br".\a", br"a\.\b", b"C:", b"C:a", br"C:\a", br"\\s\h\a",
          br"\\?\C:\a", br"\a", b"/a", br"a|b\c", br"a\b*", b"a/../..", br".\..", b"a/b/../../..", br"\\a", b"//a", b"a\\\\b",
          // an invalid name that a later `..` cancels, a traversal that a later name would balance
          br"a|b\..\c", br"|\..", br"d\a:b\..\..\e", br"a\..\..\b\c"]
    } else {
        &[b"a/b", b"a/../../b", b"../a", b"a/..", b"./a", b"a/./b", b"/a", b"a\0/b", b"a/b\0", b"a/../..", b"./..",
          b"a/b/../../..", b"//a", b"a//b", b"a\0b/../c", b"\0/..", b"a/../../b/c"]
    };
    for x in extra {
        v.push(x.to_vec());
    }
    let mut rng = Rng::new(seed ^ 0x31);
    for _ in 0..(if t { 300 } else { 60 }) {
        v.push(random_path(&mut rng, win));
    }
    for _ in 0..(if t { 40 } else { 10 }) {
        v.push(long_random_path(&mut rng, win));
    }
    for n in [16usize, 17, 33, 65, 257] {
        v.push((0..n).map(|k| b'a' + (k % 26) as u8).collect());
    }
    // DEEP arguments: component counts around the limits of narrow integers (a depth counter kept in
    // i8 / u8 / i16 …), pure descents and descents followed by as many / one more `..`
    {
        let sep: u8 = if win { b'\\' } else { b'/' };
        let mut counts = vec![127usize, 128, 256];
        if t {
            counts.extend([126usize, 129, 255, 257]);
        }
        // (the chains around 2^15 and 2^16 components are `deep_arguments()`: one clause of the C04 oracle
        // runs them against a few bases; crossed with every base they are gigabytes of op lines)
        for n in counts {
            let mut down: Vec<u8> = Vec::new();
            for _ in 0..n {
                down.push(b'a');
                down.push(sep);
            }
            v.push(down.clone());
            let mut updown = down.clone();
            for _ in 0..n {
                updown.extend_from_slice(&[b'.', b'.', sep]);
            }
            v.push(updown.clone());
            updown.extend_from_slice(b"..");
            v.push(updown);
        }
    }
    v.extend(magic_paths(win, 1024).into_iter().filter(|x| x.len() <= 4096));
    if ORACLE_MODE.load(std::sync::atomic::Ordering::Relaxed) {
        // relative big arguments (the rooted head dropped)
        v.extend(big_inputs(win).into_iter().filter(|x| x.len() <= 5000).map(|x| if win { x.strip_prefix(b"C:\\").map(|y| y.to_vec()).unwrap_or(x) } else { x.strip_prefix(b"/").map(|y| y.to_vec()).unwrap_or(x) }));
    }
    // every byte value in the FIRST position of an argument
    for b in 0..=255u8 {
        if t || b >= 0x80 || !b.is_ascii_alphanumeric() {
            v.push(vec![b, b'a']);
        }
    }
    with_extras(v)
}
