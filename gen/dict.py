#!/usr/bin/env python3
"""Harvest a DICTIONARY for the input generators from the literals of /repo/src.

Writes work/dict.txt (one `x<hex>` token per line): every string / byte-string / char / byte literal of
1..12 bytes that occurs in non-test code (comments and doc comments removed), plus its lower-case,
upper-case and swapped-case variants.  The harness mixes these tokens into its name pools and prefix
seeds (util.rs `dictionary()`), so that a special word the implementation knows about — `UNC`, a reserved
device name, a marker byte — and its near-misses (`unc`, `Unc`) are generated even though no small
alphabet contains them.  Also writes work/nums.txt: the integer literals of the source ("magic numbers"),
around which the harness places lengths, component counts and run lengths.  Regenerated on every run; a
missing file only means an empty dictionary.
"""
import glob
import os
import re
import sys

HERE = os.path.dirname(os.path.abspath(__file__))
REPO = os.environ.get("VERIF_REPO", "/repo")
OUT = os.path.join(HERE, "..", "work", "dict.txt")


def strip_comments(src):
    src = re.sub(r"/\*.*?\*/", " ", src, flags=re.S)
    return "\n".join(l[: l.find("//")] if "//" in l else l for l in src.split("\n"))


def cut_tests(src):
    m = re.search(r"#\[cfg\(test\)\]\s*(#\[[^\]]*\]\s*)*mod\s+tests?\b", src)
    return src[: m.start()] if m else src


def unescape(body):
    out = bytearray()
    i = 0
    while i < len(body):
        c = body[i]
        if c == "\\" and i + 1 < len(body):
            n = body[i + 1]
            if n == "x" and i + 3 < len(body):
                try:
                    out.append(int(body[i + 2:i + 4], 16))
                except ValueError:
                    return None
                i += 4
                continue
            m = {"n": 10, "r": 13, "t": 9, "0": 0, "\\": 92, "'": 39, '"': 34}
            if n in m:
                out.append(m[n])
                i += 2
                continue
            return None
        out.extend(c.encode("utf-8"))
        i += 1
    return bytes(out)


def literals(src):
    """one pass over the source: yields the bytes of every (byte) string / raw string / char literal of a
    useful size; identifiers ending in `r` or `b` directly before a quote are not mistaken for prefixes"""
    i, n = 0, len(src)
    while i < n:
        c = src[i]
        prev_ident = i > 0 and (src[i - 1].isalnum() or src[i - 1] == "_")
        m = None
        if not prev_ident:
            m = re.match(r'(b?)r(#*)"', src[i:])
        if m:
            close = '"' + m.group(2)
            j = i + m.end()
            k = src.find(close, j)
            if k < 0:
                return
            b = src[j:k].encode("utf-8")
            if 1 <= len(b) <= 12:
                yield b
            i = k + len(close)
            continue
        if c == '"' or (c == "b" and not prev_ident and src[i:i + 2] == 'b"'):
            j = i + (2 if c == "b" else 1)
            k = j
            while k < n and src[k] != '"':
                k += 2 if src[k] == "\\" else 1
            b = unescape(src[j:k])
            if b is not None and 1 <= len(b) <= 12:
                yield b
            i = k + 1
            continue
        if c == "'" or (c == "b" and not prev_ident and src[i:i + 2] == "b'"):
            j = i + (2 if c == "b" else 1)
            m2 = re.match(r"((?:\\.[^']{0,6}|[^\\']))'", src[j:])
            if m2:
                b = unescape(m2.group(1))
                if b is not None and 1 <= len(b) <= 4:
                    yield b
                i = j + m2.end()
                continue
        i += 1


def main():
    files = sorted(glob.glob(os.path.join(REPO, "src", "**", "*.rs"), recursive=True))
    if len(files) < 20:
        sys.stderr.write("gen/dict.py: cannot read %s/src\n" % REPO)
        sys.exit(2)
    toks = set()
    for f in files:
        src = cut_tests(strip_comments(open(f, encoding="utf-8").read()))
        # attribute arguments (#[cfg(feature = "std")], #[doc = …]) are not data
        src = re.sub(r"#!?\[[^\]]*\]", " ", src)
        for lit in literals(src):
            toks.add(lit)
    out = set()
    for t in toks:
        if any(ch in t for ch in b"{}") or t.strip() != t or b" " in t and len(t) > 6:
            continue  # format strings and prose
        out.add(t)
        try:
            s = t.decode("ascii")
        except UnicodeDecodeError:
            continue
        for v in (s.lower(), s.upper(), s.swapcase(), s.capitalize()):
            out.add(v.encode("ascii"))
    # MAGIC NUMBERS: every integer literal of the non-test source (decimal, hex, `1 << k`), so that lengths,
    # counts and run lengths just below, at and above each of them are generated (a chunk size, a buffer
    # length, a repetition cap, a narrow counter's limit … that a change introduces is then probed)
    nums = set()
    for f in files:
        src = cut_tests(strip_comments(open(f, encoding="utf-8").read()))
        src = re.sub(r"#!?\[[^\]]*\]", " ", src)
        src = re.sub(r'b?"(?:\\.|[^"\\])*"', '""', src)
        for m in re.finditer(r"(?<![\w.])(\d[\d_]*)\s*<<\s*(\d+)", src):
            try:
                nums.add(int(m.group(1).replace("_", "")) << int(m.group(2)))
            except ValueError:
                pass
        # products of literals (`4 * 1024 * 1024`)
        for m in re.finditer(r"(?<![\w.])\d[\d_]*(?:\s*\*\s*\d[\d_]*)+", src):
            try:
                v = 1
                for f_ in re.split(r"\s*\*\s*", m.group(0)):
                    v *= int(f_.replace("_", ""))
                nums.add(v)
            except ValueError:
                pass
        for m in re.finditer(r"(?<![\w.])(0x[0-9a-fA-F_]+|\d[\d_]*)(?:usize|u8|u16|u32|u64|i8|i16|i32|i64|isize)?\b", src):
            tok = m.group(1).replace("_", "")
            try:
                nums.add(int(tok, 16) if tok.startswith("0x") else int(tok))
            except ValueError:
                pass
        # the limits of the narrow integer types a counter may be kept in
        for ty, lim in (("i8", 127), ("u8", 255), ("i16", 32767), ("u16", 65535)):
            if re.search(r"\b%s\b" % ty, src):
                nums.add(lim)
    # up to 2^25: the harness feeds numbers above 2^17 to a few dedicated single-input clauses only
    # ("giant" names, extensions, runs), everything else is capped where it is used
    nums = sorted(n for n in nums if 3 <= n <= (1 << 25))
    os.makedirs(os.path.dirname(OUT), exist_ok=True)
    open(os.path.join(os.path.dirname(OUT), "nums.txt"), "w").write("\n".join(str(n) for n in nums) + "\n")
    os.makedirs(os.path.dirname(OUT), exist_ok=True)
    text = "\n".join("x" + t.hex() for t in sorted(out)) + "\n"
    old = open(OUT).read() if os.path.exists(OUT) else None
    if old != text:
        open(OUT, "w").write(text)


if __name__ == "__main__":
    main()
