#!/usr/bin/env python3
"""Translate the PARTIAL-OPERATION and LOOP sites of /repo/src into Lean.

Writes lean/TypedPathVerif/Generated/Partial.lean: for every non-test source file that contains
any, the number of

  idx    slice / element indexing         `x[..]`, `x[i]`, `x[a..b]`
  unwrap `.unwrap()` / `.expect(`
  sub    `usize`-style subtraction        `a - b`, `a -= b`
  trunc  `.truncate(`
  loop   `while` / `loop`                 (`for` over an iterator is bounded by the iterator)
  panic  `panic!` / `unreachable!` / `unimplemented!` / `todo!` / `assert!` / `assert_eq!` / `assert_ne!`
  unsafe `unsafe` blocks / fns / impls

as the source has them *now* (comments, strings, char literals, attributes and `#[cfg(test)]`
modules removed first).  Props/C18.lean states, per file and kind, which theorem covers those
sites, and proves by kernel evaluation that the generated table is the covered one: a new or
removed site changes the table and breaks that theorem.  Fails loudly (exit 2) when /repo/src
cannot be read.
"""
import os
import re
import sys

REPO = os.environ.get("VERIF_REPO", "/repo")
OUT = os.path.join(os.path.dirname(os.path.abspath(__file__)), "..", "lean", "TypedPathVerif", "Generated", "Partial.lean")


def die(msg):
    sys.stderr.write("gen/partial.py: " + msg + "\n")
    sys.exit(2)


def strip_noise(src):
    """remove comments, string / char / byte literals (keeping their delimiters' place as a space)"""
    out = []
    i, n = 0, len(src)
    while i < n:
        c = src[i]
        two = src[i:i + 2]
        if two == "//":
            j = src.find("\n", i)
            i = n if j < 0 else j
        elif two == "/*":
            depth, j = 1, i + 2
            while j < n and depth:
                if src[j:j + 2] == "/*":
                    depth += 1
                    j += 2
                elif src[j:j + 2] == "*/":
                    depth -= 1
                    j += 2
                else:
                    j += 1
            i = j
        elif c == '"' or (c in "br" and re.match(r'(b?r#*"|b")', src[i:i + 6]) and (i == 0 or not (src[i - 1].isalnum() or src[i - 1] == "_"))):
            m = re.match(r'(b?)(r(#*))?"', src[i:])
            if not m:
                out.append(c)
                i += 1
                continue
            j = i + m.end()
            if m.group(2):  # raw string
                close = '"' + m.group(3)
                k = src.find(close, j)
                i = n if k < 0 else k + len(close)
            else:
                while j < n and src[j] != '"':
                    j += 2 if src[j] == "\\" else 1
                i = j + 1
            out.append(' "" ')
        elif c == "'" or (c == "b" and src[i:i + 2] == "b'" and (i == 0 or not (src[i - 1].isalnum() or src[i - 1] == "_"))):
            k = i + (2 if c == "b" else 1)
            # char literal vs lifetime: a literal closes within a few characters
            m = re.match(r"(\\.[^']{0,8}|[^\\'])'", src[k:])
            if m:
                i = k + m.end()
                out.append(" 'c' ")
            else:
                out.append(c)
                i += 1
        else:
            out.append(c)
            i += 1
    return "".join(out)


def strip_tests(src):
    """drop `#[cfg(test)] mod … { … }` blocks (brace matched; run on noise-free text)"""
    while True:
        m = re.search(r"#\[cfg\(test\)\]\s*(#\[[^\]]*\]\s*)*(pub\s+)?mod\s+\w+\s*\{", src)
        if not m:
            return src
        depth, j = 1, m.end()
        while j < len(src) and depth:
            if src[j] == "{":
                depth += 1
            elif src[j] == "}":
                depth -= 1
            j += 1
        src = src[:m.start()] + src[j:]


def strip_attrs(src):
    return re.sub(r"#!?\[[^\]\n]*\]", " ", src)


KINDS = ["idx", "unwrap", "sub", "trunc", "loop", "panic", "unsafe"]


def count(src):
    c = {}
    # indexing: an expression (identifier, `)`, `]`) immediately followed by `[`; macros (`vec![`) excluded
    c["idx"] = len(re.findall(r"(?<![!\w])(?:[A-Za-z_]\w*|\)|\])\[", re.sub(r"\b[A-Za-z_]\w*!\s*\[", " ", src)))
    c["unwrap"] = len(re.findall(r"\.\s*(unwrap|expect)\s*\(", src))
    # binary minus / `-=`: not `->`, not a unary minus after `(`, `,`, `=`, an operator or `return`
    s2 = src.replace("->", "  ")
    c["sub"] = len(re.findall(r"(?<=[\w\)\]])\s*-=?\s*(?=[\w\(])", s2))
    c["trunc"] = len(re.findall(r"\.\s*truncate\s*\(", src))
    c["loop"] = len(re.findall(r"\b(while|loop)\b", src))
    c["panic"] = len(re.findall(r"\b(panic|unreachable|unimplemented|todo|assert|assert_eq|assert_ne)!\s*[\(\[\{]", src))
    c["unsafe"] = len(re.findall(r"\bunsafe\b", src))
    return [c[k] for k in KINDS]


def main():
    srcdir = os.path.join(REPO, "src")
    if not os.path.isdir(srcdir):
        die("no " + srcdir)
    rows = []
    nfiles = 0
    for root, dirs, files in os.walk(srcdir):
        dirs.sort()
        for fn in sorted(files):
            if not fn.endswith(".rs"):
                continue
            nfiles += 1
            path = os.path.join(root, fn)
            rel = os.path.relpath(path, REPO)
            src = strip_attrs(strip_tests(strip_noise(open(path, encoding="utf-8").read())))
            cs = count(src)
            if any(cs):
                rows.append((rel, cs))
    if nfiles < 20:
        die("too few source files found (%d)" % nfiles)
    out = []
    w = out.append
    w("/- GENERATED by gen/partial.py from /repo — do not edit. -/")
    w("namespace TP.Generated")
    w("")
    w("/-- per non-test source file: numbers of [indexing, unwrap/expect, subtraction, truncate, while/loop,")
    w("panicking macro, unsafe] sites -/")
    w("def partialSites : List (String × List Nat) := [")
    w(",\n".join('  ("%s", [%s])' % (rel, ", ".join(str(x) for x in cs)) for rel, cs in rows))
    w("]")
    w("")
    w("end TP.Generated")
    text = "\n".join(out) + "\n"
    os.makedirs(os.path.dirname(OUT), exist_ok=True)
    old = None
    try:
        old = open(OUT).read()
    except OSError:
        pass
    if old != text:
        open(OUT, "w").write(text)
    return 0


if __name__ == "__main__":
    sys.exit(main())
