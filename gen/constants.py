#!/usr/bin/env python3
"""Translate the constant tables and `matches!` kind sets of /repo into Lean.

Writes lean/TypedPathVerif/Generated/Constants.lean.  Run on every check, so the Lean
theorems that mention these tables (`Props/C17.lean`, `Props/C02.lean`, the model's
`forbidden`, `wHasAnyVerbatimPrefix`) are re-checked against what the source says *now*.
Fails loudly (exit 2) when a pattern stops matching instead of emitting a stale table.
"""
import os, re, sys

REPO = os.environ.get("VERIF_REPO", "/repo")
OUT = os.path.join(os.path.dirname(os.path.abspath(__file__)), "..", "lean", "TypedPathVerif",
                   "Generated", "Constants.lean")

def die(msg):
    sys.stderr.write("gen/constants.py: " + msg + "\n")
    sys.exit(2)

def strip_comments(src):
    """remove `//…` and `/*…*/` comments, leaving string / char / byte literals alone"""
    out = []
    i, n = 0, len(src)
    while i < n:
        two = src[i:i + 2]
        c = src[i]
        if two == "//":
            j = src.find("\n", i)
            i = n if j < 0 else j
        elif two == "/*":
            j = src.find("*/", i + 2)
            i = n if j < 0 else j + 2
        elif c == '"':
            j = i + 1
            while j < n and src[j] != '"':
                j += 2 if src[j] == "\\" else 1
            out.append(src[i:j + 1])
            i = j + 1
        elif c == "'":
            m = re.match(r"'(\\.[^']{0,8}|[^\\'])'", src[i:])
            if m:
                out.append(m.group(0))
                i += m.end()
            else:
                out.append(c)
                i += 1
        else:
            out.append(c)
            i += 1
    return "".join(out)


def read(rel):
    p = os.path.join(REPO, rel)
    try:
        return strip_comments(open(p, encoding="utf-8").read())
    except OSError as e:
        die(f"cannot read {p}: {e}")

ESC = {"\\\\": 92, "\\0": 0, "\\n": 10, "\\r": 13, "\\t": 9, "\\'": 39, '\\"': 34}

def lit_value(body):
    """value of the inside of a Rust char / byte literal"""
    if body in ESC:
        return ESC[body]
    m = re.fullmatch(r"\\x([0-9a-fA-F]{2})", body)
    if m:
        return int(m.group(1), 16)
    m = re.fullmatch(r"\\u\{([0-9a-fA-F]+)\}", body)
    if m:
        return int(m.group(1), 16)
    if len(body) == 1:
        return ord(body)
    die(f"unsupported literal '{body}'")

LIT = r"b?'((?:\\.[^']*|[^'\\]))'"

def const_expr(src, name, rel):
    m = re.search(r"pub const " + name + r"\s*:\s*[^=]+=\s*(.*?);", src, re.S)
    if not m:
        die(f"{rel}: constant {name} not found")
    return m.group(1)

def char_const(src, name, rel):
    e = const_expr(src, name, rel).strip()
    m = re.fullmatch(LIT, e)
    if not m:
        die(f"{rel}: {name} is not a char literal: {e}")
    return lit_value(m.group(1))

def list_const(src, name, rel):
    e = const_expr(src, name, rel)
    m = re.search(r"\[(.*)\]", e, re.S)
    if not m:
        die(f"{rel}: {name} is not an array literal: {e}")
    inner = m.group(1)
    vals = [lit_value(x) for x in re.findall(LIT, inner)]
    # nothing but literals, commas and white space may occur in the table
    rest = re.sub(LIT, "", inner)
    if rest.replace(",", "").strip():
        die(f"{rel}: {name}: unparsed items {rest!r} in {inner!r}")
    if not vals:
        die(f"{rel}: {name}: empty table")
    return vals

def bstr_const(src, name, rel):
    e = const_expr(src, name, rel).strip()
    m = re.fullmatch(r'b"([^"\\]*)"', e)
    if not m:
        die(f"{rel}: {name} is not a plain byte string: {e}")
    return [ord(c) for c in m.group(1)]

KINDS = ["Verbatim", "VerbatimUNC", "VerbatimDisk", "DeviceNS", "UNC", "Disk"]

def enum_order(src, rel):
    m = re.search(r"pub enum (?:Utf8)?WindowsPrefix<'a>\s*\{(.*?)\n\}", src, re.S)
    if not m:
        die(f"{rel}: enum WindowsPrefix not found")
    body = re.sub(r"//[^\n]*", "", m.group(1))
    names = re.findall(r"^\s*([A-Z][A-Za-z]*)\s*\(", body, re.M)
    return names

def fn_body(src, name, rel):
    m = re.search(r"fn " + name + r"\s*\([^)]*\)\s*->\s*bool\s*\{(.*?)\n    \}", src, re.S)
    if not m:
        die(f"{rel}: fn {name} not found")
    return m.group(1)

def kinds_in(body, rel, name, prefix="(?:Utf8)?WindowsPrefix::|"):
    ks = re.findall(r"(?:(?:Utf8)?WindowsPrefix::)?\b(VerbatimUNC|VerbatimDisk|Verbatim|DeviceNS|UNC|Disk)\s*\(", body)
    if not ks:
        die(f"{rel}: fn {name}: no prefix kinds found")
    return sorted({KINDS.index(k) for k in ks})

def nat_list(xs):
    return "[" + ", ".join(str(x) for x in xs) + "]"

def main():
    uc = read("src/unix/constants.rs")
    wc = read("src/windows/constants.rs")
    wcomp = read("src/windows/non_utf8/components.rs")
    wcomp8 = read("src/windows/utf8/components.rs")
    wpre = read("src/windows/non_utf8/components/component/prefix.rs")
    wpre8 = read("src/windows/utf8/components/component/prefix.rs")

    order = enum_order(wpre, "prefix.rs")
    order8 = enum_order(wpre8, "utf8 prefix.rs")

    out = []
    w = out.append
    w("/- GENERATED by gen/constants.py from /repo — do not edit. -/")
    w("namespace TP.Generated")
    w("")
    w(f"def unixSeparator : UInt8 := {char_const(uc, 'SEPARATOR', 'unix/constants.rs')}")
    w(f"def unixCurrentDir : List UInt8 := {nat_list(bstr_const(uc, 'CURRENT_DIR', 'unix/constants.rs'))}")
    w(f"def unixParentDir : List UInt8 := {nat_list(bstr_const(uc, 'PARENT_DIR', 'unix/constants.rs'))}")
    w(f"def unixDisallowedBytes : List UInt8 := {nat_list(list_const(uc, 'DISALLOWED_FILENAME_BYTES', 'unix/constants.rs'))}")
    w(f"def unixDisallowedChars : List Nat := {nat_list(list_const(uc, 'DISALLOWED_FILENAME_CHARS', 'unix/constants.rs'))}")
    w("")
    w(f"def windowsSeparator : UInt8 := {char_const(wc, 'SEPARATOR', 'windows/constants.rs')}")
    w(f"def windowsAltSeparator : UInt8 := {char_const(wc, 'ALT_SEPARATOR', 'windows/constants.rs')}")
    w(f"def windowsCurrentDir : List UInt8 := {nat_list(bstr_const(wc, 'CURRENT_DIR', 'windows/constants.rs'))}")
    w(f"def windowsParentDir : List UInt8 := {nat_list(bstr_const(wc, 'PARENT_DIR', 'windows/constants.rs'))}")
    w(f"def windowsDisallowedBytes : List UInt8 := {nat_list(list_const(wc, 'DISALLOWED_FILENAME_BYTES', 'windows/constants.rs'))}")
    w(f"def windowsDisallowedChars : List Nat := {nat_list(list_const(wc, 'DISALLOWED_FILENAME_CHARS', 'windows/constants.rs'))}")
    w("")
    w("/-- declaration order of `enum WindowsPrefix` (index into Verbatim, VerbatimUNC, VerbatimDisk, DeviceNS, UNC, Disk) -/")
    for nm, o in (("prefixEnumOrder", order), ("prefixEnumOrderUtf8", order8)):
        try:
            w(f"def {nm} : List Nat := {nat_list([KINDS.index(k) for k in o])}")
        except ValueError:
            die(f"unknown prefix kind in enum: {o}")
    w("")
    w("/-- kind tags accepted by each prefix-kind query (from the `matches!` arms) -/")
    # A query whose arms cannot be read any more (rewritten without `matches!`, say through `is_verbatim()`) keeps its
    # last good table — the model goes on being compared with the code — and is named in `kindSetsStale`, which
    # `C02.kind_sets_read` requires to be empty: only C02, whose theorems are stated over these arms, is then
    # reported as no longer shown; the constant tables above stay fresh for C04 / C17.
    stale = []
    last_good = {}
    try:
        for mm in re.finditer(r"^def (\w+) : List Nat := \[([0-9, ]*)\]", open(OUT).read(), re.M):
            last_good[mm.group(1)] = [int(x) for x in mm.group(2).replace(" ", "").split(",") if x]
    except OSError:
        pass

    class Unreadable(Exception):
        pass

    def die_soft(msg):
        raise Unreadable(msg)

    def kind_def(name, src, fn, rel):
        global die
        hard = die
        die = die_soft
        try:
            vals = kinds_in(fn_body(src, fn, rel), rel, fn)
        except Unreadable as e:
            if name not in last_good:
                die = hard
                die(str(e))
            sys.stderr.write("gen/constants.py: " + str(e) + " (keeping the last good table)\n")
            stale.append(name)
            vals = last_good[name]
        finally:
            die = hard
        w(f"def {name} : List Nat := {nat_list(vals)}")

    for fn, nm in (("has_any_verbatim_prefix", "anyVerbatimTags"),
                   ("has_verbatim_prefix", "verbatimTags"),
                   ("has_verbatim_unc_prefix", "verbatimUNCTags"),
                   ("has_verbatim_disk_prefix", "verbatimDiskTags"),
                   ("has_device_ns_prefix", "deviceNSTags"),
                   ("has_unc_prefix", "uncTags"),
                   ("has_disk_prefix", "diskTags")):
        kind_def(nm, wcomp, fn, "components.rs")
        kind_def(nm + "Utf8", wcomp8, fn, "utf8 components.rs")
    kind_def("isVerbatimTags", wpre, "is_verbatim", "prefix.rs")
    kind_def("isVerbatimTagsUtf8", wpre8, "is_verbatim", "utf8 prefix.rs")
    w("")
    w("/-- the kind tables above whose `matches!` arms could not be read from the source this time (last good value kept) -/")
    w("def kindSetsStale : List String := [" + ", ".join('"%s"' % x for x in stale) + "]")
    w("")
    w("end TP.Generated")
    text = "\n".join(out) + "\n"
    os.makedirs(os.path.dirname(OUT), exist_ok=True)
    old = None
    try:
        old = open(OUT).read()
    except OSError:
        pass
    if old != text:
        with open(OUT, "w") as f:
            f.write(text)
    return 3 if stale else 0

if __name__ == "__main__":
    sys.exit(main())
