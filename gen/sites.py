#!/usr/bin/env python3
"""Translate the conditional-compilation sites of /repo/src into Lean.

Writes lean/TypedPathVerif/Generated/Sites.lean: one record per `#[cfg(...)]` / `#[cfg_attr(...)]`
attribute (outside `#[cfg(test)]` modules) whose predicate mentions a cargo feature, with the
polarity of every `feature = "..."` leaf (is it under an odd number of `not(...)`), whether the
attribute is an inner attribute, what a cfg_attr applies, and what kind of item the attribute
guards.  Props/C20.lean proves (by kernel evaluation over the whole table) that the `std`
feature is purely additive.  Run on every check; fails loudly (exit 2) on anything it cannot
parse.
"""
import os
import re
import sys

REPO = os.environ.get("VERIF_REPO", "/repo")
OUT = os.path.join(os.path.dirname(os.path.abspath(__file__)), "..", "lean", "TypedPathVerif", "Generated", "Sites.lean")

ITEM_CODES = {
    "impl": 1, "fn": 2, "mod": 3, "use": 4, "struct": 5, "enum": 6, "type": 7, "const": 8, "trait": 9,
    "extern": 10, "attr": 11,  # another attribute follows and then an item (resolved further)
    "macro": 12, "crate": 13,  # inner attribute on the crate
    "expr": 20,  # statement / expression / match arm / field: NOT a whole item
}
APPLIED_CODES = {"": 0, "no_std": 1, "doc": 2, "other": 9}


def die(msg):
    sys.stderr.write("gen/sites.py: " + msg + "\n")
    sys.exit(2)


def balanced(src, i):
    """src[i] == '(' -> index just past the matching ')', string-literal aware"""
    depth = 0
    j = i
    in_str = False
    while j < len(src):
        c = src[j]
        if in_str:
            if c == "\\":
                j += 1
            elif c == '"':
                in_str = False
        else:
            if c == '"':
                in_str = True
            elif c == "(":
                depth += 1
            elif c == ")":
                depth -= 1
                if depth == 0:
                    return j + 1
        j += 1
    die("unbalanced parentheses")


def split_args(s):
    """split a comma separated predicate list at depth 0"""
    out, depth, cur, in_str = [], 0, "", False
    i = 0
    while i < len(s):
        c = s[i]
        if in_str:
            cur += c
            if c == "\\":
                i += 1
                cur += s[i]
            elif c == '"':
                in_str = False
        elif c == '"':
            in_str = True
            cur += c
        elif c == "(":
            depth += 1
            cur += c
        elif c == ")":
            depth -= 1
            cur += c
        elif c == "," and depth == 0:
            out.append(cur.strip())
            cur = ""
        else:
            cur += c
        i += 1
    if cur.strip():
        out.append(cur.strip())
    return out


def leaves(pred, neg, acc):
    """collect (feature name, negated) leaves of a cfg predicate"""
    pred = pred.strip()
    m = re.fullmatch(r"(all|any|not)\s*\((.*)\)", pred, re.S)
    if m:
        kind, inner = m.group(1), m.group(2)
        for a in split_args(inner):
            leaves(a, (not neg) if kind == "not" else neg, acc)
        return
    m = re.fullmatch(r'feature\s*=\s*"([^"]*)"', pred)
    if m:
        acc.append((m.group(1), neg))
        return
    if re.fullmatch(r'[A-Za-z_][A-Za-z0-9_]*(\s*=\s*"[^"]*")?', pred):
        return  # some other key (unix, windows, target_os = "...", doctest, test)
    die(f"cannot parse cfg predicate: {pred!r}")


def strip_tests(src):
    """blank out `#[cfg(test)] mod ... { ... }` blocks (keeping line numbers)"""
    out = src
    for m in re.finditer(r"#\[cfg\(test\)\]\s*mod\s+\w+\s*\{", src):
        i = m.end() - 1
        depth = 0
        j = i
        while j < len(src):
            if src[j] == "{":
                depth += 1
            elif src[j] == "}":
                depth -= 1
                if depth == 0:
                    break
            j += 1
        block = src[m.start():j + 1]
        out = out.replace(block, re.sub(r"[^\n]", " ", block), 1)
    return out


def item_after(src, pos):
    """kind of the thing the attribute at ...pos guards"""
    rest = src[pos:]
    while True:
        rest = rest.lstrip()
        if rest.startswith("//"):
            rest = rest[rest.index("\n") + 1:] if "\n" in rest else ""
            continue
        if rest.startswith("#["):
            # another attribute: skip it
            i = rest.index("[")
            depth, j = 0, i
            while j < len(rest):
                if rest[j] == "[":
                    depth += 1
                elif rest[j] == "]":
                    depth -= 1
                    if depth == 0:
                        break
                j += 1
            rest = rest[j + 1:]
            continue
        break
    m = re.match(r"(pub(\([a-z]+\))?\s+)?(unsafe\s+)?(impl|fn|mod|use|struct|enum|type|const|trait|extern|macro_rules!)\b", rest)
    if m:
        k = m.group(4)
        return "macro" if k == "macro_rules!" else k
    return "expr"


def main():
    sites = []
    for root, dirs, files in os.walk(os.path.join(REPO, "src")):
        dirs.sort()
        for fn in sorted(files):
            if not fn.endswith(".rs"):
                continue
            path = os.path.join(root, fn)
            rel = os.path.relpath(path, REPO)
            src = strip_tests(open(path, encoding="utf-8").read())
            for m in re.finditer(r"#(!?)\[\s*(cfg|cfg_attr)\s*\(", src):
                start = m.end() - 1
                end = balanced(src, start)
                inside = src[start + 1:end - 1]
                args = split_args(inside)
                pred = args[0]
                acc = []
                leaves(pred, False, acc)
                if not acc:
                    continue  # no cargo feature involved
                inner = m.group(1) == "!"
                is_attr = m.group(2) == "cfg_attr"
                applied = ""
                if is_attr:
                    a = args[1] if len(args) > 1 else ""
                    applied = "no_std" if a == "no_std" else ("doc" if a.startswith("doc") else "other")
                # position after the closing `]`
                close = src.index("]", end - 1)
                item = "crate" if inner else item_after(src, close + 1)
                line = src.count("\n", 0, m.start()) + 1
                sites.append((rel, line, acc, inner, is_attr, applied, item, re.sub(r"\s+", " ", pred)))
    if not sites:
        die("no feature-dependent cfg site found (pattern broken?)")
    # run-time `cfg!(...)` tests of a feature (would escape the attribute table)
    macro_uses = 0
    for root, dirs, files in os.walk(os.path.join(REPO, "src")):
        dirs.sort()
        for fn in sorted(files):
            if fn.endswith(".rs"):
                src = strip_tests(open(os.path.join(root, fn), encoding="utf-8").read())
                for m in re.finditer(r"\bcfg!\s*\(", src):
                    end = balanced(src, m.end() - 1)
                    if "feature" in src[m.end():end]:
                        macro_uses += 1
    out = []
    w = out.append
    w("/- GENERATED by gen/sites.py from /repo — do not edit. -/")
    w("namespace TP.Generated")
    w("")
    w("structure CfgSite where")
    w("  file : String")
    w("  line : Nat")
    w("  pred : String")
    w("  /-- (feature is `std`, leaf is under an odd number of `not`) for every `feature = \"…\"` leaf -/")
    w("  leaves : List (Bool × Bool)")
    w("  inner : Bool")
    w("  isCfgAttr : Bool")
    w("  /-- what a cfg_attr applies: 0 none, 1 no_std, 2 doc, 9 other -/")
    w("  applied : Nat")
    w("  /-- kind of the guarded thing: 1 impl 2 fn 3 mod 4 use 5 struct 6 enum 7 type 8 const 9 trait 10 extern")
    w("      12 macro 13 crate (inner attribute) 20 statement/expression (not a whole item) -/")
    w("  item : Nat")
    w("")
    w("def cfgSites : List CfgSite := [")
    rows = []
    for (rel, line, acc, inner, is_attr, applied, item, pred) in sites:
        lv = "[" + ", ".join("(%s, %s)" % ("true" if n == "std" else "false", "true" if neg else "false") for n, neg in acc) + "]"
        rows.append('  { file := "%s", line := %d, pred := "%s", leaves := %s, inner := %s, isCfgAttr := %s, applied := %d, item := %d }'
                    % (rel, line, pred.replace("\\", "\\\\").replace('"', '\\"'), lv, "true" if inner else "false",
                       "true" if is_attr else "false", APPLIED_CODES[applied], ITEM_CODES[item]))
    w(",\n".join(rows))
    w("]")
    w("")
    w("/-- number of `cfg!(…)` expressions that mention a feature -/")
    w(f"def cfgMacroFeatureUses : Nat := {macro_uses}")
    w("")
    w("end TP.Generated")
    text = "\n".join(out) + "\n"
    os.makedirs(os.path.dirname(OUT), exist_ok=True)
    old = None
    try:
        old = open(OUT).read()
    except OSError:
        pass
    if old != text:
        open(OUT, "w").write(text)
    return 0


if __name__ == "__main__":
    sys.exit(main())
