/-
Model/Basic.lean — representation shared by the whole model.

A path is its bytes (`List UInt8`).  The component parsers of typed-path work on a
*token* view of the bytes: a token is either one separator byte or a maximal run of
non-separator bytes ("segment").  Every slice the Rust parsers hand back (`remaining()`,
component text) starts and ends on a token boundary, which is why the model can carry a
token list instead of a byte offset pair.

Import-free on purpose: the driver links as a native executable.
-/

namespace TP

abbrev Bytes := List UInt8

/-- `b'/'` -/ def SLASH : UInt8 := 47
/-- `b'\\'` -/ def BSLASH : UInt8 := 92
/-- `b'.'` -/ def DOT : UInt8 := 46
/-- `b':'` -/ def COLON : UInt8 := 58
/-- `b'?'` -/ def QMARK : UInt8 := 63

/-- `b"."` -/ def CUR : Bytes := [DOT]
/-- `b".."` -/ def PAR : Bytes := [DOT, DOT]

inductive Tok where
  | sep (b : UInt8)
  | seg (s : Bytes)
  deriving DecidableEq, Repr, Inhabited

/-- Maximal tokenisation of `b` with respect to the separator predicate `isSep`. -/
def toks (isSep : UInt8 → Bool) : Bytes → List Tok
  | [] => []
  | b :: bs =>
    if isSep b then Tok.sep b :: toks isSep bs
    else match toks isSep bs with
      | Tok.seg s :: r => Tok.seg (b :: s) :: r
      | r => Tok.seg [b] :: r

def Tok.bytes : Tok → Bytes
  | .sep b => [b]
  | .seg s => s

def untoks : List Tok → Bytes
  | [] => []
  | t :: ts => t.bytes ++ untoks ts

/-- The six Windows prefix kinds with their payloads (`WindowsPrefix`).  Constructor
order is the declaration order in the Rust enum: it is the order `#[derive(Ord)]` uses
and the discriminant `#[derive(Hash)]` feeds to the hasher. -/
inductive WPrefix where
  | verbatim (name : Bytes)
  | verbatimUNC (server share : Bytes)
  | verbatimDisk (d : UInt8)
  | deviceNS (dev : Bytes)
  | unc (server share : Bytes)
  | disk (d : UInt8)
  deriving DecidableEq, Repr, Inhabited

def WPrefix.tag : WPrefix → Nat
  | .verbatim _ => 0 | .verbatimUNC .. => 1 | .verbatimDisk _ => 2
  | .deviceNS _ => 3 | .unc .. => 4 | .disk _ => 5

/-- `WindowsPrefixComponent`: the raw text and the parsed kind. -/
structure PrefixComp where
  raw : Bytes
  kind : WPrefix
  deriving DecidableEq, Repr, Inhabited

/-- A path component of either encoding (`UnixComponent` never is a `pfx`). -/
inductive Comp where
  | pfx (p : PrefixComp)
  | root
  | cur
  | parent
  | normal (s : Bytes)
  deriving DecidableEq, Repr, Inhabited

def Comp.isNormal : Comp → Bool | .normal _ => true | _ => false
def Comp.isCur : Comp → Bool | .cur => true | _ => false
def Comp.isParent : Comp → Bool | .parent => true | _ => false
def Comp.isPfx : Comp → Bool | .pfx _ => true | _ => false

/-- The two encodings. -/
inductive Enc where
  | unix
  | windows
  deriving DecidableEq, Repr, Inhabited

def Enc.sepByte : Enc → UInt8
  | .unix => SLASH
  | .windows => BSLASH

/-- `Component::as_bytes`. -/
def Comp.bytes (e : Enc) : Comp → Bytes
  | .pfx p => p.raw
  | .root => [e.sepByte]
  | .cur => CUR
  | .parent => PAR
  | .normal s => s

/-- `Component::is_root`: the root separator, or (Windows) a non-disk prefix. -/
def Comp.isRoot : Comp → Bool
  | .root => true
  | .pfx p => match p.kind with | .disk _ => false | _ => true
  | _ => false

end TP
