/-
Model/Path.lean — `Components` queries, `Encoding::{push, push_checked, hash}` and the
`Path` / `PathBuf` operations, generic over the encoding tag.

Read against `src/{unix,windows}/non_utf8.rs`, `src/{unix,windows}/non_utf8/components.rs`,
`src/common/non_utf8/{path,pathbuf}.rs` (with the `fix:` commits applied).
-/
import TypedPathVerif.Model.Enc
import TypedPathVerif.Generated.Constants

namespace TP

/-! ## Components queries -/

def comps (e : Enc) (b : Bytes) : List Comp := (e.new b).comps

/-- `WindowsComponents::prefix` (peek front) -/
def wPrefix (b : Bytes) : Option PrefixComp :=
  match (Enc.new .windows b).nextFront with
  | some (.pfx p, _) => some p
  | _ => none

def wPrefixKind (b : Bytes) : Option WPrefix := (wPrefix b).map (·.kind)
def wPrefixLen (b : Bytes) : Nat := match wPrefix b with | some p => p.raw.length | none => 0
def wHasPrefix (b : Bytes) : Bool := (wPrefix b).isSome

/-- `has_any_verbatim_prefix`; the kind list is generated from the `matches!` arms. -/
def wHasAnyVerbatimPrefix (b : Bytes) : Bool :=
  match wPrefixKind b with
  | some k => Generated.anyVerbatimTags.contains k.tag
  | none => false

def wHasKindIn (tags : List Nat) (b : Bytes) : Bool :=
  match wPrefixKind b with
  | some k => tags.contains k.tag
  | none => false

/-- `has_physical_root` -/
def wHasPhysicalRoot (b : Bytes) : Bool :=
  match (Enc.new .windows b).nextFront with
  | some (.root, _) => true
  | some (.pfx _, s) => match s.nextFront with | some (.root, _) => true | _ => false
  | _ => false

/-- `has_implicit_root` -/
def wHasImplicitRoot (b : Bytes) : Bool :=
  match wPrefixKind b with
  | some (.disk _) => false
  | none => false
  | some _ => true

/-- `is_only_disk` -/
def wIsOnlyDisk (b : Bytes) : Bool :=
  wHasKindIn Generated.diskTags b &&
    match (Enc.new .windows b).nextFront with
    | some (_, s) => s.nextFront.isNone
    | none => true

/-- `Components::has_root` -/
def hasRoot : Enc → Bytes → Bool
  | .unix, b => match (Enc.new .unix b).nextFront with | some (.root, _) => true | _ => false
  | .windows, b =>
    match (Enc.new .windows b).nextFront with
    | some (.root, _) => true
    | some (.pfx p, s) =>
      match p.kind with
      | .disk _ | .verbatimDisk _ => match s.nextFront with | some (.root, _) => true | _ => false
      | _ => true
    | _ => false

/-- `Components::is_absolute` -/
def isAbsolute : Enc → Bytes → Bool
  | .unix, b => hasRoot .unix b
  | .windows, b =>
    match (Enc.new .windows b).nextFront with
    | some (.pfx _, s) => match s.nextFront with | some (.root, _) => true | _ => false
    | _ => false

/-! ## Validity, checked push -/

def forbidden : Enc → List UInt8
  | .unix => Generated.unixDisallowedBytes
  | .windows => Generated.windowsDisallowedBytes

/-- `Component::is_valid` -/
def Comp.isValid (e : Enc) : Comp → Bool
  | .normal s => !s.any (fun b => (forbidden e).contains b)
  | _ => true

/-- `Path::is_valid` -/
def isValid (e : Enc) (b : Bytes) : Bool := (comps e b).all (Comp.isValid e)

inductive CheckedErr where
  | invalidFilename | pathTraversal | unexpectedPrefix | unexpectedRoot
  deriving DecidableEq, Repr, Inhabited

/-- The scan of `push_checked` over the argument's components (`n` = `normal_cnt`). -/
def checkedScan (e : Enc) : Nat → List Comp → Option CheckedErr
  | _, [] => none
  | n, c :: cs =>
    match c with
    | .pfx _ => some .unexpectedPrefix
    | .root => some .unexpectedRoot
    | .parent => if n = 0 then some .pathTraversal else checkedScan e (n - 1) cs
    | .normal s =>
      if s.any (fun b => (forbidden e).contains b) then some .invalidFilename
      else checkedScan e (n + 1) cs
    | .cur => checkedScan e n cs

/-! ## push -/

def unixPush (cur p : Bytes) : Bytes :=
  if p = [] then cur
  else if isAbsolute .unix p then p
  else if cur ≠ [] ∧ cur.getLast? ≠ some SLASH then cur ++ [SLASH] ++ p
  else cur ++ p

/-- The buffer of components built under a verbatim prefix. -/
def verbatimFold (buffer : List Comp) : List Comp → List Comp
  | [] => buffer
  | c :: cs =>
    match c with
    | .root => verbatimFold (buffer.take 1 ++ [c]) cs
    | .cur => verbatimFold buffer cs
    | .parent =>
      match buffer.getLast? with
      | some (.normal _) => verbatimFold buffer.dropLast cs
      | _ => verbatimFold buffer cs
    | _ => verbatimFold (buffer ++ [c]) cs

/-- Re-rendering of the buffer (`need_sep` loop). -/
def verbatimRender : Bool → List Comp → Bytes
  | _, [] => []
  | needSep, c :: cs =>
    (if needSep ∧ c ≠ .root then [BSLASH] else []) ++ c.bytes .windows ++
      verbatimRender
        (match c with
         | .root => false
         | .pfx p => (match p.kind with | .disk _ => false | _ => true)
         | _ => true) cs

def windowsPush (cur p : Bytes) : Bytes :=
  if p = [] then cur
  else if isAbsolute .windows p || wHasPrefix p then p
  else if wHasAnyVerbatimPrefix cur then
    verbatimRender false (verbatimFold (comps .windows cur) (comps .windows p))
  else if hasRoot .windows p then cur.take (wPrefixLen cur) ++ p
  else
    let needsSep := (cur ≠ [] ∧ cur.getLast? ≠ some BSLASH ∧ cur.getLast? ≠ some SLASH)
      ∧ ¬ (wIsOnlyDisk cur = true)
    if needsSep then cur ++ [BSLASH] ++ p else cur ++ p

/-- `Encoding::push` -/
def push : Enc → Bytes → Bytes → Bytes
  | .unix => unixPush
  | .windows => windowsPush

/-- `Encoding::push_checked`: `Except`-like result, the buffer is untouched on error. -/
def pushChecked (e : Enc) (cur p : Bytes) : Except CheckedErr Bytes :=
  match checkedScan e 0 (comps e p) with
  | some err => .error err
  | none => .ok (push e cur p)

/-! ## hash (the exact sequence of `Hasher::write` chunks) -/

def leBytes (n : Nat) : Nat → Bytes
  | 0 => []
  | w + 1 => UInt8.ofNat (n % 256) :: leBytes (n / 256) w

/-- `write_usize` / `write_isize` on the 64-bit target the harness runs on -/
def usizeChunk (n : Nat) : Bytes := leBytes n 8

/-- `<[u8] as Hash>::hash`: length prefix, then the bytes -/
def sliceChunks (s : Bytes) : List Bytes := [usizeChunk s.length, s]

/-- `#[derive(Hash)]` on `WindowsPrefix`: discriminant as `isize`, then the fields -/
def WPrefix.hashChunks : WPrefix → List Bytes
  | .verbatim a => usizeChunk 0 :: sliceChunks a
  | .verbatimUNC a b => usizeChunk 1 :: (sliceChunks a ++ sliceChunks b)
  | .verbatimDisk d => [usizeChunk 2, [d]]
  | .deviceNS a => usizeChunk 3 :: sliceChunks a
  | .unc a b => usizeChunk 4 :: (sliceChunks a ++ sliceChunks b)
  | .disk d => [usizeChunk 5, [d]]

structure HashSt where
  start : Nat
  hashed : Nat
  out : List Bytes

/-- One iteration of the `for i in 0..bytes.len()` loop of `Encoding::hash`. -/
def hashStep (isSep : UInt8 → Bool) (skipDot : Bool) (dotSep : UInt8 → Bool) (bytes : Bytes)
    (st : HashSt) (i : Nat) : HashSt :=
  if isSep (bytes.getD i 0) then
    let st1 : HashSt :=
      if i > st.start then
        let seg := (bytes.drop st.start).take (i - st.start)
        { st with hashed := st.hashed + seg.length, out := st.out ++ [seg] }
      else st
    let start := i + 1
    let tail := bytes.drop start
    let extra : Nat :=
      if skipDot then
        match tail with
        | [d] => if d = DOT then 1 else 0
        | d :: s :: _ => if d = DOT ∧ dotSep s = true then 1 else 0
        | _ => 0
      else 0
    { st1 with start := start + extra }
  else st

def hashBody (isSep : UInt8 → Bool) (skipDot : Bool) (dotSep : UInt8 → Bool) (bytes : Bytes)
    (pre : List Bytes) : List Bytes :=
  let st := (List.range bytes.length).foldl (hashStep isSep skipDot dotSep bytes) ⟨0, 0, pre⟩
  let st :=
    if st.start < bytes.length then
      let seg := bytes.drop st.start
      { st with hashed := st.hashed + seg.length, out := st.out ++ [seg] }
    else st
  st.out ++ [usizeChunk st.hashed]

/-- `Encoding::hash` -/
def hashChunks : Enc → Bytes → List Bytes
  | .unix, b => hashBody usep true usep b []
  | .windows, b =>
    match wPrefix b with
    | some p =>
      let verbatim := startsWith b VERB
      hashBody (wsep (!verbatim)) (!verbatim) anySep (b.drop p.raw.length) p.kind.hashChunks
    | none => hashBody (wsep true) true anySep b []

/-! ## Path queries -/

/-- `Path::parent` (after the `fix:` — only a normal / `.` / `..` last component has one) -/
def parent (e : Enc) (b : Bytes) : Option Bytes :=
  match (e.new b).nextBack with
  | some (c, s) => if c.isNormal || c.isCur || c.isParent then some s.remaining else none
  | none => none

/-- `Path::file_name` -/
def fileName (e : Enc) (b : Bytes) : Option Bytes :=
  match (e.new b).nextBack with
  | some (.normal s, _) => some s
  | _ => none

/-- `helpers::rsplit_file_at_dot` -/
def rsplitDot (f : Bytes) : Option Bytes × Option Bytes :=
  if f = PAR then (some f, none)
  else
    let r := f.reverse
    let afterR := r.takeWhile (· ≠ DOT)
    match r.dropWhile (· ≠ DOT) with
    | [] => (none, some f)
    | _ :: beforeR =>
      if beforeR = [] then (some f, none) else (some beforeR.reverse, some afterR.reverse)

/-- `Path::file_stem` -/
def fileStem (e : Enc) (b : Bytes) : Option Bytes :=
  match fileName e b with
  | some f => let (before, after) := rsplitDot f; before.or after
  | none => none

/-- `Path::extension` -/
def extension (e : Enc) (b : Bytes) : Option Bytes :=
  match fileName e b with
  | some f => let (before, after) := rsplitDot f; if before.isSome then after else none
  | none => none

/-- Ancestors: the path, then repeated parents. Fuel is the byte length + 1; every parent
is strictly shorter (checked by the correspondence; proved in Props/C09). -/
def ancestorsAux (e : Enc) : Nat → Bytes → List Bytes
  | 0, b => [b]
  | n + 1, b =>
    match parent e b with
    | some q => b :: ancestorsAux e n q
    | none => [b]

def ancestors (e : Enc) (b : Bytes) : List Bytes := ancestorsAux e (b.length + 1) b

/-- `helpers::iter_after` with a forward `prefix` iterator, whose items are `ys`. -/
def iterAfter (e : Enc) (s : PState) : List Comp → Option PState
  | [] => some s
  | y :: ys =>
    match s.nextFront with
    | some (x, s') => if x.bytes e = y.bytes e then iterAfter e s' ys else none
    | none => none

/-- the same over reversed iterators -/
def iterAfterBack (e : Enc) (s : PState) : List Comp → Option PState
  | [] => some s
  | y :: ys =>
    match s.nextBack with
    | some (x, s') => if x.bytes e = y.bytes e then iterAfterBack e s' ys else none
    | none => none

/-- `Path::strip_prefix` -/
def stripPrefix (e : Enc) (p base : Bytes) : Option Bytes :=
  (iterAfter e (e.new p) (comps e base)).map (·.remaining)

/-- `Path::starts_with` -/
def startsWithP (e : Enc) (p base : Bytes) : Bool := (iterAfter e (e.new p) (comps e base)).isSome

/-- `Path::ends_with` -/
def endsWithP (e : Enc) (p child : Bytes) : Bool :=
  (iterAfterBack e (e.new p) (e.new child).compsBack).isSome

/-- The stack of `Path::normalize`. -/
def normFold (stack : List Comp) : List Comp → List Comp
  | [] => stack
  | c :: cs =>
    if !c.isCur && !c.isParent then normFold (stack ++ [c]) cs
    else if c.isParent then
      match stack.getLast? with
      | some l => if l.isNormal then normFold stack.dropLast cs else normFold stack cs
      | none => normFold stack cs
    else normFold stack cs

def pushAll (e : Enc) (buf : Bytes) : List Comp → Bytes
  | [] => buf
  | c :: cs => pushAll e (push e buf (c.bytes e)) cs

/-- `Path::normalize` -/
def normalize (e : Enc) (b : Bytes) : Bytes := pushAll e [] (normFold [] (comps e b))

/-- `Path::absolutize`, with the current directory (already in this encoding) as a parameter:
`normalize` for an absolute path, `cwd.join(path).normalize()` otherwise -/
def absolutize (e : Enc) (cwd p : Bytes) : Bytes :=
  if isAbsolute e p then normalize e p else normalize e (push e cwd p)

/-- `Path::join` -/
def join (e : Enc) (a b : Bytes) : Bytes := push e a b

/-- `PathBuf::pop` -/
def pop (e : Enc) (b : Bytes) : Bytes × Bool :=
  match parent e b with
  | some q => (b.take q.length, true)
  | none => (b, false)

/-- `PathBuf::set_file_name` -/
def setFileName (e : Enc) (b name : Bytes) : Bytes :=
  let b' := if (fileName e b).isSome then (pop e b).1 else b
  push e b' name

/-- Offset just past the last component's text, measured from the start of the buffer
(the `as_ptr` arithmetic of the repaired `_set_extension`). -/
def lastCompEnd (e : Enc) (b : Bytes) : Nat :=
  let s := e.new b
  (s.preBytes ++ untoks (skipBack s.k s.toks)).length

/-- `PathBuf::set_extension` (after the `fix:`) -/
def setExtension (e : Enc) (b ext : Bytes) : Bytes × Bool :=
  match fileName e b, fileStem e b with
  | some f, some stem =>
    let cut := lastCompEnd e b - f.length + stem.length
    (b.take cut ++ (if ext = [] then [] else DOT :: ext), true)
  | _, _ => (b, false)

/-- `Path::with_encoding` (after the `fix:`) -/
def convFold (t : Enc) (buf : Bytes) : List Comp → Bytes
  | [] => buf
  | c :: cs =>
    if c.isRoot then convFold t (push t buf [t.sepByte]) cs
    else if c.isCur then convFold t (push t buf CUR) cs
    else if c.isParent then convFold t (push t buf PAR) cs
    else if c.isNormal then convFold t (push t buf (c.bytes t)) cs
    else convFold t buf cs

def withEncoding (s t : Enc) (b : Bytes) : Bytes :=
  if s = t then b else convFold t [] (comps s b)

def convFoldChecked (t : Enc) (buf : Bytes) : List Comp → Except CheckedErr Bytes
  | [] => .ok buf
  | c :: cs =>
    if c.isRoot then convFoldChecked t (push t buf [t.sepByte]) cs
    else if c.isCur then convFoldChecked t (push t buf CUR) cs
    else if c.isParent then convFoldChecked t (push t buf PAR) cs
    else if c.isNormal then
      match pushChecked t buf (c.bytes t) with
      | .ok buf' => convFoldChecked t buf' cs
      | .error err => .error err
    else convFoldChecked t buf cs

/-- `Path::with_encoding_checked` (after the `fix:`) -/
def withEncodingChecked (s t : Enc) (b : Bytes) : Except CheckedErr Bytes :=
  if s = t then (if isValid s b then .ok b else .error .invalidFilename)
  else convFoldChecked t [] (comps s b)

/-! ## Equality and ordering (`Iterator::eq` / `Iterator::cmp` over derived impls) -/

def cmpBytes : Bytes → Bytes → Ordering
  | [], [] => .eq
  | [], _ :: _ => .lt
  | _ :: _, [] => .gt
  | a :: as, b :: bs => if a < b then .lt else if b < a then .gt else cmpBytes as bs

def cmpNat (a b : Nat) : Ordering := if a < b then .lt else if b < a then .gt else .eq

def WPrefix.cmp : WPrefix → WPrefix → Ordering
  | .verbatim a, .verbatim b => cmpBytes a b
  | .verbatimUNC a b, .verbatimUNC c d => (cmpBytes a c).then (cmpBytes b d)
  | .verbatimDisk a, .verbatimDisk b => cmpNat a.toNat b.toNat
  | .deviceNS a, .deviceNS b => cmpBytes a b
  | .unc a b, .unc c d => (cmpBytes a c).then (cmpBytes b d)
  | .disk a, .disk b => cmpNat a.toNat b.toNat
  | x, y => cmpNat x.tag y.tag

def Comp.tag : Comp → Nat
  | .pfx _ => 0 | .root => 1 | .cur => 2 | .parent => 3 | .normal _ => 4

def Comp.cmp : Comp → Comp → Ordering
  | .pfx p, .pfx q => p.kind.cmp q.kind
  | .normal a, .normal b => cmpBytes a b
  | x, y => cmpNat x.tag y.tag

/-- Component equality: the prefix is compared by parsed kind only. -/
def Comp.eqv : Comp → Comp → Bool
  | .pfx p, .pfx q => p.kind = q.kind
  | x, y => x = y

def cmpList : List Comp → List Comp → Ordering
  | [], [] => .eq
  | [], _ :: _ => .lt
  | _ :: _, [] => .gt
  | a :: as, b :: bs => (a.cmp b).then (cmpList as bs)

def eqvList : List Comp → List Comp → Bool
  | [], [] => true
  | a :: as, b :: bs => a.eqv b && eqvList as bs
  | _, _ => false

/-- `Path == Path` -/
def pathEq (e : Enc) (a b : Bytes) : Bool := eqvList (comps e a) (comps e b)

/-- `Path::cmp` -/
def pathCmp (e : Enc) (a b : Bytes) : Ordering := cmpList (comps e a) (comps e b)

/-- `TypedPath::derive`: Windows iff first byte is `\` or a Windows prefix parses. -/
def deriveIsWindows (b : Bytes) : Bool := b.head? = some BSLASH || wHasPrefix b

end TP
