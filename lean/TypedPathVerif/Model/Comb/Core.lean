/-
Model/Comb/Core.lean — the parser combinators of `src/common/non_utf8/parser.rs`, one Lean
definition per Rust function, at BYTE level, with the two ways a call can fail to return
made explicit:

* `Fault.panic`   — a slice index out of range, an `usize` subtraction below zero, indexing an
                    empty slice (every `&input[a..b]`, `input[0]`, `len - n` of the Rust code is
                    written with a checked operation here);
* `Fault.diverge` — a `while` loop that is still running after `fuel` iterations (the loops get
                    `input.len() + 1` iterations: one per byte plus the failing one).

`Props/C18.lean` proves that the parsers built from these never fault and compute exactly what
the token-level model (`Model/Parser.lean`, on which all other theorems are stated) computes.
Import-free apart from the model: the driver runs these definitions too (`cmix`).
-/
import TypedPathVerif.Model.Enc

namespace TP.Comb

inductive Fault where
  | panic
  | diverge
  deriving DecidableEq, Repr

/-- `ParseResult<T>` plus the two faults -/
inductive Res (α : Type) where
  | ok (rest : Bytes) (v : α)
  | err
  | fault (f : Fault)
  deriving Repr

/-- a parser: `impl FnMut(ParseInput) -> ParseResult<T>` -/
abbrev P (α : Type) := Bytes → Res α

/-- the `?` operator -/
def Res.bind {α β : Type} (r : Res α) (f : Bytes → α → Res β) : Res β :=
  match r with
  | .ok i v => f i v
  | .err => .err
  | .fault x => .fault x

def Res.isOk {α : Type} : Res α → Bool
  | .ok _ _ => true
  | _ => false

/-! ### checked slicing and arithmetic -/

/-- `&input[n..]` -/
def sliceFrom (i : Bytes) (n : Nat) : Option Bytes := if n ≤ i.length then some (i.drop n) else none

/-- `&input[..n]` -/
def sliceTo (i : Bytes) (n : Nat) : Option Bytes := if n ≤ i.length then some (i.take n) else none

/-- `a - b` on `usize` -/
def checkedSub (a b : Nat) : Option Nat := if b ≤ a then some (a - b) else none

/-! ### combinators -/

/-- `empty` -/
def empty : P Unit := fun i => if i.isEmpty then .ok i () else .err

/-- `fully_consumed` -/
def fullyConsumed {α : Type} (p : P α) : P α := fun i =>
  (p i).bind fun i v => (empty i).bind fun i _ => .ok i v

/-- `consumed_cnt`: `len - input.len()` -/
def consumedCnt {α : Type} (p : P α) : P Nat := fun i =>
  (p i).bind fun i' _ =>
    match checkedSub i.length i'.length with
    | some n => .ok i' n
    | none => .fault .panic

/-- `map` -/
def map {α β : Type} (p : P α) (f : α → β) : P β := fun i => (p i).bind fun i v => .ok i (f v)

/-- `prefixed` -/
def prefixed {α β : Type} (a : P α) (b : P β) : P β := fun i => (a i).bind fun i _ => b i

/-- `suffixed` -/
def suffixed {α β : Type} (p : P α) (s : P β) : P α := fun i =>
  (p i).bind fun i v => (s i).bind fun i _ => .ok i v

/-- `maybe` -/
def maybe {α : Type} (p : P α) : P (Option α) := fun i =>
  match p i with
  | .ok i v => .ok i (some v)
  | .err => .ok i none
  | .fault f => .fault f

/-- `not` -/
def not {α : Type} (p : P α) : P Unit := fun i =>
  match p i with
  | .ok _ _ => .err
  | .err => .ok i ()
  | .fault f => .fault f

/-- `peek` -/
def peek {α : Type} (p : P α) : P α := fun i => (p i).bind fun _ v => .ok i v

/-- `any_of!`: the first alternative that succeeds -/
def anyOf {α : Type} : List (P α) → P α
  | [], _ => .err
  | p :: rest, i =>
    match p i with
    | .ok i v => .ok i v
    | .err => anyOf rest i
    | .fault f => .fault f

/-- the `while let Some(input) = next.take()` loop of `one_or_more`: run `p` until it fails -/
def oneOrMoreLoop {α : Type} (p : P α) : Nat → Bytes → List α → Res (List α)
  | 0, _, _ => .fault .diverge
  | fuel + 1, i, acc =>
    match p i with
    | .ok i' v => oneOrMoreLoop p fuel i' (acc ++ [v])
    | .err => .ok i acc
    | .fault f => .fault f

/-- `one_or_more` -/
def oneOrMore {α : Type} (p : P α) : P (List α) := fun i =>
  (oneOrMoreLoop p (i.length + 1) i []).bind fun i rs => if rs.isEmpty then .err else .ok i rs

/-- `zero_or_more` = `maybe(one_or_more(p))` then `unwrap_or_default` -/
def zeroOrMore {α : Type} (p : P α) : P (List α) := fun i =>
  (maybe (oneOrMore p) i).bind fun i rs => .ok i (rs.getD [])

/-- `take_until_byte`: `input.iter().enumerate().find(..)` then the two slices -/
def takeUntilByte (pred : UInt8 → Bool) : P Bytes := fun i =>
  match i.findIdx? pred with
  | some 0 => .ok i []
  | some n =>
    match sliceFrom i n, sliceTo i n with
    | some a, some b => .ok a b
    | _, _ => .fault .panic
  | none => .ok [] i

/-- `take_until_byte_1` -/
def takeUntilByte1 (pred : UInt8 → Bool) : P Bytes := fun i =>
  (takeUntilByte pred i).bind fun i v => if v.isEmpty then .err else .ok i v

/-- index of the LAST byte satisfying `pred` (`.enumerate().rev().find(..)`) -/
def rfindIdx? (pred : UInt8 → Bool) (i : Bytes) : Option Nat :=
  match i.reverse.findIdx? pred with
  | some j => some (i.length - 1 - j)
  | none => none

/-- `rtake_until_byte`: the guard computes `len - 1`; `&input[..=i]`, `&input[i + 1..]` -/
def rtakeUntilByte (pred : UInt8 → Bool) : P Bytes := fun i =>
  match rfindIdx? pred i with
  | some n =>
    match checkedSub i.length 1 with
    | none => .fault .panic
    | some l1 =>
      if n = l1 then .ok i []
      else
        match sliceTo i (n + 1), sliceFrom i (n + 1) with
        | some a, some b => .ok a b
        | _, _ => .fault .panic
  | none => .ok [] i

/-- `rtake_until_byte_1` -/
def rtakeUntilByte1 (pred : UInt8 → Bool) : P Bytes := fun i =>
  (rtakeUntilByte pred i).bind fun i v => if v.isEmpty then .err else .ok i v

/-- `take(cnt)` -/
def take (cnt : Nat) : P Bytes := fun i =>
  if cnt = 0 then .err
  else if cnt > i.length then .err
  else
    match sliceFrom i cnt, sliceTo i cnt with
    | some a, some b => .ok a b
    | _, _ => .fault .panic

/-- `bytes(pat)` -/
def bytes (pat : Bytes) : P Bytes := fun i =>
  if i.isEmpty then .err
  else if i.length < pat.length then .err
  else if pat.isPrefixOf i then
    match sliceFrom i pat.length, sliceTo i pat.length with
    | some a, some b => .ok a b
    | _, _ => .fault .panic
  else .err

/-- `byte(b)` -/
def byte (b : UInt8) : P UInt8 := fun i =>
  if i.isEmpty then .err
  else if [b].isPrefixOf i then
    match sliceFrom i 1 with
    | some a => .ok a b
    | none => .fault .panic
  else .err

/-- `input[0]` -/
def index0 (i : Bytes) : Option UInt8 := i.head?

end TP.Comb
