/-
Model/Comb/Windows.lean — `src/windows/non_utf8/components/parser.rs`, function by function, on
bytes, built from the combinators of `Model/Comb/Core.lean`: the component parsers, the six
prefix parsers, `prefix_component`, and the `Parser` state machine with its slice arithmetic
on the prefix length.
-/
import TypedPathVerif.Model.Comb.Unix

namespace TP.Comb.Windows

/-- `ends_with_separator` -/
def endsWithSeparator (i : Bytes) (normalize : Bool) : Bool :=
  match i.getLast? with
  | some b => wsep normalize b
  | none => false

/-- `separator(normalize)` -/
def separator (normalize : Bool) : P Unit := fun i =>
  if [BSLASH].isPrefixOf i || (normalize && [SLASH].isPrefixOf i) then
    match sliceFrom i 1 with
    | some r => .ok r ()
    | none => .fault .panic
  else .err

/-- `root_dir(normalize)`: reads `input[0]` -/
def rootDir (normalize : Bool) : P Comp := fun i =>
  if i.isEmpty then .err
  else
    match index0 i with
    | none => .fault .panic
    | some b =>
      if !wsep normalize b then .err
      else
        match sliceFrom i 1 with
        | some r => .ok r .root
        | none => .fault .panic

/-- shared body of `cur_dir` / `parent_dir`: the pattern, then end of input or a separator
(`!input.is_empty() && !is_separator(input[0], normalize)`) -/
def dotThen (pat : Bytes) (c : Comp) (normalize : Bool) : P Comp := fun i =>
  (bytes pat i).bind fun i _ =>
    if i.isEmpty then .ok i c
    else
      match index0 i with
      | none => .fault .panic
      | some b => if !wsep normalize b then .err else .ok i c

/-- `cur_dir(normalize)` -/
def curDir (normalize : Bool) : P Comp := dotThen CUR .cur normalize

/-- `parent_dir(normalize)` -/
def parentDir (normalize : Bool) : P Comp := dotThen PAR .parent normalize

/-- `normal_bytes(normalize)` -/
def normalBytes (normalize : Bool) : P Bytes := takeUntilByte1 (wsep normalize)

/-- `normal(normalize)` -/
def normal (normalize : Bool) : P Comp := fun i =>
  (normalBytes normalize i).bind fun i s => .ok i (.normal s)

/-- `filename(normalize)`: `..`, then `.` when not normalizing, then a normal name -/
def filename (normalize : Bool) : P Comp := fun i =>
  match parentDir normalize i with
  | .ok i v => .ok i v
  | .fault f => .fault f
  | .err =>
    if !normalize then
      match curDir normalize i with
      | .ok i v => .ok i v
      | .fault f => .fault f
      | .err => normal normalize i
    else normal normalize i

/-- `move_front_to_next(normalize)` -/
def moveFrontToNext (normalize : Bool) : P Unit :=
  if normalize then
    map (zeroOrMore (anyOf [separator normalize, map (curDir normalize) (fun _ => ())])) (fun _ => ())
  else
    map (zeroOrMore (separator normalize)) (fun _ => ())

/-- the `while !input.is_empty()` loop of `move_back_to_next(normalize)` -/
def moveBackLoop (normalize : Bool) : Nat → Bytes → Res Unit
  | 0, _ => .fault .diverge
  | fuel + 1, i =>
    if i.isEmpty then .ok i ()
    else
      (rtakeUntilByte (fun b => !wsep normalize b) i).bind fun i _ =>
        if !normalize then .ok i ()
        else
          match stripSuffix i CUR with
          | some n =>
            if endsWithSeparator n normalize then moveBackLoop normalize fuel n
            else if n.isEmpty then moveBackLoop normalize fuel n
            else .ok i ()
          | none => .ok i ()

/-- `move_back_to_next(normalize)` -/
def moveBackToNext (normalize : Bool) : P Unit := fun i => moveBackLoop normalize (i.length + 1) i

/-- `parse_front(state, normalize)` -/
def parseFront (atBeg normalize : Bool) : P Comp :=
  if atBeg then
    suffixed (anyOf [rootDir normalize, curDir normalize, filename normalize]) (moveFrontToNext normalize)
  else suffixed (filename normalize) (moveFrontToNext normalize)

/-- `parse_back(state, normalize)` -/
def parseBack (atBeg normalize : Bool) : P Comp := fun original =>
  (moveBackToNext normalize original).bind fun i _ =>
    if atBeg && i.isEmpty then
      (parseFront atBeg normalize original).bind fun _ c => .ok [] c
    else
      (rtakeUntilByte1 (wsep normalize) i).bind fun i afterSep =>
        (fullyConsumed (filename normalize) afterSep).bind fun _ c =>
          (if atBeg then
            orOk (rootDir normalize i) (fun _ => curDir normalize i) fun startsRootOrCur =>
              if startsRootOrCur then
                (consumedCnt (moveBackToNext normalize) i).bind fun newInput cnt =>
                  -- Preserve root dir!
                  if i.length = cnt then
                    match sliceTo i 1 with
                    | some x => .ok x ()
                    | none => .fault .panic
                  else .ok newInput ()
              else moveBackToNext normalize i
          else moveBackToNext normalize i).bind fun i _ => .ok i c

/-! ### prefixes -/

/-- `verbatim`: `\\?\`, either slash in each position -/
def verbatim : P Unit := fun i =>
  (separator true i).bind fun i _ =>
    (separator true i).bind fun i _ =>
      (byte QMARK i).bind fun i _ =>
        (separator true i).bind fun i _ => .ok i ()

/-- `drive_letter`: `take(1)`, then `drive_letter[0]` -/
def driveLetter : P UInt8 := fun i =>
  (take 1 i).bind fun i d =>
    match index0 d with
    | none => .fault .panic
    | some d0 => if !isAsciiAlpha d0 then .err else .ok i (toAsciiUpper d0)

/-- `disk_byte` -/
def diskByte : P UInt8 := fun i =>
  (driveLetter i).bind fun i d => (byte COLON i).bind fun i _ => .ok i d

/-- `bytes(b"UNC")` -/
def UNC : Bytes := [85, 78, 67]

/-- `prefix_verbatim_unc` -/
def prefixVerbatimUNC : P WPrefix := fun input =>
  let normalize := !startsWith input VERB
  (verbatim input).bind fun i _ =>
    (bytes UNC i).bind fun i _ =>
      (separator normalize i).bind fun i _ =>
        (normalBytes normalize i).bind fun i server =>
          (maybe (separator normalize) i).bind fun i _ =>
            (maybe (normalBytes normalize) i).bind fun i maybeShare =>
              .ok i (.verbatimUNC server (maybeShare.getD []))

/-- `prefix_verbatim_disk` -/
def prefixVerbatimDisk : P WPrefix := map (prefixed verbatim diskByte) WPrefix.verbatimDisk

/-- `prefix_verbatim` -/
def prefixVerbatim : P WPrefix := fun input =>
  (not prefixVerbatimDisk input).bind fun input _ =>
    (not prefixVerbatimUNC input).bind fun input _ =>
      let normalized := !startsWith input VERB
      (verbatim input).bind fun i _ =>
        (anyOf [normalBytes normalized, map (peek (separator normalized)) (fun _ => ([] : Bytes))] i).bind
          fun i value => .ok i (.verbatim value)

/-- `prefix_device_ns` -/
def prefixDeviceNS : P WPrefix := fun i =>
  (separator true i).bind fun i _ =>
    (separator true i).bind fun i _ =>
      (byte DOT i).bind fun i _ =>
        (separator true i).bind fun i _ => map (normalBytes true) WPrefix.deviceNS i

/-- `prefix_unc` -/
def prefixUNC : P WPrefix := fun i =>
  (separator true i).bind fun i _ =>
    (separator true i).bind fun i _ =>
      (normalBytes true i).bind fun i server =>
        (maybe (separator true) i).bind fun i _ =>
          (maybe (normalBytes true) i).bind fun i maybeShare =>
            .ok i (.unc server (maybeShare.getD []))

/-- `prefix_disk` -/
def prefixDisk : P WPrefix := map diskByte WPrefix.disk

/-- `prefix`: the six alternatives in source order -/
def pfx : P WPrefix :=
  anyOf [prefixVerbatimUNC, prefixVerbatimDisk, prefixVerbatim, prefixDeviceNS, prefixUNC, prefixDisk]

/-- `prefix_component`: `raw: &input[..(input.len() - new_input.len())]` -/
def prefixComponent : P PrefixComp := fun input =>
  (pfx input).bind fun newInput parsed =>
    match checkedSub input.length newInput.length with
    | none => .fault .panic
    | some n =>
      match sliceTo input n with
      | none => .fault .panic
      | some raw => .ok newInput { raw := raw, kind := parsed }

/-! ### the parser state machine -/

/-- `Parser<'a>` -/
structure St where
  input : Bytes
  atBeg : Bool
  pre : Option PrefixComp
  normalize : Bool
  deriving Repr, DecidableEq

/-- outcome of `Parser::new` (`maybe(prefix_component)(input).unwrap()`) -/
def St.new (input : Bytes) : Except Fault St :=
  let normalize := !startsWith input VERB
  match maybe prefixComponent input with
  | .ok _ pre => .ok { input := input, atBeg := true, pre := pre, normalize := normalize }
  | .err => .error .panic          -- `.unwrap()` on an `Err`
  | .fault f => .error f

/-- `Parser::remaining` -/
def St.remaining (s : St) : Bytes := s.input

/-- `prefix_len` -/
def St.prefixLen (s : St) : Nat :=
  match s.pre with
  | some p => p.raw.length
  | none => 0

/-- `Parser::next_front`: `&self.input[prefix.len()..]` -/
def St.nextFront (s : St) : Step St :=
  match s.pre with
  | some p =>
    match sliceFrom s.input p.raw.length with
    | some r => .some (.pfx p) { s with pre := none, input := r }
    | none => .fault .panic
  | none =>
    match parseFront s.atBeg s.normalize s.input with
    | .ok i c => .some c { s with input := i, atBeg := false }
    | .err => .none
    | .fault f => .fault f

/-- `Parser::next_back`: `remaining_without_prefix` = `&self.input[self.prefix_len()..]`, then
`self.input = &self.input[..input.len() + prefix_len]` -/
def St.nextBack (s : St) : Step St :=
  match sliceFrom s.input s.prefixLen with
  | none => .fault .panic
  | some input =>
    if !input.isEmpty then
      match parseBack s.atBeg s.normalize input with
      | .ok i c =>
        match sliceTo s.input (i.length + s.prefixLen) with
        | some r => .some c { s with input := r }
        | none => .fault .panic
      | .err => .none
      | .fault f => .fault f
    else
      match s.pre with
      | some p =>
        match sliceFrom s.input s.prefixLen with
        | some r => .some (.pfx p) { s with pre := none, input := r }
        | none => .fault .panic
      | none => .none

end TP.Comb.Windows
