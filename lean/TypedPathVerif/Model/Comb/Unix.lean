/-
Model/Comb/Unix.lean — `src/unix/non_utf8/components/parser.rs`, function by function, on
bytes, built from the combinators of `Model/Comb/Core.lean`.
-/
import TypedPathVerif.Model.Comb.Core

namespace TP.Comb

/-- `a.is_ok() || b.is_ok()` (short-circuit), continuing with the answer -/
def orOk {α β γ : Type} (a : Res α) (b : Unit → Res β) (k : Bool → Res γ) : Res γ :=
  match a with
  | .ok _ _ => k true
  | .fault f => .fault f
  | .err =>
    match b () with
    | .ok _ _ => k true
    | .err => k false
    | .fault f => .fault f

/-- `input.strip_suffix(pat)` -/
def stripSuffix (i pat : Bytes) : Option Bytes :=
  if pat.isSuffixOf i then some (i.take (i.length - pat.length)) else none

/-- result of `next_front` / `next_back`: `Err` leaves the parser unchanged -/
inductive Step (σ : Type) where
  | some (c : Comp) (s : σ)
  | none
  | fault (f : Fault)
  deriving Repr

namespace Unix

/-- `separator` -/
def separator : P Unit := fun i => (byte SLASH i).bind fun i _ => .ok i ()

/-- `root_dir` -/
def rootDir : P Comp := fun i => (separator i).bind fun i _ => .ok i .root

/-- `cur_dir` -/
def curDir : P Comp := fun i =>
  (suffixed (bytes CUR) (anyOf [empty, peek separator]) i).bind fun i _ => .ok i .cur

/-- `parent_dir` -/
def parentDir : P Comp := fun i =>
  (suffixed (bytes PAR) (anyOf [empty, peek separator]) i).bind fun i _ => .ok i .parent

/-- `normal` -/
def normal : P Comp := fun i => (takeUntilByte1 usep i).bind fun i n => .ok i (.normal n)

/-- `move_front_to_next` -/
def moveFrontToNext : P Unit :=
  map (zeroOrMore (anyOf [separator, map curDir (fun _ => ())])) (fun _ => ())

/-- the `while !input.is_empty()` loop of `move_back_to_next` -/
def moveBackLoop : Nat → Bytes → Res Unit
  | 0, _ => .fault .diverge
  | fuel + 1, i =>
    if i.isEmpty then .ok i ()
    else
      (rtakeUntilByte (fun b => !usep b) i).bind fun i _ =>
        match stripSuffix i CUR with
        | some n =>
          if [SLASH].isSuffixOf n then moveBackLoop fuel n
          else if n.isEmpty then moveBackLoop fuel n
          else .ok i ()
        | none => .ok i ()

/-- `move_back_to_next` -/
def moveBackToNext : P Unit := fun i => moveBackLoop (i.length + 1) i

/-- `parse_front(state)` -/
def parseFront (atBeg : Bool) : P Comp :=
  if atBeg then suffixed (anyOf [rootDir, parentDir, curDir, normal]) moveFrontToNext
  else suffixed (anyOf [parentDir, normal]) moveFrontToNext

/-- `parse_back(state)` -/
def parseBack (atBeg : Bool) : P Comp := fun original =>
  (moveBackToNext original).bind fun i _ =>
    if atBeg && i.isEmpty then
      (parseFront atBeg original).bind fun _ c => .ok [] c
    else
      (rtakeUntilByte1 usep i).bind fun i afterSep =>
        (fullyConsumed (anyOf [parentDir, normal]) afterSep).bind fun _ c =>
          (if atBeg then
            orOk (rootDir i) (fun _ => curDir i) fun startsRootOrCur =>
              if startsRootOrCur then
                (consumedCnt moveBackToNext i).bind fun newInput cnt =>
                  -- Preserve root dir!
                  if i.length = cnt then
                    match sliceTo i 1 with
                    | some x => .ok x ()
                    | none => .fault .panic
                  else .ok newInput ()
              else moveBackToNext i
          else moveBackToNext i).bind fun i _ => .ok i c

/-- `Parser<'a>` -/
structure St where
  input : Bytes
  atBeg : Bool
  deriving Repr, DecidableEq

/-- `Parser::new` -/
def St.new (i : Bytes) : St := { input := i, atBeg := true }

/-- `Parser::remaining` -/
def St.remaining (s : St) : Bytes := s.input

/-- `Parser::next_front` -/
def St.nextFront (s : St) : Step St :=
  match parseFront s.atBeg s.input with
  | .ok i c => .some c { input := i, atBeg := false }
  | .err => .none
  | .fault f => .fault f

/-- `Parser::next_back` -/
def St.nextBack (s : St) : Step St :=
  match parseBack s.atBeg s.input with
  | .ok i c => .some c { s with input := i }
  | .err => .none
  | .fault f => .fault f

end Unix

end TP.Comb
