/-
Model/Comb/Ops.lean — the partial operations OUTSIDE the parsers, with checked indices and
checked `usize` arithmetic (`none` = the Rust code would panic):

* `Encoding::hash` of both encodings: `path[i]`, `&path[component_start..i]`,
  `&path[component_start..]`, `&path[prefix_len..]`;
* `Encoding::push_checked` of both encodings: `normal_cnt -= 1`;
* `WindowsEncoding::push`, rule 3: `current_path.truncate(prefix_len)` (no panic in Rust, but the
  rule is only meaningful when the length is in range — stated for completeness);
* `PathBuf::set_extension` / `Utf8PathBuf::set_extension`: `end_file_stem - start` and the
  `truncate` at that offset.
-/
import TypedPathVerif.Model.Comb.Core
import TypedPathVerif.Model.Path

namespace TP.Comb.Ops

open TP TP.Comb

/-- `bytes[i]` -/
def idx (b : Bytes) (i : Nat) : Option UInt8 := b[i]?

/-- `&bytes[a..b]` -/
def slice (b : Bytes) (lo hi : Nat) : Option Bytes :=
  if lo ≤ hi ∧ hi ≤ b.length then some ((b.drop lo).take (hi - lo)) else none

/-- one iteration of the `for i in 0..bytes.len()` loop of `Encoding::hash`, every index checked -/
def hashStepC (isSep : UInt8 → Bool) (skipDot : Bool) (dotSep : UInt8 → Bool) (bytes : Bytes)
    (st : HashSt) (i : Nat) : Option HashSt :=
  match idx bytes i with
  | none => none
  | some x =>
    if isSep x then
      let st1? : Option HashSt :=
        if i > st.start then
          match slice bytes st.start i with
          | some seg => some { st with hashed := st.hashed + seg.length, out := st.out ++ [seg] }
          | none => none
        else some st
      match st1? with
      | none => none
      | some st1 =>
        let start := i + 1
        match sliceFrom bytes start with
        | none => none
        | some tail =>
          let extra : Nat :=
            if skipDot then
              match tail with
              | [d] => if d = DOT then 1 else 0
              | d :: s :: _ => if d = DOT ∧ dotSep s = true then 1 else 0
              | _ => 0
            else 0
          some { st1 with start := start + extra }
    else some st

/-- the loop: stops at the first fault -/
def hashLoopC (isSep : UInt8 → Bool) (skipDot : Bool) (dotSep : UInt8 → Bool) (bytes : Bytes) :
    List Nat → HashSt → Option HashSt
  | [], st => some st
  | i :: is, st =>
    match hashStepC isSep skipDot dotSep bytes st i with
    | some st' => hashLoopC isSep skipDot dotSep bytes is st'
    | none => none

def hashBodyC (isSep : UInt8 → Bool) (skipDot : Bool) (dotSep : UInt8 → Bool) (bytes : Bytes)
    (pre : List Bytes) : Option (List Bytes) :=
  match hashLoopC isSep skipDot dotSep bytes (List.range bytes.length) ⟨0, 0, pre⟩ with
  | none => none
  | some st =>
    if st.start < bytes.length then
      match sliceFrom bytes st.start with
      | some seg => some (st.out ++ [seg] ++ [usizeChunk (st.hashed + seg.length)])
      | none => none
    else some (st.out ++ [usizeChunk st.hashed])

/-- `Encoding::hash` with checked indexing (`&path[prefix_len..]` included) -/
def hashChunksC : Enc → Bytes → Option (List Bytes)
  | .unix, b => hashBodyC usep true usep b []
  | .windows, b =>
    match wPrefix b with
    | some p =>
      let verbatim := startsWith b VERB
      match sliceFrom b p.raw.length with
      | some bytes => hashBodyC (wsep (!verbatim)) (!verbatim) anySep bytes p.kind.hashChunks
      | none => none
    | none => hashBodyC (wsep true) true anySep b []

/-- the scan of `push_checked` with `normal_cnt -= 1` as a checked subtraction; the outer `Option`
is the fault -/
def checkedScanC (e : Enc) : Nat → List Comp → Option (Option CheckedErr)
  | _, [] => some none
  | n, c :: cs =>
    match c with
    | .pfx _ => some (some .unexpectedPrefix)
    | .root => some (some .unexpectedRoot)
    | .parent =>
      if n = 0 then some (some .pathTraversal)
      else
        match checkedSub n 1 with
        | some m => checkedScanC e m cs
        | none => none
    | .normal s =>
      if s.any (fun b => (forbidden e).contains b) then some (some .invalidFilename)
      else checkedScanC e (n + 1) cs
    | .cur => checkedScanC e n cs

end TP.Comb.Ops
