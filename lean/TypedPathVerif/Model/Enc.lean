/-
Model/Enc.lean — what differs between the two encodings: separators, the Windows prefix
parser (byte level, the ordered alternatives of `prefix()` in
`src/windows/non_utf8/components/parser.rs`), and `Parser::new`.
-/
import TypedPathVerif.Model.Parser

namespace TP

def usep (b : UInt8) : Bool := b = SLASH

/-- `is_separator(b, normalize)` -/
def wsep (norm : Bool) (b : UInt8) : Bool := b = BSLASH || (norm && b = SLASH)

/-- `separator(true)`: either slash -/
def anySep (b : UInt8) : Bool := wsep true b

/-- `br"\\?\"` -/
def VERB : Bytes := [BSLASH, BSLASH, QMARK, BSLASH]

def startsWith (b p : Bytes) : Bool := p.isPrefixOf b

/-- `u8::is_ascii_alphabetic` -/
def isAsciiAlpha (b : UInt8) : Bool := (65 ≤ b && b ≤ 90) || (97 ≤ b && b ≤ 122)

/-- `u8::to_ascii_uppercase` -/
def toAsciiUpper (b : UInt8) : UInt8 := if 97 ≤ b && b ≤ 122 then b - 32 else b

/-- `normal_bytes(normalize)`: a non-empty run of non-separator bytes -/
def takeNormal (norm : Bool) (b : Bytes) : Option (Bytes × Bytes) :=
  let n := b.takeWhile (fun x => !wsep norm x)
  if n = [] then none else some (n, b.dropWhile (fun x => !wsep norm x))

/-- `separator(normalize)` -/
def takeSep (norm : Bool) : Bytes → Option Bytes
  | x :: r => if wsep norm x then some r else none
  | [] => none

/-- `maybe(separator(normalize))` -/
def maybeSep (norm : Bool) (b : Bytes) : Bytes :=
  match takeSep norm b with
  | some r => r
  | none => b

/-- `verbatim`: sep sep `?` sep, either slash in each position -/
def verbatimHdr : Bytes → Option Bytes
  | a :: b :: q :: c :: r => if anySep a && anySep b && q = QMARK && anySep c then some r else none
  | _ => none

/-- `disk_byte`: an ASCII letter (upper-cased) then `:` -/
def diskByte : Bytes → Option (UInt8 × Bytes)
  | d :: c :: r => if isAsciiAlpha d && c = COLON then some (toAsciiUpper d, r) else none
  | _ => none

/-- `bytes(b"UNC")` -/
def takeUNC : Bytes → Option Bytes
  | 85 :: 78 :: 67 :: r => some r
  | _ => none

/-- server, optional separator, optional share (shared tail of both UNC forms) -/
def serverShare (norm : Bool) (b : Bytes) : Option (Bytes × Bytes × Bytes) :=
  match takeNormal norm b with
  | none => none
  | some (server, r) =>
    let r := maybeSep norm r
    match takeNormal norm r with
    | some (share, r) => some (server, share, r)
    | none => some (server, [], r)

def prefixVerbatimUNC (b : Bytes) : Option (WPrefix × Bytes) :=
  let norm := !startsWith b VERB
  match verbatimHdr b with
  | none => none
  | some r =>
    match takeUNC r with
    | none => none
    | some r =>
      match takeSep norm r with
      | none => none
      | some r =>
        match serverShare norm r with
        | none => none
        | some (server, share, r) => some (.verbatimUNC server share, r)

def prefixVerbatimDisk (b : Bytes) : Option (WPrefix × Bytes) :=
  match verbatimHdr b with
  | none => none
  | some r =>
    match diskByte r with
    | none => none
    | some (d, r) => some (.verbatimDisk d, r)

def prefixVerbatim (b : Bytes) : Option (WPrefix × Bytes) :=
  if (prefixVerbatimDisk b).isSome then none
  else if (prefixVerbatimUNC b).isSome then none
  else
    let norm := !startsWith b VERB
    match verbatimHdr b with
    | none => none
    | some r =>
      match takeNormal norm r with
      | some (name, r) => some (.verbatim name, r)
      | none =>
        -- `map(peek(separator(normalized)), |_| b"")`
        match takeSep norm r with
        | some _ => some (.verbatim [], r)
        | none => none

def prefixDeviceNS : Bytes → Option (WPrefix × Bytes)
  | a :: b :: d :: c :: r =>
    if anySep a && anySep b && d = DOT && anySep c then
      match takeNormal true r with
      | some (dev, r) => some (.deviceNS dev, r)
      | none => none
    else none
  | _ => none

def prefixUNC : Bytes → Option (WPrefix × Bytes)
  | a :: b :: r =>
    if anySep a && anySep b then
      match serverShare true r with
      | some (server, share, r) => some (.unc server share, r)
      | none => none
    else none
  | _ => none

def prefixDisk (b : Bytes) : Option (WPrefix × Bytes) :=
  match diskByte b with
  | some (d, r) => some (.disk d, r)
  | none => none

/-- `prefix`: the six alternatives in source order. Returns the kind and the rest. -/
def parsePrefix (b : Bytes) : Option (WPrefix × Bytes) :=
  (prefixVerbatimUNC b).orElse fun _ =>
  (prefixVerbatimDisk b).orElse fun _ =>
  (prefixVerbatim b).orElse fun _ =>
  (prefixDeviceNS b).orElse fun _ =>
  (prefixUNC b).orElse fun _ =>
  prefixDisk b

/-- `prefix_component`: raw text = what `prefix` consumed -/
def parsePrefixComp (b : Bytes) : Option (PrefixComp × Bytes) :=
  match parsePrefix b with
  | some (kind, rest) => some (⟨b.take (b.length - rest.length), kind⟩, rest)
  | none => none

/-- `Parser::new` of the encoding -/
def Enc.new : Enc → Bytes → PState
  | .unix, b => { pre := none, toks := toks usep b, atBeg := true, k := false }
  | .windows, b =>
    let norm := !startsWith b VERB
    match parsePrefixComp b with
    | some (p, rest) => { pre := some p, toks := toks (wsep norm) rest, atBeg := true, k := !norm }
    | none => { pre := none, toks := toks (wsep norm) b, atBeg := true, k := !norm }

end TP
