/-
Model/Parser.lean — the double-ended component parser, on tokens.

Read against `src/unix/non_utf8/components/parser.rs` and
`src/windows/non_utf8/components/parser.rs`; the two Rust files are near copies and the
model has one parser with a flag `k` ("keep `.`": Windows without normalisation, i.e.
input starting with exactly `\\?\`; always `false` for Unix) and an optional pre-parsed
prefix (always `none` for Unix).
-/
import TypedPathVerif.Model.Basic

namespace TP

/-- Tokens skipped between components: separators, and `.` segments unless `k`
(`move_front_to_next` / `move_back_to_next`). -/
def junk (k : Bool) : Tok → Bool
  | .sep _ => true
  | .seg s => !k && decide (s = CUR)

/-- `move_front_to_next` -/
def skipFront (k : Bool) (ts : List Tok) : List Tok := ts.dropWhile (junk k)

/-- `move_back_to_next` -/
def skipBack (k : Bool) (ts : List Tok) : List Tok := (ts.reverse.dropWhile (junk k)).reverse

/-- Classification of a segment: `parent_dir`, then `cur_dir` where allowed, then `normal`. -/
def segComp (curOk : Bool) (s : Bytes) : Comp :=
  if s = PAR then .parent else if s = CUR ∧ curOk = true then .cur else .normal s

/-- `parse_front(state)`: at the beginning `root_dir | cur_dir | parent_dir | normal`,
afterwards `parent_dir | (cur_dir if k) | normal`; then `move_front_to_next`. -/
def frontT (k atBeg : Bool) : List Tok → Option (Comp × List Tok)
  | [] => none
  | .sep _ :: r => if atBeg then some (.root, skipFront k r) else none
  | .seg s :: r => some (segComp (atBeg || k) s, skipFront k r)

/-- `root_dir(input).is_ok() || cur_dir(input).is_ok()` -/
def startsRootOrCur : List Tok → Bool
  | .sep _ :: _ => true
  | .seg s :: _ => decide (s = CUR)
  | [] => false

/-- `parse_back(state)`: trim trailing junk; if at the beginning and nothing is left, ask
the front parser (only root / `.` remain); otherwise take the last segment, trim again,
but keep the first token when at the beginning and everything else was junk
("Preserve root dir!"). -/
def backT (k atBeg : Bool) (ts : List Tok) : Option (Comp × List Tok) :=
  let t1 := skipBack k ts
  if atBeg ∧ t1 = [] then
    (frontT k atBeg ts).map (fun p => (p.1, []))
  else
    match t1.getLast? with
    | some (.seg s) =>
      let r := t1.dropLast
      let r' := skipBack k r
      some (segComp k s, if atBeg ∧ startsRootOrCur r = true ∧ r' = [] then r.take 1 else r')
    | _ => none

/-- Parser state (`Parser<'a>` of either encoding). `remaining()` is the prefix text (if
not yet handed out) followed by the bytes of the remaining tokens. -/
structure PState where
  pre : Option PrefixComp
  toks : List Tok
  atBeg : Bool
  k : Bool
  deriving Repr, DecidableEq

def PState.preBytes (s : PState) : Bytes :=
  match s.pre with
  | some p => p.raw
  | none => []

/-- `Parser::remaining` -/
def PState.remaining (s : PState) : Bytes := s.preBytes ++ untoks s.toks

/-- `Parser::next_front` -/
def PState.nextFront (s : PState) : Option (Comp × PState) :=
  match s.pre with
  | some p => some (.pfx p, { s with pre := none })
  | none =>
    match frontT s.k s.atBeg s.toks with
    | some (c, ts) => some (c, { s with toks := ts, atBeg := false })
    | none => none

/-- `Parser::next_back` -/
def PState.nextBack (s : PState) : Option (Comp × PState) :=
  if s.toks ≠ [] then
    match backT s.k s.atBeg s.toks with
    | some (c, ts) => some (c, { s with toks := ts })
    | none => none
  else
    match s.pre with
    | some p => some (.pfx p, { s with pre := none })
    | none => none

/-- Size used for termination: one for a pending prefix plus the number of tokens. -/
def PState.size (s : PState) : Nat := (if s.pre.isSome then 1 else 0) + s.toks.length

theorem length_skipFront_le (k : Bool) (ts : List Tok) : (skipFront k ts).length ≤ ts.length := by
  unfold skipFront
  induction ts with
  | nil => simp
  | cons t ts ih =>
    simp only [List.dropWhile_cons]
    split
    · exact Nat.le_succ_of_le ih
    · exact Nat.le_refl _

theorem length_skipBack_le (k : Bool) (ts : List Tok) : (skipBack k ts).length ≤ ts.length := by
  unfold skipBack
  have h := length_skipFront_le k ts.reverse
  unfold skipFront at h
  simpa using h

theorem frontT_length {k atBeg : Bool} {ts ts' : List Tok} {c : Comp}
    (h : frontT k atBeg ts = some (c, ts')) : ts'.length < ts.length := by
  cases ts with
  | nil => simp [frontT] at h
  | cons t r =>
    cases t with
    | sep b =>
      simp only [frontT] at h
      split at h
      · simp only [Option.some.injEq, Prod.mk.injEq] at h
        rw [← h.2]
        exact Nat.lt_succ_of_le (length_skipFront_le k r)
      · simp at h
    | seg s =>
      simp only [frontT, Option.some.injEq, Prod.mk.injEq] at h
      rw [← h.2]
      exact Nat.lt_succ_of_le (length_skipFront_le k r)

theorem nextFront_size {s s' : PState} {c : Comp} (h : s.nextFront = some (c, s')) :
    s'.size < s.size := by
  unfold PState.nextFront at h
  cases hp : s.pre with
  | some p =>
    simp only [hp, Option.some.injEq, Prod.mk.injEq] at h
    rw [← h.2]
    simp [PState.size, hp]
  | none =>
    simp only [hp] at h
    cases hf : frontT s.k s.atBeg s.toks with
    | none => simp [hf] at h
    | some r =>
      obtain ⟨c', ts'⟩ := r
      simp only [hf, Option.some.injEq, Prod.mk.injEq] at h
      rw [← h.2]
      have := frontT_length hf
      simp [PState.size, hp]
      exact this

/-- All components from the front: what `Iterator::collect` on `Components` yields. -/
def PState.comps (s : PState) : List Comp :=
  match h : s.nextFront with
  | none => []
  | some (c, s') => c :: s'.comps
termination_by s.size
decreasing_by exact nextFront_size h

theorem backT_length {k atBeg : Bool} {ts ts' : List Tok} {c : Comp}
    (hne : ts ≠ []) (h : backT k atBeg ts = some (c, ts')) : ts'.length < ts.length := by
  unfold backT at h
  simp only at h
  split at h
  · cases hf : frontT k atBeg ts with
    | none => simp [hf] at h
    | some r =>
      simp only [hf, Option.map_some, Option.some.injEq, Prod.mk.injEq] at h
      rw [← h.2]
      cases ts with
      | nil => exact absurd rfl hne
      | cons t r => simp
  · split at h
    · rename_i s hs
      simp only [Option.some.injEq, Prod.mk.injEq] at h
      have h1 : (skipBack k ts).length ≤ ts.length := length_skipBack_le k ts
      have hne1 : skipBack k ts ≠ [] := by
        intro h0; rw [h0] at hs; simp at hs
      have h2 : (skipBack k ts).dropLast.length < (skipBack k ts).length := by
        rw [List.length_dropLast]
        have : 0 < (skipBack k ts).length := List.length_pos_iff.mpr hne1
        omega
      rw [← h.2]
      split
      · have : (List.take 1 (skipBack k ts).dropLast).length ≤ (skipBack k ts).dropLast.length := by
          simp [List.length_take]; omega
        omega
      · have := length_skipBack_le k (skipBack k ts).dropLast
        omega
    · simp at h

theorem nextBack_size {s s' : PState} {c : Comp} (h : s.nextBack = some (c, s')) :
    s'.size < s.size := by
  unfold PState.nextBack at h
  split at h
  · rename_i hne
    cases hb : backT s.k s.atBeg s.toks with
    | none => simp [hb] at h
    | some r =>
      obtain ⟨c', ts'⟩ := r
      simp only [hb, Option.some.injEq, Prod.mk.injEq] at h
      rw [← h.2]
      have := backT_length hne hb
      simp only [PState.size]
      omega
  · rename_i he
    cases hp : s.pre with
    | none => simp [hp] at h
    | some p =>
      simp only [hp, Option.some.injEq, Prod.mk.injEq] at h
      rw [← h.2]
      simp [PState.size, hp]

/-- All components from the back (the order `rev()` yields them). -/
def PState.compsBack (s : PState) : List Comp :=
  match h : s.nextBack with
  | none => []
  | some (c, s') => c :: s'.compsBack
termination_by s.size
decreasing_by exact nextBack_size h

end TP
