/-
Spec/Chars.lean — the *characters* of a UTF-8 string, for the two places where the UTF-8 family of the
crate has an algorithm of its own instead of delegating to the byte family:

* `helpers::rsplit_file_at_dot` of src/common/utf8/path.rs — `file.rsplitn(2, '.')` splits at the last
  *character* `.`, the byte twin at the last *byte* 0x2E;
* `Utf8UnixComponent::is_valid` / `Utf8WindowsComponent::is_valid` — `s.chars().any(|c| TABLE_CHARS.contains(&c))`
  against the byte twins' `bytes.iter().any(|b| TABLE_BYTES.contains(b))`.

`chars b` cuts a byte string into the encodings of its characters (the chunks `str::chars` decodes),
`codepoint` decodes one chunk, `rsplitAt` is `rsplit_file_at_dot` over an arbitrary element type (bytes for
the byte family — `rsplitAt DOT PAR` is `Model.rsplitDot` by `rfl` — and characters for the UTF-8 family).
Props/C14b proves that on valid UTF-8 both character-level algorithms answer exactly what the byte-level
ones answer.
-/
import TypedPathVerif.Spec.Utf8
import TypedPathVerif.Model.Path

namespace TP.Utf8

open TP

/-- the encodings of the characters of `b`, in order (for valid `b`: what `str::chars` walks over) -/
def chars : Bytes → List Bytes
  | [] => []
  | b0 :: r =>
    if isAscii b0 then [b0] :: chars r
    else match r with
      | [] => [[b0]]
      | b1 :: r1 =>
        if lead2 b0 then [b0, b1] :: chars r1
        else match r1 with
          | [] => [[b0, b1]]
          | b2 :: r2 =>
            if ok3 b0 b1 then [b0, b1, b2] :: chars r2
            else match r2 with
              | [] => [[b0, b1, b2]]
              | b3 :: r3 => [b0, b1, b2, b3] :: chars r3

/-- the code point a chunk encodes (RFC 3629 bit layout) -/
def codepoint : Bytes → Nat
  | [b0] => b0.toNat
  | [b0, b1] => (b0.toNat - 0xC0) * 64 + (b1.toNat - 0x80)
  | [b0, b1, b2] => (b0.toNat - 0xE0) * 4096 + (b1.toNat - 0x80) * 64 + (b2.toNat - 0x80)
  | [b0, b1, b2, b3] => (b0.toNat - 0xF0) * 262144 + (b1.toNat - 0x80) * 4096 + (b2.toNat - 0x80) * 64 + (b3.toNat - 0x80)
  | _ => 0

/-- `rsplit_file_at_dot` over any element type: `par` is the name `..`, `dot` the element `.` -/
def rsplitAt {α : Type} [DecidableEq α] (dot : α) (par : List α) (f : List α) : Option (List α) × Option (List α) :=
  if f = par then (some f, none)
  else
    let r := f.reverse
    let afterR := r.takeWhile (· ≠ dot)
    match r.dropWhile (· ≠ dot) with
    | [] => (none, some f)
    | _ :: beforeR =>
      if beforeR = [] then (some f, none) else (some beforeR.reverse, some afterR.reverse)

/-- the UTF-8 family's `rsplit_file_at_dot`: characters, `'.'`, `".."` -/
def rsplitDotChars (cs : List Bytes) : Option (List Bytes) × Option (List Bytes) :=
  rsplitAt [DOT] [[DOT], [DOT]] cs

/-- the UTF-8 family's `is_valid` of a normal component: no character is in the `char` table -/
def nameValidChars (forbiddenChars : List Nat) (cs : List Bytes) : Bool :=
  !cs.any (fun c => forbiddenChars.contains (codepoint c))

/-- `Utf8Path::file_stem` and `Utf8Path::extension`: the file name's characters split at the last `.` -/
def u8StemExt (e : Enc) (b : Bytes) : Option Bytes × Option Bytes :=
  match fileName e b with
  | some f =>
    let r := rsplitDotChars (chars f)
    ((r.1.or r.2).map List.flatten, (if r.1.isSome then r.2 else none).map List.flatten)
  | none => (none, none)

/-- `DISALLOWED_FILENAME_CHARS` of the encoding, as regenerated from the source -/
def charTable : Enc → List Nat
  | .unix => Generated.unixDisallowedChars
  | .windows => Generated.windowsDisallowedChars

/-- `Utf8Component::is_valid` / `Utf8Path::is_valid` -/
def u8CompValid (e : Enc) : Comp → Bool
  | .normal s => nameValidChars (charTable e) (chars s)
  | _ => true

def u8IsValid (e : Enc) (b : Bytes) : Bool := (comps e b).all (u8CompValid e)

end TP.Utf8
