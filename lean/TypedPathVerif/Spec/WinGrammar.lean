/-
Spec/WinGrammar.lean — the documented Windows decomposition *after* the prefix: an optional
root, then components split on the separator set, with the documented `.` rule.

`sepSet verb` is `\` only for a path that starts with exactly `\\?\` and `\` or `/` otherwise;
`keepCur = verb`: a verbatim path keeps every `.`, any other path keeps only a `.` that starts
the path (directly after any prefix).  Written with `StdSpec.splitOn` (split on separators),
independently of the token parser.
-/
import TypedPathVerif.Spec.StdSpec
import TypedPathVerif.Model.Enc

namespace TP.WinGrammar

open TP StdSpec

/-- a segment that is not the first one: `.` survives only when `keepCur` -/
def interiorK (keepCur : Bool) (s : Bytes) : Option Comp :=
  if s = [] then none
  else if s = CUR then (if keepCur then some .cur else none)
  else some (classify s)

/-- root / `.` / `..` / normal components of the bytes after the prefix -/
def bodySpec (isSep : UInt8 → Bool) (keepCur : Bool) (rest : Bytes) : List Comp :=
  match splitOn isSep rest with
  | [] => []
  | s0 :: more =>
    (match rest with | x :: _ => if isSep x then [Comp.root] else [] | [] => []) ++
      (first s0).toList ++ more.filterMap (interiorK keepCur)

/-- is the path verbatim in the sense of the parser: does it start with exactly `\\?\` -/
def verb (b : Bytes) : Bool := startsWith b VERB

/-- the separator set of the path -/
def sepSet (b : Bytes) : UInt8 → Bool := wsep (!verb b)

/-- the decomposition: prefix component (if the prefix parser finds one), then `bodySpec` of
the rest -/
def decomp (b : Bytes) : List Comp :=
  match parsePrefixComp b with
  | some (p, rest) => .pfx p :: bodySpec (sepSet b) (verb b) rest
  | none => bodySpec (sepSet b) (verb b) b

end TP.WinGrammar
