/-
Spec/JoinRules.lean — the documented Windows joining rules (the comment above
`WindowsEncoding::push`, and property C08), stated on the *decomposition* of the two paths:
prefix (kind and raw text), whether the argument starts with a separator, the last byte of the
base.  The harness has its own independent Rust version (harness/src/spec.rs
`join_rules_bytes`) which is compared with the implementation on every run.
-/
import TypedPathVerif.Model.Path

namespace TP.JoinRules

open TP

/-- the parsed prefix of a Windows path, if any -/
def prefixOf (b : Bytes) : Option PrefixComp := (parsePrefixComp b).map (·.1)

def isVerbatimKind : WPrefix → Bool
  | .verbatim _ | .verbatimUNC .. | .verbatimDisk _ => true
  | _ => false

/-- `C:` and nothing else -/
def isBareDrive (a : Bytes) : Bool :=
  match prefixOf a with
  | some p => (match p.kind with | .disk _ => true | _ => false) && decide (a = p.raw)
  | none => false

def endsWithSep (a : Bytes) : Bool := a.getLast? = some BSLASH || a.getLast? = some SLASH

def startsWithSep (b : Bytes) : Bool :=
  match b with
  | x :: _ => anySep x
  | [] => false

/-- does the base carry a verbatim, verbatim-UNC or verbatim-disk prefix -/
def baseIsVerbatim (a : Bytes) : Bool :=
  match prefixOf a with
  | some p => isVerbatimKind p.kind
  | none => false

/-- the raw text of the base's prefix (empty without one) -/
def rawPrefix (a : Bytes) : Bytes :=
  match prefixOf a with
  | some p => p.raw
  | none => []

inductive Rule where
  | empty      -- b = "": nothing changes
  | replace    -- b has a prefix: the result is b
  | verbatim   -- a has a verbatim prefix: rebuilt from components, normalised
  | rooted     -- b has a root but no prefix: a's prefix followed by b
  | append     -- otherwise: a, optional separator, b
  deriving DecidableEq, Repr

def rule (a b : Bytes) : Rule :=
  if b = [] then .empty
  else if (prefixOf b).isSome then .replace
  else if baseIsVerbatim a then .verbatim
  else if startsWithSep b then .rooted
  else .append

/-- the byte result in the four non-verbatim cases -/
def joinBytes (a b : Bytes) : Bytes :=
  match rule a b with
  | .empty => a
  | .replace => b
  | .rooted => rawPrefix a ++ b
  | .append => if a = [] ∨ endsWithSep a = true ∨ isBareDrive a = true then a ++ b else a ++ [BSLASH] ++ b
  | .verbatim => []   -- not described at the byte level; see `verbatimComps`

/-- the components of the result under a verbatim prefix: a's components, then b's with `.`
dropped, each `..` cancelling a preceding *normal* component only, a root resetting to the
prefix -/
def verbatimComps (ca cb : List Comp) : List Comp := verbatimFold ca cb

end TP.JoinRules
