/-
Spec/StdSpec.lean — what `std::path` does with a Unix path, written from std's documentation
(DESIGN.md Appendix A.1), independently of the model's parser: split on `/`, a root iff the
path starts with `/`, a leading `.` kept iff the path is not rooted, empty and other `.`
segments dropped, `..` is the parent.

The harness compares this specification with real `std::path` on every run
(`SPEC-vs-std` in harness/src/orc_a.rs evaluates the same definition in Rust).
-/
import TypedPathVerif.Model.Basic

namespace TP.StdSpec

open TP

/-- split on separators: `a//b` ↦ `["a", "", "b"]`, `""` ↦ `[""]` (like `slice::split`) -/
def splitOn (isSep : UInt8 → Bool) : Bytes → List Bytes
  | [] => [[]]
  | x :: xs =>
    if isSep x then [] :: splitOn isSep xs
    else match splitOn isSep xs with
      | s :: r => (x :: s) :: r
      | [] => [[x]]

def classify (s : Bytes) : Comp := if s = PAR then .parent else .normal s

/-- a segment that is not the first one -/
def interior (s : Bytes) : Option Comp := if s = [] ∨ s = CUR then none else some (classify s)

/-- the first segment: a `.` here is kept (it starts the path) -/
def first (s : Bytes) : Option Comp :=
  if s = [] then none else if s = CUR then some .cur else some (classify s)

def isSlash (b : UInt8) : Bool := b = SLASH

/-- the components std yields for the bytes `b` on a Unix host -/
def comps (b : Bytes) : List Comp :=
  match splitOn isSlash b with
  | [] => []
  | s0 :: rest =>
    (if b.head? = some SLASH then [Comp.root] else []) ++ (first s0).toList ++ rest.filterMap interior

def hasRoot (b : Bytes) : Bool := b.head? = some SLASH

end TP.StdSpec
