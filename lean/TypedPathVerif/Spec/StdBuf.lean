/-
Spec/StdBuf.lean — `std::path::PathBuf` mutations on a Unix host, as a step function.

`push` is std's documented rule (an absolute argument replaces; otherwise a separator is
inserted unless the buffer is empty or already ends in one — *also for an empty argument*,
which is where std and typed-path differ).  `pop` / `set_file_name` are std's definitions
(`truncate to parent`, `pop if there is a file name, then push`); the parent / file-name
queries they use are the model's Unix queries, which Props/C09 and Props/C12 relate to
`StdSpec`.  The harness compares this whole step function with a real `std::path::PathBuf`
on every run (`stdhist` lines).
-/
import TypedPathVerif.Model.Path

namespace TP.StdBuf

open TP

inductive Op where
  | push (p : Bytes)
  | pop
  | setFileName (n : Bytes)
  | clear
  | setExtension (x : Bytes)
  deriving Repr

def stdPush (s p : Bytes) : Bytes :=
  if p.head? = some SLASH then p
  else if s = [] ∨ s.getLast? = some SLASH then s ++ p
  else s ++ [SLASH] ++ p

/-- `PathBuf::pop`: truncate to the parent's length -/
def stdPop (s : Bytes) : Bytes × Bool :=
  match parent .unix s with
  | some q => (s.take q.length, true)
  | none => (s, false)

/-- one mutation of a `std::path::PathBuf`; the Boolean is `pop`'s result (`true` otherwise) -/
def stdStep (s : Bytes) : Op → Bytes × Bool
  | .push p => (stdPush s p, true)
  | .pop => stdPop s
  | .setFileName n =>
    let s' := if (fileName .unix s).isSome then (stdPop s).1 else s
    (stdPush s' n, true)
  | .clear => ([], true)
  | .setExtension x =>
    -- std: no file stem => false; otherwise truncate right after the file stem (pointer arithmetic on
    -- the stem slice), then append `.` and the extension when it is non-empty
    match fileName .unix s, fileStem .unix s with
    | some f, some stem =>
      ((s.take (lastCompEnd .unix s - f.length + stem.length)) ++ (if x = [] then [] else DOT :: x), true)
    | _, _ => (s, false)

/-- the same mutation on a typed-path `UnixPathBuf` (the model) -/
def modelStep (m : Bytes) : Op → Bytes × Bool
  | .push p => (push .unix m p, true)
  | .pop => pop .unix m
  | .setFileName n => (setFileName .unix m n, true)
  | .clear => ([], true)
  | .setExtension x => setExtension .unix m x

def runStd (s : Bytes) : List Op → List (Bytes × Bool)
  | [] => []
  | op :: ops => let r := stdStep s op; r :: runStd r.1 ops

def runModel (m : Bytes) : List Op → List (Bytes × Bool)
  | [] => []
  | op :: ops => let r := modelStep m op; r :: runModel r.1 ops

end TP.StdBuf
