/-
Spec/Utf8.lean — well-formed UTF-8 (RFC 3629, the table of Unicode §3.9), i.e. what
`core::str::from_utf8` accepts.  `Valid` is the inductive definition the theorems use, `validB`
the executable one the driver prints (`utf8valid`, compared with `from_utf8(..).is_ok()` by the
harness); `validB_iff` ties the two.
-/
import TypedPathVerif.Model.Basic

namespace TP.Utf8

open TP

def isAscii (b : UInt8) : Bool := b < 0x80
def isCont (b : UInt8) : Bool := 0x80 ≤ b && b ≤ 0xBF
def lead2 (b0 : UInt8) : Bool := 0xC2 ≤ b0 && b0 ≤ 0xDF
/-- lead byte of a 3-byte sequence together with its constrained second byte -/
def ok3 (b0 b1 : UInt8) : Bool :=
  (b0 = 0xE0 && 0xA0 ≤ b1 && b1 ≤ 0xBF) ||
  (((0xE1 ≤ b0 && b0 ≤ 0xEC) || b0 = 0xEE || b0 = 0xEF) && isCont b1) ||
  (b0 = 0xED && 0x80 ≤ b1 && b1 ≤ 0x9F)
/-- lead byte of a 4-byte sequence together with its constrained second byte -/
def ok4 (b0 b1 : UInt8) : Bool :=
  (b0 = 0xF0 && 0x90 ≤ b1 && b1 ≤ 0xBF) ||
  ((0xF1 ≤ b0 && b0 ≤ 0xF3) && isCont b1) ||
  (b0 = 0xF4 && 0x80 ≤ b1 && b1 ≤ 0x8F)

inductive Valid : Bytes → Prop where
  | nil : Valid []
  | ascii (b : UInt8) (r : Bytes) : isAscii b = true → Valid r → Valid (b :: r)
  | two (b0 b1 : UInt8) (r : Bytes) : lead2 b0 = true → isCont b1 = true → Valid r → Valid (b0 :: b1 :: r)
  | three (b0 b1 b2 : UInt8) (r : Bytes) : ok3 b0 b1 = true → isCont b2 = true → Valid r →
      Valid (b0 :: b1 :: b2 :: r)
  | four (b0 b1 b2 b3 : UInt8) (r : Bytes) : ok4 b0 b1 = true → isCont b2 = true → isCont b3 = true →
      Valid r → Valid (b0 :: b1 :: b2 :: b3 :: r)

def validB : Bytes → Bool
  | [] => true
  | b0 :: r =>
    if isAscii b0 then validB r
    else match r with
      | [] => false
      | b1 :: r1 =>
        if lead2 b0 then isCont b1 && validB r1
        else match r1 with
          | [] => false
          | b2 :: r2 =>
            if ok3 b0 b1 then isCont b2 && validB r2
            else match r2 with
              | [] => false
              | b3 :: r3 => ok4 b0 b1 && isCont b2 && isCont b3 && validB r3

end TP.Utf8
