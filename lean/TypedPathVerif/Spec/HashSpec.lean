/-
Spec/HashSpec.lean — what is fed to a hasher, in terms of the *components* of the path: the
derived hash of the parsed prefix kind, then the text of every component except the root
separator, then the number of bytes written.  The driver prints it (`hashspec`) next to the
byte-level model of the Rust loop (`hash`); the harness compares both with the recorded
`Hasher::write` calls of the implementation.
-/
import TypedPathVerif.Model.Path

namespace TP.C05

open TP

def hashTexts (e : Enc) : List Comp → List Bytes
  | [] => []
  | .pfx _ :: r => hashTexts e r
  | .root :: r => hashTexts e r
  | c :: r => c.bytes e :: hashTexts e r

def hashPrefix : List Comp → List Bytes
  | .pfx p :: _ => p.kind.hashChunks
  | _ => []

def hashSpec (e : Enc) (b : Bytes) : List Bytes :=
  let cs := comps e b
  hashPrefix cs ++ hashTexts e cs ++ [usizeChunk ((hashTexts e cs).map List.length).sum]


end TP.C05
