/-
Spec/Lossy.lean — the standard lossy decoding of a byte string (`String::from_utf8_lossy`, i.e.
`core::str::Utf8Chunks`): the input is read left to right; a well-formed UTF-8 sequence is copied;
otherwise the *maximal prefix of a well-formed sequence* that starts here (Unicode §3.9, "substitution
of maximal subparts": one to three bytes — the lead byte, plus the second byte if it is in the range the
lead byte allows, plus the third byte of a four-byte form if it is a continuation byte) is replaced by
one U+FFFD (`EF BF BD`) and reading resumes right after it.

`Path::to_string_lossy`, `Path::display`, `Display for Utf8Path…` of the crate are stated against this
function (Props/C19b); the harness compares it with the crate's output (`lossy` lines) and the crate's
output with real `String::from_utf8_lossy` on every run.
-/
import TypedPathVerif.Spec.Utf8

namespace TP.Utf8

open TP

/-- U+FFFD REPLACEMENT CHARACTER in UTF-8 -/
def REPL : Bytes := [0xEF, 0xBF, 0xBD]

/-- `from_utf8_lossy` on the bytes `b` (as bytes of the resulting string) -/
def lossy : Bytes → Bytes
  | [] => []
  | b0 :: r =>
    if isAscii b0 then b0 :: lossy r
    else match r with
      | [] => REPL
      | b1 :: r1 =>
        if lead2 b0 then
          (if isCont b1 then b0 :: b1 :: lossy r1 else REPL ++ lossy (b1 :: r1))
        else if ok3 b0 b1 then
          match r1 with
          | [] => REPL
          | b2 :: r2 => if isCont b2 then b0 :: b1 :: b2 :: lossy r2 else REPL ++ lossy (b2 :: r2)
        else if ok4 b0 b1 then
          match r1 with
          | [] => REPL
          | b2 :: r2 =>
            if isCont b2 then
              match r2 with
              | [] => REPL
              | b3 :: r3 => if isCont b3 then b0 :: b1 :: b2 :: b3 :: lossy r3 else REPL ++ lossy (b3 :: r3)
            else REPL ++ lossy (b2 :: r2)
        else REPL ++ lossy (b1 :: r1)
termination_by b => b.length

/-- number of U+FFFD the decoding inserts (0 exactly for valid input, `lossy_count_zero_iff`) -/
def replCount : Bytes → Nat
  | [] => 0
  | b0 :: r =>
    if isAscii b0 then replCount r
    else match r with
      | [] => 1
      | b1 :: r1 =>
        if lead2 b0 then
          (if isCont b1 then replCount r1 else 1 + replCount (b1 :: r1))
        else if ok3 b0 b1 then
          match r1 with
          | [] => 1
          | b2 :: r2 => if isCont b2 then replCount r2 else 1 + replCount (b2 :: r2)
        else if ok4 b0 b1 then
          match r1 with
          | [] => 1
          | b2 :: r2 =>
            if isCont b2 then
              match r2 with
              | [] => 1
              | b3 :: r3 => if isCont b3 then replCount r3 else 1 + replCount (b3 :: r3)
            else 1 + replCount (b2 :: r2)
        else 1 + replCount (b1 :: r1)
termination_by b => b.length

end TP.Utf8

namespace TP.C19

open TP TP.Utf8

/-- `Path::to_str`: `core::str::from_utf8(bytes).ok()` -/
def toStr (b : Bytes) : Option Bytes := if validB b then some b else none
/-- `Path::to_string_lossy`, `Path::display().to_string()`, `Display for Utf8Path`: `String::from_utf8_lossy(bytes)` -/
def display (b : Bytes) : Bytes := lossy b

end TP.C19
