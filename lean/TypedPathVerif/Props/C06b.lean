/-
Props/C06b.lean — C06 / C09 continued: the parent of a Unix path is BYTE-MINIMAL.

`Props/C09` proves that `parent` returns a leading byte-slice of the path whose std components
are std's components of the path without the last one.  Many leading slices have those
components (`a/b`, `a/`, `a/.` … all read `[a]`); std hands back the shortest one (its
`Components::as_path` trims every trailing separator and `.` segment down to the root), and
C06 asks for "returned sub-paths identical byte for byte".  Here: the slice `parent` returns is
the SHORTEST leading slice with those components — no proper leading slice of it has the same
components (`unix_parent_minimal`) — so it is determined by `StdSpec.comps` alone
(`unix_parent_unique`): a parent that kept a trailing separator, a trailing `/.`, or dropped a
byte too many is excluded for every input.

The argument is a measure: `W` = the total text length of a component list.  Appending one byte
never lowers `W (comps ·)`, and raises it when the byte ends a path that does not end in junk.
-/
import TypedPathVerif.Props.C06
import TypedPathVerif.Props.C09
import TypedPathVerif.Props.C09b
import TypedPathVerif.Props.C12b
import TypedPathVerif.Lemmas.CombUnix

namespace TP.C06b

open TP

/-- total text length of a component list -/
def W (l : List Comp) : Nat := (l.map (fun c => (c.bytes .unix).length)).sum

theorem W_nil : W [] = 0 := rfl

theorem W_append (a b : List Comp) : W (a ++ b) = W a + W b := by simp [W]

theorem W_segComp_true (s : Bytes) : W [segComp true s] = s.length := by
  unfold segComp
  by_cases h1 : s = PAR
  · subst h1; rfl
  · by_cases h2 : s = CUR
    · subst h2; rfl
    · simp [h1, h2, W, Comp.bytes]

/-- text length contributed by a segment that is not the first token -/
def wb (s : Bytes) : Nat := if s = CUR then 0 else s.length

theorem W_body_seg (s : Bytes) : W (body false [.seg s]) = wb s := by
  unfold wb
  by_cases h : s = CUR
  · subst h; rfl
  · have hj : junk false (.seg s) = false := by simp [junk, h]
    rw [body_cons_seg [] hj, body_nil]
    rw [← segComp_of_not_junk hj, W_segComp_true]
    simp [h]

theorem wb_le (s : Bytes) : wb s ≤ s.length := by
  unfold wb; split <;> simp

/-- the components of a Unix path, on tokens -/
def cT (b : Bytes) : List Comp := compsT false true (toks usep b)

theorem comps_eq_cT (b : Bytes) : comps .unix b = cT b := by
  rw [C03.comps_new_closed]; rfl

theorem compsT_append_ne (a b : List Tok) (ha : a ≠ []) :
    compsT false true (a ++ b) = compsT false true a ++ body false b := by
  cases a with
  | nil => exact absurd rfl ha
  | cons t r => simp [compsT_true_cons, body_append]

/-- a segment may follow a separator -/
theorem WF_snoc_after_sep (r : List Tok) (y x : UInt8) (hw : WFToks usep (r ++ [.sep y])) (hx : usep x = false) :
    WFToks usep (r ++ [.sep y] ++ [.seg [x]]) := by
  induction r with
  | nil => exact ⟨hw.1, by simp, by simpa using hx, trivial, trivial⟩
  | cons t r ih =>
    cases t with
    | sep z => exact ⟨hw.1, ih hw.2⟩
    | seg s0 =>
      obtain ⟨a1, a2, a3, a4⟩ := hw
      refine ⟨a1, a2, ?_, ih a4⟩
      cases r with
      | nil => trivial
      | cons t' r' => cases t' <;> simpa [notSegHead] using a3

theorem last_seg_props {r : List Tok} {s : Bytes} (hw : WFToks usep (r ++ [.seg s])) :
    s ≠ [] ∧ ∀ y ∈ s, usep y = false := by
  have := WFToks_suffix r hw
  exact ⟨this.1, this.2.1⟩

/-- tokens after one more non-separator byte -/
theorem toks_snoc_nonsep (b : Bytes) (x : UInt8) (hx : usep x = false) :
    (toks usep b = [] ∧ toks usep (b ++ [x]) = [.seg [x]]) ∨
    (∃ r y, toks usep b = r ++ [.sep y] ∧ toks usep (b ++ [x]) = r ++ [.sep y] ++ [.seg [x]]) ∨
    (∃ r s, toks usep b = r ++ [.seg s] ∧ toks usep (b ++ [x]) = r ++ [.seg (s ++ [x])]) := by
  have hwf := WFToks_toks usep b
  have hb := untoks_toks usep b
  rcases List.eq_nil_or_concat (toks usep b) with h | ⟨r, t, h⟩
  · left
    refine ⟨h, ?_⟩
    have : b = [] := (toks_eq_nil_iff usep b).mp h
    subst this
    simp [toks, hx]
  · rw [List.concat_eq_append] at h
    right
    cases t with
    | sep y =>
      left
      refine ⟨r, y, h, ?_⟩
      rw [h] at hwf
      have hw2 := WF_snoc_after_sep r y x hwf hx
      have hu : untoks (r ++ [.sep y] ++ [.seg [x]]) = b ++ [x] := by
        rw [C09.untoks_append, ← h, hb]; simp [untoks, Tok.bytes]
      have := toks_untoks _ hw2
      rw [hu] at this
      exact this
    | seg s =>
      right
      refine ⟨r, s, h, ?_⟩
      rw [h] at hwf
      obtain ⟨hs1, hs2⟩ := last_seg_props hwf
      have hw2 := C12b.WFToks_replace_last r s (s ++ [x]) hwf (by simp)
        (by intro y hy; rcases List.mem_append.mp hy with hy | hy
            · exact hs2 y hy
            · simp at hy; subst hy; exact hx)
      have := C12b.toks_untoks_append_seg r (s ++ [x]) hw2
      have hb2 : b = untoks r ++ s := by
        rw [← hb, h, C09.untoks_append]; simp [untoks, Tok.bytes]
      rw [hb2, List.append_assoc]
      exact this

/-- one more byte never lowers the measure -/
theorem step_le (b : Bytes) (x : UInt8) : W (cT b) ≤ W (cT (b ++ [x])) := by
  unfold cT
  by_cases hx : usep x = true
  · rw [toks_append_sep_end usep b x hx]
    by_cases hne : toks usep b = []
    · rw [hne]; simp [W]
    · rw [compsT_append_sep false _ [] x hne]; simp
  · have hx' : usep x = false := by simpa using hx
    rcases toks_snoc_nonsep b x hx' with ⟨h1, h2⟩ | ⟨r, y, h1, h2⟩ | ⟨r, s, h1, h2⟩
    · rw [h1, h2]; simp [W]
    · rw [h1, h2, compsT_append_ne (r ++ [Tok.sep y]) [Tok.seg [x]] (by simp), W_append]; omega
    · rw [h1, h2]
      by_cases hr : r = []
      · subst hr
        simp only [List.nil_append, compsT_true_cons, headComp, body_nil, W_segComp_true]
        simp
      · rw [compsT_append_ne _ _ hr, compsT_append_ne _ _ hr, W_append, W_append, W_body_seg, W_body_seg]
        have hs := (last_seg_props (h1 ▸ WFToks_toks usep b)).1
        unfold wb
        by_cases hc : s = CUR
        · simp [hc]
        · simp only [hc, if_false]
          split
          · rename_i h0
            have : (s ++ [x]).length = 1 := by rw [h0]; rfl
            simp at this
            exact absurd this hs
          · simp

/-- a leading slice never has a larger measure -/
theorem prefix_le : ∀ (t q' : Bytes), W (cT q') ≤ W (cT (q' ++ t))
  | [], q' => by simp
  | x :: t, q' => by
    have h1 := step_le q' x
    have h2 := prefix_le t (q' ++ [x])
    rw [List.append_assoc] at h2
    exact Nat.le_trans h1 h2

/-- token lists that do not end in junk: empty, the root alone, or ending in a segment that is a
component (`.` only as the whole path) -/
def TightT (ts : List Tok) : Prop :=
  ts = [] ∨ (∃ y, ts = [.sep y]) ∨ ∃ r s, ts = r ++ [.seg s] ∧ (r = [] ∨ s ≠ CUR)

/-- the last byte of such a path raises the measure -/
theorem tight_last_strict {ts : List Tok} (hw : WFToks usep ts) (ht : TightT ts) (hne : ts ≠ []) :
    ∃ p x, untoks ts = p ++ [x] ∧ W (cT p) < W (cT (untoks ts)) := by
  have htoks : toks usep (untoks ts) = ts := toks_untoks ts hw
  rcases ht with h | ⟨y, h⟩ | ⟨r, s, h, hrs⟩
  · exact absurd h hne
  · subst h
    refine ⟨[], y, rfl, ?_⟩
    unfold cT
    rw [htoks]
    simp [toks, W, compsT, Comp.bytes]
  · subst h
    obtain ⟨hs1, hs2⟩ := last_seg_props hw
    obtain ⟨s0, x, hsx⟩ : ∃ s0 x, s = s0 ++ [x] := by
      rcases List.eq_nil_or_concat s with h | ⟨s0, x, h⟩
      · exact absurd h hs1
      · exact ⟨s0, x, by rw [h, List.concat_eq_append]⟩
    have hx : usep x = false := hs2 x (by rw [hsx]; simp)
    refine ⟨untoks r ++ s0, x, ?_, ?_⟩
    · rw [C09.untoks_append, hsx]; simp [untoks, Tok.bytes]
    · unfold cT
      rw [htoks]
      have hwr : WFToks usep r := WFToks_prefix r hw
      by_cases hs0 : s0 = []
      · subst hs0
        simp only [List.append_nil, List.nil_append] at hsx ⊢
        rw [toks_untoks r hwr]
        by_cases hr : r = []
        · subst hr
          simp only [List.nil_append, compsT_true_cons, headComp, body_nil, W_segComp_true, compsT_nil, W_nil]
          rw [hsx]; simp
        · rw [compsT_append_ne _ _ hr, W_append, W_body_seg]
          have hc : s ≠ CUR := by
            rcases hrs with h | h
            · exact absurd h hr
            · exact h
          unfold wb
          simp only [hc, if_false]
          have : 0 < s.length := List.length_pos_iff.mpr hs1
          omega
      · have hw0 : WFToks usep (r ++ [.seg s0]) :=
          C12b.WFToks_replace_last r s s0 hw hs0 (fun y hy => hs2 y (by rw [hsx]; simp [hy]))
        rw [C12b.toks_untoks_append_seg r s0 hw0]
        by_cases hr : r = []
        · subst hr
          simp only [List.nil_append, compsT_true_cons, headComp, body_nil, W_segComp_true]
          rw [hsx]; simp
        · rw [compsT_append_ne _ _ hr, compsT_append_ne _ _ hr, W_append, W_append, W_body_seg, W_body_seg]
          have hc : s ≠ CUR := by
            rcases hrs with h | h
            · exact absurd h hr
            · exact h
          have h1 := wb_le s0
          have h2 : wb s = s.length := by unfold wb; simp [hc]
          have h3 : s.length = s0.length + 1 := by rw [hsx]; simp
          omega

/-- (minimality) a path that does not end in junk shares its components with none of its proper
leading slices -/
theorem tight_minimal {ts : List Tok} (hw : WFToks usep ts) (ht : TightT ts) (q' : Bytes)
    (hp : q' <+: untoks ts) (hc : comps .unix q' = comps .unix (untoks ts)) : q' = untoks ts := by
  obtain ⟨t, ht'⟩ := hp
  by_cases htn : t = []
  · subst htn; simpa using ht'
  · exfalso
    have hne : ts ≠ [] := by
      intro h0; subst h0
      simp [untoks] at ht'
      exact htn ht'.2
    obtain ⟨p, x, hpx, hlt⟩ := tight_last_strict hw ht hne
    obtain ⟨t0, x', ht0⟩ : ∃ t0 x', t = t0 ++ [x'] := by
      rcases List.eq_nil_or_concat t with h | ⟨t0, x', h⟩
      · exact absurd h htn
      · exact ⟨t0, x', by rw [h, List.concat_eq_append]⟩
    have hq : q' ++ t0 = p := by
      have : (q' ++ t0) ++ [x'] = p ++ [x] := by rw [List.append_assoc, ← ht0, ht', hpx]
      exact (List.append_inj' this rfl).1
    have hle := prefix_le t0 q'
    rw [hq] at hle
    rw [comps_eq_cT, comps_eq_cT] at hc
    rw [hc] at hle
    omega

/-- what a back step leaves behind does not end in junk -/
theorem backT_tight {ts ts' : List Tok} {c : Comp} (h : backT false true ts = some (c, ts')) : TightT ts' := by
  unfold backT at h
  simp only at h
  split at h
  · cases hf : frontT false true ts with
    | none => simp [hf] at h
    | some r =>
      simp only [hf, Option.map_some, Option.some.injEq, Prod.mk.injEq] at h
      exact Or.inl h.2.symm
  · split at h
    · rename_i s hlast
      simp only [Option.some.injEq, Prod.mk.injEq] at h
      rw [← h.2]
      split
      · rename_i hcond
        obtain ⟨_, hsr, _⟩ := hcond
        cases hr : (skipBack false ts).dropLast with
        | nil => rw [hr] at hsr; simp [startsRootOrCur] at hsr
        | cons t r' =>
          rw [hr] at hsr
          cases t with
          | sep y => exact Or.inr (Or.inl ⟨y, by simp⟩)
          | seg s' =>
            have : s' = CUR := by simpa [startsRootOrCur] using hsr
            exact Or.inr (Or.inr ⟨[], s', by simp, Or.inl rfl⟩)
      · rcases Comb.Unix.skipBack_false_shape (skipBack false ts).dropLast with h0 | ⟨c0, s', h1, h2⟩
        · exact Or.inl h0
        · exact Or.inr (Or.inr ⟨c0, s', h1, Or.inr h2⟩)
    · simp at h

/-- the parent of a Unix path is the bytes of a token list that does not end in junk -/
theorem unix_parent_tight (b q : Bytes) (h : parent .unix b = some q) :
    ∃ ts, WFToks usep ts ∧ TightT ts ∧ q = untoks ts := by
  unfold parent at h
  cases hb : (Enc.new .unix b).nextBack with
  | none => simp [hb] at h
  | some x =>
    obtain ⟨c, s'⟩ := x
    simp only [hb] at h
    split at h
    · simp only [Option.some.injEq] at h
      unfold PState.nextBack at hb
      split at hb
      · cases hbt : backT (Enc.new .unix b).k (Enc.new .unix b).atBeg (Enc.new .unix b).toks with
        | none => simp [hbt] at hb
        | some y =>
          obtain ⟨c', ts'⟩ := y
          simp only [hbt, Option.some.injEq, Prod.mk.injEq] at hb
          have hbt' : backT false true (toks usep b) = some (c', ts') := hbt
          have hwf' : WFToks usep ts' := by
            obtain ⟨p, hp⟩ := backT_prefix hbt'
            have := WFToks_toks usep b
            rw [hp] at this
            exact WFToks_prefix _ this
          refine ⟨ts', hwf', backT_tight hbt', ?_⟩
          rw [← h, ← hb.2]
          simp [PState.remaining, PState.preBytes, Enc.new]
      · simp [Enc.new] at hb
    · cases h

/-- **C06, byte-minimality of `parent`.**  No proper leading slice of the returned parent has the
parent's std components: `parent` hands back the shortest leading slice of the path whose
components are the path's components without the last one. -/
theorem unix_parent_minimal (b q : Bytes) (h : parent .unix b = some q) (q' : Bytes)
    (hp : q' <+: q) (hc : StdSpec.comps q' = StdSpec.comps q) : q' = q := by
  obtain ⟨ts, hw, ht, rfl⟩ := unix_parent_tight b q h
  rw [← C01.unix_front_all, ← C01.unix_front_all] at hc
  exact tight_minimal hw ht q' hp hc

/-- … so the returned bytes are determined by `StdSpec.comps` alone: any leading slice `r` of the
path with the right components and the same minimality is the parent, byte for byte. -/
theorem unix_parent_unique (b q r : Bytes) (h : parent .unix b = some q)
    (hr : r <+: b) (hrc : StdSpec.comps r = (StdSpec.comps b).dropLast)
    (hmin : ∀ r', r' <+: r → StdSpec.comps r' = StdSpec.comps r → r' = r) : r = q := by
  obtain ⟨hqc, t, hqt⟩ := C09.unix_parent_vs_std b q h
  have hqb : q <+: b := ⟨t, hqt.symm⟩
  rcases List.prefix_or_prefix_of_prefix hr hqb with h1 | h1
  · exact unix_parent_minimal b q h r h1 (by rw [hrc, hqc])
  · exact (hmin q h1 (by rw [hrc, hqc])).symm

/-- every element of a chain after the first is somebody's parent -/
theorem chain_tail_parents : ∀ (l : List Bytes) (b : Bytes), C09b.IsChain .unix (b :: l) →
    ∀ q ∈ l, ∃ p, parent .unix p = some q := by
  intro l
  induction l with
  | nil => intro b _ q hq; cases hq
  | cons y r ih =>
    intro b hch q hq
    obtain ⟨hp, hrest⟩ := hch
    rcases List.mem_cons.mp hq with hq | hq
    · subst hq; exact ⟨b, hp⟩
    · exact ih y hrest q hq

/-- **C06, `ancestors`.**  Every ancestor after the path itself is byte-minimal in the same sense. -/
theorem unix_ancestors_minimal (b : Bytes) :
    ∀ q ∈ (ancestors .unix b).tail, ∀ q', q' <+: q → StdSpec.comps q' = StdSpec.comps q → q' = q := by
  obtain ⟨hch, hhead⟩ := C09b.ancestors_chain .unix b
  cases hl : ancestors .unix b with
  | nil => rw [hl] at hhead; cases hhead
  | cons x r =>
    rw [hl] at hch
    intro q hq q' hp hc
    obtain ⟨p, hpq⟩ := chain_tail_parents r x hch q (by simpa using hq)
    exact unix_parent_minimal p q hpq q' hp hc

/-! ### Non-vacuity -/

example : parent .unix [97, 47, 47, 98, 47, 46, 47] = some [97] := by decide
example : parent .unix [47, 47, 97] = some [47] := by decide
example : parent .unix [46, 47, 97] = some [46] := by decide
-- a leading slice with the same components that is NOT minimal (`a//` for `a`)
example : StdSpec.comps [97, 47, 47] = StdSpec.comps [97] := by decide
example : ancestors .unix [47, 97, 47, 47, 98, 47] = [[47, 97, 47, 47, 98, 47], [47, 97], [47]] := by decide

end TP.C06b
