/-
Props/C10c.lean — C10 continued: `strip_prefix` on Windows paths that do not start like a prefix.

For Windows paths `p`, `q` without a prefix-like start: when `strip_prefix` succeeds and the
remainder `r` does not start like a prefix either (a remainder such as `C:x` or `\\x` re-parses
with a prefix: known finding K3), the path's components are the base's followed by the
remainder's (`win_strip_comps_pf`), and the base joined with the remainder equals the path
(`win_strip_join_pf`).  Joining then stripping gives back the argument's components
(`win_join_strip_pf`).
-/
import TypedPathVerif.Props.C10b

namespace TP.C10c

open TP TP.JoinRules

/-- states reachable from a fresh prefix-free Windows parser by front steps -/
def WFront (st : PState) : Prop :=
  st.pre = none ∧ st.k = false ∧ WFToks (wsep true) st.toks ∧ st.Inv

theorem WFront_new (b : Bytes) (h : C16.pfxStart b = false) : WFront (Enc.new .windows b) := by
  rw [Win.new_of_pf b h]
  exact ⟨rfl, rfl, WFToks_toks _ b, Or.inl rfl⟩

theorem WFront_front {st st' : PState} {c : Comp} (h : st.nextFront = some (c, st')) (hr : WFront st) :
    WFront st' := by
  obtain ⟨hp, hk, hw, hi⟩ := hr
  have hi' := nextFront_inv h hi
  unfold PState.nextFront at h
  simp only [hp] at h
  cases hf : frontT st.k st.atBeg st.toks with
  | none => simp [hf] at h
  | some r =>
    obtain ⟨c', ts'⟩ := r
    simp only [hf, Option.some.injEq, Prod.mk.injEq] at h
    obtain ⟨p, hp'⟩ := frontT_suffix hf
    rw [← h.2] at hi' ⊢
    refine ⟨rfl, hk, ?_, hi'⟩
    simp only
    rw [hp'] at hw
    exact WFToks_suffix p hw

/-- (R) for front steps: when the remaining bytes do not start like a prefix, re-parsing them
gives the components that remain -/
theorem win_reparse_front {st : PState} (hr : WFront st) (hpf : C16.pfxStart st.remaining = false) :
    comps .windows st.remaining = st.comps := by
  obtain ⟨hp, hk, hw, hi⟩ := hr
  have hrem : st.remaining = untoks st.toks := by simp [PState.remaining, PState.preBytes, hp]
  rw [hrem] at hpf ⊢
  rw [C16.win_comps_pf _ hpf, comps_closed st hi, hp, toks_untoks st.toks hw, hk]
  simp only [List.nil_append]
  cases hb : st.atBeg with
  | true => rfl
  | false =>
    have hnl : noLeadJunk false st.toks := by
      cases hi with
      | inl h => rw [hb] at h; cases h
      | inr h => rw [hk] at h; exact h
    cases hts : st.toks with
    | nil => simp [compsT]
    | cons t r =>
      rw [hts] at hnl
      cases t with
      | sep x => simp [noLeadJunk, junk] at hnl
      | seg s =>
        have hnj : junk false (.seg s) = false := hnl
        rw [compsT_true_cons]
        simp only [compsT, Bool.false_eq_true, if_false, headComp]
        rw [body_cons_seg r hnj, segComp_of_not_junk hnj]

theorem iterAfter_comps_w : ∀ (ys : List Comp) (s s' : PState), WFront s →
    iterAfter .windows s ys = some s' → WFront s' ∧ ∃ xs, xs.length = ys.length ∧ s.comps = xs ++ s'.comps := by
  intro ys
  induction ys with
  | nil =>
    intro s s' hr h
    simp only [iterAfter, Option.some.injEq] at h
    subst h
    exact ⟨hr, [], rfl, rfl⟩
  | cons y ys ih =>
    intro s s' hr h
    simp only [iterAfter] at h
    cases hf : s.nextFront with
    | none => simp [hf] at h
    | some r =>
      obtain ⟨x, s1⟩ := r
      simp only [hf] at h
      split at h
      · obtain ⟨hr', xs, hlen, hxs⟩ := ih s1 s' (WFront_front hf hr) h
        refine ⟨hr', x :: xs, by simp [hlen], ?_⟩
        rw [front_comps hf, hxs]; rfl
      · cases h

/-- The remainder's components are exactly the path's components after the base's. -/
theorem win_strip_comps_pf (p q r : Bytes) (hp : C16.pfxStart p = false) (hq : C16.pfxStart q = false)
    (h : stripPrefix .windows p q = some r) (hr : C16.pfxStart r = false) :
    comps .windows p = comps .windows q ++ comps .windows r := by
  have hstarts : comps .windows q <+: comps .windows p := by
    rw [← C10b.win_starts_with_iff p q hp hq, ← C10b.strip_iff_starts, h]; rfl
  unfold stripPrefix at h
  cases hia : iterAfter .windows (Enc.new .windows p) (comps .windows q) with
  | none => simp [hia] at h
  | some s' =>
    simp only [hia, Option.map_some, Option.some.injEq] at h
    obtain ⟨hr', xs, hlen, hxs⟩ := iterAfter_comps_w _ _ _ (WFront_new p hp) hia
    have hre := win_reparse_front hr' (by rw [h]; exact hr)
    rw [h] at hre
    obtain ⟨t, ht⟩ := hstarts
    have hpc : comps .windows p = xs ++ s'.comps := hxs
    rw [hre]
    have : xs = comps .windows q := by
      have h1 : xs ++ s'.comps = comps .windows q ++ t := by rw [← hpc, ht]
      exact (List.append_inj h1 hlen).1
    rw [hpc, this]

theorem comps_ne_nil_of_ne_nil (q : Bytes) (hq : C16.pfxStart q = false) (h : q ≠ []) : comps .windows q ≠ [] := by
  rw [C16.win_comps_pf q hq]
  have : toks (wsep true) q ≠ [] := by rw [ne_eq, toks_eq_nil_iff]; exact h
  cases hts : toks (wsep true) q with
  | nil => exact absurd hts this
  | cons t r => rw [compsT_true_cons]; simp

/-- **Windows: the base joined with the stripped remainder equals the path** (prefix-free paths,
remainder not starting like a prefix). -/
theorem win_strip_join_pf (p q r : Bytes) (hp : C16.pfxStart p = false) (hq : C16.pfxStart q = false)
    (h : stripPrefix .windows p q = some r) (hr : C16.pfxStart r = false) :
    pathEq .windows (push .windows q r) p = true := by
  have hc := win_strip_comps_pf p q r hp hq h hr
  have hnil : comps .windows [] = [] := by rw [C03.comps_new_closed]; decide
  rw [C05.eq_iff_comps]
  congr 1
  by_cases hre : r = []
  · subst hre
    rw [hnil, List.append_nil] at hc
    simp [push, windowsPush, hc]
  · by_cases hqe : q = []
    · subst hqe
      rw [hnil, List.nil_append] at hc
      rw [C16b.win_push_empty_base r hre hr, hc]
    · have hqne := comps_ne_nil_of_ne_nil q hq hqe
      -- the remainder follows at least one component: its components are tail components
      have htail : ∀ x ∈ comps .windows r, C16.tailOKs (wsep true) x := by
        have hcp := C16.win_comps_pf p hp
        rcases C16.compsT_structure (wsep true) p with h0 | ⟨c, rest, h0, _, hrest⟩
        · rw [hcp, h0] at hc
          have := congrArg List.length hc
          simp only [List.length_nil, List.length_append] at this
          exact absurd (List.eq_nil_of_length_eq_zero (by omega)) hqne
        · intro x hx
          rw [hcp, h0] at hc
          cases hcq : comps .windows q with
          | nil => exact absurd hcq hqne
          | cons c' q' =>
            rw [hcq] at hc
            simp only [List.cons_append, List.cons.injEq] at hc
            exact hrest x (by rw [hc.2]; simp [hx])
      have hrel : startsWithSep r = false := by
        cases hs : startsWithSep r with
        | false => rfl
        | true =>
          exfalso
          cases r with
          | nil => simp [startsWithSep] at hs
          | cons x t =>
            have hx : wsep true x = true := by simpa [startsWithSep, anySep] using hs
            have hroot : Comp.root ∈ comps .windows (x :: t) := by
              rw [C16.win_comps_pf _ hr]
              simp [toks, hx, compsT_true_cons, headComp]
            rcases htail _ hroot with h' | ⟨s, h', _⟩ <;> cases h'
      have hdl : dropLeadingCur (comps .windows r) = comps .windows r := by
        cases hcr : comps .windows r with
        | nil => rfl
        | cons c rest =>
          have := htail c (by rw [hcr]; simp)
          cases c with
          | cur => rcases this with h' | ⟨s, h', _⟩ <;> cases h'
          | _ => rfl
      rw [show push .windows q r = windowsPush q r from rfl,
        (C16b.win_push_comps_pf q r hq hqe hre hr hrel).2, hdl, hc]

/-- joining a relative prefix-free `b` onto a prefix-free non-empty `a`, then stripping `a`,
yields `b`'s components minus a leading `.` -/
theorem win_join_strip_pf (a b : Bytes) (ha : C16.pfxStart a = false) (hane : a ≠ []) (hbne : b ≠ [])
    (hb : C16.pfxStart b = false) (hrel : startsWithSep b = false) :
    ∃ r, stripPrefix .windows (push .windows a b) a = some r ∧
      (C16.pfxStart r = false → comps .windows r = dropLeadingCur (comps .windows b)) := by
  obtain ⟨hs, hj⟩ := C10b.win_join_starts_pf a b ha hane hbne hb hrel
  have hpf : C16.pfxStart (push .windows a b) = false := (C16b.win_push_comps_pf a b ha hane hbne hb hrel).1
  have hsome : (stripPrefix .windows (push .windows a b) a).isSome = true := by rw [C10b.strip_iff_starts, hs]
  cases hst : stripPrefix .windows (push .windows a b) a with
  | none => rw [hst] at hsome; cases hsome
  | some r =>
    refine ⟨r, rfl, ?_⟩
    intro hr
    have := win_strip_comps_pf _ _ _ hpf ha hst hr
    rw [hj] at this
    exact (List.append_cancel_left this).symm

/-! ### non-vacuity -/

example : stripPrefix .windows [97, 92, 98, 92, 99] [97, 47] = some [98, 92, 99] := by
  unfold stripPrefix; rw [C03.comps_new_closed]; decide

end TP.C10c
