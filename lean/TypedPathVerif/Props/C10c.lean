/-
Props/C10c.lean — C10 continued: `strip_prefix` on Windows paths that do not start like a prefix.

For Windows paths `p`, `q` without a prefix-like start: when `strip_prefix` succeeds and the
remainder `r` does not start like a prefix either (a remainder such as `C:x` or `\\x` re-parses
with a prefix: known finding K3), the path's components are the base's followed by the
remainder's (`win_strip_comps_pf`), and the base joined with the remainder equals the path
(`win_strip_join_pf`).  Joining then stripping gives back the argument's components
(`win_join_strip_pf`).
-/
import TypedPathVerif.Props.C10b

namespace TP.C10c

open TP TP.JoinRules

/-- states reachable from a fresh prefix-free Windows parser by front steps -/
def WFront (st : PState) : Prop :=
  st.pre = none ∧ st.k = false ∧ WFToks (wsep true) st.toks ∧ st.Inv

theorem WFront_new (b : Bytes) (h : C16.pfxStart b = false) : WFront (Enc.new .windows b) := by
  rw [Win.new_of_pf b h]
  exact ⟨rfl, rfl, WFToks_toks _ b, Or.inl rfl⟩

theorem WFront_front {st st' : PState} {c : Comp} (h : st.nextFront = some (c, st')) (hr : WFront st) :
    WFront st' := by
  obtain ⟨hp, hk, hw, hi⟩ := hr
  have hi' := nextFront_inv h hi
  unfold PState.nextFront at h
  simp only [hp] at h
  cases hf : frontT st.k st.atBeg st.toks with
  | none => simp [hf] at h
  | some r =>
    obtain ⟨c', ts'⟩ := r
    simp only [hf, Option.some.injEq, Prod.mk.injEq] at h
    obtain ⟨p, hp'⟩ := frontT_suffix hf
    rw [← h.2] at hi' ⊢
    refine ⟨rfl, hk, ?_, hi'⟩
    simp only
    rw [hp'] at hw
    exact WFToks_suffix p hw

/-- (R) for front steps: when the remaining bytes do not start like a prefix, re-parsing them
gives the components that remain -/
theorem win_reparse_front {st : PState} (hr : WFront st) (hpf : C16.pfxStart st.remaining = false) :
    comps .windows st.remaining = st.comps := by
  obtain ⟨hp, hk, hw, hi⟩ := hr
  have hrem : st.remaining = untoks st.toks := by simp [PState.remaining, PState.preBytes, hp]
  rw [hrem] at hpf ⊢
  rw [C16.win_comps_pf _ hpf, comps_closed st hi, hp, toks_untoks st.toks hw, hk]
  simp only [List.nil_append]
  cases hb : st.atBeg with
  | true => rfl
  | false =>
    have hnl : noLeadJunk false st.toks := by
      cases hi with
      | inl h => rw [hb] at h; cases h
      | inr h => rw [hk] at h; exact h
    cases hts : st.toks with
    | nil => simp [compsT]
    | cons t r =>
      rw [hts] at hnl
      cases t with
      | sep x => simp [noLeadJunk, junk] at hnl
      | seg s =>
        have hnj : junk false (.seg s) = false := hnl
        rw [compsT_true_cons]
        simp only [compsT, Bool.false_eq_true, if_false, headComp]
        rw [body_cons_seg r hnj, segComp_of_not_junk hnj]

theorem iterAfter_comps_w : ∀ (ys : List Comp) (s s' : PState), WFront s →
    iterAfter .windows s ys = some s' → WFront s' ∧
      ∃ xs, xs.map (Comp.bytes .windows) = ys.map (Comp.bytes .windows) ∧ s.comps = xs ++ s'.comps := by
  intro ys
  induction ys with
  | nil =>
    intro s s' hr h
    simp only [iterAfter, Option.some.injEq] at h
    subst h
    exact ⟨hr, [], rfl, rfl⟩
  | cons y ys ih =>
    intro s s' hr h
    simp only [iterAfter] at h
    cases hf : s.nextFront with
    | none => simp [hf] at h
    | some r =>
      obtain ⟨x, s1⟩ := r
      simp only [hf] at h
      split at h
      · rename_i hxy
        obtain ⟨hr', xs, hlen, hxs⟩ := ih s1 s' (WFront_front hf hr) h
        refine ⟨hr', x :: xs, by simp [hlen, hxy], ?_⟩
        rw [front_comps hf, hxs]; rfl
      · cases h

/-- The remainder's components are exactly the path's components after the base's. -/
theorem win_strip_comps_pf (p q r : Bytes) (hp : C16.pfxStart p = false) (hq : C16.pfxStart q = false)
    (h : stripPrefix .windows p q = some r) (hr : C16.pfxStart r = false) :
    comps .windows p = comps .windows q ++ comps .windows r := by
  have hstarts : comps .windows q <+: comps .windows p := by
    rw [← C10b.win_starts_with_iff p q hp hq, ← C10b.strip_iff_starts, h]; rfl
  unfold stripPrefix at h
  cases hia : iterAfter .windows (Enc.new .windows p) (comps .windows q) with
  | none => simp [hia] at h
  | some s' =>
    simp only [hia, Option.map_some, Option.some.injEq] at h
    obtain ⟨hr', xs, hmap, hxs⟩ := iterAfter_comps_w _ _ _ (WFront_new p hp) hia
    have hlen : xs.length = (comps .windows q).length := by simpa using congrArg List.length hmap
    have hre := win_reparse_front hr' (by rw [h]; exact hr)
    rw [h] at hre
    obtain ⟨t, ht⟩ := hstarts
    have hpc : comps .windows p = xs ++ s'.comps := hxs
    rw [hre]
    have : xs = comps .windows q := by
      have h1 : xs ++ s'.comps = comps .windows q ++ t := by rw [← hpc, ht]
      exact (List.append_inj h1 hlen).1
    rw [hpc, this]

theorem comps_ne_nil_of_ne_nil (q : Bytes) (hq : C16.pfxStart q = false) (h : q ≠ []) : comps .windows q ≠ [] := by
  rw [C16.win_comps_pf q hq]
  have : toks (wsep true) q ≠ [] := by rw [ne_eq, toks_eq_nil_iff]; exact h
  cases hts : toks (wsep true) q with
  | nil => exact absurd hts this
  | cons t r => rw [compsT_true_cons]; simp

/-- **Windows: the base joined with the stripped remainder equals the path** (prefix-free paths,
remainder not starting like a prefix). -/
theorem win_strip_join_pf (p q r : Bytes) (hp : C16.pfxStart p = false) (hq : C16.pfxStart q = false)
    (h : stripPrefix .windows p q = some r) (hr : C16.pfxStart r = false) :
    pathEq .windows (push .windows q r) p = true := by
  have hc := win_strip_comps_pf p q r hp hq h hr
  have hnil : comps .windows [] = [] := by rw [C03.comps_new_closed]; decide
  rw [C05.eq_iff_comps]
  congr 1
  by_cases hre : r = []
  · subst hre
    rw [hnil, List.append_nil] at hc
    simp [push, windowsPush, hc]
  · by_cases hqe : q = []
    · subst hqe
      rw [hnil, List.nil_append] at hc
      rw [C16b.win_push_empty_base r hre hr, hc]
    · have hqne := comps_ne_nil_of_ne_nil q hq hqe
      -- the remainder follows at least one component: its components are tail components
      have htail : ∀ x ∈ comps .windows r, C16.tailOKs (wsep true) x := by
        have hcp := C16.win_comps_pf p hp
        rcases C16.compsT_structure (wsep true) p with h0 | ⟨c, rest, h0, _, hrest⟩
        · rw [hcp, h0] at hc
          have := congrArg List.length hc
          simp only [List.length_nil, List.length_append] at this
          exact absurd (List.eq_nil_of_length_eq_zero (by omega)) hqne
        · intro x hx
          rw [hcp, h0] at hc
          cases hcq : comps .windows q with
          | nil => exact absurd hcq hqne
          | cons c' q' =>
            rw [hcq] at hc
            simp only [List.cons_append, List.cons.injEq] at hc
            exact hrest x (by rw [hc.2]; simp [hx])
      have hrel : startsWithSep r = false := by
        cases hs : startsWithSep r with
        | false => rfl
        | true =>
          exfalso
          cases r with
          | nil => simp [startsWithSep] at hs
          | cons x t =>
            have hx : wsep true x = true := by simpa [startsWithSep, anySep] using hs
            have hroot : Comp.root ∈ comps .windows (x :: t) := by
              rw [C16.win_comps_pf _ hr]
              simp [toks, hx, compsT_true_cons, headComp]
            rcases htail _ hroot with h' | ⟨s, h', _⟩ <;> cases h'
      have hdl : dropLeadingCur (comps .windows r) = comps .windows r := by
        cases hcr : comps .windows r with
        | nil => rfl
        | cons c rest =>
          have := htail c (by rw [hcr]; simp)
          cases c with
          | cur => rcases this with h' | ⟨s, h', _⟩ <;> cases h'
          | _ => rfl
      rw [show push .windows q r = windowsPush q r from rfl,
        (C16b.win_push_comps_pf q r hq hqe hre hr hrel).2, hdl, hc]

/-- joining a relative prefix-free `b` onto a prefix-free non-empty `a`, then stripping `a`,
yields `b`'s components minus a leading `.` -/
theorem win_join_strip_pf (a b : Bytes) (ha : C16.pfxStart a = false) (hane : a ≠ []) (hbne : b ≠ [])
    (hb : C16.pfxStart b = false) (hrel : startsWithSep b = false) :
    ∃ r, stripPrefix .windows (push .windows a b) a = some r ∧
      (C16.pfxStart r = false → comps .windows r = dropLeadingCur (comps .windows b)) := by
  obtain ⟨hs, hj⟩ := C10b.win_join_starts_pf a b ha hane hbne hb hrel
  have hpf : C16.pfxStart (push .windows a b) = false := (C16b.win_push_comps_pf a b ha hane hbne hb hrel).1
  have hsome : (stripPrefix .windows (push .windows a b) a).isSome = true := by rw [C10b.strip_iff_starts, hs]
  cases hst : stripPrefix .windows (push .windows a b) a with
  | none => rw [hst] at hsome; cases hsome
  | some r =>
    refine ⟨r, rfl, ?_⟩
    intro hr
    have := win_strip_comps_pf _ _ _ hpf ha hst hr
    rw [hj] at this
    exact (List.append_cancel_left this).symm

/-! ### paths with a complete, non-verbatim prefix -/

/-- With a complete non-verbatim prefix on the path: when `strip_prefix` succeeds with a non-empty
base and the remainder does not start like a prefix, the path's components are a run whose texts
are the base's component texts, followed by the remainder's components. -/
theorem win_strip_split_prefixed (p q r rest : Bytes) (pp : PrefixComp)
    (hpp : parsePrefixComp p = some (pp, rest)) (hc : Win.Complete pp.kind)
    (hnv : isVerbatimKind pp.kind = false)
    (h : stripPrefix .windows p q = some r) (hqne : comps .windows q ≠ []) (hr : C16.pfxStart r = false) :
    ∃ xs, comps .windows p = xs ++ comps .windows r ∧
      xs.map (Comp.bytes .windows) = (comps .windows q).map (Comp.bytes .windows) := by
  have hs := Win.stable_of_complete hpp hc
  have hok := Win.restOK_of_complete hpp hc
  have hn := Win.normOf_nonverbatim hpp hc hnv
  have ha := parsePrefixComp_raw hpp
  unfold stripPrefix at h
  subst ha
  rw [Win.new_of_stable hs rest hok, hn] at h
  rw [C03.comps_new_closed .windows (pp.raw ++ rest), Win.new_of_stable hs rest hok, hn]
  simp only [Bool.not_true] at h ⊢
  cases hcq : comps .windows q with
  | nil => exact absurd hcq hqne
  | cons y ys =>
    rw [hcq] at h
    simp only [iterAfter, PState.nextFront] at h
    split at h
    · rename_i hxy
      cases hia : iterAfter .windows
          { pre := none, toks := toks (wsep true) rest, atBeg := true, k := false } ys with
      | none => simp [hia] at h
      | some s' =>
        simp only [hia, Option.map_some, Option.some.injEq] at h
        have hw0 : WFront { pre := none, toks := toks (wsep true) rest, atBeg := true, k := false } :=
          ⟨rfl, rfl, WFToks_toks _ rest, Or.inl rfl⟩
        obtain ⟨hr', xs, hmap, hxs⟩ := iterAfter_comps_w _ _ _ hw0 hia
        have hre := win_reparse_front hr' (by rw [h]; exact hr)
        rw [h] at hre
        refine ⟨.pfx pp :: xs, ?_, by simp [hmap, hxy]⟩
        rw [hre]
        rw [comps_closed _ hw0.2.2.2] at hxs
        simp only [List.nil_append] at hxs
        simp only [List.cons_append, List.cons.injEq, true_and]
        exact hxs
    · cases h

theorem canonW_compsT (b : Bytes) : ∀ c ∈ compsT false true (toks (wsep true) b), C10b.canonW c := by
  have hw := WFToks_toks (wsep true) b
  cases hts : toks (wsep true) b with
  | nil => intro c h; simp [compsT] at h
  | cons t r =>
    rw [hts] at hw
    rw [compsT_true_cons]
    intro c h
    rcases List.mem_cons.mp h with h | h
    · subst h
      cases t with
      | sep x => trivial
      | seg s => exact C10b.canonW_segComp true s (Or.inl rfl) (C10b.seg_ne_bslash hw s (by simp))
    · exact C10b.canonW_body (WFToks_tail hw) c h

theorem map_eq_of_inj {l1 l2 : List Comp} (f : Comp → Bytes)
    (hinj : ∀ x ∈ l1, ∀ y ∈ l2, f x = f y → x = y) (h : l1.map f = l2.map f) : l1 = l2 := by
  induction l1 generalizing l2 with
  | nil => cases l2 with
    | nil => rfl
    | cons _ _ => simp at h
  | cons a l1 ih =>
    cases l2 with
    | nil => simp at h
    | cons b l2 =>
      simp only [List.map_cons, List.cons.injEq] at h
      have hab := hinj a (by simp) b (by simp) h.1
      rw [hab, ih (fun x hx y hy => hinj x (by simp [hx]) y (by simp [hy])) h.2]

/-- a complete prefix is determined by its raw text -/
theorem prefix_eq_of_raw {a b ra rb : Bytes} {pa pb : PrefixComp}
    (ha : parsePrefixComp a = some (pa, ra)) (hca : Win.Complete pa.kind)
    (hb : parsePrefixComp b = some (pb, rb)) (hcb : Win.Complete pb.kind)
    (h : pa.raw = pb.raw) : pa = pb := by
  have h1 := (Win.stable_of_complete ha hca [] (by unfold Win.RestOK; split <;> trivial)).1
  have h2 := (Win.stable_of_complete hb hcb [] (by unfold Win.RestOK; split <;> trivial)).1
  rw [h, h2] at h1
  simp only [Option.some.injEq, Prod.mk.injEq, and_true] at h1
  exact h1.symm

theorem comps_head_not_root (r : Bytes) (hr : C16.pfxStart r = false) (hrel : startsWithSep r = false) :
    ∀ t, comps .windows r ≠ .root :: t := by
  intro t
  rw [C16.win_comps_pf r hr]
  have hrel' := C16b.toks_rel_of_not_startsWithSep r hrel
  cases hts : toks (wsep true) r with
  | nil => simp [compsT]
  | cons t0 ts =>
    rw [compsT_true_cons]
    cases t0 with
    | sep y => exact absurd hts (hrel' y ts)
    | seg sg =>
      intro hE
      simp only [List.cons.injEq] at hE
      have h1 := hE.1
      simp only [headComp, segComp] at h1
      split at h1
      · cases h1
      · split at h1 <;> cases h1

/-- **Windows, complete non-verbatim prefixes on both sides: the base joined with the stripped
remainder equals the path** (remainder not starting like a prefix; a differently spelled prefix
makes `strip_prefix` fail instead: K2). -/
theorem win_strip_join_prefixed (p q r restp restq : Bytes) (pp pq : PrefixComp)
    (hpp : parsePrefixComp p = some (pp, restp)) (hcp : Win.Complete pp.kind) (hnvp : isVerbatimKind pp.kind = false)
    (hpq : parsePrefixComp q = some (pq, restq)) (hcq : Win.Complete pq.kind) (hnvq : isVerbatimKind pq.kind = false)
    (h : stripPrefix .windows p q = some r) (hr : C16.pfxStart r = false) :
    comps .windows p = comps .windows q ++ comps .windows r ∧
    pathEq .windows (push .windows q r) p = true := by
  have hsp := Win.stable_of_complete hpp hcp
  have hokp := Win.restOK_of_complete hpp hcp
  have hnp := Win.normOf_nonverbatim hpp hcp hnvp
  have hap := parsePrefixComp_raw hpp
  have hsq := Win.stable_of_complete hpq hcq
  have hokq := Win.restOK_of_complete hpq hcq
  have hnq := Win.normOf_nonverbatim hpq hcq hnvq
  have haq := parsePrefixComp_raw hpq
  have hcompq : comps .windows q = .pfx pq :: compsT false true (toks (wsep true) restq) := by
    rw [← haq, Win.comps_of_stable hsq restq hokq, hnq]; rfl
  have hcompp : comps .windows p = .pfx pp :: compsT false true (toks (wsep true) restp) := by
    rw [← hap, Win.comps_of_stable hsp restp hokp, hnp]; rfl
  obtain ⟨xs, hsplit, hmap⟩ := win_strip_split_prefixed p q r restp pp hpp hcp hnvp h
    (by rw [hcompq]; simp) hr
  -- the prefixes coincide
  rw [hcompq] at hmap
  cases xs with
  | nil => simp at hmap
  | cons x0 xs' =>
    rw [hcompp] at hsplit
    simp only [List.cons_append, List.cons.injEq] at hsplit
    simp only [List.map_cons, List.cons.injEq] at hmap
    obtain ⟨hx0, htail⟩ := hsplit
    subst hx0
    have hpe : pp = pq := prefix_eq_of_raw hpp hcp hpq hcq hmap.1
    subst hpe
    -- the tails coincide
    have hxs : xs' = compsT false true (toks (wsep true) restq) := by
      refine map_eq_of_inj (Comp.bytes .windows) ?_ hmap.2
      intro x hx y hy hxy
      exact C10b.bytes_inj_of_canonW
        (canonW_compsT restp x (by rw [htail]; simp [hx])) (canonW_compsT restq y hy) hxy
    subst hxs
    have hsplit' : comps .windows p = comps .windows q ++ comps .windows r := by
      rw [hcompp, hcompq, htail]; rfl
    refine ⟨hsplit', ?_⟩
    rw [C05.eq_iff_comps]
    congr 1
    rw [hsplit']
    have hpo := Win.prefixOf_of_comp hpq
    have hcr : comps .windows r = compsT false true (toks (wsep true) r) := C16.win_comps_pf r hr
    by_cases hre : r = []
    · subst hre
      have hnil : comps .windows [] = [] := by rw [C03.comps_new_closed]; decide
      simp [push, windowsPush, hnil]
    · have hrne := comps_ne_nil_of_ne_nil r hr hre
      -- structure of the path's tail
      have hstruct := C16.compsT_structure (wsep true) restp
      cases hrs : startsWithSep r with
      | true =>
        -- a rooted remainder: the base was the bare prefix
        have hrule : rule q r = .rooted := by
          unfold rule baseIsVerbatim
          simp [hre, C16b.prefixOf_none_of_pf r hr, hpo, hnvq, hrs]
        have hbytes : push .windows q r = pp.raw ++ r := by
          rw [show push .windows q r = windowsPush q r from rfl, C08.win_push_bytes q r (by rw [hrule]; decide)]
          unfold joinBytes rawPrefix
          rw [hrule, hpo]
        have hokr : Win.RestOK pp r := by
          unfold Win.RestOK
          split
          · trivial
          · trivial
          · cases r with
            | nil => exact absurd rfl hre
            | cons x t =>
              rw [hnp]
              have : wsep true x = true := by simpa [startsWithSep, anySep] using hrs
              exact this
        have hroot : ∃ t, comps .windows r = .root :: t := by
          cases r with
          | nil => exact absurd rfl hre
          | cons x t =>
            have hx : wsep true x = true := by simpa [startsWithSep, anySep] using hrs
            rw [hcr]
            simp only [toks, hx, if_true]
            rw [compsT_true_cons]
            exact ⟨_, rfl⟩
        obtain ⟨t, ht⟩ := hroot
        have hq0 : compsT false true (toks (wsep true) restq) = [] := by
          rcases hstruct with h0 | ⟨c, rest', h0, _, hrest'⟩
          · rw [h0] at htail
            have := congrArg List.length htail
            simp only [List.length_nil, List.length_append] at this
            exact List.eq_nil_of_length_eq_zero (by omega)
          · rw [h0, ht] at htail
            cases hq' : compsT false true (toks (wsep true) restq) with
            | nil => rfl
            | cons c' q' =>
              exfalso
              rw [hq'] at htail
              simp only [List.cons_append, List.cons.injEq] at htail
              have : Comp.root ∈ rest' := by rw [htail.2]; simp
              rcases hrest' _ this with h' | ⟨s, h', _⟩ <;> cases h'
        rw [hbytes, Win.comps_of_stable hsq r hokr, hnq, hcompq, hq0, hcr]
        rfl
      | false =>
        have hroot' := comps_head_not_root r hr hrs
        obtain ⟨_, hpush⟩ := Win.win_push_comps_prefixed q r restq pp hpq hcq hnvq hre hr hrs
        rw [show push .windows q r = windowsPush q r from rfl, hpush]
        by_cases hrq : restq = []
        · subst hrq
          simp only [if_true]
          have hq0 : compsT false true (toks (wsep true) ([] : Bytes)) = [] := by simp [toks, compsT]
          rw [hq0, List.nil_append] at htail
          cases hk : pp.kind with
          | disk d => simp only []; rw [hcompq, hq0]; rfl
          | verbatim n => rw [hk] at hnvq; cases hnvq
          | verbatimUNC a c => rw [hk] at hnvq; cases hnvq
          | verbatimDisk d => rw [hk] at hnvq; cases hnvq
          | deviceNS dev =>
            exfalso
            -- what follows a device-namespace prefix is empty or starts with a separator
            have hh : Win.HeadOK (wsep true) restp := by
              have := hokp; unfold Win.RestOK at this; rw [hk, hnp] at this; exact this
            cases restp with
            | nil => rw [show compsT false true (toks (wsep true) ([] : Bytes)) = [] from hq0] at htail
                     exact hrne htail.symm
            | cons x t =>
              have hx : wsep true x = true := hh
              simp only [toks, hx, if_true] at htail
              rw [compsT_true_cons] at htail
              exact hroot' _ htail.symm
          | unc sv sh =>
            exfalso
            have hh : Win.HeadOK (wsep true) restp := by
              have := hokp; unfold Win.RestOK at this; rw [hk, hnp] at this; exact this
            cases restp with
            | nil => rw [show compsT false true (toks (wsep true) ([] : Bytes)) = [] from hq0] at htail
                     exact hrne htail.symm
            | cons x t =>
              have hx : wsep true x = true := hh
              simp only [toks, hx, if_true] at htail
              rw [compsT_true_cons] at htail
              exact hroot' _ htail.symm
        · simp only [hrq, if_false]
          have hqne : compsT false true (toks (wsep true) restq) ≠ [] := by
            have : toks (wsep true) restq ≠ [] := by rw [ne_eq, toks_eq_nil_iff]; exact hrq
            cases hts : toks (wsep true) restq with
            | nil => exact absurd hts this
            | cons t r => rw [compsT_true_cons]; simp
          have htl : ∀ x ∈ comps .windows r, C16.tailOKs (wsep true) x := by
            rcases hstruct with h0 | ⟨c, rest', h0, _, hrest'⟩
            · rw [h0] at htail
              have := congrArg List.length htail
              simp only [List.length_nil, List.length_append] at this
              exact absurd (List.eq_nil_of_length_eq_zero (by omega)) hqne
            · intro x hx
              rw [h0] at htail
              cases hq' : compsT false true (toks (wsep true) restq) with
              | nil => exact absurd hq' hqne
              | cons c' q' =>
                rw [hq'] at htail
                simp only [List.cons_append, List.cons.injEq] at htail
                exact hrest' x (by rw [htail.2]; simp [hx])
          have hdl : dropLeadingCur (comps .windows r) = comps .windows r := by
            cases hcr' : comps .windows r with
            | nil => rfl
            | cons c rest =>
              have := htl c (by rw [hcr']; simp)
              cases c with
              | cur => rcases this with h' | ⟨s, h', _⟩ <;> cases h'
              | _ => rfl
          rw [hdl]

/-! ### non-vacuity -/

example : stripPrefix .windows [97, 92, 98, 92, 99] [97, 47] = some [98, 92, 99] := by
  unfold stripPrefix; rw [C03.comps_new_closed]; decide

-- `C:\a\b` stripped of `C:/a` is `b`; `\\s\h\a` stripped of `\\s\h` is `\a` (a rooted remainder)
example : stripPrefix .windows [67, 58, 92, 97, 92, 98] [67, 58, 47, 97] = some [98] := by
  unfold stripPrefix; rw [C03.comps_new_closed]; decide
example : stripPrefix .windows [92, 92, 115, 92, 104, 92, 97] [92, 92, 115, 92, 104] = some [92, 97] := by
  unfold stripPrefix; rw [C03.comps_new_closed]; decide
example : parsePrefixComp [92, 92, 115, 92, 104, 92, 97] = some (⟨[92, 92, 115, 92, 104], .unc [115] [104]⟩, [92, 97]) ∧
    Win.Complete (WPrefix.unc [115] [104]) ∧ isVerbatimKind (WPrefix.unc [115] [104]) = false := by
  refine ⟨by decide, ?_, by decide⟩
  simp [Win.Complete]

end TP.C10c
