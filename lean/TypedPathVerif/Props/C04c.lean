/-
Props/C04c.lean — C04 continued: the "keeps the base" statements for Windows bases that are
prefix-free (`win_checked_keeps_base_pf`) or carry a complete verbatim prefix
(`win_checked_keeps_base_verbatim`).  They are kept in a file of their own, so that only C04's
check depends on the theorems about the forbidden-byte tables (Props/C17) through them.
-/
import TypedPathVerif.Props.C04
import TypedPathVerif.Props.C16b
import TypedPathVerif.Props.C08c
import TypedPathVerif.Props.C04b

namespace TP.C04c

open TP TP.C16 TP.C16b TP.Win TP.JoinRules TP.C08c

/-! ### C04 for prefix-free Windows bases -/

/-- Windows, prefix-free base (not the K3 shape): a successful checked push yields exactly the
base's components followed by the argument's (minus a leading `.`), and the added components
contain no prefix, no root and never climb. -/
theorem win_checked_keeps_base_pf (cur p r : Bytes) (hcur : pfxStart cur = false) (hne : cur ≠ [])
    (h : pushChecked .windows cur p = .ok r) :
    comps .windows r = comps .windows cur ++ dropLeadingCur (comps .windows p) ∧
    C04.allPlain .windows (dropLeadingCur (comps .windows p)) ∧
    C04.neverClimbs 0 (dropLeadingCur (comps .windows p)) := by
  obtain ⟨hacc, hr⟩ := (C04.checked_accepts_iff .windows cur p r).mp h
  refine ⟨?_, C04.dropLeadingCur_sublist_props .windows _ 0 hacc⟩
  subst hr
  by_cases hp : p = []
  · subst hp
    have : comps .windows [] = [] := by rw [C03.comps_new_closed]; decide
    simp [push, windowsPush, this, dropLeadingCur]
  · -- an accepted argument has no prefix and no root
    have hnopre : JoinRules.prefixOf p = none := by
      cases hpo : JoinRules.prefixOf p with
      | none => rfl
      | some q =>
        exfalso
        have hw : wPrefix p = some q := by rw [C08.wPrefix_eq]; exact hpo
        have : Comp.pfx q ∈ comps .windows p := by
          rw [C02.win_decomp]
          unfold WinGrammar.decomp
          unfold JoinRules.prefixOf at hpo
          cases hpc : parsePrefixComp p with
          | none => simp [hpc] at hpo
          | some x =>
            obtain ⟨q', rest⟩ := x
            simp only [hpc, Option.map_some, Option.some.injEq] at hpo
            subst hpo; simp
        have := hacc.1 _ this
        simp [Comp.isPfx] at this
    have hroot : hasRoot .windows p = false := by
      cases hr : hasRoot .windows p with
      | false => rfl
      | true =>
        exfalso
        rw [C02.hasRoot_eq] at hr
        have hd : WinGrammar.decomp p = comps .windows p := (C02.win_decomp p).symm
        rw [hd] at hr
        cases hc : comps .windows p with
        | nil => rw [hc] at hr; simp [C02.hasRootOf] at hr
        | cons c rest =>
          rw [hc] at hr
          cases c with
          | root => exact absurd rfl (hacc.1 .root (by rw [hc]; simp)).2.1
          | pfx q => have := hacc.1 (.pfx q) (by rw [hc]; simp); simp [Comp.isPfx] at this
          | _ => simp [C02.hasRootOf] at hr
    have hrel : JoinRules.startsWithSep p = false := by
      rw [← C08.hasRoot_no_prefix p (by rw [hnopre]; rfl)]; exact hroot
    -- no prefix and no leading separator: p is prefix-free unless it starts like `X:`, which
    -- would be a disk prefix
    have hpp : pfxStart p = false := by
      cases hps : pfxStart p with
      | false => rfl
      | true =>
        exfalso
        match p, hps with
        | a :: c :: rest, hps =>
          simp only [pfxStart, Bool.or_eq_true, Bool.and_eq_true, decide_eq_true_eq] at hps
          rcases hps with ⟨ha, _⟩ | ⟨ha, hc⟩
          · simp [JoinRules.startsWithSep, ha] at hrel
          · subst hc
            have : parsePrefix (a :: COLON :: rest) = some (.disk (toAsciiUpper a), rest) :=
              (C02b.disk_iff _ rest _).mpr ⟨a, rfl, ha, rfl⟩
            unfold JoinRules.prefixOf parsePrefixComp at hnopre
            rw [this] at hnopre
            simp at hnopre
    exact (win_push_comps_pf cur p hcur hne hp hpp hrel).2


/-! ### C04 on verbatim bases -/

/-- when the incoming components never climb, the scan only touches what it added itself -/
theorem fold_neverClimbs : ∀ (cs : List Comp) (ns : List Bytes) (L : List Comp),
    C04.neverClimbs ns.length cs → (∀ c ∈ cs, c = .cur ∨ c = .parent ∨ ∃ s, c = .normal s) →
    verbatimFold (L ++ ns.map Comp.normal) cs = L ++ (C11b.nameFold ns cs).map Comp.normal := by
  intro cs
  induction cs with
  | nil => intro ns L _ _; rfl
  | cons c cs ih =>
    intro ns L hnc hcs
    have hrest : ∀ x ∈ cs, x = .cur ∨ x = .parent ∨ ∃ s, x = .normal s := fun x hx => hcs x (by simp [hx])
    rcases hcs c (by simp) with hc | hc | ⟨s, hc⟩
    · subst hc
      simp only [verbatimFold, C11b.nameFold]
      exact ih ns L hnc hrest
    · subst hc
      obtain ⟨hpos, hnc'⟩ := hnc
      have hne : ns ≠ [] := by intro h0; rw [h0] at hpos; simp at hpos
      obtain ⟨s, hs⟩ : ∃ s, ns.getLast? = some s := by
        cases hg : ns.getLast? with
        | none => exact absurd (List.getLast?_eq_none_iff.mp hg) hne
        | some s => exact ⟨s, rfl⟩
      have hlast : (L ++ ns.map Comp.normal).getLast? = some (.normal s) := by
        rw [Win.getLast?_append_ne _ _ (by simpa using hne), List.getLast?_map, hs]; rfl
      have hdl : (L ++ ns.map Comp.normal).dropLast = L ++ ns.dropLast.map Comp.normal := by
        rw [List.dropLast_append_of_ne_nil (by simpa using hne), List.map_dropLast]
      simp only [verbatimFold, hlast, hdl, C11b.nameFold]
      refine ih ns.dropLast L ?_ hrest
      rw [List.length_dropLast]; exact hnc'
    · subst hc
      simp only [verbatimFold, C11b.nameFold]
      have : L ++ ns.map Comp.normal ++ [Comp.normal s] = L ++ (ns ++ [s]).map Comp.normal := by simp
      rw [this]
      refine ih (ns ++ [s]) L ?_ hrest
      have hl : (ns ++ [s]).length = ns.length + 1 := by simp
      rw [hl]; exact hnc

/-- **Checked join keeps a verbatim-prefixed base.**  If `push_checked` succeeds on a base with a
complete verbatim prefix (followed by nothing or a separator), the result's components are the
base's followed by the names that survive the argument's own `..` cancellations — root after
the prefix written out — and the result keeps the same prefix. -/
theorem win_checked_keeps_base_verbatim (a q r rest : Bytes) (p : PrefixComp)
    (hpa : parsePrefixComp a = some (p, rest)) (hc : Complete p.kind) (hv : isVerbatimKind p.kind = true)
    (hrest : HeadOK (wsep (normOf p.raw)) rest) (hqne : q ≠ [])
    (h : pushChecked .windows a q = .ok r) :
    comps .windows r =
      withRoot (comps .windows a ++ (C11b.nameFold [] (comps .windows q)).map Comp.normal) ∧
    (∀ s ∈ C11b.nameFold [] (comps .windows q), Comp.normal s ∈ comps .windows q) ∧
    ∃ rest', parsePrefixComp r = some (p, rest') := by
  obtain ⟨hacc, hr⟩ := (C04.checked_accepts_iff .windows a q r).mp h
  obtain ⟨hq, hrel⟩ := C04b.accepted_prefix_free q hacc
  obtain ⟨h1, _, rest', _, h3⟩ := win_push_comps_verbatim a q rest p hpa hc hv hrest hqne hq hrel
  rw [hr]
  have hinc := arg_incoming (normOf p.raw) q hq hrel
  have hform : ∀ c ∈ comps .windows q, c = .cur ∨ c = .parent ∨ ∃ s, c = .normal s := by
    intro c hc'
    rcases hinc c hc' with h' | h' | ⟨s, h', _⟩
    · exact Or.inl h'
    · exact Or.inr (Or.inl h')
    · exact Or.inr (Or.inr ⟨s, h'⟩)
  have hfold := fold_neverClimbs (comps .windows q) [] (comps .windows a) (by simpa using hacc.2) hform
  simp only [List.map_nil, List.append_nil] at hfold
  refine ⟨by rw [h1, hfold], ?_, rest', h3⟩
  intro s hs
  rcases C11b.nameFold_subset _ [] s hs with h' | h'
  · simp at h'
  · exact h'


end TP.C04c
