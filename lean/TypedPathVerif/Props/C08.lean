/-
Props/C08.lean — Windows join and push follow the documented joining rules.

`win_push_bytes`: for *all* byte strings a, b (no well-formedness needed) the model's push
produces exactly the bytes `JoinRules.joinBytes` prescribes in the four non-verbatim cases,
and under a verbatim prefix the re-rendering of `JoinRules.verbatimComps`.  The
component-level clause ("a's components followed by b's") is not proved for Windows: it needs
the Windows append lemma and is false at known finding K3 (`win_push_K3_witness`).
-/
import TypedPathVerif.Spec.JoinRules
import TypedPathVerif.Lemmas.Append

namespace TP.C08

open TP JoinRules

/-! ### the queries `push` uses, in terms of the parsed prefix -/

/-- what `Parser::new` builds, by cases on the prefix parse -/
theorem new_windows_cases (b : Bytes) :
    (parsePrefixComp b = none ∧ Enc.new .windows b =
      { pre := none, toks := toks (wsep (!startsWith b VERB)) b, atBeg := true, k := !(!startsWith b VERB) }) ∨
    (∃ p rest, parsePrefixComp b = some (p, rest) ∧ p.raw ++ rest = b ∧ Enc.new .windows b =
      { pre := some p, toks := toks (wsep (!startsWith b VERB)) rest, atBeg := true, k := !(!startsWith b VERB) }) := by
  cases h : parsePrefixComp b with
  | none => left; exact ⟨rfl, by simp [Enc.new, h]⟩
  | some x =>
    obtain ⟨p, rest⟩ := x
    right
    exact ⟨p, rest, rfl, parsePrefixComp_raw h, by simp [Enc.new, h]⟩

theorem headComp_not_pfx (t : Tok) : ∀ p, headComp t ≠ .pfx p := by
  intro p
  cases t with
  | sep x => simp [headComp]
  | seg s => simp only [headComp, segComp]; split <;> (try split) <;> simp

/-- first front step of a prefix-free state at the beginning -/
theorem nextFront_noPre (ts : List Tok) (k : Bool) :
    PState.nextFront { pre := none, toks := ts, atBeg := true, k := k } =
      match ts with
      | [] => none
      | t :: r => some (headComp t, { pre := none, toks := skipFront k r, atBeg := false, k := k }) := by
  cases ts with
  | nil => simp [PState.nextFront, frontT]
  | cons t r => simp [PState.nextFront, frontT_cons_true]

theorem wPrefix_eq (b : Bytes) : wPrefix b = prefixOf b := by
  unfold wPrefix prefixOf
  rcases new_windows_cases b with ⟨h1, h2⟩ | ⟨p, rest, h1, _, h2⟩
  · rw [h2, h1, nextFront_noPre]
    cases toks (wsep (!startsWith b VERB)) b with
    | nil => rfl
    | cons t r =>
      simp only [Option.map_none]
      have := headComp_not_pfx t
      cases hc : headComp t with
      | pfx p => exact absurd hc (this p)
      | _ => rfl
  · rw [h2, h1]; simp [PState.nextFront]

theorem wHasPrefix_eq (b : Bytes) : wHasPrefix b = (prefixOf b).isSome := by
  unfold wHasPrefix; rw [wPrefix_eq]

theorem wPrefixLen_eq (b : Bytes) : wPrefixLen b = (rawPrefix b).length := by
  unfold wPrefixLen rawPrefix; rw [wPrefix_eq]
  cases prefixOf b <;> rfl

theorem wHasAnyVerbatim_eq (a : Bytes) : wHasAnyVerbatimPrefix a = baseIsVerbatim a := by
  unfold wHasAnyVerbatimPrefix wPrefixKind baseIsVerbatim
  rw [wPrefix_eq]
  cases prefixOf a with
  | none => rfl
  | some p =>
    simp only [Option.map_some]
    cases hk : p.kind <;> simp only [isVerbatimKind, WPrefix.tag] <;> decide

theorem isAbsolute_imp_prefix (b : Bytes) (h : isAbsolute .windows b = true) : (prefixOf b).isSome = true := by
  rw [← wHasPrefix_eq]
  unfold wHasPrefix wPrefix
  simp only [isAbsolute] at h
  cases hn : (Enc.new .windows b).nextFront with
  | none => simp [hn] at h
  | some r =>
    obtain ⟨c, s⟩ := r
    cases c <;> simp [hn] at h ⊢

theorem orElse_isSome {α} (a : Option α) (f : Unit → Option α) :
    (a.orElse f).isSome = (a.isSome || (f ()).isSome) := by
  cases a <;> simp [Option.orElse]

theorem verb_has_prefix (b : Bytes) (h : startsWith b VERB = true) : (prefixOf b).isSome = true := by
  -- a path starting with `\\?\` always parses at least as the UNC prefix with server `?`
  have hb : ∃ rest, b = 92 :: 92 :: 63 :: 92 :: rest := by
    unfold startsWith VERB at h
    match b with
    | [] => simp [List.isPrefixOf] at h
    | [_] => simp [List.isPrefixOf] at h
    | [_, _] => simp [List.isPrefixOf] at h
    | [_, _, _] => simp [List.isPrefixOf] at h
    | x0 :: x1 :: x2 :: x3 :: rest =>
      simp only [List.isPrefixOf, Bool.and_eq_true, beq_iff_eq, BSLASH, QMARK] at h
      obtain ⟨h0, h1, h2, h3, _⟩ := h
      exact ⟨rest, by rw [← h0, ← h1, ← h2, ← h3]⟩
  obtain ⟨rest, hb⟩ := hb
  subst hb
  have hunc : (prefixUNC (92 :: 92 :: 63 :: 92 :: rest)).isSome = true := by
    have h1 : takeNormal true (63 :: 92 :: rest) = some ([63], 92 :: rest) := by
      simp [takeNormal, wsep, BSLASH, SLASH]
    have hss : (serverShare true (63 :: 92 :: rest)).isSome = true := by
      unfold serverShare
      rw [h1]
      simp only
      cases takeNormal true (maybeSep true (92 :: rest)) with
      | none => rfl
      | some x => rfl
    have ha : (anySep 92 && anySep 92) = true := by decide
    simp only [prefixUNC, ha, if_true]
    cases hs : serverShare true (63 :: 92 :: rest) with
    | none => rw [hs] at hss; cases hss
    | some x => rfl
  unfold prefixOf parsePrefixComp
  have : (parsePrefix (92 :: 92 :: 63 :: 92 :: rest)).isSome = true := by
    unfold parsePrefix
    simp only [orElse_isSome, hunc, Bool.or_true, Bool.true_or]
  cases hp : parsePrefix (92 :: 92 :: 63 :: 92 :: rest) with
  | none => rw [hp] at this; cases this
  | some x => simp

theorem toks_head_is_sep (isSep : UInt8 → Bool) (b : Bytes) :
    (match toks isSep b with | .sep _ :: _ => true | _ => false) =
      (match b with | x :: _ => isSep x | [] => false) := by
  cases b with
  | nil => rfl
  | cons x xs =>
    by_cases hx : isSep x = true
    · simp [toks, hx]
    · simp only [toks, hx, Bool.false_eq_true, if_false]
      cases toks isSep xs with
      | nil => rfl
      | cons t r => cases t <;> rfl

/-- without a prefix, `has_root` says whether the path starts with a separator of either kind -/
theorem hasRoot_no_prefix (b : Bytes) (h : (prefixOf b).isSome = false) :
    hasRoot .windows b = startsWithSep b := by
  have hnv : startsWith b VERB = false := by
    cases hv : startsWith b VERB with
    | false => rfl
    | true => rw [verb_has_prefix b hv] at h; cases h
  rcases new_windows_cases b with ⟨_, h2⟩ | ⟨p, rest, h1, _, _⟩
  · simp only [hasRoot]
    rw [h2, nextFront_noPre, hnv]
    simp only [Bool.not_false]
    have key : ∀ (s : Bytes), segComp true s ≠ .root ∧ ∀ q, segComp true s ≠ .pfx q := by
      intro s
      have hp := headComp_not_pfx (.seg s)
      simp only [headComp] at hp
      exact ⟨C01.segComp_ne_root true s, hp⟩
    cases b with
    | nil => rfl
    | cons x xs =>
      unfold startsWithSep anySep
      by_cases hx : wsep true x = true
      · simp [toks, hx, headComp]
      · simp only [toks, hx, Bool.false_eq_true, if_false]
        have hfin : ∀ (s : Bytes) (r : List Tok),
            (match (some (headComp (Tok.seg s), ({ pre := none, toks := skipFront (!true) r, atBeg := false, k := !true } : PState)) : Option (Comp × PState)) with
              | some (Comp.root, _) => true
              | some (Comp.pfx p, st) =>
                (match p.kind with
                | WPrefix.disk _ => (match st.nextFront with | some (Comp.root, _) => true | _ => false)
                | WPrefix.verbatimDisk _ => (match st.nextFront with | some (Comp.root, _) => true | _ => false)
                | _ => true)
              | _ => false) = false := by
          intro s r
          simp only [headComp]
          obtain ⟨k1, k2⟩ := key s
          cases hc : segComp true s with
          | root => exact absurd hc k1
          | pfx q => exact absurd hc (k2 q)
          | _ => rfl
        cases toks (wsep true) xs with
        | nil => exact hfin [x] []
        | cons t r =>
          cases t with
          | sep y => exact hfin [x] _
          | seg s => exact hfin (x :: s) r
  · unfold prefixOf at h; simp [h1] at h

/-! ### the byte rule -/

/-- `is_only_disk`, in terms of the parsed prefix: a disk prefix with nothing after it -/
theorem wIsOnlyDisk_eq (a : Bytes) : wIsOnlyDisk a = isBareDrive a := by
  unfold wIsOnlyDisk isBareDrive wHasKindIn wPrefixKind
  rw [wPrefix_eq]
  unfold prefixOf
  rcases new_windows_cases a with ⟨h1, _⟩ | ⟨p, rest, h1, hraw, h2⟩
  · simp [h1]
  · rw [h1, h2]
    simp only [Option.map_some, PState.nextFront]
    have hk : (Generated.diskTags.contains p.kind.tag) = (match p.kind with | .disk _ => true | _ => false) := by
      cases p.kind <;> rfl
    rw [hk]
    have hiff : (a = p.raw) ↔ rest = [] := by
      constructor
      · intro h
        have := congrArg List.length hraw
        rw [h] at this
        simp only [List.length_append] at this
        exact List.eq_nil_of_length_eq_zero (by omega)
      · intro h; rw [← hraw, h]; simp
    cases hkind : p.kind with
    | disk d =>
      simp only [Bool.true_and]
      by_cases hr : rest = []
      · subst hr
        simp [toks, frontT, hiff.mpr rfl]
      · have hne : toks (wsep (!startsWith a VERB)) rest ≠ [] := by
          rw [ne_eq, toks_eq_nil_iff]; exact hr
        have hna : a ≠ p.raw := fun h => hr (hiff.mp h)
        cases htk : toks (wsep (!startsWith a VERB)) rest with
        | nil => exact absurd htk hne
        | cons t r =>
          rw [frontT_cons_true]
          simp [hna]
    | _ => simp

theorem rawPrefix_is_prefix (a : Bytes) : ∃ rest, rawPrefix a ++ rest = a := by
  unfold rawPrefix prefixOf
  cases hpc : parsePrefixComp a with
  | none => exact ⟨a, rfl⟩
  | some x =>
    obtain ⟨p', rest⟩ := x
    exact ⟨rest, parsePrefixComp_raw hpc⟩

theorem prefixOf_some {a : Bytes} {p : PrefixComp} (h : prefixOf a = some p) : ∃ rest, p.raw ++ rest = a := by
  unfold prefixOf at h
  cases hpc : parsePrefixComp a with
  | none => simp [hpc] at h
  | some x =>
    obtain ⟨p', rest⟩ := x
    simp only [hpc, Option.map_some, Option.some.injEq] at h
    subst h
    exact ⟨rest, parsePrefixComp_raw hpc⟩

/-- For every base `a` without a verbatim prefix and every `b`: the result's bytes are what the
documented rules prescribe — `a` for an empty `b`; `b` when `b` has a prefix; `a`'s raw prefix
followed by `b` when `b` starts with a separator; otherwise `a`, one `\` unless `a` is empty,
already ends in a separator of either kind or is a bare drive, then `b`. -/
theorem win_push_bytes (a b : Bytes) (h : rule a b ≠ .verbatim) :
    windowsPush a b = joinBytes a b := by
  unfold windowsPush joinBytes
  unfold rule at h ⊢
  by_cases hb : b = []
  · simp [hb]
  · simp only [hb, if_false] at h ⊢
    by_cases hp : (prefixOf b).isSome = true
    · simp [hp, wHasPrefix_eq]
    · have hp' : (prefixOf b).isSome = false := by simpa using hp
      have hna : isAbsolute .windows b = false := by
        cases ha : isAbsolute .windows b with
        | false => rfl
        | true => rw [isAbsolute_imp_prefix b ha] at hp'; cases hp'
      simp only [hp', Bool.false_eq_true, if_false, hna, wHasPrefix_eq, Bool.or_self] at h ⊢
      rw [wHasAnyVerbatim_eq]
      by_cases hv : baseIsVerbatim a = true
      · rw [if_pos hv] at h; exact absurd rfl h
      · simp only [hv, Bool.false_eq_true, if_false] at h ⊢
        rw [hasRoot_no_prefix b hp']
        by_cases hr : startsWithSep b = true
        · simp only [hr, if_true, wPrefixLen_eq]
          obtain ⟨rest, hrest⟩ := rawPrefix_is_prefix a
          have htake : a.take (rawPrefix a).length = rawPrefix a := by
            generalize rawPrefix a = P at hrest
            rw [← hrest]; simp
          rw [htake]
        · simp only [hr, Bool.false_eq_true, if_false, wIsOnlyDisk_eq, endsWithSep]
          by_cases ha : a = []
          · simp [ha]
          · by_cases h1 : a.getLast? = some BSLASH
            · simp [ha, h1]
            · by_cases h2 : a.getLast? = some SLASH
              · simp [ha, h1, h2]
              · by_cases h3 : isBareDrive a = true
                · simp [ha, h1, h2, h3]
                · simp [ha, h1, h2, h3]

/-- Under a verbatim prefix the result is the re-rendering of `a`'s components followed by
`b`'s, normalised as documented (`.` dropped, `..` cancels a preceding normal component only,
a root resets to the prefix). -/
theorem win_push_verbatim (a b : Bytes) (h : rule a b = .verbatim) :
    windowsPush a b = verbatimRender false (verbatimComps (comps .windows a) (comps .windows b)) := by
  unfold rule at h
  unfold windowsPush verbatimComps
  by_cases hb : b = []
  · simp [hb] at h
  · simp only [hb, if_false] at h ⊢
    by_cases hp : (prefixOf b).isSome = true
    · simp [hp] at h
    · have hp' : (prefixOf b).isSome = false := by simpa using hp
      have hna : isAbsolute .windows b = false := by
        cases ha : isAbsolute .windows b with
        | false => rfl
        | true => rw [isAbsolute_imp_prefix b ha] at hp'; cases hp'
      simp only [hp', Bool.false_eq_true, if_false, hna, wHasPrefix_eq, Bool.or_self] at h ⊢
      rw [wHasAnyVerbatim_eq]
      by_cases hv : baseIsVerbatim a = true
      · simp [hv]
      · simp only [hv, Bool.false_eq_true, if_false] at h
        split at h <;> cases h

/-- the verbatim fold never removes the prefix or the root, and never keeps a `.` of `b` -/
theorem verbatimFold_no_cur_added (buf : List Comp) : ∀ (cb : List Comp),
    (∀ c ∈ verbatimFold buf cb, c = .cur → c ∈ buf) := by
  intro cb
  induction cb generalizing buf with
  | nil => intro c hc _; exact hc
  | cons x cb ih =>
    intro c hc hcur
    cases x with
    | cur => exact ih buf c hc hcur
    | root =>
      simp only [verbatimFold] at hc
      have := ih _ c hc hcur
      rcases List.mem_append.mp this with h | h
      · exact List.mem_of_mem_take h
      · simp at h; rw [hcur] at h; cases h
    | parent =>
      simp only [verbatimFold] at hc
      split at hc
      · exact (List.dropLast_sublist _).subset (ih _ c hc hcur)
      · exact ih _ c hc hcur
    | normal s =>
      simp only [verbatimFold] at hc
      have := ih _ c hc hcur
      rcases List.mem_append.mp this with h | h
      · exact h
      · simp at h; rw [hcur] at h; cases h
    | pfx p =>
      simp only [verbatimFold] at hc
      have := ih _ c hc hcur
      rcases List.mem_append.mp this with h | h
      · exact h
      · simp at h; rw [hcur] at h; cases h

/-- An empty `b` changes nothing. -/
theorem win_push_empty (a : Bytes) : windowsPush a [] = a := by simp [windowsPush]

/-- sequences of pushes from a buffer (`Extend` / `FromIterator` = repeated push) -/
def pushes (buf : Bytes) : List Bytes → Bytes
  | [] => buf
  | p :: ps => pushes (push .windows buf p) ps

theorem pushes_follow_rules (buf : Bytes) (ps : List Bytes)
    (h : ∀ (pre : List Bytes) (p : Bytes) (post : List Bytes), ps = pre ++ p :: post →
      rule (pushes buf pre) p ≠ .verbatim) :
    pushes buf ps = ps.foldl joinBytes buf := by
  induction ps generalizing buf with
  | nil => rfl
  | cons p ps ih =>
    simp only [pushes, List.foldl_cons]
    have h0 := h [] p ps rfl
    simp only [pushes] at h0
    have hpush : push .windows buf p = joinBytes buf p := win_push_bytes buf p h0
    rw [hpush]
    apply ih
    intro pre q post hq
    have := h (p :: pre) q post (by rw [hq]; rfl)
    simp only [pushes] at this
    rw [hpush] at this
    exact this

/-! ### known finding K3 -/

/-- K3 witness: `\\` + `a` is `\\a`, whose only component is a UNC prefix, although the base's
only component was the root. -/
theorem win_push_K3_witness :
    windowsPush [92, 92] [97] = [92, 92, 97] ∧ rule [92, 92] [97] = .append ∧
    comps .windows [92, 92] = [.root] ∧
    comps .windows [92, 92, 97] = [.pfx ⟨[92, 92, 97], .unc [97] []⟩] := by
  refine ⟨?_, by decide, ?_, ?_⟩
  · rw [win_push_bytes _ _ (by decide)]; decide
  · rw [C03.comps_new_closed]; decide
  · rw [C03.comps_new_closed]; decide

/-! ### Non-vacuity -/

example : rule [67, 58, 92, 97] [98] = .append ∧ joinBytes [67, 58, 92, 97] [98] = [67, 58, 92, 97, 92, 98] := by decide
example : rule [67, 58] [97] = .append ∧ joinBytes [67, 58] [97] = [67, 58, 97] := by decide
example : rule [67, 58, 92, 97] [92, 98] = .rooted ∧ joinBytes [67, 58, 92, 97] [92, 98] = [67, 58, 92, 98] := by decide
example : rule [92, 92, 63, 92, 67, 58, 92, 97] [46, 46] = .verbatim := by decide
example : joinBytes [97, 47] [98] = [97, 47, 98] := by decide

end TP.C08
