/-
Props/C20.lean — Feature configuration does not change path semantics.

`Generated/Sites.lean` lists every conditional-compilation attribute of /repo/src (outside
test modules) whose predicate mentions a cargo feature, as the source has them *now*.
`cfg_additive` is kernel evaluation over the whole table: the only feature ever tested is `std`;
it is tested *negatively* only by the crate-level `#![cfg_attr(not(feature = "std"), no_std)]`;
every other site is a positive guard on a whole item (impl / fn / mod / use / struct …) or a
crate-level doc attribute — never on a statement, expression, match arm or an alternative body.

Consequence (read off the table, not a theorem about Rust): the items compiled without `std` are
a subset of the items compiled with it, from identical source text, so no operation that exists
in both configurations has two definitions.  What the table cannot exclude — code that asks
`cfg!(feature = "std")` at run time, or a dependency behaving differently — is covered by running
both builds on the same operations against the one model (the correspondence of this check).
-/
import TypedPathVerif.Generated.Sites
import TypedPathVerif.Generated.Api

namespace TP.C20

open TP.Generated

def siteOK (s : CfgSite) : Bool :=
  -- only the `std` feature is ever tested
  s.leaves.all (fun l => l.1) &&
  -- a negated leaf occurs only in the crate-level `cfg_attr(not(feature = "std"), no_std)`
  (s.leaves.all (fun l => !l.2) || (s.inner && s.isCfgAttr && s.applied == 1)) &&
  -- a guard covers a whole item (or the crate), never a statement / expression
  (s.item != 20) &&
  -- a cfg_attr applies only `no_std` or documentation
  (!s.isCfgAttr || s.applied == 1 || s.applied == 2)

/-- The `std` feature is purely additive at every conditional-compilation site of the crate. -/
theorem cfg_additive : cfgSites.all siteOK = true := by decide

/-- no run-time `cfg!(feature = …)` test exists that the attribute table would miss -/
theorem no_runtime_feature_test : cfgMacroFeatureUses = 0 := by decide

/-- there is something to check (non-vacuity): the table is not empty and contains the
`no_std` switch -/
theorem cfg_sites_nonempty :
    cfgSites.length ≥ 10 ∧ cfgSites.any (fun s => s.inner && s.applied == 1) = true := by decide

/-- every public method the `base` group of source files declares now is called by the harness
(regenerated table, gen/api.py): a method added without a transcript line breaks this -/
theorem api_exercised_base : Generated.apiUnexercised_base = [] := rfl

end TP.C20
