/-
Props/C11.lean — normalize resolves `.` and `..` lexically, idempotently, never above the root.

`normFold` (Model/Path.lean) *is* the documented scan: drop `.`; `..` cancels the nearest
preceding normal component and otherwise vanishes; everything else (prefix, root, names) is
kept.  What needs proof is that rebuilding the path by pushing the kept components one by one
yields bytes that parse back to exactly those components — the render lemma.  Proved for Unix;
for Windows it needs the Windows append lemma and is decided by the oracle on every run.
-/
import TypedPathVerif.Props.C06
import TypedPathVerif.Props.C07

namespace TP.C11

open TP

/-- a byte string that parses as exactly one normal component -/
def nameOK (s : Bytes) : Prop := s ≠ [] ∧ (∀ y ∈ s, usep y = false) ∧ s ≠ CUR ∧ s ≠ PAR

theorem comps_name (s : Bytes) (h : nameOK s) : comps .unix s = [.normal s] := by
  obtain ⟨h1, h2, h3, h4⟩ := h
  rw [unix_comps_eq]
  have : toks usep s = [.seg s] := by
    have := toks_append_seg usep s [] [] h1 h2 rfl trivial
    simpa using this
  rw [this, compsT_true_cons]
  simp [headComp, segComp, h3, h4]

theorem name_not_absolute (s : Bytes) (h : nameOK s) : isAbsolute .unix s = false := by
  cases hs : s with
  | nil => exact absurd hs h.1
  | cons x xs =>
    have hx : usep x = false := h.2.1 x (by rw [hs]; simp)
    have : x ≠ SLASH := by simpa [usep] using hx
    rw [C07.unix_isAbsolute_head]
    simp [this]

/-- a list made of an optional leading root followed by good names only -/
def Shape (l : List Comp) : Prop :=
  ∃ ns : List Bytes, (l = ns.map Comp.normal ∨ l = .root :: ns.map Comp.normal) ∧ ∀ s ∈ ns, nameOK s

/-- components that may follow the first one in a parsed Unix path -/
def tailOK (c : Comp) : Prop :=
  c = .parent ∨ ∃ s, c = .normal s ∧ nameOK s

theorem seg_nameOK {ts : List Tok} (hw : WFToks usep ts) (s : Bytes) (hs : Tok.seg s ∈ ts)
    (h3 : s ≠ CUR) (h4 : s ≠ PAR) : nameOK s := by
  induction ts with
  | nil => simp at hs
  | cons t r ih =>
    cases t with
    | sep x =>
      rcases List.mem_cons.mp hs with h | h
      · cases h
      · exact ih hw.2 h
    | seg s' =>
      rcases List.mem_cons.mp hs with h | h
      · cases h; exact ⟨hw.1, hw.2.1, h3, h4⟩
      · exact ih hw.2.2.2 h

theorem body_tailOK {ts : List Tok} (hw : WFToks usep ts) : ∀ c ∈ body false ts, tailOK c := by
  induction ts with
  | nil => intro c h; simp at h
  | cons t r ih =>
    intro c h
    have hwr := WFToks_tail hw
    cases t with
    | sep x => rw [body_cons_junk r (by rfl)] at h; exact ih hwr c h
    | seg s =>
      by_cases hj : junk false (.seg s) = true
      · rw [body_cons_junk r hj] at h; exact ih hwr c h
      · have hj' : junk false (.seg s) = false := by simpa using hj
        have hne : s ≠ CUR := by simpa [junk] using hj'
        rw [body_cons_seg r hj'] at h
        rcases List.mem_cons.mp h with h | h
        · subst h
          unfold segComp
          by_cases hp : s = PAR
          · simp [hp, tailOK]
          · simp only [hp, if_false, hne, false_and]
            exact Or.inr ⟨s, rfl, seg_nameOK hw s (by simp) hne hp⟩
        · exact ih hwr c h

/-- the parsed components: a first component (root, `.`, `..` or a good name), then only `..`
and good names -/
theorem comps_structure (b : Bytes) :
    comps .unix b = [] ∨ ∃ c rest, comps .unix b = c :: rest ∧
      (c = .root ∨ c = .cur ∨ tailOK c) ∧ ∀ x ∈ rest, tailOK x := by
  rw [unix_comps_eq]
  have hw := WFToks_toks usep b
  cases hts : toks usep b with
  | nil => left; rfl
  | cons t r =>
    right
    rw [hts] at hw
    rw [compsT_true_cons]
    refine ⟨headComp t, body false r, rfl, ?_, body_tailOK (WFToks_tail hw)⟩
    cases t with
    | sep x => left; rfl
    | seg s =>
      simp only [headComp, segComp]
      by_cases hp : s = PAR
      · simp [hp, tailOK]
      · by_cases hc : s = CUR
        · subst hc
          right; left
          simp [CUR, PAR]
        · simp only [hp, if_false, hc, false_and]
          exact Or.inr (Or.inr (Or.inr ⟨s, rfl, seg_nameOK hw s (by simp) hc hp⟩))

theorem Shape_dropLast {l : List Comp} (h : Shape l) (s : Bytes) (hl : l.getLast? = some (.normal s)) :
    Shape l.dropLast := by
  obtain ⟨ns, hns, hok⟩ := h
  have hne : ns ≠ [] := by
    intro h0; subst h0
    rcases hns with h | h <;> (rw [h] at hl; simp at hl)
  refine ⟨ns.dropLast, ?_, fun s' hs' => hok s' ((List.dropLast_sublist ns).subset hs')⟩
  have hmap : (ns.map Comp.normal).dropLast = ns.dropLast.map Comp.normal := by
    rw [List.map_dropLast]
  rcases hns with h | h
  · left; rw [h, hmap]
  · right
    rw [h]
    cases hns' : ns with
    | nil => exact absurd hns' hne
    | cons x xs => simp [List.dropLast]

/-- the fold keeps the shape when fed with tail components -/
theorem normFold_shape : ∀ (cs : List Comp) (stack : List Comp), Shape stack → (∀ c ∈ cs, tailOK c) →
    Shape (normFold stack cs) := by
  intro cs
  induction cs with
  | nil => intro stack h _; exact h
  | cons c cs ih =>
    intro stack hs hcs
    have hc := hcs c (by simp)
    have hrest : ∀ x ∈ cs, tailOK x := fun x hx => hcs x (by simp [hx])
    rcases hc with hc | ⟨s, hc, hok⟩
    · subst hc
      simp only [normFold, Comp.isCur, Comp.isParent, Bool.not_false, Bool.not_true, Bool.and_false,
        Bool.false_eq_true, if_false, if_true]
      cases hl : stack.getLast? with
      | none => exact ih stack hs hrest
      | some l =>
        simp only
        cases l with
        | normal s => simp only [Comp.isNormal, if_true]; exact ih _ (Shape_dropLast hs s hl) hrest
        | _ => simp only [Comp.isNormal, Bool.false_eq_true, if_false]; exact ih stack hs hrest
    · subst hc
      simp only [normFold, Comp.isCur, Comp.isParent, Bool.not_false, Bool.and_self, if_true]
      apply ih _ _ hrest
      obtain ⟨ns, hns, hoks⟩ := hs
      refine ⟨ns ++ [s], ?_, ?_⟩
      · rcases hns with h | h
        · left; rw [h]; simp
        · right; rw [h]; simp
      · intro s' hs'
        rcases List.mem_append.mp hs' with h | h
        · exact hoks s' h
        · simp at h; rw [h]; exact hok

/-- The fold of a parsed Unix path has the shape "optional root, then names". -/
theorem normFold_comps_shape (b : Bytes) : Shape (normFold [] (comps .unix b)) := by
  rcases comps_structure b with h | ⟨c, rest, h, hc, hrest⟩
  · rw [h]; exact ⟨[], Or.inl rfl, by simp⟩
  · rw [h]
    rcases hc with hc | hc | hc
    · subst hc
      simp only [normFold, Comp.isCur, Comp.isParent, Bool.not_false, Bool.and_self, if_true, List.nil_append]
      exact normFold_shape rest _ ⟨[], Or.inr rfl, by simp⟩ hrest
    · subst hc
      simp only [normFold, Comp.isCur, Comp.isParent, Bool.not_true, Bool.false_and, Bool.false_eq_true,
        if_false]
      exact normFold_shape rest _ ⟨[], Or.inl rfl, by simp⟩ hrest
    · exact normFold_shape (c :: rest) [] ⟨[], Or.inl rfl, by simp⟩
        (fun x hx => by rcases List.mem_cons.mp hx with h' | h'; (rw [h']; exact hc); exact hrest x h')

/-! ### the render lemma -/

theorem pushAll_names (buf : Bytes) (hbuf : buf ≠ []) : ∀ (ns : List Bytes), (∀ s ∈ ns, nameOK s) →
    ∀ buf, buf ≠ [] → comps .unix (pushAll .unix buf (ns.map Comp.normal)) =
      comps .unix buf ++ ns.map Comp.normal := by
  intro ns
  induction ns with
  | nil => intro _ buf _; simp [pushAll]
  | cons s ns ih =>
    intro hok buf hb
    have hs := hok s (by simp)
    simp only [List.map_cons, pushAll, Comp.bytes, push]
    have hpush := unix_push_comps buf s hs.1 (name_not_absolute s hs) hb
    have hne : unixPush buf s ≠ [] := by
      intro h0
      have := congrArg (comps .unix) h0
      rw [hpush, comps_name s hs] at this
      have hnil : comps .unix [] = [] := by rw [unix_comps_eq]; rfl
      rw [hnil] at this
      simp [dropLeadingCur] at this
    rw [ih (fun s' hs' => hok s' (by simp [hs'])) _ hne, hpush, comps_name s hs]
    simp [dropLeadingCur]

/-- Rendering a shaped list by pushing its components one by one onto an empty buffer yields
bytes that parse back to exactly that list. -/
theorem render_shape (l : List Comp) (h : Shape l) : comps .unix (pushAll .unix [] l) = l := by
  obtain ⟨ns, hns, hok⟩ := h
  have hnil : comps .unix [] = [] := by rw [unix_comps_eq]; rfl
  rcases hns with h | h
  · subst h
    cases ns with
    | nil => simpa [pushAll] using hnil
    | cons s ns =>
      have hs := hok s (by simp)
      simp only [List.map_cons, pushAll, Comp.bytes, push]
      have h1 : unixPush [] s = s := by
        unfold unixPush
        simp only [hs.1, if_false, name_not_absolute s hs, Bool.false_eq_true, ne_eq, not_true_eq_false,
          false_and, List.nil_append]
      rw [h1, pushAll_names s hs.1 ns (fun s' hs' => hok s' (by simp [hs'])) s hs.1, comps_name s hs]
      rfl
  · subst h
    simp only [pushAll, Comp.bytes, push, Enc.sepByte]
    have h1 : unixPush [] [SLASH] = [SLASH] := by decide
    have hroot : comps .unix [SLASH] = [.root] := by rw [unix_comps_eq]; decide
    rw [h1, pushAll_names [SLASH] (by simp) ns hok [SLASH] (by simp), hroot]
    rfl

/-- Unix: the normalised path parses to exactly the documented fold of the input's components. -/
theorem unix_normalize_comps (b : Bytes) :
    comps .unix (normalize .unix b) = normFold [] (comps .unix b) :=
  render_shape _ (normFold_comps_shape b)

/-- Hence it contains no `.` and no `..`, … -/
theorem unix_normalize_no_dots (b : Bytes) :
    ∀ c ∈ comps .unix (normalize .unix b), c ≠ .cur ∧ c ≠ .parent := by
  rw [unix_normalize_comps]
  obtain ⟨ns, hns, _⟩ := normFold_comps_shape b
  intro c hc
  rcases hns with h | h
  · rw [h] at hc
    obtain ⟨s, _, rfl⟩ := List.mem_map.mp hc
    simp
  · rw [h] at hc
    rcases List.mem_cons.mp hc with h' | h'
    · rw [h']; simp
    · obtain ⟨s, _, rfl⟩ := List.mem_map.mp h'
      simp

theorem normFold_names (ns : List Bytes) (stack : List Comp) :
    normFold stack (ns.map Comp.normal) = stack ++ ns.map Comp.normal := by
  induction ns generalizing stack with
  | nil => simp [normFold]
  | cons s ns ih =>
    simp only [List.map_cons, normFold, Comp.isCur, Comp.isParent, Bool.not_false, Bool.and_self, if_true]
    rw [ih]; simp

theorem normFold_shape_id (l : List Comp) (h : Shape l) : normFold [] l = l := by
  obtain ⟨ns, hns, _⟩ := h
  rcases hns with h | h
  · rw [h, normFold_names]; rfl
  · rw [h]
    simp only [normFold, Comp.isCur, Comp.isParent, Bool.not_false, Bool.and_self, if_true, List.nil_append]
    rw [normFold_names]; rfl

/-- … and normalising it again returns the same bytes. -/
theorem unix_normalize_idempotent (b : Bytes) :
    normalize .unix (normalize .unix b) = normalize .unix b := by
  have h := unix_normalize_comps b
  unfold normalize at h ⊢
  rw [h, normFold_shape_id _ (normFold_comps_shape b)]

/-- it keeps the root: rooted exactly when the input is -/
theorem unix_normalize_keeps_root (b : Bytes) :
    (comps .unix (normalize .unix b)).head? = some .root ↔ (comps .unix b).head? = some .root := by
  rw [unix_normalize_comps]
  rcases comps_structure b with h | ⟨c, rest, h, hc, hrest⟩
  · rw [h]; simp [normFold]
  · rw [h]
    have hshape : ∀ (stack : List Comp) (x : Comp), stack.head? = some x → Shape stack →
        (normFold stack rest).head? = some x ∨ True := fun _ _ _ _ => Or.inr trivial
    rcases hc with hc | hc | hc
    · subst hc
      simp only [normFold, Comp.isCur, Comp.isParent, Bool.not_false, Bool.and_self, if_true, List.nil_append,
        List.head?_cons, iff_true]
      -- the root at the bottom of the stack is never popped: `..` pops names only
      have key : ∀ (cs : List Comp) (st : List Comp), (∀ x ∈ cs, tailOK x) → st.head? = some .root → Shape st →
          (normFold st cs).head? = some .root := by
        intro cs
        induction cs with
        | nil => intro st _ h _; exact h
        | cons y cs ih =>
          intro st hcs hh hs
          have hy := hcs y (by simp)
          have hr : ∀ x ∈ cs, tailOK x := fun x hx => hcs x (by simp [hx])
          rcases hy with hy | ⟨s, hy, hok⟩
          · subst hy
            simp only [normFold, Comp.isCur, Comp.isParent, Bool.not_false, Bool.not_true, Bool.and_false,
              Bool.false_eq_true, if_false, if_true]
            cases hl : st.getLast? with
            | none => exact ih st hr hh hs
            | some l =>
              simp only
              cases l with
              | normal s =>
                simp only [Comp.isNormal, if_true]
                apply ih _ hr _ (Shape_dropLast hs s hl)
                -- the stack has at least two elements (root first, a name last)
                cases st with
                | nil => simp at hh
                | cons a st' =>
                  simp only [List.head?_cons, Option.some.injEq] at hh
                  subst hh
                  cases st' with
                  | nil => simp at hl
                  | cons b' st'' => simp [List.dropLast]
              | _ => simp only [Comp.isNormal, Bool.false_eq_true, if_false]; exact ih st hr hh hs
          · subst hy
            simp only [normFold, Comp.isCur, Comp.isParent, Bool.not_false, Bool.and_self, if_true]
            apply ih _ hr
            · cases st with
              | nil => simp at hh
              | cons a st' => simpa using hh
            · obtain ⟨ns, hns, hoks⟩ := hs
              refine ⟨ns ++ [s], ?_, ?_⟩
              · rcases hns with h' | h'
                · left; rw [h']; simp
                · right; rw [h']; simp
              · intro s' hs'
                rcases List.mem_append.mp hs' with h' | h'
                · exact hoks s' h'
                · simp at h'; rw [h']; exact hok
      exact key rest [.root] hrest rfl ⟨[], Or.inr rfl, by simp⟩
    · subst hc
      simp only [normFold, Comp.isCur, Comp.isParent, Bool.not_true, Bool.false_and, Bool.false_eq_true, if_false,
        List.head?_cons, Option.some.injEq, reduceCtorEq, iff_false]
      intro hcontra
      obtain ⟨ns, hns, _⟩ := normFold_shape rest [] ⟨[], Or.inl rfl, by simp⟩ hrest
      -- a fold started from the empty stack over tail components never contains a root
      have hnoroot : ∀ (cs st : List Comp), (∀ x ∈ cs, tailOK x) → (∀ x ∈ st, x ≠ .root) →
          ∀ x ∈ normFold st cs, x ≠ .root := by
        intro cs
        induction cs with
        | nil => intro st _ h; exact h
        | cons y cs ih =>
          intro st hcs hst
          have hy := hcs y (by simp)
          have hr : ∀ x ∈ cs, tailOK x := fun x hx => hcs x (by simp [hx])
          rcases hy with hy | ⟨s, hy, _⟩
          · subst hy
            simp only [normFold, Comp.isCur, Comp.isParent, Bool.not_false, Bool.not_true, Bool.and_false,
              Bool.false_eq_true, if_false, if_true]
            cases st.getLast? with
            | none => exact ih st hr hst
            | some l =>
              simp only
              split
              · exact ih _ hr (fun x hx => hst x ((List.dropLast_sublist st).subset hx))
              · exact ih st hr hst
          · subst hy
            simp only [normFold, Comp.isCur, Comp.isParent, Bool.not_false, Bool.and_self, if_true]
            apply ih _ hr
            intro x hx
            rcases List.mem_append.mp hx with h' | h'
            · exact hst x h'
            · simp at h'; rw [h']; simp
      have := hnoroot rest [] hrest (by simp)
      cases hf : normFold [] rest with
      | nil => rw [hf] at hcontra; simp at hcontra
      | cons x xs =>
        rw [hf] at hcontra
        simp only [List.head?_cons, Option.some.injEq] at hcontra
        exact this x (by rw [hf]; simp) hcontra
    · have hcr : c ≠ .root := by
        rcases hc with hc | ⟨s, hc, _⟩ <;> (rw [hc]; simp)
      simp only [List.head?_cons, Option.some.injEq, hcr, iff_false]
      intro hcontra
      have hnoroot : ∀ (cs st : List Comp), (∀ x ∈ cs, tailOK x) → (∀ x ∈ st, x ≠ .root) →
          ∀ x ∈ normFold st cs, x ≠ .root := by
        intro cs
        induction cs with
        | nil => intro st _ h; exact h
        | cons y cs ih =>
          intro st hcs hst
          have hy := hcs y (by simp)
          have hr : ∀ x ∈ cs, tailOK x := fun x hx => hcs x (by simp [hx])
          rcases hy with hy | ⟨s, hy, _⟩
          · subst hy
            simp only [normFold, Comp.isCur, Comp.isParent, Bool.not_false, Bool.not_true, Bool.and_false,
              Bool.false_eq_true, if_false, if_true]
            cases st.getLast? with
            | none => exact ih st hr hst
            | some l =>
              simp only
              split
              · exact ih _ hr (fun x hx => hst x ((List.dropLast_sublist st).subset hx))
              · exact ih st hr hst
          · subst hy
            simp only [normFold, Comp.isCur, Comp.isParent, Bool.not_false, Bool.and_self, if_true]
            apply ih _ hr
            intro x hx
            rcases List.mem_append.mp hx with h' | h'
            · exact hst x h'
            · simp at h'; rw [h']; simp
      have hall : ∀ x ∈ c :: rest, tailOK x := fun x hx => by
        rcases List.mem_cons.mp hx with h' | h'
        · rw [h']; exact hc
        · exact hrest x h'
      have := hnoroot (c :: rest) [] hall (by simp)
      cases hf : normFold [] (c :: rest) with
      | nil => rw [hf] at hcontra; simp at hcontra
      | cons x xs =>
        rw [hf] at hcontra
        simp only [List.head?_cons, Option.some.injEq] at hcontra
        exact this x (by rw [hf]; simp) hcontra

/-! ### Non-vacuity -/

example : normalize .unix [47, 97, 47, 46, 46, 47, 46, 46, 47, 98] = [47, 98] := by
  unfold normalize; rw [C03.comps_new_closed]; decide
example : normalize .unix [97, 47, 46, 47, 98, 47, 46, 46, 47, 99] = [97, 47, 99] := by
  unfold normalize; rw [C03.comps_new_closed]; decide
example : normFold [] [.root, .parent, .normal [97]] = [.root, .normal [97]] := by decide

end TP.C11
