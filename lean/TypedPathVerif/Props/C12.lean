/-
Props/C12.lean — File name, stem and extension decompose the last component.

The replacement clause (`with_file_name`) needs the append lemma and is stated in
Props/C12b (Unix) once that lemma is available; here: the three queries, all encodings.
-/
import TypedPathVerif.Lemmas.DotSplit
import TypedPathVerif.Props.C09

namespace TP.C12

open TP

/-- `file_name` is the last component when that component is a normal name, absent otherwise. -/
theorem file_name_iff_last_normal (e : Enc) (b s : Bytes) :
    fileName e b = some s ↔ (comps e b).getLast? = some (.normal s) := by
  unfold fileName
  cases hb : (e.new b).nextBack with
  | none =>
    have := (C09.nextBack_new_none_iff e b).mp hb
    simp [this]
  | some r =>
    obtain ⟨c, s'⟩ := r
    have hlast := (C09.parent_state_comps e b hb).2
    rw [hlast]
    cases c <;> simp

theorem file_name_none_iff (e : Enc) (b : Bytes) :
    fileName e b = none ↔ ∀ s, (comps e b).getLast? ≠ some (.normal s) := by
  constructor
  · intro h s hs
    rw [← file_name_iff_last_normal] at hs
    rw [h] at hs; cases hs
  · intro h
    cases hf : fileName e b with
    | none => rfl
    | some s => exact absurd ((file_name_iff_last_normal e b s).mp hf) (h s)

/-- Without a file name there is neither stem nor extension. -/
theorem no_file_name_no_stem_ext (e : Enc) (b : Bytes) (h : fileName e b = none) :
    fileStem e b = none ∧ extension e b = none := by
  simp [fileStem, extension, h]

/-- Stem and extension split the file name `f` at its last dot:
either there is no extension and the stem is the whole name — exactly when `f` is `..`, has no
dot, or its only dot is its first byte — or stem, a dot and the extension reproduce `f`, the
extension is dot-free and the stem non-empty. -/
theorem stem_ext_split (e : Enc) (b f : Bytes) (h : fileName e b = some f) :
    (fileStem e b = some f ∧ extension e b = none ∧
        (f = PAR ∨ DOT ∉ f ∨ ∃ t, f = DOT :: t ∧ DOT ∉ t)) ∨
    (∃ st x, fileStem e b = some st ∧ extension e b = some x ∧ st ++ DOT :: x = f ∧
        DOT ∉ x ∧ st ≠ [] ∧ f ≠ PAR) := by
  rcases rsplitDot_spec f with ⟨h1, h2⟩ | ⟨h1, h2⟩ | ⟨before, after, h1, h2, h3, h4, h5⟩
  · left
    refine ⟨by simp [fileStem, h, h1], by simp [extension, h, h1], ?_⟩
    rcases h2 with h2 | h2
    · exact Or.inl h2
    · exact Or.inr (Or.inr h2)
  · left
    exact ⟨by simp [fileStem, h, h1], by simp [extension, h, h1], Or.inr (Or.inl h2)⟩
  · right
    exact ⟨before, after, by simp [fileStem, h, h1], by simp [extension, h, h1], h2.symm, h3, h4, h5⟩

/-- A name whose only dot is its first byte has no extension. -/
theorem leading_dot_no_extension (e : Enc) (b t : Bytes) (h : fileName e b = some (DOT :: t))
    (ht : DOT ∉ t) : extension e b = none ∧ fileStem e b = some (DOT :: t) := by
  rcases stem_ext_split e b _ h with ⟨h1, h2, _⟩ | ⟨st, x, _, _, h3, h4, h5, _⟩
  · exact ⟨h2, h1⟩
  · exfalso
    cases st with
    | nil => exact h5 rfl
    | cons y st' =>
      simp only [List.cons_append, List.cons.injEq] at h3
      have : DOT ∈ t := by rw [← h3.2]; simp
      exact ht this

/-! ### Non-vacuity -/

example : rsplitDot [97, 46, 116, 97, 114, 46, 103, 122] = (some [97, 46, 116, 97, 114], some [103, 122]) := by decide
example : rsplitDot [46, 98] = (some [46, 98], none) := by decide
example : fileName .unix [47, 97, 47, 98, 46, 99, 47, 46] = some [98, 46, 99] := by decide
example : extension .windows [67, 58, 92, 97, 46, 98, 92] = some [98] := by decide

end TP.C12
