/-
Props/C02f.lean — freshness of the regenerated prefix-kind tables (a file of its own, importing nothing but the
tables, so that only C02 is affected when a query's `matches!` arms can no longer be read).
-/
import TypedPathVerif.Generated.Constants

namespace TP.Win

/-- every kind table of `Generated/Constants.lean` was read from the `matches!` arms of the source on this run
(gen/constants.py keeps the last good table for a query whose arms it can no longer read, names it here, and
`C02.kind_sets_eq` would then be a statement about arms that are no longer in the source) -/
theorem kind_sets_read : Generated.kindSetsStale = [] := rfl

end TP.Win
