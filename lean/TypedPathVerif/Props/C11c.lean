/-
Props/C11c.lean — C11 continued: `absolutize` (Unix).

`Path::absolutize` is `normalize` for an absolute path and `cwd.join(path).normalize()` otherwise,
with `cwd` the process's current directory converted to the path's encoding.  With the current
directory as a parameter: for an absolute `cwd` the result is always absolute, free of `.` and
`..`, normalised (absolutizing it again changes nothing), and for a relative non-empty path its
components are the documented fold of the current directory's components followed by the path's.
The oracle compares the crate's `absolutize` with exactly this composition on every run
(`absolutize-of-absolute-is-normalize`, `absolutize-of-relative-is-cwd-join-normalize`).
-/
import TypedPathVerif.Props.C11
import TypedPathVerif.Props.C11b

namespace TP.C11c

open TP

theorem absolutize_of_absolute (e : Enc) (cwd p : Bytes) (h : isAbsolute e p = true) :
    absolutize e cwd p = normalize e p := by simp [absolutize, h]

theorem head_root_iff_abs (b : Bytes) : (comps .unix b).head? = some .root ↔ isAbsolute .unix b = true := by
  rw [unix_isAbsolute_iff, unix_comps_eq]
  constructor
  · intro h
    cases hts : toks usep b with
    | nil => rw [hts] at h; simp at h
    | cons t r =>
      rw [hts, compsT_true_cons] at h
      cases t with
      | sep x =>
        have hw := WFToks_toks usep b
        rw [hts] at hw
        have hx : x = SLASH := by simpa [usep] using hw.1
        exact ⟨r, by rw [hx]⟩
      | seg s =>
        simp only [headComp, List.head?_cons, Option.some.injEq] at h
        unfold segComp at h
        split at h
        · cases h
        · split at h <;> cases h
  · intro ⟨r, hr⟩
    rw [hr, compsT_true_cons]; rfl

/-- **Unix: with an absolute current directory the result is absolute and has no `.` / `..`.** -/
theorem unix_absolutize_absolute (cwd p : Bytes) (hcwd : isAbsolute .unix cwd = true) :
    isAbsolute .unix (absolutize .unix cwd p) = true ∧
    ∀ c ∈ comps .unix (absolutize .unix cwd p), c ≠ .cur ∧ c ≠ .parent := by
  unfold absolutize
  by_cases hp : isAbsolute .unix p = true
  · simp only [hp, if_true]
    exact ⟨(head_root_iff_abs _).mp ((C11.unix_normalize_keeps_root p).mpr ((head_root_iff_abs p).mpr hp)),
      C11.unix_normalize_no_dots p⟩
  · have hp' : isAbsolute .unix p = false := by simpa using hp
    simp only [hp', Bool.false_eq_true, if_false]
    refine ⟨?_, C11.unix_normalize_no_dots _⟩
    apply (head_root_iff_abs _).mp
    apply (C11.unix_normalize_keeps_root _).mpr
    -- the join keeps the current directory's root in front
    have hcne : cwd ≠ [] := by
      intro h0; subst h0
      have : isAbsolute .unix [] = false := by decide
      rw [this] at hcwd; cases hcwd
    by_cases hpe : p = []
    · subst hpe
      have : push .unix cwd [] = cwd := by simp [push, unixPush]
      rw [this]; exact (head_root_iff_abs cwd).mpr hcwd
    · rw [show push .unix cwd p = unixPush cwd p from rfl, unix_push_comps cwd p hpe hp' hcne]
      have := (head_root_iff_abs cwd).mpr hcwd
      cases hc : comps .unix cwd with
      | nil => rw [hc] at this; simp at this
      | cons c r => rw [hc] at this; simpa using this

/-- for a relative, non-empty path: the components are the fold of the current directory's
components followed by the path's (a leading `.` of the path dropped by the join) -/
theorem unix_absolutize_relative (cwd p : Bytes) (hcne : cwd ≠ []) (hpe : p ≠ [])
    (hp : isAbsolute .unix p = false) :
    comps .unix (absolutize .unix cwd p) =
      normFold [] (comps .unix cwd ++ dropLeadingCur (comps .unix p)) := by
  unfold absolutize
  simp only [hp, Bool.false_eq_true, if_false]
  rw [C11.unix_normalize_comps, show push .unix cwd p = unixPush cwd p from rfl, unix_push_comps cwd p hpe hp hcne]

/-- absolutizing twice is absolutizing once (absolute current directory) -/
theorem unix_absolutize_idempotent (cwd p : Bytes) (hcwd : isAbsolute .unix cwd = true) :
    absolutize .unix cwd (absolutize .unix cwd p) = absolutize .unix cwd p := by
  have habs := (unix_absolutize_absolute cwd p hcwd).1
  rw [absolutize_of_absolute _ _ _ habs]
  unfold absolutize
  split <;> exact C11.unix_normalize_idempotent _

/-! ### Windows -/

theorem win_relative_not_absolute (p : Bytes) (hp : C16.pfxStart p = false) : isAbsolute .windows p = false := by
  simp only [isAbsolute, Win.new_of_pf p hp, PState.nextFront]
  cases hf : frontT false true (toks (wsep true) p) with
  | none => rfl
  | some r =>
    obtain ⟨c, ts⟩ := r
    simp only
    cases c with
    | pfx q =>
      exfalso
      -- the token parser never produces a prefix component
      cases hts : toks (wsep true) p with
      | nil => rw [hts] at hf; simp [frontT] at hf
      | cons t r' =>
        rw [hts] at hf
        cases t with
        | sep x => simp [frontT] at hf
        | seg sg =>
          simp only [frontT, Option.some.injEq, Prod.mk.injEq] at hf
          have := hf.1
          unfold segComp at this
          split at this <;> (try split at this) <;> cases this
    | _ => rfl

/-- **Windows: a relative, prefix-free, non-empty path against a current directory that is
prefix-free and non-empty, or carries a complete non-verbatim prefix followed by something**: the
components of the result are the documented fold of the current directory's components followed
by the path's; it has no `.` / `..`; absolutizing again changes nothing when the result is
absolute.  (Names without `:`, as for `normalize`.) -/
theorem win_absolutize_relative (cwd p : Bytes)
    (hcwd : (C16.pfxStart cwd = false ∧ cwd ≠ []) ∨
      ∃ pp rest, parsePrefixComp cwd = some (pp, rest) ∧ Win.Complete pp.kind ∧
        JoinRules.isVerbatimKind pp.kind = false ∧ rest ≠ [])
    (hpne : p ≠ []) (hp : C16.pfxStart p = false) (hrel : JoinRules.startsWithSep p = false)
    (hnames : ∀ s, Comp.normal s ∈ comps .windows cwd ++ dropLeadingCur (comps .windows p) → ∀ y ∈ s, y ≠ COLON) :
    comps .windows (absolutize .windows cwd p) =
      normFold [] (comps .windows cwd ++ dropLeadingCur (comps .windows p)) ∧
    ∀ c ∈ comps .windows (absolutize .windows cwd p), c ≠ .cur ∧ c ≠ .parent := by
  have hna := win_relative_not_absolute p hp
  have hjoin : C12c.Base (push .windows cwd p) ∧
      comps .windows (push .windows cwd p) = comps .windows cwd ++ dropLeadingCur (comps .windows p) := by
    rcases hcwd with ⟨hc, hcne⟩ | ⟨pp, rest, hpp, hcmp, hnv, hrest⟩
    · obtain ⟨h1, h2⟩ := C16b.win_push_comps_pf cwd p hc hcne hpne hp hrel
      exact ⟨Or.inl h1, h2⟩
    · obtain ⟨hwf, h2⟩ := Win.win_push_comps_prefixed cwd p rest pp hpp hcmp hnv hpne hp hrel
      simp only [hrest, if_false] at h2
      refine ⟨?_, h2⟩
      -- the result keeps the complete non-verbatim prefix
      rcases hwf with hpf | ⟨q, r', hq, hcq⟩
      · exact Or.inl hpf
      · right
        refine ⟨q, r', hq, hcq, ?_⟩
        have hc1 : comps .windows (windowsPush cwd p) = .pfx pp :: (compsT false true (toks (wsep true) rest) ++ dropLeadingCur (comps .windows p)) := by
          rw [h2]
          have hs := Win.stable_of_complete hpp hcmp
          have hok := Win.restOK_of_complete hpp hcmp
          have hn := Win.normOf_nonverbatim hpp hcmp hnv
          rw [← parsePrefixComp_raw hpp, Win.comps_of_stable hs rest hok, hn]; rfl
        have hs2 := Win.stable_of_complete hq hcq
        have hok2 := Win.restOK_of_complete hq hcq
        have hc2 := Win.comps_of_stable hs2 r' hok2
        rw [parsePrefixComp_raw hq, hc1] at hc2
        have : pp = q := by
          have := (List.cons.inj hc2).1
          exact Comp.pfx.inj this
        rw [← this]; exact hnv
  obtain ⟨hbase, hcomps⟩ := hjoin
  have hn' : ∀ s, Comp.normal s ∈ comps .windows (push .windows cwd p) → ∀ y ∈ s, y ≠ COLON := by
    rw [hcomps]; exact hnames
  unfold absolutize
  simp only [hna, Bool.false_eq_true, if_false]
  refine ⟨by rw [C11b.win_normalize_comps _ hbase hn', hcomps], C11b.win_normalize_no_dots _ hbase hn'⟩

example : absolutize .unix [47, 104] [97, 47, 46, 46, 47, 98] = [47, 104, 47, 98] := by
  unfold absolutize; simp only [show isAbsolute .unix [97, 47, 46, 46, 47, 98] = false by decide, Bool.false_eq_true, if_false]
  unfold normalize; rw [C03.comps_new_closed]; decide

end TP.C11c
