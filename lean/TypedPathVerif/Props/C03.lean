/-
Props/C03.lean — Component iteration is double-ended-coherent and conserves the input bytes.

Stated for both encodings at once (`e : Enc`), for every byte string `b` and every
sequence of front/back steps.  Helper lemmas live in `Lemmas/`; nothing here is weakened
to make a proof pass.
-/
import TypedPathVerif.Lemmas.EncNew
import TypedPathVerif.Model.Path

namespace TP.C03

open TP

/-- Taking components from the back yields the reverse of taking them from the front. -/
theorem dei_reverse (e : Enc) (b : Bytes) : (e.new b).compsBack = (comps e b).reverse :=
  compsBack_eq_reverse _ (Enc.new_inv e b)

/-- Any interleaving of front and back steps yields every component exactly once and in
order: step by step it returns what taking from the corresponding end of the forward list
returns (`none` once that list is exhausted), and the components still to come are the
untouched middle. -/
theorem dei_interleave (e : Enc) (b : Bytes) (steps : List Bool) :
    (runSteps (e.new b) steps).1 = (takeSteps (comps e b) steps).1 ∧
    (runSteps (e.new b) steps).2.comps = (takeSteps (comps e b) steps).2 :=
  let h := runSteps_eq_takeSteps steps (e.new b) (Enc.new_inv e b)
  ⟨h.1, h.2.1⟩

/-- Exhaustion is permanent: once the forward list is used up every further step, from
either end, fails. -/
theorem takeSteps_nil (steps : List Bool) :
    (takeSteps [] steps).1 = steps.map (fun _ => none) ∧ (takeSteps [] steps).2 = [] := by
  induction steps with
  | nil => exact ⟨rfl, rfl⟩
  | cons b bs ih =>
    cases b <;> simp [takeSteps, ih.1, ih.2]

theorem takeSteps_length_le (l : List Comp) (steps : List Bool) : (takeSteps l steps).2.length ≤ l.length := by
  induction steps generalizing l with
  | nil => simp [takeSteps]
  | cons b bs ih =>
    cases b with
    | true =>
      simp only [takeSteps, if_true]
      cases hl : l.getLast? with
      | none => exact ih l
      | some c =>
        have := ih l.dropLast
        simp only [List.length_dropLast] at this
        simp only
        omega
    | false =>
      simp only [takeSteps, Bool.false_eq_true, if_false]
      cases l with
      | nil => exact ih []
      | cons c t =>
        have := ih t
        simp only [List.length_cons]
        omega

/-- number of successful steps -/
def successes (r : List (Option Comp)) : Nat := (r.filter Option.isSome).length

theorem takeSteps_successes (l : List Comp) (steps : List Bool) :
    successes (takeSteps l steps).1 + (takeSteps l steps).2.length = l.length := by
  induction steps generalizing l with
  | nil => simp [takeSteps, successes]
  | cons b bs ih =>
    cases b with
    | true =>
      simp only [takeSteps, if_true]
      cases hl : l.getLast? with
      | none =>
        have := ih l
        simpa [successes] using this
      | some c =>
        have := ih l.dropLast
        have hne : l ≠ [] := by intro h0; simp [h0] at hl
        have hlen : 0 < l.length := List.length_pos_iff.mpr hne
        simp only [List.length_dropLast] at this
        simp only [successes, List.filter_cons, Option.isSome_some, if_true, List.length_cons] at this ⊢
        omega
    | false =>
      simp only [takeSteps, Bool.false_eq_true, if_false]
      cases l with
      | nil =>
        have := ih []
        simpa [successes] using this
      | cons c t =>
        have := ih t
        simp only [successes, List.filter_cons, Option.isSome_some, if_true, List.length_cons] at this ⊢
        omega

/-- The iterator is exhausted after finitely many steps: at most `|comps b|` steps succeed,
whatever the interleaving, and after `|comps b|` successes every step fails. -/
theorem dei_exhaust (e : Enc) (b : Bytes) (steps : List Bool) :
    successes (runSteps (e.new b) steps).1 ≤ (comps e b).length := by
  rw [(dei_interleave e b steps).1]
  have := takeSteps_successes (comps e b) steps
  omega

theorem dei_stays_exhausted (e : Enc) (b : Bytes) (steps more : List Bool)
    (h : (runSteps (e.new b) steps).2.comps = []) :
    (runSteps (runSteps (e.new b) steps).2 more).1 = more.map (fun _ => none) := by
  have hi := (runSteps_eq_takeSteps steps (e.new b) (Enc.new_inv e b)).2.2
  have := (runSteps_eq_takeSteps more _ hi).1
  rw [this, h]
  exact (takeSteps_nil more).1

/-! ### Conservation of bytes

The input is the prefix text (if any) followed by the bytes of the tokens; the normal
components are exactly the segment tokens other than `.` and `..`, in order, so everything
between them is made of separator tokens and `.` / `..` segments. -/

def isName (s : Bytes) : Bool := decide (s ≠ CUR) && decide (s ≠ PAR)

/-- the segment tokens that are names -/
def nameToks : List Tok → List Bytes
  | [] => []
  | .sep _ :: r => nameToks r
  | .seg s :: r => if isName s then s :: nameToks r else nameToks r

/-- the names among a component list -/
def names : List Comp → List Bytes
  | [] => []
  | .normal s :: r => s :: names r
  | _ :: r => names r

theorem names_append (a b : List Comp) : names (a ++ b) = names a ++ names b := by
  induction a with
  | nil => rfl
  | cons c a ih => cases c <;> simp [names, ih]

theorem names_segComp (cur : Bool) (s : Bytes) (h : cur = true ∨ s ≠ CUR) :
    names [segComp cur s] = if isName s then [s] else [] := by
  unfold segComp isName
  by_cases h1 : s = PAR
  · simp [h1, names]
  · by_cases h2 : s = CUR
    · subst h2
      have : cur = true := by cases h with | inl h => exact h | inr h => exact absurd rfl h
      simp [this, names, h1]
    · simp [h1, h2, names]

theorem names_body (k : Bool) (ts : List Tok) : names (body k ts) = nameToks ts := by
  induction ts with
  | nil => rfl
  | cons t r ih =>
    cases t with
    | sep b => rw [body_cons_junk r (by rfl)]; simpa [nameToks] using ih
    | seg s =>
      by_cases hj : junk k (.seg s) = true
      · rw [body_cons_junk r hj]
        have hs : s = CUR := by cases k <;> simp [junk] at hj; exact hj
        simp [nameToks, isName, hs, ih]
      · have hj' : junk k (.seg s) = false := by simpa using hj
        rw [body_cons_seg r hj']
        have hcond : k = true ∨ s ≠ CUR := by
          cases k with
          | true => exact Or.inl rfl
          | false => right; simpa [junk] using hj'
        have := names_segComp k s hcond
        have e1 : names (segComp k s :: body k r) = names [segComp k s] ++ names (body k r) := by
          rw [← names_append]; rfl
        rw [e1, this, ih]
        simp only [nameToks]
        split <;> simp

theorem names_compsT_true (k : Bool) (ts : List Tok) : names (compsT k true ts) = nameToks ts := by
  cases ts with
  | nil => rfl
  | cons t r =>
    rw [compsT_true_cons]
    cases t with
    | sep b => simp [headComp, names, nameToks, names_body]
    | seg s =>
      have e1 : names (headComp (.seg s) :: body k r) = names [segComp true s] ++ names (body k r) := by
        rw [← names_append]; rfl
      rw [e1, names_segComp true s (Or.inl rfl), names_body]
      simp only [nameToks]
      split <;> simp

/-- Conservation: the input bytes are the prefix text followed by the tokens; the normal
components are the name tokens in order (every other token is a separator, `.` or `..`). -/
theorem dei_conservation (e : Enc) (b : Bytes) :
    (e.new b).preBytes ++ untoks (e.new b).toks = b ∧
    names (comps e b) = nameToks (e.new b).toks := by
  constructor
  · exact new_remaining e b
  · have hc := comps_closed (e.new b) (Enc.new_inv e b)
    unfold comps
    rw [hc, Enc.new_atBeg, names_append, names_compsT_true]
    cases (e.new b).pre <;> simp [names]

/-! ### Non-vacuity: concrete inputs on which the statements say something -/

/-- forward components of a fresh state in closed form (used to evaluate examples in the kernel:
`comps` itself is defined by well-founded recursion and does not reduce) -/
theorem comps_new_closed (e : Enc) (b : Bytes) :
    comps e b = (match (e.new b).pre with | some p => [Comp.pfx p] | none => []) ++
      compsT (e.new b).k true (e.new b).toks := by
  unfold comps
  rw [comps_closed _ (Enc.new_inv e b), Enc.new_atBeg]
  cases (e.new b).pre <;> rfl

example : comps .unix [47, 97, 47, 46, 47, 98] = [.root, .normal [97], .normal [98]] := by
  rw [comps_new_closed]; decide
example : (runSteps (Enc.new .unix [47, 97, 47, 98]) [true, false, true, true]).1 =
    [some (.normal [98]), some .root, some (.normal [97]), none] := by decide
example : names (comps .windows [67, 58, 92, 97, 47, 46, 46, 92, 98]) = [[97], [98]] := by
  rw [comps_new_closed]; decide

end TP.C03
