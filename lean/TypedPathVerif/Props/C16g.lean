/-
Props/C16g.lean — Windows→Unix conversion of a path whose verbatim prefix is stable but not complete.

`C16f.conv_w2u_verbatim` and `conv_checked_w2u_verbatim_valid` use completeness of the prefix only through
`Win.stable_of_complete` / `Win.restOK_of_complete`; here they are proved from `Win.Stable p` and `Win.RestOK p rest`
(the originals' proofs with the hypotheses exchanged), which covers `\\?\UNC\server\…` (Props/C02d, C08e.restOK_noshare).
-/
import TypedPathVerif.Props.C16f
import TypedPathVerif.Props.C08e

namespace TP.C16g

open TP TP.JoinRules TP.C16f

theorem conv_w2u_verbatim_of_stable (b rest : Bytes) (p : PrefixComp)
    (hp : parsePrefixComp b = some (p, rest)) (hs : Win.Stable p) (hok : Win.RestOK p rest) (hv : isVerbatimKind p.kind = true)
    (hhead : Win.HeadOK (wsep (Win.normOf p.raw)) rest)
    (hport : Win.normOf p.raw = false →
      (∀ y ∈ rest, y ≠ SLASH) ∧ ∀ s, Tok.seg s ∈ toks (wsep true) rest → s ≠ CUR) :
    ∃ T, T = compsT false true (toks (wsep true) rest) ∧ comps .windows b = .pfx p :: T ∧
      comps .unix (withEncoding .windows .unix b) = if T.head? = some .root then T else .root :: T := by
  have hcb0 : comps .windows b =
      .pfx p :: compsT (!Win.normOf p.raw) true (toks (wsep (Win.normOf p.raw)) rest) := by
    rw [← parsePrefixComp_raw hp, Win.comps_of_stable hs rest hok]
  -- under the hypotheses the components after the prefix are those of an ordinary parse
  have hT : compsT (!Win.normOf p.raw) true (toks (wsep (Win.normOf p.raw)) rest) =
      compsT false true (toks (wsep true) rest) := by
    cases hn : Win.normOf p.raw with
    | true => rfl
    | false =>
      obtain ⟨h1, h2⟩ := hport hn
      have htk : toks (wsep false) rest = toks (wsep true) rest := by
        apply C10d.toks_congr
        intro y hy
        have : y ≠ SLASH := h1 y hy
        simp [wsep, this]
      simp only [Bool.not_false]
      rw [htk]
      exact compsT_flag_irrelevant _ h2
  have hcb : comps .windows b = .pfx p :: compsT false true (toks (wsep true) rest) := by
    rw [hcb0, hT]
  refine ⟨compsT false true (toks (wsep true) rest), rfl, hcb, ?_⟩
  have hne : Enc.windows ≠ Enc.unix := by decide
  simp only [withEncoding, hne, if_false, hcb]
  -- every verbatim kind counts as a root
  have hroot : convFold .unix [] (.pfx p :: compsT false true (toks (wsep true) rest)) =
      convFold .unix [SLASH] (compsT false true (toks (wsep true) rest)) := by
    have hr : (Comp.pfx p).isRoot = true := by
      cases hk : p.kind with
      | verbatim n => simp [Comp.isRoot, hk]
      | verbatimUNC x y => simp [Comp.isRoot, hk]
      | verbatimDisk d => simp [Comp.isRoot, hk]
      | deviceNS d => rw [hk] at hv; cases hv
      | unc x y => rw [hk] at hv; cases hv
      | disk d => rw [hk] at hv; cases hv
    simp only [convFold, hr, if_true, Enc.sepByte]
    rw [C16c.push_first [SLASH] (by simp)]
  rw [hroot]
  rcases C16.compsT_structure (wsep true) rest with h0 | ⟨c, r, h0, _, hr⟩
  · rw [h0]; simp [convFold, C16.comps_root]
  · rw [h0]
    -- what follows the prefix starts with a separator: a root
    have hcroot : c = .root := by
      cases hr' : rest with
      | nil => rw [hr'] at h0; simp [toks, compsT] at h0
      | cons x t =>
        have hx0 : wsep (Win.normOf p.raw) x = true := by
          rw [hr'] at hhead; exact hhead
        have hx : wsep true x = true := by
          cases hn : Win.normOf p.raw with
          | true => rw [hn] at hx0; exact hx0
          | false =>
            rw [hn] at hx0
            have : x = BSLASH := by simpa [wsep] using hx0
            subst this; decide
        rw [hr'] at h0
        simp only [toks, hx, if_true, compsT_true_cons, headComp, List.cons.injEq] at h0
        exact h0.1.symm
    subst hcroot
    have : convFold .unix [SLASH] (.root :: r) = convFold .unix [SLASH] r := by
      simp only [convFold, Comp.isRoot, if_true, Enc.sepByte]
      have : push .unix [SLASH] [SLASH] = [SLASH] := by decide
      rw [this]
    rw [this, C16.convFold_tail r [SLASH] (by simp) hr, C16.comps_root]
    simp

/-- **Windows → Unix, checked, with a stable verbatim prefix.**  When the conversion succeeds the
result is the unchecked one — prefix dropped, rooted — and is a valid Unix path. -/
theorem conv_checked_w2u_verbatim_valid_of_stable (b r rest : Bytes) (p : PrefixComp)
    (h : withEncodingChecked .windows .unix b = .ok r)
    (hp : parsePrefixComp b = some (p, rest)) (hs : Win.Stable p) (hok : Win.RestOK p rest) (hv : isVerbatimKind p.kind = true)
    (hhead : Win.HeadOK (wsep (Win.normOf p.raw)) rest)
    (hport : Win.normOf p.raw = false →
      (∀ y ∈ rest, y ≠ SLASH) ∧ ∀ s, Tok.seg s ∈ toks (wsep true) rest → s ≠ CUR) :
    r = withEncoding .windows .unix b ∧
    (∃ T, comps .windows b = .pfx p :: T ∧
      comps .unix r = if T.head? = some .root then T else .root :: T) ∧
    isValid .unix r = true := by
  have hr := C16d.conv_checked_ok_eq_unchecked .windows .unix b r h
  have hne : Enc.windows ≠ Enc.unix := by decide
  obtain ⟨T, hTeq, hT, hconv⟩ := conv_w2u_verbatim_of_stable b rest p hp hs hok hv hhead hport
  rw [hr]
  refine ⟨rfl, ⟨T, hT, hconv⟩, ?_⟩
  apply C16e.isValid_of_names
  intro s hs y hy
  have hsT : Comp.normal s ∈ T := by
    rw [hconv] at hs
    split at hs
    · exact hs
    · rcases List.mem_cons.mp hs with h1 | h1
      · cases h1
      · exact h1
  have hsb : Comp.normal s ∈ comps .windows b := by rw [hT]; simp [hsT]
  cases hf : (forbidden .unix).contains y with
  | false => rfl
  | true =>
    exfalso
    have hnosep : anySep y = false := by
      rw [hTeq] at hsT
      rcases C16.compsT_structure (wsep true) rest with h0 | ⟨c, rest', h0, hc', hrest⟩
      · rw [h0] at hsT; cases hsT
      · rw [h0] at hsT
        have hname : C16.nameOKs (wsep true) s := by
          rcases List.mem_cons.mp hsT with h1 | h1
          · rcases hc' with hc' | hc' | hc'
            · rw [hc'] at h1; cases h1
            · rw [hc'] at h1; cases h1
            · rcases hc' with hc' | ⟨s', hc', hn'⟩
              · rw [hc'] at h1; cases h1
              · rw [hc'] at h1; cases h1; exact hn'
          · rcases hrest _ h1 with hc' | ⟨s', hc', hn'⟩
            · cases hc'
            · cases hc'; exact hn'
        exact hname.2.1 y hy
    have hns : C16d.tsep .unix y = false := by
      have : y ≠ SLASH := by intro hE; rw [hE] at hnosep; revert hnosep; decide
      simp [C16d.tsep, usep, this]
    obtain ⟨e, he⟩ := C16d.conv_checked_fails_forbidden .windows .unix b hne s y hsb hy hf hns
    rw [he] at h; cases h

/-! ### non-vacuity -/

-- `\\?\C:\a\b` → `/a/b`
example : withEncoding .windows .unix [92, 92, 63, 92, 67, 58, 92, 97, 92, 98] = [47, 97, 47, 98] := by
  unfold withEncoding; rw [C03.comps_new_closed]; decide
-- `\\?\pics\a` → `/a`
example : withEncoding .windows .unix [92, 92, 63, 92, 112, 105, 99, 115, 92, 97] = [47, 97] := by
  unfold withEncoding; rw [C03.comps_new_closed]; decide
-- the hypotheses are met by `\\?\C:` followed by `\a\b`
example : parsePrefixComp [92, 92, 63, 92, 67, 58, 92, 97, 92, 98] =
    some (⟨[92, 92, 63, 92, 67, 58], .verbatimDisk 67⟩, [92, 97, 92, 98]) := by decide


end TP.C16g
