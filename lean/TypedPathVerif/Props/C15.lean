/-
Props/C15.lean — Typed and platform wrappers are transparent: the part that is logic.

A typed value is a tag (Unix / Windows) plus a concrete path of that encoding; every wrapper method
delegates to the concrete method of the tagged variant.  That delegation is code shape, not
logic, and is decided by translation validation (whole-family transcripts, C15's oracle).  What IS
logic is the rule by which `TypedPath::derive` picks the tag from raw bytes:

* `derive_iff`: Windows exactly when the first byte is `\` or a Windows prefix parses;
* `derive_windows_of_prefix`, `derive_disk`: every path with a prefix, in particular `X:…`, is Windows;
* `derive_unix_of_prefix_free`: a path that neither starts with `\` nor starts like a prefix is Unix;
* `derive_stable`: the tag of a path with a complete prefix does not depend on what follows the prefix.
-/
import TypedPathVerif.Lemmas.WinStable
import TypedPathVerif.Generated.Api

namespace TP.C15

open TP TP.JoinRules

/-- `TypedPath::derive` chooses Windows exactly when the bytes start with `\` or carry a prefix. -/
theorem derive_iff (b : Bytes) :
    deriveIsWindows b = true ↔ b.head? = some BSLASH ∨ (parsePrefix b).isSome = true := by
  unfold deriveIsWindows
  rw [C08.wHasPrefix_eq]
  have : (prefixOf b).isSome = (parsePrefix b).isSome := by
    unfold prefixOf parsePrefixComp
    cases parsePrefix b with
    | none => rfl
    | some x => rfl
  rw [this]
  simp

theorem derive_windows_of_prefix (b : Bytes) (k : WPrefix) (rest : Bytes) (h : parsePrefix b = some (k, rest)) :
    deriveIsWindows b = true := by
  rw [derive_iff]; right; rw [h]; rfl

/-- `X:` followed by anything is a Windows path -/
theorem derive_disk (d : UInt8) (rest : Bytes) (hd : isAsciiAlpha d = true) :
    deriveIsWindows (d :: COLON :: rest) = true :=
  derive_windows_of_prefix _ (.disk (toAsciiUpper d)) rest ((C02b.disk_iff _ rest _).mpr ⟨d, rfl, hd, rfl⟩)

/-- a path that does not start with `\` and does not start like a prefix is a Unix path -/
theorem derive_unix_of_prefix_free (b : Bytes) (h1 : b.head? ≠ some BSLASH) (h2 : C16.pfxStart b = false) :
    deriveIsWindows b = false := by
  cases h : deriveIsWindows b with
  | false => rfl
  | true =>
    rcases (derive_iff b).mp h with h' | h'
    · exact absurd h' h1
    · rw [C16.parsePrefix_none_of_pfxStart b h2] at h'; cases h'

/-- the tag of a path with a complete prefix does not depend on what (tolerated) bytes follow it -/
theorem derive_stable {b rest : Bytes} {p : PrefixComp} (hp : parsePrefixComp b = some (p, rest))
    (hc : Win.Complete p.kind) (rest' : Bytes) (hok : Win.RestOK p rest') :
    deriveIsWindows (p.raw ++ rest') = true := by
  have := ((Win.stable_of_complete hp hc) rest' hok).1
  exact derive_windows_of_prefix _ p.kind rest' (Win.parsePrefix_of_comp this)

/-! ### the documented examples -/

example : deriveIsWindows [67, 58, 92, 97] = true := by decide        -- C:\a
example : deriveIsWindows [92, 97] = true := by decide                -- \a
example : deriveIsWindows [47, 97] = false := by decide               -- /a
example : deriveIsWindows [97, 92, 98] = false := by decide           -- a\b
example : deriveIsWindows [] = false := by decide
-- the two-separator lead-in of a prefix may be spelled with either separator in either position:
-- `/` `\` `s` `\` `h` and `/` `\` `?` `\` `C` `:` carry a prefix although they start with `/` (seed C15r11)
example : deriveIsWindows [47, 92, 115, 92, 104] = true := by decide
example : deriveIsWindows [47, 92, 63, 92, 67, 58] = true := by decide
example : deriveIsWindows [47, 47] = false := by decide

/-- every public method the `typed` group of source files declares now is called by the harness
(regenerated table, gen/api.py): a method added without a transcript line breaks this -/
theorem api_exercised_typed : Generated.apiUnexercised_typed = [] := rfl

end TP.C15
