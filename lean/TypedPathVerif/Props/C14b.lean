/-
Props/C14b.lean — the two algorithms the UTF-8 family of the crate does NOT delegate to the byte family,
proved equal to their byte twins on every valid UTF-8 string (C14: "results whose bytes equal what the
byte-oriented types return"; C12 / C13 / C17 through the UTF-8 copies).

* `utf8_rsplit_dot_eq_bytes`, `utf8_stem_ext_eq_bytes` — `helpers::rsplit_file_at_dot` of
  src/common/utf8/path.rs splits the *characters* of the name at the last character `.`
  (`file.rsplitn(2, '.')`); the byte twin splits the bytes at the last byte 0x2E.  Same stem, same extension.
* `utf8_name_valid_eq_bytes`, `utf8_unix_name_valid`, `utf8_windows_name_valid` — `Utf8…Component::is_valid`
  asks whether a *character* of the name is in `DISALLOWED_FILENAME_CHARS`; the byte twin whether a byte is in
  `DISALLOWED_FILENAME_BYTES`.  With the tables regenerated from the source (all entries ASCII, `char` table =
  byte table: `C17.char_tables_eq`) the two predicates are equal.

Both rest on `chars_isChar`: `Utf8.chars` cuts a valid string into encodings of single characters, each one
ASCII byte or a block of non-ASCII bytes whose code point is at least 128 (`IsChar.codepoint_ge`).  The
character-level functions are executable (Spec/Chars.lean) and compared with the crate's UTF-8 family by the
driver ops `u8dot` and `u8valid` on every run.
-/
import TypedPathVerif.Spec.Chars
import TypedPathVerif.Lemmas.Utf8
import TypedPathVerif.Lemmas.DotSplit
import TypedPathVerif.Props.C19b
import TypedPathVerif.Props.C17
import TypedPathVerif.Props.C14

namespace TP.C14b

open TP TP.Utf8

/-- the byte family's function is the generic one at bytes -/
theorem rsplitDot_eq_rsplitAt (f : Bytes) : rsplitDot f = rsplitAt DOT PAR f := by
  unfold rsplitDot rsplitAt
  split
  · rfl
  · simp only []
    generalize List.dropWhile (fun x => decide (x ≠ DOT)) f.reverse = d
    cases d <;> rfl

/-- cutting into characters loses nothing (any input) -/
theorem chars_flatten : ∀ b : Bytes, (chars b).flatten = b := by
  intro b
  fun_induction chars b <;> simp_all

theorem chars_ne_nil (b : Bytes) : ∀ c ∈ chars b, c ≠ [] := by
  fun_induction chars b <;> simp_all

/-- the encoding of one character -/
def IsChar (c : Bytes) : Prop :=
  (∃ x, c = [x] ∧ isAscii x = true) ∨
  (∃ b0 b1, c = [b0, b1] ∧ lead2 b0 = true ∧ isCont b1 = true) ∨
  (∃ b0 b1 b2, c = [b0, b1, b2] ∧ ok3 b0 b1 = true ∧ isCont b2 = true) ∨
  (∃ b0 b1 b2 b3, c = [b0, b1, b2, b3] ∧ ok4 b0 b1 = true ∧ isCont b2 = true ∧ isCont b3 = true)

/-- `chars` cuts a valid string into encodings of single characters -/
theorem chars_isChar {b : Bytes} (h : Valid b) : ∀ c ∈ chars b, IsChar c := by
  induction h with
  | nil => intro c hc; rw [chars.eq_def] at hc; simp at hc
  | ascii x r hx _ ih =>
    intro c hc
    rw [chars.eq_def] at hc
    simp only [hx, if_true, List.mem_cons] at hc
    rcases hc with rfl | hc
    · exact Or.inl ⟨x, rfl, hx⟩
    · exact ih c hc
  | two b0 b1 r h0 h1 _ ih =>
    intro c hc
    rw [chars.eq_def] at hc
    simp only [not_ascii_lead2 h0, h0, if_true, List.mem_cons, Bool.false_eq_true, if_false] at hc
    rcases hc with rfl | hc
    · exact Or.inr (Or.inl ⟨b0, b1, rfl, h0, h1⟩)
    · exact ih c hc
  | three b0 b1 b2 r h0 h2 _ ih =>
    intro c hc
    rw [chars.eq_def] at hc
    simp only [(not_ascii_ok3 h0).1, C19.lead2_false_of_ok3 h0, h0, if_true, List.mem_cons, Bool.false_eq_true, if_false] at hc
    rcases hc with rfl | hc
    · exact Or.inr (Or.inr (Or.inl ⟨b0, b1, b2, rfl, h0, h2⟩))
    · exact ih c hc
  | four b0 b1 b2 b3 r h0 h2 h3 _ ih =>
    intro c hc
    rw [chars.eq_def] at hc
    simp only [(not_ascii_ok4 h0).1, C19.lead2_false_of_ok4 h0, C19.ok3_false_of_ok4 h0, List.mem_cons, Bool.false_eq_true, if_false] at hc
    rcases hc with rfl | hc
    · exact Or.inr (Or.inr (Or.inr ⟨b0, b1, b2, b3, rfl, h0, h2, h3⟩))
    · exact ih c hc

/-- a character is one ASCII byte, or consists of non-ASCII bytes only -/
theorem IsChar.bytes {c : Bytes} (h : IsChar c) :
    (∃ x, c = [x] ∧ isAscii x = true) ∨ (∀ x ∈ c, isAscii x = false) := by
  rcases h with h | ⟨b0, b1, rfl, h0, h1⟩ | ⟨b0, b1, b2, rfl, h0, h2⟩ | ⟨b0, b1, b2, b3, rfl, h0, h2, h3⟩
  · exact Or.inl h
  · right; intro x hx
    simp only [List.mem_cons, List.not_mem_nil, or_false] at hx
    rcases hx with rfl | rfl
    · exact not_ascii_lead2 h0
    · exact le_of_cont h1
  · right; intro x hx
    simp only [List.mem_cons, List.not_mem_nil, or_false] at hx
    rcases hx with rfl | rfl | rfl
    · exact (not_ascii_ok3 h0).1
    · exact (not_ascii_ok3 h0).2
    · exact le_of_cont h2
  · right; intro x hx
    simp only [List.mem_cons, List.not_mem_nil, or_false] at hx
    rcases hx with rfl | rfl | rfl | rfl
    · exact (not_ascii_ok4 h0).1
    · exact (not_ascii_ok4 h0).2
    · exact le_of_cont h2
    · exact le_of_cont h3

/-- only a one-byte character has a code point below 128 -/
theorem IsChar.codepoint_ge {c : Bytes} (h : IsChar c) (hm : ∀ x ∈ c, isAscii x = false) : 128 ≤ codepoint c := by
  rcases h with ⟨x, rfl, hx⟩ | ⟨b0, b1, rfl, h0, h1⟩ | ⟨b0, b1, b2, rfl, h0, h2⟩ | ⟨b0, b1, b2, b3, rfl, h0, h2, h3⟩
  · rw [hm x (by simp)] at hx; cases hx
  · show 128 ≤ (b0.toNat - 0xC0) * 64 + (b1.toNat - 0x80)
    simp only [lead2, isCont, Bool.and_eq_true, decide_eq_true_eq, UInt8.le_iff_toNat_le] at h0 h1
    have e1 : (0xC2 : UInt8).toNat = 194 := rfl
    have e2 : (0x80 : UInt8).toNat = 128 := rfl
    rw [e1] at h0; rw [e2] at h1
    omega
  · show 128 ≤ (b0.toNat - 0xE0) * 4096 + (b1.toNat - 0x80) * 64 + (b2.toNat - 0x80)
    simp only [ok3, isCont, Bool.or_eq_true, Bool.and_eq_true, decide_eq_true_eq, UInt8.le_iff_toNat_le, ← UInt8.toNat_inj] at h0 h2
    have e0 : (0xE0 : UInt8).toNat = 224 := rfl
    have e1 : (0xE1 : UInt8).toNat = 225 := rfl
    have e2 : (0x80 : UInt8).toNat = 128 := rfl
    have e3 : (0xA0 : UInt8).toNat = 160 := rfl
    have e4 : (0xED : UInt8).toNat = 237 := rfl
    have e5 : (0xEE : UInt8).toNat = 238 := rfl
    have e6 : (0xEF : UInt8).toNat = 239 := rfl
    simp only [e0, e1, e2, e3, e4, e5, e6] at h0 h2
    omega
  · show 128 ≤ (b0.toNat - 0xF0) * 262144 + (b1.toNat - 0x80) * 4096 + (b2.toNat - 0x80) * 64 + (b3.toNat - 0x80)
    simp only [ok4, isCont, Bool.or_eq_true, Bool.and_eq_true, decide_eq_true_eq, UInt8.le_iff_toNat_le, ← UInt8.toNat_inj] at h0 h2 h3
    have e0 : (0xF0 : UInt8).toNat = 240 := rfl
    have e1 : (0xF1 : UInt8).toNat = 241 := rfl
    have e2 : (0x80 : UInt8).toNat = 128 := rfl
    have e3 : (0x90 : UInt8).toNat = 144 := rfl
    have e4 : (0xF4 : UInt8).toNat = 244 := rfl
    simp only [e0, e1, e2, e3, e4] at h0 h2 h3
    omega

section generic
variable {α : Type} [DecidableEq α]

theorem dropWhile_ne_nil_iff' (x : α) (l : List α) : l.dropWhile (· ≠ x) = [] ↔ x ∉ l := by
  induction l with
  | nil => simp
  | cons a l ih =>
    simp only [List.dropWhile_cons]
    split
    · rename_i h
      have hne : a ≠ x := by simpa using h
      rw [ih]
      simp [Ne.symm hne]
    · rename_i h
      have : a = x := by simpa using h
      simp [this]

theorem rsplitAt_par (dot : α) (par : List α) : rsplitAt dot par par = (some par, none) := by
  simp [rsplitAt]

theorem rsplitAt_no_dot (dot : α) (par f : List α) (hp : f ≠ par) (h : dot ∉ f) :
    rsplitAt dot par f = (none, some f) := by
  have : f.reverse.dropWhile (· ≠ dot) = [] := (dropWhile_ne_nil_iff' dot f.reverse).mpr (by simpa using h)
  simp only [rsplitAt, hp, if_false]
  rw [this]

theorem rsplitAt_split (dot : α) (par x y : List α) (hp : x ++ dot :: y ≠ par) (hy : dot ∉ y) :
    rsplitAt dot par (x ++ dot :: y) =
      if x = [] then (some (x ++ dot :: y), none) else (some x, some y) := by
  have hrev : (x ++ dot :: y).reverse = y.reverse ++ dot :: x.reverse := by simp
  have hall : ∀ a ∈ y.reverse, (fun z => decide (z ≠ dot)) a = true := by
    intro a ha
    have : a ≠ dot := fun h => hy (by rw [← h]; simpa using ha)
    simpa using this
  have hd : (y.reverse ++ dot :: x.reverse).dropWhile (· ≠ dot) = dot :: x.reverse := by
    rw [List.dropWhile_append_of_pos hall]; simp
  have ht : (y.reverse ++ dot :: x.reverse).takeWhile (· ≠ dot) = y.reverse := by
    rw [List.takeWhile_append_of_pos hall]; simp
  simp only [rsplitAt, hp, if_false, hrev]
  rw [hd]
  simp only [ht, List.reverse_eq_nil_iff, List.reverse_reverse]

/-- an element that occurs has a last occurrence -/
theorem split_last (dot : α) : ∀ (f : List α), dot ∈ f → ∃ x y, f = x ++ dot :: y ∧ dot ∉ y := by
  intro f
  induction f with
  | nil => intro h; cases h
  | cons a t ih =>
    intro h
    by_cases ht : dot ∈ t
    · obtain ⟨x, y, e, hy⟩ := ih ht
      exact ⟨a :: x, y, by rw [e]; rfl, hy⟩
    · have : a = dot := by
        rcases List.mem_cons.mp h with h | h
        · exact h.symm
        · exact absurd h ht
      exact ⟨[], t, by rw [this]; rfl, ht⟩

end generic

/-! ### `rsplit_file_at_dot`: characters vs bytes -/

theorem chars_PAR : chars PAR = [[DOT], [DOT]] := by decide

theorem chars_eq_par_iff (b : Bytes) : chars b = [[DOT], [DOT]] ↔ b = PAR := by
  constructor
  · intro h
    have := chars_flatten b
    rw [h] at this
    exact this.symm
  · intro h; rw [h]; exact chars_PAR

theorem isAscii_DOT : isAscii DOT = true := by decide

/-- chunks that are characters and none of which is the character `.` contain no byte `.` -/
theorem flatten_no_dot (Y : List Bytes) (hs : ∀ c ∈ Y, IsChar c) (h : [DOT] ∉ Y) : DOT ∉ Y.flatten := by
  intro hm
  obtain ⟨c, hc, hd⟩ := List.mem_flatten.mp hm
  rcases (hs c hc).bytes with ⟨x, rfl, _⟩ | hna
  · have : x = DOT := by simpa using (List.mem_singleton.mp hd).symm
    exact h (this ▸ hc)
  · have := hna DOT hd
    rw [isAscii_DOT] at this; cases this

theorem flatten_ne_nil (X : List Bytes) (hne : X ≠ []) (hs : ∀ c ∈ X, c ≠ []) : X.flatten ≠ [] := by
  cases X with
  | nil => exact absurd rfl hne
  | cons c X' =>
    have hc := hs c (by simp)
    intro h
    simp only [List.flatten_cons, List.append_eq_nil_iff] at h
    exact hc h.1

/-- **The UTF-8 family's `rsplit_file_at_dot` answers what the byte family's answers.**  Splitting the
characters of a valid UTF-8 name at its last character `.` and splitting its bytes at the last byte 0x2E
give the same stem and the same extension. -/
theorem utf8_rsplit_dot_eq_bytes {b : Bytes} (h : Valid b) :
    ((rsplitDotChars (chars b)).1.map List.flatten, (rsplitDotChars (chars b)).2.map List.flatten) = rsplitDot b := by
  rw [rsplitDot_eq_rsplitAt]
  unfold rsplitDotChars
  by_cases hp : b = PAR
  · subst hp
    rw [chars_PAR, rsplitAt_par, rsplitAt_par]
    rfl
  · have hpc : chars b ≠ [[DOT], [DOT]] := fun e => hp ((chars_eq_par_iff b).mp e)
    have hchar := chars_isChar h
    by_cases hd : [DOT] ∈ chars b
    · obtain ⟨X, Y, e, hY⟩ := split_last [DOT] (chars b) hd
      have hb : b = X.flatten ++ DOT :: Y.flatten := by
        have := chars_flatten b
        rw [e] at this
        simpa using this.symm
      have hYs : ∀ c ∈ Y, IsChar c := fun c hc => hchar c (by rw [e]; simp [hc])
      have hYd : DOT ∉ Y.flatten := flatten_no_dot Y hYs hY
      have hXn : ∀ c ∈ X, c ≠ [] := fun c hc => chars_ne_nil b c (by rw [e]; simp [hc])
      have e1 := rsplitAt_split [DOT] [[DOT], [DOT]] X Y (by rw [← e]; exact hpc) hY
      have e2 := rsplitAt_split DOT PAR X.flatten Y.flatten (by rw [← hb]; exact hp) hYd
      rw [e, e1]
      conv => rhs; rw [hb, e2]
      by_cases hX : X = []
      · subst hX
        simp
      · have := flatten_ne_nil X hX hXn
        simp [hX, this]
    · have hbd : DOT ∉ b := by
        have := flatten_no_dot (chars b) hchar hd
        rwa [chars_flatten] at this
      rw [rsplitAt_no_dot [DOT] _ _ hpc hd, rsplitAt_no_dot DOT _ _ hp hbd]
      simp [chars_flatten]

/-- hence `file_stem` / `extension` of the UTF-8 family are those of the byte family -/
theorem utf8_stem_ext_eq_bytes {b : Bytes} (h : Valid b) :
    (((rsplitDotChars (chars b)).1.or (rsplitDotChars (chars b)).2).map List.flatten = (rsplitDot b).1.or (rsplitDot b).2) ∧
    ((if (rsplitDotChars (chars b)).1.isSome then (rsplitDotChars (chars b)).2 else none).map List.flatten =
      if (rsplitDot b).1.isSome then (rsplitDot b).2 else none) := by
  have := utf8_rsplit_dot_eq_bytes h
  rw [← this]
  constructor
  · cases (rsplitDotChars (chars b)).1 <;> cases (rsplitDotChars (chars b)).2 <;> rfl
  · cases (rsplitDotChars (chars b)).1 <;> cases (rsplitDotChars (chars b)).2 <;> rfl

/-! ### `is_valid` of a normal component: the `char` table vs the byte table -/

theorem ofNat_toNat_lt {n : Nat} (h : n < 128) : (UInt8.ofNat n).toNat = n := by
  simp [UInt8.toNat_ofNat']
  omega

theorem isAscii_iff_toNat (x : UInt8) : isAscii x = true ↔ x.toNat < 128 := by
  simp [isAscii, UInt8.lt_iff_toNat_lt]

/-- one character: its code point is in the `char` table iff one of its bytes is in the byte table
(all table entries are ASCII) -/
theorem char_forbidden_iff (fc : List Nat) (hlt : ∀ n ∈ fc, n < 128) {c : Bytes} (hc : IsChar c) :
    fc.contains (codepoint c) = c.any (fun x => (fc.map UInt8.ofNat).contains x) := by
  have hbyte : ∀ x : UInt8, (fc.map UInt8.ofNat).contains x = true → isAscii x = true := by
    intro x hx
    simp only [List.contains_iff_mem, List.mem_map] at hx
    obtain ⟨n, hn, rfl⟩ := hx
    rw [isAscii_iff_toNat, ofNat_toNat_lt (hlt n hn)]
    exact hlt n hn
  rcases hc.bytes with ⟨x, rfl, hx⟩ | hna
  · show fc.contains x.toNat = ([x].any fun y => (fc.map UInt8.ofNat).contains y)
    simp only [List.any_cons, List.any_nil, Bool.or_false]
    rw [Bool.eq_iff_iff]
    simp only [List.contains_iff_mem, List.mem_map]
    constructor
    · intro h; exact ⟨x.toNat, h, by simp⟩
    · rintro ⟨n, hn, e⟩
      have : x.toNat = n := by rw [← e, ofNat_toNat_lt (hlt n hn)]
      rw [this]; exact hn
  · have h1 : fc.contains (codepoint c) = false := by
      rw [Bool.eq_false_iff]
      intro h
      have := hlt _ (List.contains_iff_mem.mp h)
      have := hc.codepoint_ge hna
      omega
    have h2 : c.any (fun x => (fc.map UInt8.ofNat).contains x) = false := by
      rw [Bool.eq_false_iff]
      intro h
      obtain ⟨x, hx, hx'⟩ := List.any_eq_true.mp h
      have := hbyte x hx'
      rw [hna x hx] at this; cases this
    rw [h1, h2]

theorem any_chars_eq_any_bytes (fc : List Nat) (hlt : ∀ n ∈ fc, n < 128) :
    ∀ (cs : List Bytes), (∀ c ∈ cs, IsChar c) →
      cs.any (fun c => fc.contains (codepoint c)) = cs.flatten.any (fun x => (fc.map UInt8.ofNat).contains x) := by
  intro cs
  induction cs with
  | nil => intro _; rfl
  | cons c cs ih =>
    intro h
    simp only [List.any_cons, List.flatten_cons, List.any_append]
    rw [char_forbidden_iff fc hlt (h c (by simp)), ih (fun c' hc' => h c' (by simp [hc']))]

/-- **The UTF-8 family's `is_valid` answers what the byte family's answers**: for a `char` table whose
entries are ASCII, "no character of the name is in the `char` table" is "no byte of the name is in the byte
table". -/
theorem utf8_name_valid_eq_bytes (fc : List Nat) (hlt : ∀ n ∈ fc, n < 128) {b : Bytes} (h : Valid b) :
    nameValidChars fc (chars b) = !b.any (fun x => (fc.map UInt8.ofNat).contains x) := by
  unfold nameValidChars
  rw [any_chars_eq_any_bytes fc hlt (chars b) (chars_isChar h), chars_flatten]

theorem all_lt_of_all {l : List Nat} (h : l.all (· < 128) = true) : ∀ n ∈ l, n < 128 := by
  intro n hn
  have := List.all_eq_true.mp h n hn
  simpa using this

/-- with the tables regenerated from the source: the UTF-8 predicates equal the model's byte predicates -/
theorem utf8_unix_name_valid {s : Bytes} (h : Valid s) :
    nameValidChars Generated.unixDisallowedChars (chars s) = (Comp.normal s).isValid .unix := by
  rw [utf8_name_valid_eq_bytes _ (all_lt_of_all C17.char_tables_eq.2.2.1) h, C17.char_tables_eq.1]
  rfl

theorem utf8_windows_name_valid {s : Bytes} (h : Valid s) :
    nameValidChars Generated.windowsDisallowedChars (chars s) = (Comp.normal s).isValid .windows := by
  rw [utf8_name_valid_eq_bytes _ (all_lt_of_all C17.char_tables_eq.2.2.2) h, C17.char_tables_eq.2.1]
  rfl

/-! ### lifted to whole paths: what the driver ops `u8dot` / `u8valid` compute -/

/-- `Utf8Path::file_stem` / `extension` (character level) are the byte family's, for every valid path -/
theorem u8StemExt_eq (e : Enc) (b : Bytes) (hv : Valid b) : u8StemExt e b = (fileStem e b, extension e b) := by
  unfold u8StemExt fileStem extension
  cases hf : fileName e b with
  | none => rfl
  | some f =>
    have hfv := C14.file_name_valid e b f hv hf
    have := utf8_stem_ext_eq_bytes hfv
    simp only [this.1, this.2]

theorem u8CompValid_eq (e : Enc) (c : Comp) (hc : Valid (c.bytes e)) : u8CompValid e c = c.isValid e := by
  cases c with
  | normal s =>
    cases e with
    | unix => exact utf8_unix_name_valid hc
    | windows => exact utf8_windows_name_valid hc
  | _ => rfl

/-- `Utf8Path::is_valid` (character level) is the byte family's `is_valid`, for every valid path -/
theorem u8IsValid_eq (e : Enc) (b : Bytes) (hv : Valid b) : u8IsValid e b = isValid e b := by
  unfold u8IsValid isValid
  have h := C14.comps_bytes_valid e b hv
  generalize comps e b = cs at h
  induction cs with
  | nil => rfl
  | cons c cs ih =>
    simp only [List.all_cons]
    have hc := h c (by simp)
    rw [u8CompValid_eq e c (by cases e; exact hc.1; exact hc.2), ih (fun c' hc' => h c' (by simp [hc']))]

/-! ### non-vacuity -/

-- "a.é" : stem "a", extension "é" — by characters and by bytes
example : rsplitDotChars (chars [0x61, 0x2E, 0xC3, 0xA9]) = (some [[0x61]], some [[0xC3, 0xA9]]) := by decide
example : rsplitDot [0x61, 0x2E, 0xC3, 0xA9] = (some [0x61], some [0xC3, 0xA9]) := by decide
-- U+012E (C4 AE) has low byte 0x2E but is not a dot: no extension
example : rsplitDotChars (chars [0x61, 0xC4, 0xAE, 0x62]) = (none, some [[0x61], [0xC4, 0xAE], [0x62]]) := by decide
-- U+015C (C5 9C) has low byte 0x5C (`\`) and is a valid Windows name character; `a|` is not a valid name
example : nameValidChars Generated.windowsDisallowedChars (chars [0x61, 0xC5, 0x9C]) = true := by decide
example : nameValidChars Generated.windowsDisallowedChars (chars [0x61, 0x7C]) = false := by decide

end TP.C14b
