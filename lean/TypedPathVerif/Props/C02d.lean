/-
Props/C02d.lean — the one *incomplete* prefix shape that is nevertheless stable.

`Win.Complete` (Lemmas/WinStable.lean) leaves out the prefixes with an empty share, because
`\\server` + `\x` re-parses with share `x`.  But when the separator after the server is already there —
`\\?\UNC\server\`, raw text of length 8 + |server| + 1 — the parser has consumed it into the prefix, and
whatever follows (nothing, or a separator and more) leaves kind, payloads and raw text as they are: the
next separator starts the body.  This is the class the harness lets in as a "well-formed base" on top of
the complete prefixes (`spec::win_stable_prefix`, DESIGN §11.4 round 10); here it is proved for the model:

* `stable_verbatimUNC_noshare_sep` — `Win.Stable` for `VerbatimUNC(server, "")` whose raw text ends with the
  consumed separator.

The plain `UNC(server, "")` with its separator (`\\server\`) re-parses the same way when a *separator* follows, but
joining a name onto a non-verbatim base that already ends in a separator writes no further one, so `\\server\` + `x`
is `\\server\x` with share `x` (the last `example`): that base is not stable under `push`, and the harness does not
let it in either.
-/
import TypedPathVerif.Props.C02c

namespace TP.Win

open TP TP.C02c

theorem stable_verbatimUNC_noshare_sep {b rest : Bytes} {p : PrefixComp} {sv : Bytes}
    (h : parsePrefixComp b = some (p, rest)) (hk : p.kind = .verbatimUNC sv [])
    (hlen : p.raw.length = 8 + sv.length + 1) : Stable p := by
  have hraw := parsePrefixComp_raw h
  have hp := parsePrefix_of_comp h
  rw [hk] at hp
  obtain ⟨s1, s2, s3, x0, tail, hb, h1, h2, h3, hx0, hsvne, hsvfree, htail, hrest, hrestok⟩ :=
    (verbatim_unc_noshare_iff b rest sv).mp hp
  -- the raw text is the header, the server and exactly one more byte: the consumed separator
  have hblen : b.length = 8 + sv.length + tail.length := by rw [hb]; simp; omega
  have hrawlen : p.raw.length + rest.length = b.length := by rw [← hraw]; simp
  cases tail with
  | nil =>
    simp only [maybeSep, takeSep] at hrest
    subst hrest
    simp at hblen hrawlen
    omega
  | cons x t =>
    have hx : wsep (!startsWith [s1, s2, QMARK, s3] VERB) x = true := htail
    rw [maybeSep_cons_sep t hx] at hrest
    subst hrest
    have hr : p.raw = s1 :: s2 :: QMARK :: s3 :: 85 :: 78 :: 67 :: x0 :: (sv ++ [x]) := by
      rw [hb] at hraw
      have : p.raw ++ rest = (s1 :: s2 :: QMARK :: s3 :: 85 :: 78 :: 67 :: x0 :: (sv ++ [x])) ++ rest := by
        simpa using hraw
      exact List.append_cancel_right this
    have hn : normOf p.raw = !startsWith [s1, s2, QMARK, s3] VERB := by
      rw [hr]; unfold normOf; rw [startsWith_hdr]
    intro rest' hok
    have hok' : HeadOK (wsep (!startsWith [s1, s2, QMARK, s3] VERB)) rest' := by
      cases rest' with
      | nil => trivial
      | cons y r =>
        unfold RestOK at hok
        rw [hk] at hok
        have : wsep (normOf p.raw) y = true := hok
        rw [hn] at this
        exact this
    constructor
    · have := (verbatim_unc_noshare_iff (s1 :: s2 :: QMARK :: s3 :: 85 :: 78 :: 67 :: x0 :: (sv ++ x :: rest')) rest' sv).mpr
        ⟨s1, s2, s3, x0, x :: rest', rfl, h1, h2, h3, hx0, hsvne, hsvfree, hx, (maybeSep_cons_sep rest' hx).symm, hok'⟩
      have h2' := parsePrefixComp_of (raw := s1 :: s2 :: QMARK :: s3 :: 85 :: 78 :: 67 :: x0 :: (sv ++ [x])) (rest := rest')
        (k := .verbatimUNC sv []) (by simpa using this)
      rw [hr]
      have : (⟨s1 :: s2 :: QMARK :: s3 :: 85 :: 78 :: 67 :: x0 :: (sv ++ [x]), .verbatimUNC sv []⟩ : PrefixComp) = p := by
        cases p; simp only at hr hk; subst hr; subst hk; rfl
      rw [← this]; exact h2'
    · rw [hr]; exact startsWith_append_long _ _ (by simp)

/-! non-vacuity: `\\?\UNC\s\` is such a prefix; followed by `\x` it is the same prefix, the `\` starting the
body; `\\?\UNC\s` (no separator yet) is not stable -/
example : parsePrefix [92, 92, 63, 92, 85, 78, 67, 92, 115, 92] = some (.verbatimUNC [115] [], []) ∧
    parsePrefix ([92, 92, 63, 92, 85, 78, 67, 92, 115, 92] ++ [92, 120]) = some (.verbatimUNC [115] [], [92, 120]) := by decide
example : parsePrefix ([92, 92, 63, 92, 85, 78, 67, 92, 115] ++ [92, 120]) = some (.verbatimUNC [115] [120], []) := by decide

-- `\\s\` + `x` (what `push` writes): the share becomes `x`
example : parsePrefix ([92, 92, 115, 92] ++ [120]) = some (.unc [115] [120], []) := by decide

/-- every kind table of `Generated/Constants.lean` was read from the `matches!` arms of the source on this run
(gen/constants.py keeps the last good table for a query whose arms it can no longer read, names it here, and
`C02.kind_sets_eq` would then be a statement about arms that are no longer in the source) -/
theorem kind_sets_read : Generated.kindSetsStale = [] := rfl

end TP.Win
