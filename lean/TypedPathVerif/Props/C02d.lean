/-
Props/C02d.lean — the one *incomplete* prefix shape that is nevertheless stable.

`Win.Complete` (Lemmas/WinStable.lean) leaves out the prefixes with an empty share, because
`\\server` + `\x` re-parses with share `x`.  But when the separator after the server is already there —
`\\?\UNC\server\`, raw text of length 8 + |server| + 1 — the parser has consumed it into the prefix, and
whatever follows (nothing, or a separator and more) leaves kind, payloads and raw text as they are: the
next separator starts the body.  This is the class the harness lets in as a "well-formed base" on top of
the complete prefixes (`spec::win_stable_prefix`, DESIGN §11.4 round 10); here it is proved for the model:

* `stable_verbatimUNC_noshare_sep` — `Win.Stable` for `VerbatimUNC(server, "")` whose raw text ends with the
  consumed separator.

* `stable_unc_noshare_sep` — the same for the plain `UNC(server, "")` with its separator (`\\server\`, server other than
  `?`), *in the sense of `Stable`*: what follows must be nothing or a separator.  Joining a name onto a non-verbatim
  base that already ends in a separator writes no further one, so `\\server\` + `x` is `\\server\x` with share `x` (the
  last `example`): that base is not stable under `push`, and the harness does not let it in.
-/
import TypedPathVerif.Props.C02c

namespace TP.Win

open TP TP.C02c

theorem stable_verbatimUNC_noshare_sep {b rest : Bytes} {p : PrefixComp} {sv : Bytes}
    (h : parsePrefixComp b = some (p, rest)) (hk : p.kind = .verbatimUNC sv [])
    (hlen : p.raw.length = 8 + sv.length + 1) : Stable p := by
  have hraw := parsePrefixComp_raw h
  have hp := parsePrefix_of_comp h
  rw [hk] at hp
  obtain ⟨s1, s2, s3, x0, tail, hb, h1, h2, h3, hx0, hsvne, hsvfree, htail, hrest, hrestok⟩ :=
    (verbatim_unc_noshare_iff b rest sv).mp hp
  -- the raw text is the header, the server and exactly one more byte: the consumed separator
  have hblen : b.length = 8 + sv.length + tail.length := by rw [hb]; simp; omega
  have hrawlen : p.raw.length + rest.length = b.length := by rw [← hraw]; simp
  cases tail with
  | nil =>
    simp only [maybeSep, takeSep] at hrest
    subst hrest
    simp at hblen hrawlen
    omega
  | cons x t =>
    have hx : wsep (!startsWith [s1, s2, QMARK, s3] VERB) x = true := htail
    rw [maybeSep_cons_sep t hx] at hrest
    subst hrest
    have hr : p.raw = s1 :: s2 :: QMARK :: s3 :: 85 :: 78 :: 67 :: x0 :: (sv ++ [x]) := by
      rw [hb] at hraw
      have : p.raw ++ rest = (s1 :: s2 :: QMARK :: s3 :: 85 :: 78 :: 67 :: x0 :: (sv ++ [x])) ++ rest := by
        simpa using hraw
      exact List.append_cancel_right this
    have hn : normOf p.raw = !startsWith [s1, s2, QMARK, s3] VERB := by
      rw [hr]; unfold normOf; rw [startsWith_hdr]
    intro rest' hok
    have hok' : HeadOK (wsep (!startsWith [s1, s2, QMARK, s3] VERB)) rest' := by
      cases rest' with
      | nil => trivial
      | cons y r =>
        unfold RestOK at hok
        rw [hk] at hok
        have : wsep (normOf p.raw) y = true := hok
        rw [hn] at this
        exact this
    constructor
    · have := (verbatim_unc_noshare_iff (s1 :: s2 :: QMARK :: s3 :: 85 :: 78 :: 67 :: x0 :: (sv ++ x :: rest')) rest' sv).mpr
        ⟨s1, s2, s3, x0, x :: rest', rfl, h1, h2, h3, hx0, hsvne, hsvfree, hx, (maybeSep_cons_sep rest' hx).symm, hok'⟩
      have h2' := parsePrefixComp_of (raw := s1 :: s2 :: QMARK :: s3 :: 85 :: 78 :: 67 :: x0 :: (sv ++ [x])) (rest := rest')
        (k := .verbatimUNC sv []) (by simpa using this)
      rw [hr]
      have : (⟨s1 :: s2 :: QMARK :: s3 :: 85 :: 78 :: 67 :: x0 :: (sv ++ [x]), .verbatimUNC sv []⟩ : PrefixComp) = p := by
        cases p; simp only at hr hk; subst hr; subst hk; rfl
      rw [← this]; exact h2'
    · rw [hr]; exact startsWith_append_long _ _ (by simp)

/-- `UNC(server, "")` whose raw text ends with the consumed separator (`\\server\`) is stable in the sense of
`Stable` — re-parsed identically when nothing or a *separator* follows — provided the server is not `?`
(`\\?\` followed by a separator is a verbatim prefix). -/
theorem stable_unc_noshare_sep {b rest : Bytes} {p : PrefixComp} {sv : Bytes}
    (h : parsePrefixComp b = some (p, rest)) (hk : p.kind = .unc sv [])
    (hlen : p.raw.length = 2 + sv.length + 1) (hq : sv ≠ [QMARK]) : Stable p := by
  have hraw := parsePrefixComp_raw h
  have hp := parsePrefix_of_comp h
  rw [hk] at hp
  obtain ⟨s1, s2, tail, hb, h1, h2, hsvne, hsvfree, htail, hrest, hrestok, _⟩ := (unc_noshare_iff b rest sv).mp hp
  have hblen : b.length = 2 + sv.length + tail.length := by rw [hb]; simp; omega
  have hrawlen : p.raw.length + rest.length = b.length := by rw [← hraw]; simp
  cases tail with
  | nil =>
    simp only [maybeSep, takeSep] at hrest
    subst hrest
    simp at hblen hrawlen
    omega
  | cons x t =>
    have hx : wsep true x = true := htail
    rw [maybeSep_cons_sep t hx] at hrest
    subst hrest
    have hr : p.raw = s1 :: s2 :: (sv ++ [x]) := by
      rw [hb] at hraw
      have : p.raw ++ rest = (s1 :: s2 :: (sv ++ [x])) ++ rest := by simpa using hraw
      exact List.append_cancel_right this
    have hlen4 : 4 ≤ p.raw.length := by
      rw [hr]
      cases sv with
      | nil => exact absurd rfl hsvne
      | cons c r => simp
    have hn : normOf p.raw = true := by
      unfold normOf
      rw [hr]
      match sv, hsvne, hq, hsvfree with
      | [c], _, hq, _ =>
        have : c ≠ QMARK := fun e => hq (by rw [e])
        simp [startsWith, VERB, List.isPrefixOf]
        exact Or.inr (Or.inr (Or.inl (fun e => this e.symm)))
      | c :: d :: r, _, _, hfree =>
        have hd : anySep d = false := hfree d (by simp)
        have : d ≠ 92 := by
          intro e; rw [e] at hd; revert hd; decide
        simp [startsWith, VERB, List.isPrefixOf]
        exact Or.inr (Or.inr (Or.inr (fun e => this e.symm)))
    intro rest' hok
    have hok' : HeadOK anySep rest' := by
      cases rest' with
      | nil => trivial
      | cons y r =>
        unfold RestOK at hok
        rw [hk] at hok
        have : wsep (normOf p.raw) y = true := hok
        rw [hn] at this
        exact this
    constructor
    · have := (unc_noshare_iff (s1 :: s2 :: (sv ++ x :: rest')) rest' sv).mpr
        ⟨s1, s2, x :: rest', rfl, h1, h2, hsvne, hsvfree, hx, (maybeSep_cons_sep rest' hx).symm, hok', fun e => absurd e hq⟩
      have h2' := parsePrefixComp_of (raw := s1 :: s2 :: (sv ++ [x])) (rest := rest') (k := .unc sv []) (by simpa using this)
      rw [hr]
      have : (⟨s1 :: s2 :: (sv ++ [x]), .unc sv []⟩ : PrefixComp) = p := by
        cases p; simp only at hr hk; subst hr; subst hk; rfl
      rw [← this]; exact h2'
    · exact startsWith_append_long _ _ hlen4

/-! non-vacuity: `\\?\UNC\s\` is such a prefix; followed by `\x` it is the same prefix, the `\` starting the
body; `\\?\UNC\s` (no separator yet) is not stable -/
example : parsePrefix [92, 92, 63, 92, 85, 78, 67, 92, 115, 92] = some (.verbatimUNC [115] [], []) ∧
    parsePrefix ([92, 92, 63, 92, 85, 78, 67, 92, 115, 92] ++ [92, 120]) = some (.verbatimUNC [115] [], [92, 120]) := by decide
example : parsePrefix ([92, 92, 63, 92, 85, 78, 67, 92, 115] ++ [92, 120]) = some (.verbatimUNC [115] [120], []) := by decide

-- `\\s\` + `x` (what `push` writes): the share becomes `x`
example : parsePrefix ([92, 92, 115, 92] ++ [120]) = some (.unc [115] [120], []) := by decide

end TP.Win
