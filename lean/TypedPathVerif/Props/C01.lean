/-
Props/C01.lean — Unix paths parse exactly as std::path does on a Unix host.

`StdSpec` (Spec/StdSpec.lean) is the declarative description of std's Unix parser; the
harness compares it with real `std::path` on every run.  The theorems say the model refines
it: forward, backward, under every interleaving, for the remainder after every step and for
the root / absoluteness queries.
-/
import TypedPathVerif.Lemmas.Reparse
import TypedPathVerif.Props.C03

namespace TP.C01

open TP

theorem usep_eq_isSlash : usep = StdSpec.isSlash := rfl

/-- Forward iteration yields exactly std's components. -/
theorem unix_front_all (b : Bytes) : comps .unix b = StdSpec.comps b := by
  rw [C03.comps_new_closed]
  simp only [Enc.new, List.nil_append]
  obtain ⟨rest, h1, h2⟩ := splitOn_toks usep b
  unfold StdSpec.comps
  rw [← usep_eq_isSlash, h1]
  simp only
  cases b with
  | nil => simp [toks, firstSeg, StdSpec.first] at *; simpa [toks, dropFirstSeg] using h2
  | cons x xs =>
    by_cases hx : usep x = true
    · have hxs : x = SLASH := by simpa [usep] using hx
      simp only [toks, hx, if_true, firstSeg, dropFirstSeg] at h2 ⊢
      rw [compsT_true_cons, h2, body_cons_junk _ (by rfl)]
      simp [headComp, hxs, StdSpec.first]
    · have hxs : x ≠ SLASH := by simpa [usep] using hx
      have hne := toks_seg_ne_nil usep (x :: xs)
      cases hts : toks usep (x :: xs) with
      | nil => simp [toks, hx] at hts; split at hts <;> cases hts
      | cons t r =>
        cases t with
        | sep y =>
          simp only [toks, hx, Bool.false_eq_true, if_false] at hts
          split at hts <;> cases hts
        | seg s =>
          rw [hts] at h2 hne
          simp only [firstSeg, dropFirstSeg] at h2 ⊢
          have hs : s ≠ [] := hne s (by simp)
          rw [compsT_true_cons, h2]
          simp only [List.head?_cons, Option.some.injEq, hxs, if_false, List.nil_append, headComp,
            StdSpec.first, hs]
          by_cases hc : s = CUR
          · simp [hc, segComp, CUR, PAR]
          · simp [hc, segComp, StdSpec.classify]

/-- Any interleaving of front and back steps returns what std's double-ended iterator
returns, and the components still to come are std's untouched middle. -/
theorem unix_interleave (b : Bytes) (steps : List Bool) :
    (runSteps (Enc.new .unix b) steps).1 = (takeSteps (StdSpec.comps b) steps).1 ∧
    (runSteps (Enc.new .unix b) steps).2.comps = (takeSteps (StdSpec.comps b) steps).2 := by
  rw [← unix_front_all]
  exact C03.dei_interleave .unix b steps

/-- states reachable from a fresh Unix parser -/
def UReach (st : PState) : Prop :=
  st.pre = none ∧ st.k = false ∧ WFToks usep st.toks ∧ st.Inv

theorem UReach_new (b : Bytes) : UReach (Enc.new .unix b) :=
  ⟨rfl, rfl, WFToks_toks usep b, Enc.new_inv .unix b⟩

theorem UReach_front {st st' : PState} {c : Comp} (h : st.nextFront = some (c, st')) (hr : UReach st) :
    UReach st' := by
  obtain ⟨hp, hk, hw, hi⟩ := hr
  have hi' := nextFront_inv h hi
  unfold PState.nextFront at h
  simp only [hp] at h
  cases hf : frontT st.k st.atBeg st.toks with
  | none => simp [hf] at h
  | some r =>
    obtain ⟨c', ts'⟩ := r
    simp only [hf, Option.some.injEq, Prod.mk.injEq] at h
    obtain ⟨p, hp'⟩ := frontT_suffix hf
    rw [← h.2] at hi' ⊢
    refine ⟨rfl, hk, ?_, hi'⟩
    simp only
    rw [hp'] at hw
    exact WFToks_suffix p hw

theorem UReach_back {st st' : PState} {c : Comp} (h : st.nextBack = some (c, st')) (hr : UReach st) :
    UReach st' := by
  obtain ⟨hp, hk, hw, hi⟩ := hr
  have hi' := (back_comps hi h).2
  unfold PState.nextBack at h
  split at h
  · cases hb : backT st.k st.atBeg st.toks with
    | none => simp [hb] at h
    | some r =>
      obtain ⟨c', ts'⟩ := r
      simp only [hb, Option.some.injEq, Prod.mk.injEq] at h
      obtain ⟨q, hq⟩ := backT_prefix hb
      rw [← h.2] at hi' ⊢
      refine ⟨hp, hk, ?_, hi'⟩
      simp only
      rw [hq] at hw
      exact WFToks_prefix ts' hw
  · simp [hp] at h

theorem UReach_runSteps (steps : List Bool) : ∀ st, UReach st → UReach (runSteps st steps).2 := by
  induction steps with
  | nil => intro st h; exact h
  | cons b bs ih =>
    intro st h
    simp only [runSteps]
    cases b with
    | false =>
      simp only [Bool.false_eq_true, if_false]
      cases hf : st.nextFront with
      | none => exact ih st h
      | some r => exact ih r.2 (UReach_front hf h)
    | true =>
      simp only [if_true]
      cases hb : st.nextBack with
      | none => exact ih st h
      | some r => exact ih r.2 (UReach_back hb h)

/-- (R) for Unix: re-parsing the bytes that remain gives the components that remain. -/
theorem unix_reparse {st : PState} (hr : UReach st) : comps .unix st.remaining = st.comps := by
  obtain ⟨hp, hk, hw, hi⟩ := hr
  rw [C03.comps_new_closed, comps_closed st hi]
  simp only [Enc.new, PState.remaining, PState.preBytes, hp, List.nil_append]
  rw [toks_untoks st.toks hw, hk]
  cases hb : st.atBeg with
  | true => rfl
  | false =>
    have hnl : noLeadJunk false st.toks := by
      cases hi with
      | inl h => rw [hb] at h; cases h
      | inr h => rw [hk] at h; exact h
    cases hts : st.toks with
    | nil => simp
    | cons t r =>
      rw [hts] at hnl
      cases t with
      | sep x => simp [noLeadJunk, junk] at hnl
      | seg s =>
        have hnj : junk false (.seg s) = false := hnl
        rw [compsT_true_cons]
        simp only [compsT, Bool.false_eq_true, if_false, headComp]
        rw [body_cons_seg r hnj, segComp_of_not_junk hnj]

/-- After every step the not-yet-consumed remainder, viewed as a path (parsed by std), has
exactly std's remaining components. -/
theorem unix_remainder (b : Bytes) (steps : List Bool) :
    StdSpec.comps (runSteps (Enc.new .unix b) steps).2.remaining =
      (takeSteps (StdSpec.comps b) steps).2 := by
  rw [← unix_front_all, unix_reparse (UReach_runSteps steps _ (UReach_new b))]
  exact (unix_interleave b steps).2

theorem segComp_ne_root (c : Bool) (s : Bytes) : segComp c s ≠ .root := by
  unfold segComp; split <;> (try split) <;> simp

theorem hasRoot_unix_toks (b : Bytes) :
    hasRoot .unix b = (match toks usep b with | .sep _ :: _ => true | _ => false) := by
  simp only [hasRoot, Enc.new, PState.nextFront]
  cases toks usep b with
  | nil => simp [frontT]
  | cons t r =>
    cases t with
    | sep y => simp [frontT]
    | seg s =>
      simp only [frontT]
      have := segComp_ne_root (true || false) s
      split
      · rename_i heq
        simp only [Option.some.injEq, Prod.mk.injEq] at heq
        exact absurd heq.1 this
      · rfl

theorem toks_head_sep (b : Bytes) :
    (match toks usep b with | .sep _ :: _ => true | _ => false) = decide (b.head? = some SLASH) := by
  cases b with
  | nil => simp [toks]
  | cons x xs =>
    by_cases hx : usep x = true
    · have hxs : x = SLASH := by simpa [usep] using hx
      simp only [toks, hx, if_true]
      simp [hxs]
    · have hxs : x ≠ SLASH := by simpa [usep] using hx
      simp only [toks, hx, Bool.false_eq_true, if_false, List.head?_cons, Option.some.injEq, hxs, decide_false]
      cases toks usep xs with
      | nil => rfl
      | cons t r => cases t <;> rfl

/-- The path reports a root / absoluteness exactly when std does. -/
theorem unix_has_root (b : Bytes) :
    hasRoot .unix b = StdSpec.hasRoot b ∧ isAbsolute .unix b = StdSpec.hasRoot b := by
  have h : hasRoot .unix b = StdSpec.hasRoot b := by
    rw [hasRoot_unix_toks, toks_head_sep]; rfl
  exact ⟨h, h⟩

/-! ### Non-vacuity -/

example : StdSpec.comps [47, 97, 47, 46, 47, 46, 46, 47] = [.root, .normal [97], .parent] := by decide
example : StdSpec.comps [46, 47, 47, 97] = [.cur, .normal [97]] := by decide
example : (takeSteps (StdSpec.comps [47, 97, 47, 98]) [true, false]).2 = [.normal [97]] := by decide

end TP.C01
