/-
Props/C18.lean — Every operation is total: no panic, no unbounded loop (parser part).

`Model/Comb/*` transcribes the parser combinators (`src/common/non_utf8/parser.rs`) and the
Unix and Windows component / prefix parsers function by function at BYTE level, with

* every slice index (`&input[a..b]`, `input[0]`), every `usize` subtraction and every
  `.unwrap()` written as a CHECKED operation whose failure is the result `Fault.panic`, and
* every `while` loop given `input.len() + 1` iterations of fuel, running out of which is the
  result `Fault.diverge`.

The theorems below say that, for EVERY byte string and EVERY sequence of front/back steps, these
state machines never produce a fault, and return step by step exactly the components and the
remaining bytes of the token-level parser (`Model/Parser.lean`) about which all other
properties are proved.  Together with `C03.dei_exhaust` this also bounds the number of successful
steps by the length of the input.

What this file does NOT cover is stated in DESIGN.md §C18: the operations outside the parsers
(Path / PathBuf / Encoding methods) are total functions in the model by Lean's termination
checker, their partial-operation sites are covered by `set_ext_cut_in_range`,
`hash_index_in_range`, `checked_count_no_underflow` below, and stack depth / allocation / time
of the Rust code are explored (catch_unwind + time limit), not proved.
-/
import TypedPathVerif.Lemmas.CombSim
import TypedPathVerif.Lemmas.CombOps
import TypedPathVerif.Props.C03
import TypedPathVerif.Props.C13
import TypedPathVerif.Generated.Partial

namespace TP.C18

open TP TP.Comb

/-- run a sequence of steps (`true` = from the back) on a fault-capable parser state machine; a
failed step leaves the state as it is; a fault ends the run -/
def runC {σ : Type} (front back : σ → Step σ) : σ → List Bool → Except Fault (List (Option Comp) × σ)
  | s, [] => .ok ([], s)
  | s, b :: bs =>
    match (if b then back s else front s) with
    | .some c s' =>
      match runC front back s' bs with
      | .ok r => .ok (some c :: r.1, r.2)
      | .error f => .error f
    | .none =>
      match runC front back s bs with
      | .ok r => .ok (none :: r.1, r.2)
      | .error f => .error f
    | .fault f => .error f

/-- generic simulation argument -/
theorem runC_sim {σ : Type} (front back : σ → Step σ) (R : σ → PState → Prop)
    (hf : ∀ c s, R c s → match s.nextFront with
      | some (x, s') => ∃ c', front c = .some x c' ∧ R c' s'
      | none => front c = .none)
    (hb : ∀ c s, R c s → match s.nextBack with
      | some (x, s') => ∃ c', back c = .some x c' ∧ R c' s'
      | none => back c = .none)
    (steps : List Bool) : ∀ (c : σ) (s : PState), R c s →
      ∃ c', runC front back c steps = .ok ((runSteps s steps).1, c') ∧ R c' (runSteps s steps).2 := by
  induction steps with
  | nil => intro c s h; exact ⟨c, rfl, h⟩
  | cons b bs ih =>
    intro c s h
    cases b with
    | false =>
      have h1 := hf c s h
      simp only [runC, runSteps, Bool.false_eq_true, if_false]
      cases hn : s.nextFront with
      | none =>
        rw [hn] at h1
        obtain ⟨c', hr, hR⟩ := ih c s h
        exact ⟨c', by simp [h1, hr], hR⟩
      | some p =>
        obtain ⟨x, s'⟩ := p
        rw [hn] at h1
        obtain ⟨c1, hc1, hR1⟩ := h1
        obtain ⟨c', hr, hR⟩ := ih c1 s' hR1
        exact ⟨c', by simp [hc1, hr], hR⟩
    | true =>
      have h1 := hb c s h
      simp only [runC, runSteps, if_true]
      cases hn : s.nextBack with
      | none =>
        rw [hn] at h1
        obtain ⟨c', hr, hR⟩ := ih c s h
        exact ⟨c', by simp [h1, hr], hR⟩
      | some p =>
        obtain ⟨x, s'⟩ := p
        rw [hn] at h1
        obtain ⟨c1, hc1, hR1⟩ := h1
        obtain ⟨c', hr, hR⟩ := ih c1 s' hR1
        exact ⟨c', by simp [hc1, hr], hR⟩

/-- **Unix parser never panics or diverges.** For every byte string and every sequence of
`next` / `next_back` calls, the byte-level transcription of the Unix parser — every index and
subtraction checked, every loop fuelled by the input length — returns normally, and what it
returns (components, then `remaining()`) is what the token-level model returns. -/
theorem unix_parser_total (b : Bytes) (steps : List Bool) :
    ∃ c', runC Unix.St.nextFront Unix.St.nextBack (Unix.St.new b) steps
        = .ok ((runSteps (Enc.new .unix b) steps).1, c') ∧
      c'.remaining = (runSteps (Enc.new .unix b) steps).2.remaining := by
  obtain ⟨c', h1, h2⟩ := runC_sim Unix.St.nextFront Unix.St.nextBack Unix.Sim
    (fun _ _ h => Unix.sim_front h) (fun _ _ h => Unix.sim_back h) steps _ _ (Unix.sim_new b)
  exact ⟨c', h1, Unix.sim_remaining h2⟩

/-- **Windows parser never panics or diverges** — including `Parser::new` (the `.unwrap()` of
`maybe(prefix_component)`, the six prefix alternatives with their `consumed` arithmetic) and the
prefix-length slice arithmetic of `next_front` / `next_back`. -/
theorem windows_parser_total (b : Bytes) (steps : List Bool) :
    ∃ c0, Windows.St.new b = .ok c0 ∧
      ∃ c', runC Windows.St.nextFront Windows.St.nextBack c0 steps
          = .ok ((runSteps (Enc.new .windows b) steps).1, c') ∧
        c'.remaining = (runSteps (Enc.new .windows b) steps).2.remaining := by
  obtain ⟨c0, hn, hs⟩ := Windows.sim_new b
  obtain ⟨c', h1, h2⟩ := runC_sim Windows.St.nextFront Windows.St.nextBack Windows.Sim
    (fun _ _ h => Windows.sim_front h) (fun _ _ h => Windows.sim_back h) steps _ _ hs
  exact ⟨c0, hn, c', h1, Windows.sim_remaining h2⟩

/-- the combinator machines therefore return, for every interleaving, what taking from the two
ends of the forward component list returns (C03 carried down to the byte level) -/
theorem unix_comb_interleave (b : Bytes) (steps : List Bool) :
    ∃ c', runC Unix.St.nextFront Unix.St.nextBack (Unix.St.new b) steps
        = .ok ((takeSteps (comps .unix b) steps).1, c') := by
  obtain ⟨c', h, _⟩ := unix_parser_total b steps
  exact ⟨c', by rw [h, (C03.dei_interleave .unix b steps).1]⟩

theorem windows_comb_interleave (b : Bytes) (steps : List Bool) :
    ∃ c0, Windows.St.new b = .ok c0 ∧
      ∃ c', runC Windows.St.nextFront Windows.St.nextBack c0 steps
          = .ok ((takeSteps (comps .windows b) steps).1, c') := by
  obtain ⟨c0, hn, c', h, _⟩ := windows_parser_total b steps
  exact ⟨c0, hn, c', by rw [h, (C03.dei_interleave .windows b steps).1]⟩

/-! ### partial operations outside the parsers -/

/-- **`Encoding::hash` never indexes out of range** (both encodings): the loop with `path[i]`,
`&path[component_start..i]`, `&path[component_start..]` and `&path[prefix_len..]` written with
checked indexing returns normally, and writes exactly the model's chunk sequence. -/
theorem hash_index_in_range (e : Enc) (b : Bytes) :
    Ops.hashChunksC e b = some (hashChunks e b) := Ops.hashChunksC_eq e b

/-- **`normal_cnt -= 1` in `push_checked` never underflows** (both encodings), for every
component list and every starting count. -/
theorem checked_count_no_underflow (e : Enc) (cs : List Comp) (n : Nat) :
    Ops.checkedScanC e n cs = some (checkedScan e n cs) := Ops.checkedScanC_eq e cs n

/-- **`set_extension`: `end_file_stem - start` is in range and `truncate` cuts inside the buffer**,
at a position followed by `.`, a separator, a `.` segment or nothing — never inside a name, so on
a character boundary of every UTF-8 buffer (`String::truncate` does not panic). -/
theorem set_ext_cut_in_range (e : Enc) (b x f : Bytes) (h : fileName e b = some f) :
    ∃ cut, cut ≤ b.length ∧ (setExtension e b x).1 = b.take cut ++ (if x = [] then [] else DOT :: x) ∧
      ((b.drop cut) = [] ∨ (b.drop cut).head? = some DOT ∨
        ∃ t j, junk (e.new b).k t = true ∧ b.drop cut = untoks (t :: j)) := by
  obtain ⟨pre, st, after, hb, _, hset, hafter⟩ := C13.set_ext_cut_boundary e b x f h
  have htake : b.take (pre ++ st).length = pre ++ st := by rw [hb]; exact List.take_left' rfl
  have hdrop : b.drop (pre ++ st).length = after := by rw [hb]; exact List.drop_left' rfl
  refine ⟨(pre ++ st).length, ?_, ?_, ?_⟩
  · rw [hb, List.length_append (as := pre ++ st)]; omega
  · rw [hset, htake]
  · rw [hdrop]; exact hafter

/-! ### the table of partial-operation sites, regenerated from the source on every run

`gen/partial.py` counts, per non-test source file, the sites of
`[indexing, unwrap/expect, subtraction, truncate, while/loop, panicking macro, unsafe]`.
`coveredSites` is the table those theorems were written against; each row says what covers it.
A new, removed or moved site changes the generated table and breaks `partial_sites_covered`. -/

def coveredSites : List (String × List Nat) := [
  -- slices of take_until_byte / rtake_until_byte / take / bytes / byte, `len - input.len()`,
  -- `len - 1`, the one_or_more loop and its `next.unwrap()`: Model/Comb/Core.lean, never faulting
  -- by unix_parser_total / windows_parser_total
  ("src/common/non_utf8/parser.rs", [9, 1, 2, 0, 1, 0, 0]),
  -- the `loop` of iter_after: consumes one component of `iter` per iteration (structural
  -- recursion in Model/Path.lean); unsafe: repr(transparent) casts (modelled, not verified; C19)
  ("src/common/non_utf8/path.rs", [0, 0, 0, 0, 1, 0, 7]),
  -- pop: truncate(parent length) (parent_is_prefix, C09); set_extension: set_ext_cut_in_range
  ("src/common/non_utf8/pathbuf.rs", [0, 0, 1, 2, 0, 0, 1]),
  ("src/common/utf8/path.rs", [0, 0, 0, 0, 1, 0, 8]),
  -- String::truncate needs a character boundary: set_ext_cut_in_range + C14 (parent of a valid
  -- buffer is valid); unsafe: from_utf8_unchecked / as_mut_vec, justified by C14.mutations_valid
  ("src/common/utf8/pathbuf.rs", [0, 0, 1, 2, 0, 0, 2]),
  -- hash loop: hash_index_in_range; normal_cnt: checked_count_no_underflow
  ("src/unix/non_utf8.rs", [4, 0, 1, 0, 0, 0, 0]),
  ("src/unix/utf8.rs", [0, 0, 0, 0, 0, 0, 2]),
  -- `&input[..1]` ("preserve root dir") and move_back_to_next's loop: unix_parser_total
  ("src/unix/non_utf8/components/parser.rs", [1, 0, 0, 0, 1, 0, 0]),
  ("src/unix/utf8/components.rs", [0, 0, 0, 0, 0, 0, 3]),
  ("src/unix/utf8/components/component.rs", [0, 0, 0, 0, 0, 0, 1]),
  -- hash loop incl. `&path[prefix_len..]`: hash_index_in_range; normal_cnt:
  -- checked_count_no_underflow; Vec::truncate (rules 2 and 3 of push) cannot panic
  ("src/windows/non_utf8.rs", [7, 0, 1, 2, 0, 0, 0]),
  ("src/windows/utf8.rs", [0, 0, 0, 0, 0, 0, 2]),
  -- `.expect(..)` under `cfg!(windows)`: unreachable on this host (not covered)
  ("src/windows/non_utf8/components/component.rs", [0, 1, 0, 0, 0, 0, 0]),
  -- Parser::new's unwrap, the prefix-length slices of next_front / next_back, `input[0]`,
  -- `&input[1..]`, `&input[..1]`, prefix_component's `input.len() - new_input.len()`,
  -- `drive_letter[0]`, move_back_to_next's loop: windows_parser_total
  ("src/windows/non_utf8/components/parser.rs", [12, 1, 1, 0, 1, 0, 0]),
  ("src/windows/utf8/components.rs", [0, 0, 0, 0, 0, 0, 3]),
  ("src/windows/utf8/components/component.rs", [0, 0, 0, 0, 0, 0, 1]),
  ("src/windows/utf8/components/component/prefix.rs", [0, 0, 0, 0, 0, 0, 2])
]

/-- the source has exactly the partial-operation sites the theorems above were written for -/
theorem partial_sites_covered : Generated.partialSites = coveredSites := rfl

/-! ### non-vacuity: the machines do run, and a fault is expressible -/

example : runC Unix.St.nextFront Unix.St.nextBack (Unix.St.new [47, 97, 47, 46, 47, 98]) [false, true, true, false]
    = .ok ([some .root, some (.normal [98]), some (.normal [97]), none], { input := [], atBeg := false }) := by
  rfl

/-- an out-of-range index is a fault in this model (so "never faults" says something) -/
example : sliceFrom [1, 2] 3 = none ∧ checkedSub 1 2 = none ∧
    oneOrMoreLoop (byte 47) 1 [47, 47] [] = .fault .diverge := ⟨rfl, rfl, rfl⟩

end TP.C18
