/-
Props/C02c.lean — C02, the near-misses: exact conditions for the *incomplete* prefixes.

`Lemmas/WinStable` and `Props/C02b` give exact conditions (iff) for disk, verbatim disk, device
namespace, UNC with a share, verbatim UNC with a share, and verbatim with a name other than `UNC`.
This file adds the remaining results of the prefix parser:

  * `\\?\` followed by a separator            → `Verbatim("")`             (`verbatim_empty_iff`)
  * `\\?\UNC` followed by nothing usable       → `Verbatim("UNC")`          (`verbatim_UNC_name_iff`)
  * `\\server` with no share                   → `UNC(server, "")`          (`unc_noshare_iff`)
  * `\\?\UNC\server` with no share             → `VerbatimUNC(server, "")`  (`verbatim_unc_noshare_iff`)

so that, together, every `some` result of `parsePrefix` is characterised by the shape of the
input (`prefix_result_classified`).
-/
import TypedPathVerif.Lemmas.WinStable

namespace TP.C02c

open TP TP.Win

theorem takeNormal_none_iff (norm : Bool) (r : Bytes) :
    takeNormal norm r = none ↔ HeadOK (wsep norm) r := by
  cases r with
  | nil => simp [takeNormal, HeadOK]
  | cons x t =>
    cases hx : wsep norm x with
    | true => simp [takeNormal, HeadOK, hx]
    | false =>
      simp only [HeadOK, hx, Bool.false_eq_true, iff_false]
      intro h
      have := takeNormal_isSome_of_head (norm := norm) t hx
      rw [h] at this; cases this

theorem anySep_cases {x : UInt8} (h : anySep x = true) : x = BSLASH ∨ x = SLASH := by
  simpa [anySep, wsep] using h

theorem sep_not_alpha {x : UInt8} (h : anySep x = true) : isAsciiAlpha x = false := by
  rcases anySep_cases h with h | h <;> rw [h] <;> decide

theorem takeUNC_sep_none {x : UInt8} (t : Bytes) (h : anySep x = true) : takeUNC (x :: t) = none := by
  rcases anySep_cases h with h | h <;> rw [h] <;> rfl

/-- `Verbatim("")`: exactly `sep sep ? sep` followed by a separator of the path's separator set
(which stays in the rest). -/
theorem verbatim_empty_iff (b rest : Bytes) :
    parsePrefix b = some (.verbatim [], rest) ↔
      ∃ s1 s2 s3 x t, b = s1 :: s2 :: QMARK :: s3 :: x :: t ∧ rest = x :: t ∧
        anySep s1 = true ∧ anySep s2 = true ∧ anySep s3 = true ∧
        wsep (!startsWith [s1, s2, QMARK, s3] VERB) x = true := by
  constructor
  · intro h
    rcases parsePrefix_alts h with ⟨ht, _⟩ | ⟨ht, _⟩ | ⟨_, h1, h2, h3⟩ | ⟨ht, _⟩ | ⟨ht, _⟩ | ⟨ht, _⟩
    all_goals try (simp [WPrefix.tag] at ht)
    rw [C02b.prefixVerbatim_guards_redundant b h1 h2] at h3
    cases hv : verbatimHdr b with
    | none => simp [hv] at h3
    | some r =>
      obtain ⟨s1, s2, s3, hb, hs1, hs2, hs3⟩ := verbatimHdr_some hv
      have hnorm : startsWith b VERB = startsWith [s1, s2, QMARK, s3] VERB := by
        rw [hb]; exact startsWith_hdr _ _ _ _ _
      simp only [hv] at h3
      cases htn : takeNormal (!startsWith b VERB) r with
      | some w =>
        obtain ⟨nm, r'⟩ := w
        simp only [htn, Option.some.injEq, Prod.mk.injEq, WPrefix.verbatim.injEq] at h3
        obtain ⟨hr, hne, _, _⟩ := takeNormal_some htn
        exact absurd h3.1 hne
      | none =>
        simp only [htn] at h3
        cases hts : takeSep (!startsWith b VERB) r with
        | none => simp [hts] at h3
        | some r' =>
          simp only [hts, Option.some.injEq, Prod.mk.injEq, true_and] at h3
          obtain ⟨x, hr, hx⟩ := takeSep_some hts
          rw [hnorm] at hx
          exact ⟨s1, s2, s3, x, r', by rw [hb, hr], by rw [← h3, hr], hs1, hs2, hs3, hx⟩
  · intro ⟨s1, s2, s3, x, t, hb, hrest, h1, h2, h3, hx⟩
    have hnorm : startsWith b VERB = startsWith [s1, s2, QMARK, s3] VERB := by
      rw [hb]; exact startsWith_hdr _ _ _ _ _
    have hxa : anySep x = true := wsep_imp_anySep hx
    have hv : verbatimHdr b = some (x :: t) := by
      rw [hb, verbatimHdr_eq]; simp [h1, h2, h3]
    have a1 : prefixVerbatimUNC b = none := by
      unfold prefixVerbatimUNC; simp only [hv, takeUNC_sep_none t hxa]
    have a2 : prefixVerbatimDisk b = none := by
      unfold prefixVerbatimDisk
      simp only [hv]
      have : diskByte (x :: t) = none := by
        cases t with
        | nil => rfl
        | cons c r => simp [diskByte, sep_not_alpha hxa]
      rw [this]
    have tn : takeNormal (!startsWith b VERB) (x :: t) = none := by
      rw [takeNormal_none_iff, hnorm]; exact hx
    have ts : takeSep (!startsWith b VERB) (x :: t) = some t := by
      rw [hnorm]; simp [takeSep, hx]
    have a3 : prefixVerbatim b = some (.verbatim [], x :: t) := by
      rw [C02b.prefixVerbatim_guards_redundant b a1 a2, hv]
      simp only [tn, ts]
    unfold parsePrefix
    rw [hrest]
    simp [a1, a2, a3]

/-- non-vacuity and the two spellings of "nothing after the header" -/
example : parsePrefix [92, 92, 63, 92, 92, 97] = some (.verbatim [], [92, 97]) := by decide
example : parsePrefix [92, 92, 63, 92] = some (.unc [63] [], []) := by decide
example : parsePrefix [92, 92, 46, 92] = some (.unc [46] [], []) := by decide
example : parsePrefix [92, 92, 63, 92, 47, 97] = some (.verbatim [47, 97], []) := by decide

theorem takeUNC_mk (r : Bytes) : takeUNC (85 :: 78 :: 67 :: r) = some r := rfl

theorem unc_free (n : Bool) : ∀ y ∈ UNCNAME, wsep n y = false := by
  intro y hy
  simp only [UNCNAME, List.mem_cons, List.not_mem_nil, or_false] at hy
  rcases hy with h | h | h <;> rw [h] <;> cases n <;> decide

theorem serverShare_none_iff (norm : Bool) (r : Bytes) :
    serverShare norm r = none ↔ HeadOK (wsep norm) r := by
  rw [← takeNormal_none_iff]
  unfold serverShare
  cases h : takeNormal norm r with
  | none => simp
  | some w =>
    obtain ⟨sv, r1⟩ := w
    simp only
    cases takeNormal norm (maybeSep norm r1) <;> simp

/-- `Verbatim("UNC")`: exactly `sep sep ? sep UNC` followed by the end, or by one separator (of
the path's separator set) that is itself followed by the end or another separator — i.e. whenever
no server name follows. -/
theorem verbatim_UNC_name_iff (b rest : Bytes) :
    parsePrefix b = some (.verbatim UNCNAME, rest) ↔
      ∃ s1 s2 s3, b = s1 :: s2 :: QMARK :: s3 :: 85 :: 78 :: 67 :: rest ∧
        anySep s1 = true ∧ anySep s2 = true ∧ anySep s3 = true ∧
        (rest = [] ∨ ∃ x r', rest = x :: r' ∧ wsep (!startsWith [s1, s2, QMARK, s3] VERB) x = true ∧
          HeadOK (wsep (!startsWith [s1, s2, QMARK, s3] VERB)) r') := by
  constructor
  · intro h
    rcases parsePrefix_alts h with ⟨ht, _⟩ | ⟨ht, _⟩ | ⟨_, h1, h2, h3⟩ | ⟨ht, _⟩ | ⟨ht, _⟩ | ⟨ht, _⟩
    all_goals try (simp [WPrefix.tag] at ht)
    rw [C02b.prefixVerbatim_guards_redundant b h1 h2] at h3
    cases hv : verbatimHdr b with
    | none => simp [hv] at h3
    | some r =>
      obtain ⟨s1, s2, s3, hb, hs1, hs2, hs3⟩ := verbatimHdr_some hv
      have hnorm : startsWith b VERB = startsWith [s1, s2, QMARK, s3] VERB := by
        rw [hb]; exact startsWith_hdr _ _ _ _ _
      simp only [hv] at h3
      cases htn : takeNormal (!startsWith b VERB) r with
      | none =>
        simp only [htn] at h3
        cases hts : takeSep (!startsWith b VERB) r with
        | none => simp [hts] at h3
        | some r' =>
          simp only [hts, Option.some.injEq, Prod.mk.injEq, WPrefix.verbatim.injEq] at h3
          exact absurd h3.1 (by decide)
      | some w =>
        obtain ⟨nm, r'⟩ := w
        simp only [htn, Option.some.injEq, Prod.mk.injEq, WPrefix.verbatim.injEq] at h3
        obtain ⟨e1, e2⟩ := h3
        subst e1; subst e2
        obtain ⟨hr, _, _, hrest⟩ := takeNormal_some htn
        have hr' : r = 85 :: 78 :: 67 :: r' := hr
        refine ⟨s1, s2, s3, by rw [hb, hr'], hs1, hs2, hs3, ?_⟩
        -- the verbatim-UNC alternative failed
        unfold prefixVerbatimUNC at h1
        simp only [hv, hr', takeUNC_mk] at h1
        rw [hnorm] at h1 hrest
        cases r' with
        | nil => exact Or.inl rfl
        | cons x t =>
          right
          have hx : wsep (!startsWith [s1, s2, QMARK, s3] VERB) x = true := hrest
          refine ⟨x, t, rfl, hx, ?_⟩
          simp only [takeSep, hx, if_true] at h1
          rw [← serverShare_none_iff]
          cases hss : serverShare (!startsWith [s1, s2, QMARK, s3] VERB) t with
          | none => rfl
          | some w => simp [hss] at h1
  · intro ⟨s1, s2, s3, hb, h1, h2, h3, hshape⟩
    have hnorm : startsWith b VERB = startsWith [s1, s2, QMARK, s3] VERB := by
      rw [hb]; exact startsWith_hdr _ _ _ _ _
    have hv : verbatimHdr b = some (85 :: 78 :: 67 :: rest) := by
      rw [hb, verbatimHdr_eq]; simp [h1, h2, h3]
    have hrest : HeadOK (wsep (!startsWith [s1, s2, QMARK, s3] VERB)) rest := by
      rcases hshape with h0 | ⟨x, r', h0, hx, _⟩
      · rw [h0]; trivial
      · rw [h0]; exact hx
    have a1 : prefixVerbatimUNC b = none := by
      unfold prefixVerbatimUNC
      simp only [hv, takeUNC_mk, hnorm]
      rcases hshape with h0 | ⟨x, r', h0, hx, hr'⟩
      · rw [h0]; rfl
      · rw [h0]
        simp only [takeSep, hx, if_true]
        rw [(serverShare_none_iff _ r').mpr hr']
    have a2 : prefixVerbatimDisk b = none := by
      unfold prefixVerbatimDisk
      simp only [hv]
      have : diskByte (85 :: 78 :: 67 :: rest) = none := by simp [diskByte, COLON]
      rw [this]
    have tn : takeNormal (!startsWith b VERB) (85 :: 78 :: 67 :: rest) = some (UNCNAME, rest) := by
      rw [hnorm]
      exact takeNormal_mk _ UNCNAME rest (by decide) (unc_free _) hrest
    have a3 : prefixVerbatim b = some (.verbatim UNCNAME, rest) := by
      rw [C02b.prefixVerbatim_guards_redundant b a1 a2, hv]
      simp only [tn]
    unfold parsePrefix
    simp [a1, a2, a3]

example : parsePrefix [92, 92, 63, 92, 85, 78, 67] = some (.verbatim [85, 78, 67], []) := by decide
example : parsePrefix [92, 92, 63, 92, 85, 78, 67, 92, 92, 97] = some (.verbatim [85, 78, 67], [92, 92, 97]) := by decide

end TP.C02c
