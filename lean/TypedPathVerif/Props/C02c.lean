/-
Props/C02c.lean — C02, the near-misses: exact conditions for the *incomplete* prefixes.

`Lemmas/WinStable` and `Props/C02b` give exact conditions (iff) for disk, verbatim disk, device
namespace, UNC with a share, verbatim UNC with a share, and verbatim with a name other than `UNC`.
This file adds the remaining results of the prefix parser:

  * `\\?\` followed by a separator            → `Verbatim("")`             (`verbatim_empty_iff`)
  * `\\?\UNC` followed by nothing usable       → `Verbatim("UNC")`          (`verbatim_UNC_name_iff`)
  * `\\server` with no share                   → `UNC(server, "")`          (`unc_noshare_iff`)
  * `\\?\UNC\server` with no share             → `VerbatimUNC(server, "")`  (`verbatim_unc_noshare_iff`)

so that, together, every `some` result of `parsePrefix` is characterised by the shape of the
input (`prefix_result_classified`).
-/
import TypedPathVerif.Lemmas.WinStable

namespace TP.C02c

open TP TP.Win

theorem takeNormal_none_iff (norm : Bool) (r : Bytes) :
    takeNormal norm r = none ↔ HeadOK (wsep norm) r := by
  cases r with
  | nil => simp [takeNormal, HeadOK]
  | cons x t =>
    cases hx : wsep norm x with
    | true => simp [takeNormal, HeadOK, hx]
    | false =>
      simp only [HeadOK, hx, Bool.false_eq_true, iff_false]
      intro h
      have := takeNormal_isSome_of_head (norm := norm) t hx
      rw [h] at this; cases this

theorem anySep_cases {x : UInt8} (h : anySep x = true) : x = BSLASH ∨ x = SLASH := by
  simpa [anySep, wsep] using h

theorem sep_not_alpha {x : UInt8} (h : anySep x = true) : isAsciiAlpha x = false := by
  rcases anySep_cases h with h | h <;> rw [h] <;> decide

theorem takeUNC_sep_none {x : UInt8} (t : Bytes) (h : anySep x = true) : takeUNC (x :: t) = none := by
  rcases anySep_cases h with h | h <;> rw [h] <;> rfl

/-- `Verbatim("")`: exactly `sep sep ? sep` followed by a separator of the path's separator set
(which stays in the rest). -/
theorem verbatim_empty_iff (b rest : Bytes) :
    parsePrefix b = some (.verbatim [], rest) ↔
      ∃ s1 s2 s3 x t, b = s1 :: s2 :: QMARK :: s3 :: x :: t ∧ rest = x :: t ∧
        anySep s1 = true ∧ anySep s2 = true ∧ anySep s3 = true ∧
        wsep (!startsWith [s1, s2, QMARK, s3] VERB) x = true := by
  constructor
  · intro h
    rcases parsePrefix_alts h with ⟨ht, _⟩ | ⟨ht, _⟩ | ⟨_, h1, h2, h3⟩ | ⟨ht, _⟩ | ⟨ht, _⟩ | ⟨ht, _⟩
    all_goals try (simp [WPrefix.tag] at ht)
    rw [C02b.prefixVerbatim_guards_redundant b h1 h2] at h3
    cases hv : verbatimHdr b with
    | none => simp [hv] at h3
    | some r =>
      obtain ⟨s1, s2, s3, hb, hs1, hs2, hs3⟩ := verbatimHdr_some hv
      have hnorm : startsWith b VERB = startsWith [s1, s2, QMARK, s3] VERB := by
        rw [hb]; exact startsWith_hdr _ _ _ _ _
      simp only [hv] at h3
      cases htn : takeNormal (!startsWith b VERB) r with
      | some w =>
        obtain ⟨nm, r'⟩ := w
        simp only [htn, Option.some.injEq, Prod.mk.injEq, WPrefix.verbatim.injEq] at h3
        obtain ⟨hr, hne, _, _⟩ := takeNormal_some htn
        exact absurd h3.1 hne
      | none =>
        simp only [htn] at h3
        cases hts : takeSep (!startsWith b VERB) r with
        | none => simp [hts] at h3
        | some r' =>
          simp only [hts, Option.some.injEq, Prod.mk.injEq, true_and] at h3
          obtain ⟨x, hr, hx⟩ := takeSep_some hts
          rw [hnorm] at hx
          exact ⟨s1, s2, s3, x, r', by rw [hb, hr], by rw [← h3, hr], hs1, hs2, hs3, hx⟩
  · intro ⟨s1, s2, s3, x, t, hb, hrest, h1, h2, h3, hx⟩
    have hnorm : startsWith b VERB = startsWith [s1, s2, QMARK, s3] VERB := by
      rw [hb]; exact startsWith_hdr _ _ _ _ _
    have hxa : anySep x = true := wsep_imp_anySep hx
    have hv : verbatimHdr b = some (x :: t) := by
      rw [hb, verbatimHdr_eq]; simp [h1, h2, h3]
    have a1 : prefixVerbatimUNC b = none := by
      unfold prefixVerbatimUNC; simp only [hv, takeUNC_sep_none t hxa]
    have a2 : prefixVerbatimDisk b = none := by
      unfold prefixVerbatimDisk
      simp only [hv]
      have : diskByte (x :: t) = none := by
        cases t with
        | nil => rfl
        | cons c r => simp [diskByte, sep_not_alpha hxa]
      rw [this]
    have tn : takeNormal (!startsWith b VERB) (x :: t) = none := by
      rw [takeNormal_none_iff, hnorm]; exact hx
    have ts : takeSep (!startsWith b VERB) (x :: t) = some t := by
      rw [hnorm]; simp [takeSep, hx]
    have a3 : prefixVerbatim b = some (.verbatim [], x :: t) := by
      rw [C02b.prefixVerbatim_guards_redundant b a1 a2, hv]
      simp only [tn, ts]
    unfold parsePrefix
    rw [hrest]
    simp [a1, a2, a3]

/-- non-vacuity and the two spellings of "nothing after the header" -/
example : parsePrefix [92, 92, 63, 92, 92, 97] = some (.verbatim [], [92, 97]) := by decide
example : parsePrefix [92, 92, 63, 92] = some (.unc [63] [], []) := by decide
example : parsePrefix [92, 92, 46, 92] = some (.unc [46] [], []) := by decide
example : parsePrefix [92, 92, 63, 92, 47, 97] = some (.verbatim [47, 97], []) := by decide

theorem takeUNC_mk (r : Bytes) : takeUNC (85 :: 78 :: 67 :: r) = some r := rfl

theorem unc_free (n : Bool) : ∀ y ∈ UNCNAME, wsep n y = false := by
  intro y hy
  simp only [UNCNAME, List.mem_cons, List.not_mem_nil, or_false] at hy
  rcases hy with h | h | h <;> rw [h] <;> cases n <;> decide

theorem serverShare_none_iff (norm : Bool) (r : Bytes) :
    serverShare norm r = none ↔ HeadOK (wsep norm) r := by
  rw [← takeNormal_none_iff]
  unfold serverShare
  cases h : takeNormal norm r with
  | none => simp
  | some w =>
    obtain ⟨sv, r1⟩ := w
    simp only
    cases takeNormal norm (maybeSep norm r1) <;> simp

/-- `Verbatim("UNC")`: exactly `sep sep ? sep UNC` followed by the end, or by one separator (of
the path's separator set) that is itself followed by the end or another separator — i.e. whenever
no server name follows. -/
theorem verbatim_UNC_name_iff (b rest : Bytes) :
    parsePrefix b = some (.verbatim UNCNAME, rest) ↔
      ∃ s1 s2 s3, b = s1 :: s2 :: QMARK :: s3 :: 85 :: 78 :: 67 :: rest ∧
        anySep s1 = true ∧ anySep s2 = true ∧ anySep s3 = true ∧
        (rest = [] ∨ ∃ x r', rest = x :: r' ∧ wsep (!startsWith [s1, s2, QMARK, s3] VERB) x = true ∧
          HeadOK (wsep (!startsWith [s1, s2, QMARK, s3] VERB)) r') := by
  constructor
  · intro h
    rcases parsePrefix_alts h with ⟨ht, _⟩ | ⟨ht, _⟩ | ⟨_, h1, h2, h3⟩ | ⟨ht, _⟩ | ⟨ht, _⟩ | ⟨ht, _⟩
    all_goals try (simp [WPrefix.tag] at ht)
    rw [C02b.prefixVerbatim_guards_redundant b h1 h2] at h3
    cases hv : verbatimHdr b with
    | none => simp [hv] at h3
    | some r =>
      obtain ⟨s1, s2, s3, hb, hs1, hs2, hs3⟩ := verbatimHdr_some hv
      have hnorm : startsWith b VERB = startsWith [s1, s2, QMARK, s3] VERB := by
        rw [hb]; exact startsWith_hdr _ _ _ _ _
      simp only [hv] at h3
      cases htn : takeNormal (!startsWith b VERB) r with
      | none =>
        simp only [htn] at h3
        cases hts : takeSep (!startsWith b VERB) r with
        | none => simp [hts] at h3
        | some r' =>
          simp only [hts, Option.some.injEq, Prod.mk.injEq, WPrefix.verbatim.injEq] at h3
          exact absurd h3.1 (by decide)
      | some w =>
        obtain ⟨nm, r'⟩ := w
        simp only [htn, Option.some.injEq, Prod.mk.injEq, WPrefix.verbatim.injEq] at h3
        obtain ⟨e1, e2⟩ := h3
        subst e1; subst e2
        obtain ⟨hr, _, _, hrest⟩ := takeNormal_some htn
        have hr' : r = 85 :: 78 :: 67 :: r' := hr
        refine ⟨s1, s2, s3, by rw [hb, hr'], hs1, hs2, hs3, ?_⟩
        -- the verbatim-UNC alternative failed
        unfold prefixVerbatimUNC at h1
        simp only [hv, hr', takeUNC_mk] at h1
        rw [hnorm] at h1 hrest
        cases r' with
        | nil => exact Or.inl rfl
        | cons x t =>
          right
          have hx : wsep (!startsWith [s1, s2, QMARK, s3] VERB) x = true := hrest
          refine ⟨x, t, rfl, hx, ?_⟩
          simp only [takeSep, hx, if_true] at h1
          rw [← serverShare_none_iff]
          cases hss : serverShare (!startsWith [s1, s2, QMARK, s3] VERB) t with
          | none => rfl
          | some w => simp [hss] at h1
  · intro ⟨s1, s2, s3, hb, h1, h2, h3, hshape⟩
    have hnorm : startsWith b VERB = startsWith [s1, s2, QMARK, s3] VERB := by
      rw [hb]; exact startsWith_hdr _ _ _ _ _
    have hv : verbatimHdr b = some (85 :: 78 :: 67 :: rest) := by
      rw [hb, verbatimHdr_eq]; simp [h1, h2, h3]
    have hrest : HeadOK (wsep (!startsWith [s1, s2, QMARK, s3] VERB)) rest := by
      rcases hshape with h0 | ⟨x, r', h0, hx, _⟩
      · rw [h0]; trivial
      · rw [h0]; exact hx
    have a1 : prefixVerbatimUNC b = none := by
      unfold prefixVerbatimUNC
      simp only [hv, takeUNC_mk, hnorm]
      rcases hshape with h0 | ⟨x, r', h0, hx, hr'⟩
      · rw [h0]; rfl
      · rw [h0]
        simp only [takeSep, hx, if_true]
        rw [(serverShare_none_iff _ r').mpr hr']
    have a2 : prefixVerbatimDisk b = none := by
      unfold prefixVerbatimDisk
      simp only [hv]
      have : diskByte (85 :: 78 :: 67 :: rest) = none := by simp [diskByte, COLON]
      rw [this]
    have tn : takeNormal (!startsWith b VERB) (85 :: 78 :: 67 :: rest) = some (UNCNAME, rest) := by
      rw [hnorm]
      exact takeNormal_mk _ UNCNAME rest (by decide) (unc_free _) hrest
    have a3 : prefixVerbatim b = some (.verbatim UNCNAME, rest) := by
      rw [C02b.prefixVerbatim_guards_redundant b a1 a2, hv]
      simp only [tn]
    unfold parsePrefix
    simp [a1, a2, a3]

example : parsePrefix [92, 92, 63, 92, 85, 78, 67] = some (.verbatim [85, 78, 67], []) := by decide
example : parsePrefix [92, 92, 63, 92, 85, 78, 67, 92, 92, 97] = some (.verbatim [85, 78, 67], [92, 92, 97]) := by decide

/-! ### UNC without a share -/

theorem verbatimHdr_field_none' (s1 s2 : UInt8) (sv tail : Bytes) (hne : sv ≠ [])
    (hfree : ∀ y ∈ sv, anySep y = false) (hq : sv ≠ [QMARK]) :
    verbatimHdr (s1 :: s2 :: (sv ++ tail)) = none := by
  match sv, hne with
  | [q], _ =>
    have : q ≠ QMARK := fun h => hq (by rw [h])
    cases tail with
    | nil => rfl
    | cons x t => simp [verbatimHdr_eq, this]
  | q :: c :: t, _ =>
    have : anySep c = false := hfree c (by simp)
    simp [verbatimHdr_eq, this]

theorem prefixDeviceNS_field_none' (s1 s2 : UInt8) (sv tail : Bytes) (hne : sv ≠ [])
    (hfree : ∀ y ∈ sv, anySep y = false) (hq : sv ≠ [DOT]) :
    prefixDeviceNS (s1 :: s2 :: (sv ++ tail)) = none := by
  match sv, hne with
  | [q], _ =>
    have : q ≠ DOT := fun h => hq (by rw [h])
    cases tail with
    | nil => rfl
    | cons x t => simp [prefixDeviceNS, this]
  | q :: c :: t, _ =>
    have : anySep c = false := hfree c (by simp)
    simp [prefixDeviceNS, this]

theorem maybeSep_cons_sep {norm : Bool} {x : UInt8} (t : Bytes) (h : wsep norm x = true) :
    maybeSep norm (x :: t) = t := by simp [maybeSep, takeSep, h]

/-- `UNC(server, "")`: exactly `sep sep server` followed by the end, or by one separator (which is
consumed) that is itself followed by the end or another separator.  The server may be `?` only
when at most that one separator follows (otherwise the path is a verbatim one), and `.` under the
same shape condition as any other name (a device name after `\\.\` makes it a device path). -/
theorem unc_noshare_iff (b rest sv : Bytes) :
    parsePrefix b = some (.unc sv [], rest) ↔
      ∃ s1 s2 tail, b = s1 :: s2 :: (sv ++ tail) ∧ anySep s1 = true ∧ anySep s2 = true ∧
        sv ≠ [] ∧ (∀ y ∈ sv, anySep y = false) ∧ HeadOK anySep tail ∧
        rest = maybeSep true tail ∧ HeadOK anySep rest ∧
        (sv = [QMARK] → tail = [] ∨ ∃ x, tail = [x]) := by
  constructor
  · intro h
    rcases parsePrefix_alts h with ⟨ht, _⟩ | ⟨ht, _⟩ | ⟨ht, _⟩ | ⟨ht, _⟩ | ⟨_, h1, h2, h3, h4, h5⟩ | ⟨ht, _⟩
    all_goals try (simp [WPrefix.tag] at ht)
    match b, h5 with
    | s1 :: s2 :: r0, h5 =>
      simp only [prefixUNC] at h5
      split at h5
      · rename_i hss
        simp only [Bool.and_eq_true] at hss
        cases hs : serverShare true r0 with
        | none => simp [hs] at h5
        | some t =>
          obtain ⟨sv', sh', r'⟩ := t
          simp only [hs, Option.some.injEq, Prod.mk.injEq, WPrefix.unc.injEq] at h5
          obtain ⟨⟨e1, e2⟩, e3⟩ := h5
          subst e1; subst e3
          unfold serverShare at hs
          cases ht1 : takeNormal true r0 with
          | none => simp [ht1] at hs
          | some u =>
            obtain ⟨svv, r1⟩ := u
            simp only [ht1] at hs
            obtain ⟨hr0, hsvne, hsvfree, hr1⟩ := takeNormal_some ht1
            cases ht2 : takeNormal true (maybeSep true r1) with
            | some w =>
              obtain ⟨shh, r2⟩ := w
              simp only [ht2, Option.some.injEq, Prod.mk.injEq] at hs
              obtain ⟨_, hne2, _, _⟩ := takeNormal_some ht2
              exact absurd (hs.2.1.trans e2) hne2
            | none =>
              simp only [ht2, Option.some.injEq, Prod.mk.injEq] at hs
              obtain ⟨e4, _, e5⟩ := hs
              subst e4; subst e5
              have hrest : HeadOK anySep (maybeSep true r1) := (takeNormal_none_iff true _).mp ht2
              refine ⟨s1, s2, r1, by rw [hr0], hss.1, hss.2, hsvne, hsvfree, hr1, rfl, hrest, ?_⟩
              intro hq
              subst hq
              subst hr0
              -- with server `?` the verbatim alternatives must have failed
              cases r1 with
              | nil => exact Or.inl rfl
              | cons x t =>
                right
                have hx : anySep x = true := hr1
                cases t with
                | nil => exact ⟨x, rfl⟩
                | cons y t' =>
                  exfalso
                  have hv : verbatimHdr (s1 :: s2 :: ([QMARK] ++ x :: y :: t')) = some (y :: t') := by
                    simp [verbatimHdr_eq, hss.1, hss.2, hx]
                  have h3' := C02b.prefixVerbatim_guards_redundant _ h1 h2
                  rw [h3, hv] at h3'
                  simp only at h3'
                  cases htn : takeNormal (!startsWith (s1 :: s2 :: ([QMARK] ++ x :: y :: t')) VERB) (y :: t') with
                  | some z => rw [htn] at h3'; cases h3'
                  | none =>
                    rw [htn] at h3'
                    have hy := (takeNormal_none_iff _ _).mp htn
                    have hy' : wsep (!startsWith (s1 :: s2 :: ([QMARK] ++ x :: y :: t')) VERB) y = true := hy
                    simp only [takeSep, hy', if_true] at h3'
                    cases h3'
      · cases h5
  · intro ⟨s1, s2, tail, hb, h1, h2, hsvne, hsvfree, htail, hrest, hrestok, hq⟩
    subst hb
    have tn2 : takeNormal true rest = none := (takeNormal_none_iff true rest).mpr hrestok
    -- the three verbatim alternatives fail
    have averb : prefixVerbatimUNC (s1 :: s2 :: (sv ++ tail)) = none ∧
        prefixVerbatimDisk (s1 :: s2 :: (sv ++ tail)) = none ∧
        prefixVerbatim (s1 :: s2 :: (sv ++ tail)) = none := by
      by_cases hsq : sv = [QMARK]
      · subst hsq
        rcases hq rfl with h0 | ⟨x, h0⟩
        · subst h0
          refine ⟨rfl, rfl, ?_⟩
          rw [C02b.prefixVerbatim_guards_redundant _ rfl rfl]; rfl
        · subst h0
          have hx : anySep x = true := htail
          have hv : verbatimHdr (s1 :: s2 :: ([QMARK] ++ [x])) = some [] := by
            simp [verbatimHdr_eq, h1, h2, hx]
          have a1 : prefixVerbatimUNC (s1 :: s2 :: ([QMARK] ++ [x])) = none := by
            unfold prefixVerbatimUNC; simp only [hv]; rfl
          have a2 : prefixVerbatimDisk (s1 :: s2 :: ([QMARK] ++ [x])) = none := by
            unfold prefixVerbatimDisk; simp only [hv]; rfl
          refine ⟨a1, a2, ?_⟩
          rw [C02b.prefixVerbatim_guards_redundant _ a1 a2, hv]
          simp [takeNormal, takeSep]
      · have hv := verbatimHdr_field_none' s1 s2 sv tail hsvne hsvfree hsq
        have a1 : prefixVerbatimUNC (s1 :: s2 :: (sv ++ tail)) = none := by
          unfold prefixVerbatimUNC; simp only [hv]
        have a2 : prefixVerbatimDisk (s1 :: s2 :: (sv ++ tail)) = none := by
          unfold prefixVerbatimDisk; simp only [hv]
        refine ⟨a1, a2, ?_⟩
        rw [C02b.prefixVerbatim_guards_redundant _ a1 a2, hv]
    obtain ⟨a1, a2, a3⟩ := averb
    have a4 : prefixDeviceNS (s1 :: s2 :: (sv ++ tail)) = none := by
      by_cases hsd : sv = [DOT]
      · subst hsd
        cases tail with
        | nil => rfl
        | cons x r' =>
          have hx : anySep x = true := htail
          have hx' : wsep true x = true := hx
          rw [maybeSep_cons_sep r' hx'] at hrest
          subst hrest
          simp [prefixDeviceNS, h1, h2, hx, tn2]
      · exact prefixDeviceNS_field_none' s1 s2 sv tail hsvne hsvfree hsd
    have t1 : takeNormal true (sv ++ tail) = some (sv, tail) := takeNormal_mk true sv tail hsvne hsvfree htail
    have a5 : prefixUNC (s1 :: s2 :: (sv ++ tail)) = some (.unc sv [], rest) := by
      simp only [prefixUNC, h1, h2, Bool.and_self, if_true, serverShare, t1]
      rw [← hrest, tn2]
    unfold parsePrefix
    simp [a1, a2, a3, a4, a5]

example : parsePrefix [92, 92, 115] = some (.unc [115] [], []) := by decide
example : parsePrefix [92, 92, 115, 92, 92, 97] = some (.unc [115] [], [92, 97]) := by decide
example : parsePrefix [92, 92, 63, 92] = some (.unc [63] [], []) := by decide

/-! ### verbatim UNC without a share -/

theorem serverShare_noshare_iff (norm : Bool) (b sv rest : Bytes) :
    serverShare norm b = some (sv, [], rest) ↔
      ∃ tail, b = sv ++ tail ∧ sv ≠ [] ∧ (∀ y ∈ sv, wsep norm y = false) ∧ HeadOK (wsep norm) tail ∧
        rest = maybeSep norm tail ∧ HeadOK (wsep norm) rest := by
  constructor
  · intro hs
    unfold serverShare at hs
    cases ht1 : takeNormal norm b with
    | none => simp [ht1] at hs
    | some u =>
      obtain ⟨svv, r1⟩ := u
      simp only [ht1] at hs
      obtain ⟨hr0, hsvne, hsvfree, hr1⟩ := takeNormal_some ht1
      cases ht2 : takeNormal norm (maybeSep norm r1) with
      | some w =>
        obtain ⟨shh, r2⟩ := w
        simp only [ht2, Option.some.injEq, Prod.mk.injEq] at hs
        obtain ⟨_, hne2, _, _⟩ := takeNormal_some ht2
        exact absurd hs.2.1 hne2
      | none =>
        simp only [ht2, Option.some.injEq, Prod.mk.injEq] at hs
        obtain ⟨e4, _, e5⟩ := hs
        subst e4; subst e5
        exact ⟨r1, hr0, hsvne, hsvfree, hr1, rfl, (takeNormal_none_iff norm _).mp ht2⟩
  · intro ⟨tail, hb, hne, hfree, htail, hrest, hrestok⟩
    subst hb
    have t1 : takeNormal norm (sv ++ tail) = some (sv, tail) := takeNormal_mk norm sv tail hne hfree htail
    have t2 : takeNormal norm rest = none := (takeNormal_none_iff norm rest).mpr hrestok
    simp only [serverShare, t1]
    rw [← hrest, t2]

/-- `VerbatimUNC(server, "")`: exactly `sep sep ? sep UNC sep server` followed by the end, or by
one separator (consumed) that is itself followed by the end or another separator — separators
after `UNC` being those of the path's separator set. -/
theorem verbatim_unc_noshare_iff (b rest sv : Bytes) :
    parsePrefix b = some (.verbatimUNC sv [], rest) ↔
      ∃ s1 s2 s3 x0 tail, b = s1 :: s2 :: QMARK :: s3 :: 85 :: 78 :: 67 :: x0 :: (sv ++ tail) ∧
        anySep s1 = true ∧ anySep s2 = true ∧ anySep s3 = true ∧
        wsep (!startsWith [s1, s2, QMARK, s3] VERB) x0 = true ∧
        sv ≠ [] ∧ (∀ y ∈ sv, wsep (!startsWith [s1, s2, QMARK, s3] VERB) y = false) ∧
        HeadOK (wsep (!startsWith [s1, s2, QMARK, s3] VERB)) tail ∧
        rest = maybeSep (!startsWith [s1, s2, QMARK, s3] VERB) tail ∧
        HeadOK (wsep (!startsWith [s1, s2, QMARK, s3] VERB)) rest := by
  constructor
  · intro h
    rcases parsePrefix_alts h with ⟨_, h1⟩ | ⟨ht, _⟩ | ⟨ht, _⟩ | ⟨ht, _⟩ | ⟨ht, _⟩ | ⟨ht, _⟩
    all_goals try (simp [WPrefix.tag] at ht)
    unfold prefixVerbatimUNC at h1
    simp only at h1
    cases hv : verbatimHdr b with
    | none => simp [hv] at h1
    | some r =>
      obtain ⟨s1, s2, s3, hb, hs1, hs2, hs3⟩ := verbatimHdr_some hv
      have hnorm : startsWith b VERB = startsWith [s1, s2, QMARK, s3] VERB := by
        rw [hb]; exact startsWith_hdr _ _ _ _ _
      simp only [hv] at h1
      cases hu : takeUNC r with
      | none => simp [hu] at h1
      | some r2 =>
        simp only [hu] at h1
        have hr := takeUNC_some hu
        cases hts : takeSep (!startsWith b VERB) r2 with
        | none => simp [hts] at h1
        | some r3 =>
          simp only [hts] at h1
          obtain ⟨x0, hr2, hx0⟩ := takeSep_some hts
          cases hss : serverShare (!startsWith b VERB) r3 with
          | none => simp [hss] at h1
          | some w =>
            obtain ⟨sv', sh', r'⟩ := w
            simp only [hss, Option.some.injEq, Prod.mk.injEq, WPrefix.verbatimUNC.injEq] at h1
            obtain ⟨⟨e1, e2⟩, e3⟩ := h1
            subst e1; subst e2; subst e3
            obtain ⟨tail, hr3, hne, hfree, htail, hrest, hrestok⟩ := (serverShare_noshare_iff _ _ _ _).mp hss
            rw [hnorm] at hx0 hfree htail hrest hrestok
            exact ⟨s1, s2, s3, x0, tail, by rw [hb, hr, hr2, hr3], hs1, hs2, hs3, hx0, hne, hfree, htail, hrest, hrestok⟩
  · intro ⟨s1, s2, s3, x0, tail, hb, h1, h2, h3, hx0, hne, hfree, htail, hrest, hrestok⟩
    have hnorm : startsWith b VERB = startsWith [s1, s2, QMARK, s3] VERB := by
      rw [hb]; exact startsWith_hdr _ _ _ _ _
    have hv : verbatimHdr b = some (85 :: 78 :: 67 :: x0 :: (sv ++ tail)) := by
      rw [hb, verbatimHdr_eq]; simp [h1, h2, h3]
    have hss := (serverShare_noshare_iff (!startsWith [s1, s2, QMARK, s3] VERB) (sv ++ tail) sv rest).mpr
      ⟨tail, rfl, hne, hfree, htail, hrest, hrestok⟩
    have a1 : prefixVerbatimUNC b = some (.verbatimUNC sv [], rest) := by
      unfold prefixVerbatimUNC
      simp only [hv, takeUNC_mk, hnorm, takeSep, hx0, if_true, hss]
    unfold parsePrefix
    simp [a1]

example : parsePrefix [92, 92, 63, 92, 85, 78, 67, 92, 115] = some (.verbatimUNC [115] [], []) := by decide
example : parsePrefix [92, 92, 63, 92, 85, 78, 67, 92, 115, 92, 92, 97] = some (.verbatimUNC [115] [], [92, 97]) := by decide

/-! ### together: every result of the prefix parser has one of the characterised shapes -/

/-- every prefix the parser returns is complete (and then characterised by the `*_iff` theorems
of `Lemmas/WinStable` / `Props/C02b`) or one of the four incomplete forms characterised above -/
theorem prefix_result_classified (b rest : Bytes) (k : WPrefix) (h : parsePrefix b = some (k, rest)) :
    Complete k ∨ k = .verbatim [] ∨ k = .verbatim UNCNAME ∨ (∃ sv, k = .unc sv []) ∨ (∃ sv, k = .verbatimUNC sv []) := by
  cases k with
  | verbatim n =>
    by_cases h1 : n = []
    · exact Or.inr (Or.inl (by rw [h1]))
    · by_cases h2 : n = UNCNAME
      · exact Or.inr (Or.inr (Or.inl (by rw [h2])))
      · exact Or.inl ⟨h1, h2⟩
  | verbatimUNC sv sh =>
    by_cases h1 : sh = []
    · exact Or.inr (Or.inr (Or.inr (Or.inr ⟨sv, by rw [h1]⟩)))
    · exact Or.inl h1
  | unc sv sh =>
    by_cases h1 : sh = []
    · exact Or.inr (Or.inr (Or.inr (Or.inl ⟨sv, by rw [h1]⟩)))
    · exact Or.inl h1
  | verbatimDisk d => exact Or.inl trivial
  | deviceNS d => exact Or.inl trivial
  | disk d => exact Or.inl trivial

/-! ### no prefix at all -/

/-- **The parser finds no prefix exactly when the input neither starts with `letter :` nor with
two separators followed by a non-separator byte.** -/
theorem prefix_none_iff (b : Bytes) :
    parsePrefix b = none ↔
      diskByte b = none ∧ ¬ ∃ s1 s2 c t, b = s1 :: s2 :: c :: t ∧ anySep s1 = true ∧ anySep s2 = true ∧ anySep c = false := by
  constructor
  · intro h
    unfold parsePrefix at h
    cases h1 : prefixVerbatimUNC b with
    | some x => simp [h1] at h
    | none =>
    cases h2 : prefixVerbatimDisk b with
    | some x => simp [h1, h2] at h
    | none =>
    cases h3 : prefixVerbatim b with
    | some x => simp [h1, h2, h3] at h
    | none =>
    cases h4 : prefixDeviceNS b with
    | some x => simp [h1, h2, h3, h4] at h
    | none =>
    cases h5 : prefixUNC b with
    | some x => simp [h1, h2, h3, h4, h5] at h
    | none =>
    simp only [h1, h2, h3, h4, h5, Option.orElse_none] at h
    refine ⟨?_, ?_⟩
    · unfold prefixDisk at h
      cases hd : diskByte b with
      | none => rfl
      | some x => simp [hd] at h
    · intro ⟨s1, s2, c, t, hb, hs1, hs2, hc⟩
      subst hb
      have hc' : wsep true c = false := hc
      have := takeNormal_isSome_of_head (norm := true) t hc'
      cases htn : takeNormal true (c :: t) with
      | none => rw [htn] at this; cases this
      | some w =>
        obtain ⟨sv, r1⟩ := w
        simp only [prefixUNC, hs1, hs2, Bool.and_self, if_true, serverShare, htn] at h5
        cases htn2 : takeNormal true (maybeSep true r1) <;> simp [htn2] at h5
  · intro ⟨hd, hno⟩
    have hv : verbatimHdr b = none := by
      match b with
      | s1 :: s2 :: q :: s3 :: r =>
        rw [verbatimHdr_eq]
        split
        · rename_i hc
          simp only [Bool.and_eq_true, decide_eq_true_eq] at hc
          exfalso
          exact hno ⟨s1, s2, q, s3 :: r, rfl, hc.1.1.1, hc.1.1.2, by rw [hc.1.2]; decide⟩
        · rfl
      | [] | [_] | [_, _] | [_, _, _] => rfl
    have a1 : prefixVerbatimUNC b = none := by unfold prefixVerbatimUNC; simp only [hv]
    have a2 : prefixVerbatimDisk b = none := by unfold prefixVerbatimDisk; simp only [hv]
    have a3 : prefixVerbatim b = none := by rw [C02b.prefixVerbatim_guards_redundant b a1 a2, hv]
    have a4 : prefixDeviceNS b = none := by
      match b with
      | s1 :: s2 :: d :: s3 :: r =>
        simp only [prefixDeviceNS]
        split
        · rename_i hc
          simp only [Bool.and_eq_true, decide_eq_true_eq] at hc
          exfalso
          exact hno ⟨s1, s2, d, s3 :: r, rfl, hc.1.1.1, hc.1.1.2, by rw [hc.1.2]; decide⟩
        · rfl
      | [] | [_] | [_, _] | [_, _, _] => rfl
    have a5 : prefixUNC b = none := by
      match b with
      | s1 :: s2 :: r =>
        simp only [prefixUNC]
        split
        · rename_i hc
          simp only [Bool.and_eq_true] at hc
          have : serverShare true r = none := by
            rw [serverShare_none_iff]
            cases r with
            | nil => trivial
            | cons c t =>
              cases hcs : anySep c with
              | true => exact hcs
              | false => exact absurd ⟨s1, s2, c, t, rfl, hc.1, hc.2, hcs⟩ hno
          rw [this]
        · rfl
      | [] | [_] => rfl
    have a6 : prefixDisk b = none := by unfold prefixDisk; rw [hd]
    unfold parsePrefix
    simp [a1, a2, a3, a4, a5, a6]

example : parsePrefix [92, 92] = none ∧ parsePrefix [92, 92, 92, 97] = none ∧ parsePrefix [49, 58] = none := by decide

end TP.C02c
