/-
Props/C10d.lean — C10 continued: `strip_prefix` under a VERBATIM prefix.

For a path and a base that both carry a complete verbatim prefix: when `strip_prefix` succeeds
with a non-empty remainder `r` that does not start like a prefix and contains no `/` (under an
exact `\\?\` prefix `/` is an ordinary name byte, which the re-read remainder would split on; `/`
is forbidden in Windows names), the path's components are the base's followed by a rest `rem`, and
the base joined with the remainder is the documented verbatim scan of the base's components and
`rem` — "q joined with r equals p up to the normalisation that joining onto a verbatim prefix
applies" (`win_strip_join_verbatim`).
-/
import TypedPathVerif.Props.C10c
import TypedPathVerif.Props.C08d

namespace TP.C10d

open TP TP.Win TP.JoinRules TP.C08c

/-- states reachable by front steps after the prefix of a path parsed with flag `n` -/
def VFront (n : Bool) (st : PState) : Prop :=
  st.pre = none ∧ st.k = (!n) ∧ WFToks (wsep n) st.toks ∧ st.Inv

theorem VFront_front {n : Bool} {st st' : PState} {c : Comp} (h : st.nextFront = some (c, st'))
    (hr : VFront n st) : VFront n st' := by
  obtain ⟨hp, hk, hw, hi⟩ := hr
  have hi' := nextFront_inv h hi
  unfold PState.nextFront at h
  simp only [hp] at h
  cases hf : frontT st.k st.atBeg st.toks with
  | none => simp [hf] at h
  | some r =>
    obtain ⟨c', ts'⟩ := r
    simp only [hf, Option.some.injEq, Prod.mk.injEq] at h
    obtain ⟨p, hp'⟩ := frontT_suffix hf
    rw [← h.2] at hi' ⊢
    refine ⟨rfl, hk, ?_, hi'⟩
    simp only
    rw [hp'] at hw
    exact WFToks_suffix p hw

theorem iterAfter_comps_v (n : Bool) : ∀ (ys : List Comp) (s s' : PState), VFront n s →
    iterAfter .windows s ys = some s' → VFront n s' ∧
      ∃ xs, xs.map (Comp.bytes .windows) = ys.map (Comp.bytes .windows) ∧ s.comps = xs ++ s'.comps := by
  intro ys
  induction ys with
  | nil =>
    intro s s' hr h
    simp only [iterAfter, Option.some.injEq] at h
    subst h
    exact ⟨hr, [], rfl, rfl⟩
  | cons y ys ih =>
    intro s s' hr h
    simp only [iterAfter] at h
    cases hf : s.nextFront with
    | none => simp [hf] at h
    | some r =>
      obtain ⟨x, s1⟩ := r
      simp only [hf] at h
      split at h
      · rename_i hxy
        obtain ⟨hr', xs, hlen, hxs⟩ := ih s1 s' (VFront_front hf hr) h
        refine ⟨hr', x :: xs, by simp [hlen, hxy], ?_⟩
        rw [front_comps hf, hxs]; rfl
      · cases h

/-! ### what the verbatim scan does not see -/

/-- the components without the `.` markers -/
def dropCur : List Comp → List Comp
  | [] => []
  | .cur :: r => dropCur r
  | c :: r => c :: dropCur r

theorem dropCur_cons_congr (c : Comp) {l1 l2 : List Comp} (h : dropCur l1 = dropCur l2) :
    dropCur (c :: l1) = dropCur (c :: l2) := by
  cases c <;> simp [dropCur, h]

theorem fold_dropCur : ∀ (cs L : List Comp), verbatimFold L cs = verbatimFold L (dropCur cs) := by
  intro cs
  induction cs with
  | nil => intro L; rfl
  | cons c cs ih =>
    intro L
    cases c with
    | cur => simp only [verbatimFold, dropCur]; exact ih L
    | root => simp only [verbatimFold, dropCur]; exact ih _
    | parent =>
      simp only [verbatimFold, dropCur]
      cases L.getLast? with
      | none => exact ih _
      | some l => cases l <;> exact ih _
    | normal s => simp only [verbatimFold, dropCur]; exact ih _
    | pfx p => simp only [verbatimFold, dropCur]; exact ih _

theorem dropCur_body : ∀ (k : Bool) (ts : List Tok), dropCur (body k ts) = body false ts := by
  intro k ts
  induction ts with
  | nil => rfl
  | cons t r ih =>
    cases t with
    | sep x => rw [body_cons_junk r (by rfl), body_cons_junk r (by rfl)]; exact ih
    | seg s =>
      by_cases hs : s = CUR
      · subst hs
        have hj : junk false (.seg CUR) = true := by decide
        rw [body_cons_junk r hj]
        cases k with
        | false => rw [body_cons_junk r hj]; exact ih
        | true =>
          have hj' : junk true (.seg CUR) = false := by decide
          rw [body_cons_seg r hj']
          have : segComp true CUR = .cur := by decide
          rw [this]
          simp only [dropCur]; exact ih
      · have hjf : junk false (.seg s) = false := by simp [junk, hs]
        have hjk : junk k (.seg s) = false := by cases k <;> simp [junk, hs]
        rw [body_cons_seg r hjf, body_cons_seg r hjk]
        have hseg : segComp k s = segComp false s := by
          unfold segComp; simp [hs]
        rw [hseg]
        have hne : segComp false s ≠ .cur := by
          unfold segComp; split <;> simp
        cases hc : segComp false s with
        | cur => exact absurd hc hne
        | root => simp [dropCur, ih]
        | parent => simp [dropCur, ih]
        | normal x => simp [dropCur, ih]
        | pfx p => simp [dropCur, ih]

/-- the scan sees the same components whether the remainder is read with the path's own flag at
its own position, or afresh without the verbatim flag -/
theorem dropCur_compsT (k ab : Bool) (ts : List Tok) (hinv : ab = true ∨ noLeadJunk k ts) :
    dropCur (compsT k ab ts) = dropCur (compsT false true ts) := by
  cases ts with
  | nil => simp
  | cons t r =>
    rw [compsT_true_cons false t r]
    cases hab : ab with
    | true =>
      rw [compsT_true_cons k t r]
      apply dropCur_cons_congr
      rw [dropCur_body, dropCur_body]
    | false =>
      have hnl : noLeadJunk k (t :: r) := by
        rcases hinv with h | h
        · rw [hab] at h; cases h
        · exact h
      cases t with
      | sep x => simp [noLeadJunk, junk] at hnl
      | seg s =>
        have hj : junk k (.seg s) = false := hnl
        simp only [compsT, Bool.false_eq_true, if_false, headComp]
        rw [body_cons_seg r hj, ← segComp_of_not_junk hj]
        apply dropCur_cons_congr
        rw [dropCur_body, dropCur_body]

theorem toks_congr (f g : UInt8 → Bool) : ∀ (b : Bytes), (∀ y ∈ b, f y = g y) → toks f b = toks g b := by
  intro b
  induction b with
  | nil => intro _; rfl
  | cons x xs ih =>
    intro h
    have hx := h x (by simp)
    have := ih (fun y hy => h y (by simp [hy]))
    simp only [toks, hx, this]

/-! ### component texts determine components, for either flag -/

theorem canonW_body_n (n : Bool) {ts : List Tok} (hw : WFToks (wsep n) ts) : ∀ c ∈ body (!n) ts, C10b.canonW c := by
  induction ts with
  | nil => intro c h; simp [body] at h
  | cons t r ih =>
    intro c h
    have hwr := WFToks_tail hw
    cases t with
    | sep x => rw [body_cons_junk r (by rfl)] at h; exact ih hwr c h
    | seg s =>
      have hsb : s ≠ [BSLASH] := by
        intro hE
        have := hw.2.1 BSLASH (by rw [hE]; simp)
        rw [wsep_bslash] at this; cases this
      by_cases hj : junk (!n) (.seg s) = true
      · rw [body_cons_junk r hj] at h; exact ih hwr c h
      · have hj' : junk (!n) (.seg s) = false := by simpa using hj
        rw [body_cons_seg r hj'] at h
        rcases List.mem_cons.mp h with h | h
        · subst h
          refine C10b.canonW_segComp (!n) s ?_ hsb
          cases n with
          | true => right; simpa [junk] using hj'
          | false => left; rfl
        · exact ih hwr c h

theorem canonW_compsT_n (n : Bool) (b : Bytes) : ∀ c ∈ compsT (!n) true (toks (wsep n) b), C10b.canonW c := by
  have hw := WFToks_toks (wsep n) b
  cases hts : toks (wsep n) b with
  | nil => intro c h; simp [compsT] at h
  | cons t r =>
    rw [hts] at hw
    rw [compsT_true_cons]
    intro c h
    rcases List.mem_cons.mp h with h | h
    · subst h
      cases t with
      | sep x => trivial
      | seg s =>
        refine C10b.canonW_segComp true s (Or.inl rfl) ?_
        intro hE
        have := hw.2.1 BSLASH (by rw [hE]; simp)
        rw [wsep_bslash] at this; cases this
    · exact canonW_body_n n (WFToks_tail hw) c h

/-- **Windows, complete verbatim prefixes on both sides.**  If `strip_prefix` succeeds with a
non-empty remainder that neither starts like a prefix nor contains `/` (the latter only matters
under an exact `\\?\` prefix), then the path's components are the base's followed by some `rem`,
and the base joined with the remainder is the verbatim scan of the base's components and `rem`. -/
theorem win_strip_join_verbatim (p q r restp restq : Bytes) (pp pq : PrefixComp)
    (hpp : parsePrefixComp p = some (pp, restp)) (hcp : Complete pp.kind)
    (hpq : parsePrefixComp q = some (pq, restq)) (hcq : Complete pq.kind) (hvq : isVerbatimKind pq.kind = true)
    (hrestq : HeadOK (wsep (normOf pq.raw)) restq)
    (h : stripPrefix .windows p q = some r) (hrne : r ≠ []) (hr : C16.pfxStart r = false)
    (hslash : normOf pp.raw = true ∨ ∀ y ∈ r, y ≠ SLASH) :
    ∃ rem, comps .windows p = comps .windows q ++ rem ∧
      comps .windows (push .windows q r) = withRoot (verbatimFold (comps .windows q) rem) := by
  have hsp := stable_of_complete hpp hcp
  have hokp := restOK_of_complete hpp hcp
  have hap := parsePrefixComp_raw hpp
  have hsq := stable_of_complete hpq hcq
  have hokq := restOK_of_complete hpq hcq
  have haq := parsePrefixComp_raw hpq
  have hcompq : comps .windows q = .pfx pq :: compsT (!normOf pq.raw) true (toks (wsep (normOf pq.raw)) restq) := by
    rw [← haq]; exact comps_of_stable hsq restq hokq
  have hcompp : comps .windows p = .pfx pp :: compsT (!normOf pp.raw) true (toks (wsep (normOf pp.raw)) restp) := by
    rw [← hap]; exact comps_of_stable hsp restp hokp
  -- walk the base's components off the front of the path
  have hstrip := h
  unfold stripPrefix at hstrip
  rw [hcompq, ← hap, new_of_stable hsp restp hokp] at hstrip
  simp only [iterAfter, PState.nextFront] at hstrip
  split at hstrip
  · rename_i hxy
    have hpe : pp = pq := C10c.prefix_eq_of_raw hpp hcp hpq hcq hxy
    subst hpe
    cases hia : iterAfter .windows
        { pre := none, toks := toks (wsep (normOf pp.raw)) restp, atBeg := true, k := !normOf pp.raw }
        (compsT (!normOf pp.raw) true (toks (wsep (normOf pp.raw)) restq)) with
    | none => simp [hia] at hstrip
    | some s' =>
      simp only [hia, Option.map_some, Option.some.injEq] at hstrip
      have hw0 : VFront (normOf pp.raw)
          { pre := none, toks := toks (wsep (normOf pp.raw)) restp, atBeg := true, k := !normOf pp.raw } :=
        ⟨rfl, rfl, WFToks_toks _ restp, Or.inl rfl⟩
      obtain ⟨hr', xs, hmap, hxs⟩ := iterAfter_comps_v _ _ _ _ hw0 hia
      rw [comps_closed _ hw0.2.2.2] at hxs
      simp only [List.nil_append] at hxs
      -- the walked-off run is the base's tail
      have hxs' : xs = compsT (!normOf pp.raw) true (toks (wsep (normOf pp.raw)) restq) := by
        refine C10c.map_eq_of_inj (Comp.bytes .windows) ?_ hmap
        intro x hx y hy hxy'
        exact C10b.bytes_inj_of_canonW
          (canonW_compsT_n _ restp x (by rw [hxs]; simp [hx])) (canonW_compsT_n _ restq y hy) hxy'
      subst hxs'
      refine ⟨s'.comps, by rw [hcompp, hcompq, hxs]; rfl, ?_⟩
      -- the remainder, re-read without the verbatim flag
      obtain ⟨hpre, hk, hwf, hinv⟩ := hr'
      have hrem : r = untoks s'.toks := by
        rw [← hstrip]; simp [PState.remaining, PState.preBytes, hpre]
      have htoks : toks (wsep true) r = s'.toks := by
        have h1 : toks (wsep true) r = toks (wsep (normOf pp.raw)) r := by
          rcases hslash with hn | hs
          · rw [hn]
          · apply toks_congr
            intro y hy
            have := hs y hy
            cases normOf pp.raw with
            | true => rfl
            | false => simp [wsep, this]
        rw [h1, hrem, toks_untoks _ hwf]
      have hcr : comps .windows r = compsT false true s'.toks := by
        rw [C16.win_comps_pf r hr, htoks]
      have hrc : s'.comps = compsT (!normOf pp.raw) s'.atBeg s'.toks := by
        rw [comps_closed s' hinv, hpre, hk]; rfl
      have hinv' : s'.atBeg = true ∨ noLeadJunk (!normOf pp.raw) s'.toks := by
        rcases hinv with h1 | h1
        · exact Or.inl h1
        · right; rw [hk] at h1; exact h1
      rw [(C08d.win_push_comps_verbatim_any q r restq pp hpq hcq hvq hrestq hrne hr).1]
      congr 1
      rw [fold_dropCur (comps .windows r), fold_dropCur s'.comps, hcr, hrc,
        dropCur_compsT _ _ _ hinv']
  · cases hstrip

/-! ### non-vacuity -/

-- `\\?\C:\a\.\b` stripped of `\\?\C:\a` is `.\b`; joined back it is `\\?\C:\a\b`
example : stripPrefix .windows [92, 92, 63, 92, 67, 58, 92, 97, 92, 46, 92, 98] [92, 92, 63, 92, 67, 58, 92, 97]
    = some [46, 92, 98] := by
  unfold stripPrefix; rw [C03.comps_new_closed]; decide

end TP.C10d
