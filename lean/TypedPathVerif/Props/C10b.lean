/-
Props/C10b.lean — C10 continued: what `starts_with` / `ends_with` / `strip_prefix` compute on
EVERY input of both encodings, and the Windows consequences.

* `starts_with_iff_texts`, `ends_with_iff_texts`: the test holds exactly when the component TEXTS
  (`as_bytes`) of the base are a leading / trailing run of the path's component texts — all byte
  strings, both encodings.  A prefix component's text is its raw spelling: that is known finding
  K2 (`c:\a` equals `C:\a` but does not start with `C:\`); `C10.win_starts_with_K2_witness`.
* `strip_iff_starts`: `strip_prefix` succeeds exactly when `starts_with` holds (both encodings).
* `win_starts_with_iff`, `win_ends_with_iff`: for Windows paths that do not start like a prefix the
  tests are exactly "the base's components are a leading / trailing run of the path's".
* `win_join_starts`: for a covered base (prefix-free, or complete non-verbatim prefix) and a
  non-empty relative prefix-free argument, the join starts with the base — shown with the
  implicit root of a bare device-namespace / UNC prefix written out.
-/
import TypedPathVerif.Props.C12c
import TypedPathVerif.Props.C10

namespace TP.C10b

open TP

/-- `starts_with` compares component texts -/
theorem starts_with_iff_texts (e : Enc) (p q : Bytes) :
    startsWithP e p q = true ↔ (comps e q).map (Comp.bytes e) <+: (comps e p).map (Comp.bytes e) := by
  unfold startsWithP
  rw [C06.iterAfter_isSome_iff e _ _ (Enc.new_inv e p)]
  rfl

/-- `ends_with` compares component texts -/
theorem ends_with_iff_texts (e : Enc) (p q : Bytes) :
    endsWithP e p q = true ↔ (comps e q).map (Comp.bytes e) <:+ (comps e p).map (Comp.bytes e) := by
  unfold endsWithP
  rw [C06.iterAfterBack_isSome_iff e _ _ (Enc.new_inv e p), C03.dei_reverse]
  rw [show (Enc.new e p).comps = comps e p from rfl, List.map_reverse, List.map_reverse, List.reverse_prefix]

/-- `strip_prefix` succeeds exactly when `starts_with` holds -/
theorem strip_iff_starts (e : Enc) (p q : Bytes) :
    (stripPrefix e p q).isSome = startsWithP e p q := by
  unfold stripPrefix startsWithP
  cases iterAfter e (Enc.new e p) (comps e q) <;> rfl

/-- equal paths start and end with each other whenever their prefix components (if any) are
spelled the same: stated on texts, for all inputs -/
theorem starts_with_of_same_texts (e : Enc) (p q : Bytes)
    (h : (comps e q).map (Comp.bytes e) = (comps e p).map (Comp.bytes e)) :
    startsWithP e p q = true ∧ endsWithP e p q = true := by
  rw [starts_with_iff_texts, ends_with_iff_texts, h]
  exact ⟨List.prefix_refl _, List.suffix_refl _⟩

/-! ### Windows paths that do not start like a prefix: texts determine components -/

def canonW : Comp → Prop
  | .pfx _ => False
  | .normal s => s ≠ CUR ∧ s ≠ PAR ∧ s ≠ [BSLASH]
  | _ => True

theorem bytes_inj_of_canonW {x y : Comp} (hx : canonW x) (hy : canonW y)
    (h : x.bytes .windows = y.bytes .windows) : x = y := by
  cases x <;> cases y <;> simp_all [canonW, Comp.bytes, Enc.sepByte, CUR, PAR, BSLASH, DOT]

theorem canonW_segComp (c : Bool) (s : Bytes) (h1 : c = true ∨ s ≠ CUR) (h2 : s ≠ [BSLASH]) :
    canonW (segComp c s) := by
  unfold segComp
  split
  · trivial
  · rename_i hp
    split
    · trivial
    · rename_i hc
      refine ⟨?_, hp, h2⟩
      intro hs
      rcases h1 with h1 | h1
      · exact hc ⟨hs, h1⟩
      · exact h1 hs

theorem seg_ne_bslash {ts : List Tok} (hw : WFToks (wsep true) ts) : ∀ s, Tok.seg s ∈ ts → s ≠ [BSLASH] := by
  intro s hs hE
  have := (Comb.WF_mem_seg hw s hs).2 BSLASH (by rw [hE]; simp)
  revert this; decide

theorem canonW_body {ts : List Tok} (hw : WFToks (wsep true) ts) : ∀ c ∈ body false ts, canonW c := by
  induction ts with
  | nil => intro c h; simp at h
  | cons t r ih =>
    intro c h
    have hwr := WFToks_tail hw
    cases t with
    | sep x => rw [body_cons_junk r (by rfl)] at h; exact ih hwr c h
    | seg s =>
      by_cases hj : junk false (.seg s) = true
      · rw [body_cons_junk r hj] at h; exact ih hwr c h
      · have hj' : junk false (.seg s) = false := by simpa using hj
        rw [body_cons_seg r hj'] at h
        rcases List.mem_cons.mp h with h | h
        · subst h
          exact canonW_segComp false s (Or.inr (by simpa [junk] using hj')) (seg_ne_bslash hw s (by simp))
        · exact ih hwr c h

theorem canonW_comps (b : Bytes) (hpf : C16.pfxStart b = false) : ∀ c ∈ comps .windows b, canonW c := by
  rw [C16.win_comps_pf b hpf]
  have hw := WFToks_toks (wsep true) b
  cases hts : toks (wsep true) b with
  | nil => intro c h; simp [compsT] at h
  | cons t r =>
    rw [hts] at hw
    rw [compsT_true_cons]
    intro c h
    rcases List.mem_cons.mp h with h | h
    · subst h
      cases t with
      | sep x => trivial
      | seg s => exact canonW_segComp true s (Or.inl rfl) (seg_ne_bslash hw s (by simp))
    · exact canonW_body (WFToks_tail hw) c h

/-- Windows, neither path starts like a prefix: `starts_with` ⇔ leading run of components. -/
theorem win_starts_with_iff (p q : Bytes) (hp : C16.pfxStart p = false) (hq : C16.pfxStart q = false) :
    startsWithP .windows p q = true ↔ comps .windows q <+: comps .windows p := by
  rw [starts_with_iff_texts]
  exact C06.map_prefix_of_inj (Comp.bytes .windows)
    (fun x hx y hy h => bytes_inj_of_canonW (canonW_comps q hq x hx) (canonW_comps p hp y hy) h)

/-- Windows, neither path starts like a prefix: `ends_with` ⇔ trailing run of components. -/
theorem win_ends_with_iff (p q : Bytes) (hp : C16.pfxStart p = false) (hq : C16.pfxStart q = false) :
    endsWithP .windows p q = true ↔ comps .windows q <:+ comps .windows p := by
  rw [ends_with_iff_texts, ← List.reverse_prefix, ← List.map_reverse, ← List.map_reverse]
  have key := C06.map_prefix_of_inj (l1 := (comps .windows q).reverse) (l2 := (comps .windows p).reverse)
    (Comp.bytes .windows)
    (fun x hx y hy h => bytes_inj_of_canonW (canonW_comps q hq x (List.mem_reverse.mp hx))
      (canonW_comps p hp y (List.mem_reverse.mp hy)) h)
  rw [key, List.reverse_prefix]

/-- in particular, equal prefix-free Windows paths start and end with each other -/
theorem win_starts_ends_of_eq (p q : Bytes) (hp : C16.pfxStart p = false) (hq : C16.pfxStart q = false)
    (h : comps .windows p = comps .windows q) :
    startsWithP .windows p q = true ∧ endsWithP .windows p q = true := by
  rw [win_starts_with_iff p q hp hq, win_ends_with_iff p q hp hq, h]
  exact ⟨List.prefix_refl _, List.suffix_refl _⟩

/-! ### joining then testing -/

/-- **Windows: the join starts with the base.**  For a covered base `a` (prefix-free and
non-empty, or with a complete non-verbatim prefix) and a portable name — or any non-empty,
prefix-free relative argument when the base is prefix-free — the components of `a.join(b)` begin
with the base's components (implicit root of a bare device-namespace / UNC prefix shown), and
`starts_with` reports it. -/
theorem win_join_name_starts (a n : Bytes) (ha : C12c.Base a) (hn : C16b.portable n) :
    C12c.shown (comps .windows a) <+: comps .windows (push .windows a n) := by
  rw [(C12c.push_name a n ha hn).2]
  exact List.prefix_append _ _

theorem win_join_starts_pf (a b : Bytes) (ha : C16.pfxStart a = false) (hane : a ≠ []) (hbne : b ≠ [])
    (hb : C16.pfxStart b = false) (hrel : JoinRules.startsWithSep b = false) :
    startsWithP .windows (push .windows a b) a = true ∧
    comps .windows (push .windows a b) = comps .windows a ++ dropLeadingCur (comps .windows b) := by
  obtain ⟨h1, h2⟩ := C16b.win_push_comps_pf a b ha hane hbne hb hrel
  refine ⟨?_, h2⟩
  rw [show push .windows a b = windowsPush a b from rfl, win_starts_with_iff _ a h1 ha, h2]
  exact List.prefix_append _ _

/-- with a complete non-verbatim prefix: text form (the base's raw prefix text is kept verbatim by
the join, so the K2 caveat does not arise) -/
theorem win_join_starts_prefixed (a q rest : Bytes) (p : PrefixComp)
    (hpa : parsePrefixComp a = some (p, rest)) (hc : Win.Complete p.kind)
    (hnv : JoinRules.isVerbatimKind p.kind = false) (hrest : rest ≠ [])
    (hqne : q ≠ []) (hq : C16.pfxStart q = false) (hrel : JoinRules.startsWithSep q = false) :
    startsWithP .windows (push .windows a q) a = true := by
  obtain ⟨_, hcomp⟩ := Win.win_push_comps_prefixed a q rest p hpa hc hnv hqne hq hrel
  simp only [hrest, if_false] at hcomp
  rw [show push .windows a q = windowsPush a q from rfl, starts_with_iff_texts, hcomp, List.map_append]
  exact List.prefix_append _ _

/-! ### non-vacuity -/

example : startsWithP .windows [97, 92, 98, 92, 99] [97, 47, 47, 98] = true := by
  unfold startsWithP; rw [C03.comps_new_closed]; decide
example : C16.pfxStart [97, 92, 98, 92, 99] = false ∧ C16.pfxStart [97, 47, 47, 98] = false := by decide

end TP.C10b
