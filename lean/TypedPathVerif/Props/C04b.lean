/-
Props/C04b.lean — C04 continued: "the result's components begin with exactly the base's" for
Windows bases WITH a prefix.

* `accepted_prefix_free`: an argument the checked push accepts does not start like a prefix and
  does not start with a separator (so the unchecked join takes the "append" rule);
* `win_checked_keeps_base_prefixed`: for a base with a complete non-verbatim prefix (disk,
  device namespace, UNC with share) a successful checked push yields the base's components —
  with the implicit root of a bare device-namespace / UNC prefix materialised — followed by the
  argument's, which contain no prefix, no root, and never climb;
* `win_push_comps_prefixed` (C08's component clause for such bases) is `Win.win_push_comps_prefixed`.

Bases with a verbatim prefix are rebuilt from components (`C08.win_push_verbatim`); their
component clause is `C08b`.  Bases that start like a prefix without forming a complete one are
K3 territory and stay with the oracle.
-/
import TypedPathVerif.Lemmas.WinAppend
import TypedPathVerif.Props.C04

namespace TP.C04b

open TP TP.JoinRules

/-- an accepted, non-empty argument is prefix-free and relative -/
theorem accepted_prefix_free (p : Bytes)
    (hacc : C04.allPlain .windows (comps .windows p) ∧ C04.neverClimbs 0 (comps .windows p)) :
    C16.pfxStart p = false ∧ startsWithSep p = false := by
  have hnopre : prefixOf p = none := by
    cases hpo : prefixOf p with
    | none => rfl
    | some q =>
      exfalso
      have : Comp.pfx q ∈ comps .windows p := by
        rw [C02.win_decomp]
        unfold WinGrammar.decomp
        unfold prefixOf at hpo
        cases hpc : parsePrefixComp p with
        | none => simp [hpc] at hpo
        | some x =>
          obtain ⟨q', rest⟩ := x
          simp only [hpc, Option.map_some, Option.some.injEq] at hpo
          subst hpo; simp
      have := hacc.1 _ this
      simp [Comp.isPfx] at this
  have hroot : hasRoot .windows p = false := by
    cases hr : hasRoot .windows p with
    | false => rfl
    | true =>
      exfalso
      rw [C02.hasRoot_eq] at hr
      have hd : WinGrammar.decomp p = comps .windows p := (C02.win_decomp p).symm
      rw [hd] at hr
      cases hc : comps .windows p with
      | nil => rw [hc] at hr; simp [C02.hasRootOf] at hr
      | cons c rest =>
        rw [hc] at hr
        cases c with
        | root => exact absurd rfl (hacc.1 .root (by rw [hc]; simp)).2.1
        | pfx q => have := hacc.1 (.pfx q) (by rw [hc]; simp); simp [Comp.isPfx] at this
        | _ => simp [C02.hasRootOf] at hr
  have hrel : startsWithSep p = false := by
    rw [← C08.hasRoot_no_prefix p (by rw [hnopre]; rfl)]; exact hroot
  refine ⟨?_, hrel⟩
  cases hps : C16.pfxStart p with
  | false => rfl
  | true =>
    exfalso
    match p, hps with
    | a :: c :: rest, hps =>
      simp only [C16.pfxStart, Bool.or_eq_true, Bool.and_eq_true, decide_eq_true_eq] at hps
      rcases hps with ⟨ha, _⟩ | ⟨ha, hc⟩
      · simp [startsWithSep, ha] at hrel
      · subst hc
        have : parsePrefix (a :: COLON :: rest) = some (.disk (toAsciiUpper a), rest) :=
          (C02b.disk_iff _ rest _).mpr ⟨a, rfl, ha, rfl⟩
        unfold prefixOf parsePrefixComp at hnopre
        rw [this] at hnopre
        simp at hnopre

/-- the base's components with the implicit root of a bare non-disk prefix written out -/
def baseShown (p : PrefixComp) (rest : Bytes) (ca : List Comp) : List Comp :=
  if rest = [] then
    (match p.kind with
     | .disk _ => [.pfx p]
     | _ => [.pfx p, .root])
  else ca

/-- what the argument contributes: its components, minus a leading `.` unless it still starts
the path (directly after a bare disk prefix) -/
def added (p : PrefixComp) (rest : Bytes) (cq : List Comp) : List Comp :=
  if rest = [] then
    (match p.kind with
     | .disk _ => cq
     | _ => dropLeadingCur cq)
  else dropLeadingCur cq

/-- **Checked join keeps a prefixed Windows base.**  For a base `a` with a complete non-verbatim
prefix, if `push_checked` succeeds then the result's components are exactly the base's (implicit
root shown) followed by the argument's, and what was added contains no prefix, no root, only
valid names, and never climbs above the base; the result is again a well-formed path. -/
theorem win_checked_keeps_base_prefixed (a q r rest : Bytes) (p : PrefixComp)
    (hpa : parsePrefixComp a = some (p, rest)) (hc : Win.Complete p.kind) (hnv : isVerbatimKind p.kind = false)
    (hqne : q ≠ []) (h : pushChecked .windows a q = .ok r) :
    comps .windows r = baseShown p rest (comps .windows a) ++ added p rest (comps .windows q) ∧
    C04.allPlain .windows (added p rest (comps .windows q)) ∧
    C04.neverClimbs 0 (added p rest (comps .windows q)) ∧ Win.WF r := by
  obtain ⟨hacc, hr⟩ := (C04.checked_accepts_iff .windows a q r).mp h
  obtain ⟨hq, hrel⟩ := accepted_prefix_free q hacc
  obtain ⟨hwf, hcomp⟩ := Win.win_push_comps_prefixed a q rest p hpa hc hnv hqne hq hrel
  have hpush : push .windows a q = windowsPush a q := rfl
  rw [hr, hpush]
  have hdl := C04.dropLeadingCur_sublist_props .windows (comps .windows q) 0 hacc
  refine ⟨?_, ?_, ?_, hwf⟩
  · rw [hcomp]
    unfold baseShown added
    by_cases hrest : rest = []
    · simp only [hrest, if_true]
      cases p.kind <;> simp
    · simp only [hrest, if_false]
  · unfold added
    by_cases hrest : rest = []
    · simp only [hrest, if_true]
      cases p.kind <;> first | exact hdl.1 | exact hacc.1
    · simp only [hrest, if_false]; exact hdl.1
  · unfold added
    by_cases hrest : rest = []
    · simp only [hrest, if_true]
      cases p.kind <;> first | exact hdl.2 | exact hacc.2
    · simp only [hrest, if_false]; exact hdl.2

/-! ### non-vacuity -/

example : pushChecked .windows [67, 58, 92, 97] [98, 92, 46, 46, 92, 99] = .ok [67, 58, 92, 97, 92, 98, 92, 46, 46, 92, 99] := by
  unfold pushChecked; rw [C03.comps_new_closed]; decide
example : pushChecked .windows [92, 92, 115, 92, 104] [120] = .ok [92, 92, 115, 92, 104, 92, 120] := by
  unfold pushChecked; rw [C03.comps_new_closed]; decide
example : pushChecked .windows [67, 58] [46] = .ok [67, 58, 46] := by
  unfold pushChecked; rw [C03.comps_new_closed]; decide
example : parsePrefixComp [92, 92, 115, 92, 104] = some (⟨[92, 92, 115, 92, 104], .unc [115] [104]⟩, []) := by decide

end TP.C04b
