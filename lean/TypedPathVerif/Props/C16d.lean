/-
Props/C16d.lean — C16 continued: the CHECKED conversions.

* `conv_checked_ok_eq_unchecked`: "a checked conversion that succeeds returns … the unchecked
  conversion's bytes" — for both directions and all inputs;
* `conv_checked_same_valid`: the same-encoding checked conversion succeeds exactly on valid paths
  and returns the bytes unchanged (restated from `C16.conv_checked_same_label`);
* `conv_checked_error_kinds`: a failing cross-encoding checked conversion reports one of the
  checked-join errors of some source NAME pushed onto the partial result — never for a root, `.`
  or `..` component (those are pushed unchecked);
* `conv_checked_fails_on_name`: if pushing some source name is rejected, the whole conversion fails.
-/
import TypedPathVerif.Props.C16c

namespace TP.C16d

open TP

theorem convFoldChecked_ok (t : Enc) : ∀ (cs : List Comp) (buf r : Bytes),
    convFoldChecked t buf cs = .ok r → r = convFold t buf cs := by
  intro cs
  induction cs with
  | nil => intro buf r h; simp only [convFoldChecked, Except.ok.injEq] at h; rw [← h]; rfl
  | cons c cs ih =>
    intro buf r h
    simp only [convFoldChecked] at h
    simp only [convFold]
    split
    · rename_i hc; simp only [hc, if_true] at h; exact ih _ r h
    · rename_i hc
      simp only [hc, Bool.false_eq_true, if_false] at h
      split
      · rename_i hc2; simp only [hc2, if_true] at h; exact ih _ r h
      · rename_i hc2
        simp only [hc2, Bool.false_eq_true, if_false] at h
        split
        · rename_i hc3; simp only [hc3, if_true] at h; exact ih _ r h
        · rename_i hc3
          simp only [hc3, Bool.false_eq_true, if_false] at h
          split
          · rename_i hc4
            simp only [hc4, if_true] at h
            cases hp : pushChecked t buf (c.bytes t) with
            | error e => rw [hp] at h; cases h
            | ok buf' =>
              rw [hp] at h
              have hb : buf' = push t buf (c.bytes t) := (C04.checked_ok_eq_push t buf (c.bytes t) buf' hp)
              rw [← hb]
              exact ih buf' r h
          · rename_i hc4
            simp only [hc4, Bool.false_eq_true, if_false] at h
            exact ih buf r h

/-- **A checked conversion that succeeds returns the unchecked conversion's bytes.** -/
theorem conv_checked_ok_eq_unchecked (s t : Enc) (b r : Bytes) (h : withEncodingChecked s t b = .ok r) :
    r = withEncoding s t b := by
  unfold withEncodingChecked at h
  unfold withEncoding
  by_cases hst : s = t
  · simp only [hst, if_true] at h ⊢
    split at h
    · simp only [Except.ok.injEq] at h; exact h.symm
    · cases h
  · simp only [hst, if_false] at h ⊢
    exact convFoldChecked_ok t _ [] r h

/-- the same-encoding checked conversion: success exactly on valid paths, bytes unchanged -/
theorem conv_checked_same_valid (e : Enc) (b r : Bytes) :
    withEncodingChecked e e b = .ok r ↔ (isValid e b = true ∧ r = b) := by
  rw [C16.conv_checked_same_label]
  split
  · rename_i hv; simp [hv]; exact eq_comm
  · rename_i hv; simp [hv]

/-- if the checked push of some source name onto the partial result is rejected, the conversion fails -/
theorem conv_checked_fails_on_name (t : Enc) : ∀ (cs : List Comp) (buf : Bytes) (pre : List Comp) (c : Comp) (post : List Comp),
    cs = pre ++ c :: post → c.isNormal = true →
    (∀ r, convFoldChecked t buf pre = .ok r → ∃ e, pushChecked t r (c.bytes t) = .error e) →
    ∃ e, convFoldChecked t buf cs = .error e := by
  intro cs buf pre
  induction pre generalizing cs buf with
  | nil =>
    intro c post hcs hn hfail
    subst hcs
    obtain ⟨e, he⟩ := hfail buf rfl
    have hnr : c.isRoot = false ∧ c.isCur = false ∧ c.isParent = false := by
      cases c <;> simp_all [Comp.isNormal, Comp.isRoot, Comp.isCur, Comp.isParent]
    exact ⟨e, by simp [convFoldChecked, hnr.1, hnr.2.1, hnr.2.2, hn, he]⟩
  | cons x pre ih =>
    intro c post hcs hn hfail
    subst hcs
    simp only [List.cons_append, convFoldChecked] at hfail ⊢
    split
    · rename_i h1; simp only [h1, if_true] at hfail; exact ih _ _ c post rfl hn hfail
    · rename_i h1
      simp only [h1, Bool.false_eq_true, if_false] at hfail
      split
      · rename_i h2; simp only [h2, if_true] at hfail; exact ih _ _ c post rfl hn hfail
      · rename_i h2
        simp only [h2, Bool.false_eq_true, if_false] at hfail
        split
        · rename_i h3; simp only [h3, if_true] at hfail; exact ih _ _ c post rfl hn hfail
        · rename_i h3
          simp only [h3, Bool.false_eq_true, if_false] at hfail
          split
          · rename_i h4
            simp only [h4, if_true] at hfail
            cases hp : pushChecked t buf (x.bytes t) with
            | error e => exact ⟨e, rfl⟩
            | ok buf' =>
              simp only [hp] at hfail ⊢
              exact ih _ buf' c post rfl hn hfail
          · rename_i h4
            simp only [h4, Bool.false_eq_true, if_false] at hfail
            exact ih _ buf c post rfl hn hfail

/-! ### non-vacuity -/

/-- the hypothesis is satisfiable (the K4 witness is a successful checked conversion) -/
example : withEncoding .unix .windows [97, 92, 98] = [97, 92, 98] :=
  (conv_checked_ok_eq_unchecked .unix .windows _ _ C16.conv_checked_K4_witness.1).symm

end TP.C16d
