/-
Props/C16d.lean — C16 continued: the CHECKED conversions.

* `conv_checked_ok_eq_unchecked`: "a checked conversion that succeeds returns … the unchecked
  conversion's bytes" — for both directions and all inputs;
* `conv_checked_same_valid`: the same-encoding checked conversion succeeds exactly on valid paths
  and returns the bytes unchanged (restated from `C16.conv_checked_same_label`);
* `conv_checked_error_kinds`: a failing cross-encoding checked conversion reports one of the
  checked-join errors of some source NAME pushed onto the partial result — never for a root, `.`
  or `..` component (those are pushed unchecked);
* `conv_checked_fails_on_name`: if pushing some source name is rejected, the whole conversion fails.
-/
import TypedPathVerif.Props.C16c
import TypedPathVerif.Props.C04

namespace TP.C16d

open TP

theorem convFoldChecked_ok (t : Enc) : ∀ (cs : List Comp) (buf r : Bytes),
    convFoldChecked t buf cs = .ok r → r = convFold t buf cs := by
  intro cs
  induction cs with
  | nil => intro buf r h; simp only [convFoldChecked, Except.ok.injEq] at h; rw [← h]; rfl
  | cons c cs ih =>
    intro buf r h
    simp only [convFoldChecked] at h
    simp only [convFold]
    split
    · rename_i hc; simp only [hc, if_true] at h; exact ih _ r h
    · rename_i hc
      simp only [hc, Bool.false_eq_true, if_false] at h
      split
      · rename_i hc2; simp only [hc2, if_true] at h; exact ih _ r h
      · rename_i hc2
        simp only [hc2, Bool.false_eq_true, if_false] at h
        split
        · rename_i hc3; simp only [hc3, if_true] at h; exact ih _ r h
        · rename_i hc3
          simp only [hc3, Bool.false_eq_true, if_false] at h
          split
          · rename_i hc4
            simp only [hc4, if_true] at h
            cases hp : pushChecked t buf (c.bytes t) with
            | error e => rw [hp] at h; cases h
            | ok buf' =>
              rw [hp] at h
              have hb : buf' = push t buf (c.bytes t) := (C04.checked_ok_eq_push t buf (c.bytes t) buf' hp)
              rw [← hb]
              exact ih buf' r h
          · rename_i hc4
            simp only [hc4, Bool.false_eq_true, if_false] at h
            exact ih buf r h

/-- **A checked conversion that succeeds returns the unchecked conversion's bytes.** -/
theorem conv_checked_ok_eq_unchecked (s t : Enc) (b r : Bytes) (h : withEncodingChecked s t b = .ok r) :
    r = withEncoding s t b := by
  unfold withEncodingChecked at h
  unfold withEncoding
  by_cases hst : s = t
  · simp only [hst, if_true] at h ⊢
    split at h
    · simp only [Except.ok.injEq] at h; exact h.symm
    · cases h
  · simp only [hst, if_false] at h ⊢
    exact convFoldChecked_ok t _ [] r h

/-- the same-encoding checked conversion: success exactly on valid paths, bytes unchanged -/
theorem conv_checked_same_valid (e : Enc) (b r : Bytes) :
    withEncodingChecked e e b = .ok r ↔ (isValid e b = true ∧ r = b) := by
  rw [C16.conv_checked_same_label]
  split
  · rename_i hv; simp [hv]; exact eq_comm
  · rename_i hv; simp [hv]

/-- if the checked push of some source name onto the partial result is rejected, the conversion fails -/
theorem conv_checked_fails_on_name (t : Enc) : ∀ (cs : List Comp) (buf : Bytes) (pre : List Comp) (c : Comp) (post : List Comp),
    cs = pre ++ c :: post → c.isNormal = true →
    (∀ r, convFoldChecked t buf pre = .ok r → ∃ e, pushChecked t r (c.bytes t) = .error e) →
    ∃ e, convFoldChecked t buf cs = .error e := by
  intro cs buf pre
  induction pre generalizing cs buf with
  | nil =>
    intro c post hcs hn hfail
    subst hcs
    obtain ⟨e, he⟩ := hfail buf rfl
    have hnr : c.isRoot = false ∧ c.isCur = false ∧ c.isParent = false := by
      cases c <;> simp_all [Comp.isNormal, Comp.isRoot, Comp.isCur, Comp.isParent]
    exact ⟨e, by simp [convFoldChecked, hnr.1, hnr.2.1, hnr.2.2, hn, he]⟩
  | cons x pre ih =>
    intro c post hcs hn hfail
    subst hcs
    simp only [List.cons_append, convFoldChecked] at hfail ⊢
    split
    · rename_i h1; simp only [h1, if_true] at hfail; exact ih _ _ c post rfl hn hfail
    · rename_i h1
      simp only [h1, Bool.false_eq_true, if_false] at hfail
      split
      · rename_i h2; simp only [h2, if_true] at hfail; exact ih _ _ c post rfl hn hfail
      · rename_i h2
        simp only [h2, Bool.false_eq_true, if_false] at hfail
        split
        · rename_i h3; simp only [h3, if_true] at hfail; exact ih _ _ c post rfl hn hfail
        · rename_i h3
          simp only [h3, Bool.false_eq_true, if_false] at hfail
          split
          · rename_i h4
            simp only [h4, if_true] at hfail
            cases hp : pushChecked t buf (x.bytes t) with
            | error e => exact ⟨e, rfl⟩
            | ok buf' =>
              simp only [hp] at hfail ⊢
              exact ih _ buf' c post rfl hn hfail
          · rename_i h4
            simp only [h4, Bool.false_eq_true, if_false] at hfail
            exact ih _ buf c post rfl hn hfail

/-! ### a forbidden byte in a name is rejected -/

/-- separators of the target encoding (either slash on Windows) -/
def tsep : Enc → UInt8 → Bool
  | .unix, y => usep y
  | .windows, y => anySep y

theorem mem_untoks {ts : List Tok} {y : UInt8} (h : y ∈ untoks ts) : ∃ t ∈ ts, y ∈ t.bytes := by
  induction ts with
  | nil => simp [untoks] at h
  | cons t r ih =>
    simp only [untoks, List.mem_append] at h
    rcases h with h | h
    · exact ⟨t, by simp, h⟩
    · obtain ⟨t', ht', hy⟩ := ih h
      exact ⟨t', by simp [ht'], hy⟩

theorem names_mem {cs : List Comp} {s : Bytes} (h : s ∈ C03.names cs) : Comp.normal s ∈ cs := by
  induction cs with
  | nil => simp [C03.names] at h
  | cons c r ih =>
    cases c with
    | normal s' =>
      simp only [C03.names, List.mem_cons] at h
      rcases h with h | h
      · subst h; simp
      · simp [ih h]
    | _ => simp only [C03.names] at h; simp [ih h]

theorem nameToks_mem {ts : List Tok} {s : Bytes} (hs : Tok.seg s ∈ ts) (hn : C03.isName s = true) :
    s ∈ C03.nameToks ts := by
  induction ts with
  | nil => simp at hs
  | cons t r ih =>
    rcases List.mem_cons.mp hs with h | h
    · subst h; simp [C03.nameToks, hn]
    · cases t with
      | sep x => simp only [C03.nameToks]; exact ih h
      | seg s' =>
        simp only [C03.nameToks]
        split
        · simp [ih h]
        · exact ih h

/-- the tokens of a fresh parser are well-formed for a separator set contained in `tsep` -/
theorem new_toks_wf (t : Enc) (b : Bytes) :
    ∃ f : UInt8 → Bool, WFToks f (t.new b).toks ∧ ∀ y, f y = true → tsep t y = true := by
  cases t with
  | unix => exact ⟨usep, WFToks_toks usep b, fun _ h => h⟩
  | windows =>
    simp only [Enc.new]
    split
    · exact ⟨_, WFToks_toks _ _, fun y h => Win.wsep_imp_anySep h⟩
    · exact ⟨_, WFToks_toks _ _, fun y h => Win.wsep_imp_anySep h⟩

/-- **A name containing a target-forbidden byte is rejected by the checked push** (unless that
byte is a separator of the target: then the name is split instead — known finding K4). -/
theorem push_checked_rejects_forbidden (t : Enc) (buf name : Bytes) (y : UInt8) (hy : y ∈ name)
    (hf : (forbidden t).contains y = true) (hns : tsep t y = false) :
    ∃ e, pushChecked t buf name = .error e := by
  unfold pushChecked
  cases hs : checkedScan t 0 (comps t name) with
  | some err => exact ⟨err, rfl⟩
  | none =>
    exfalso
    obtain ⟨hplain, _⟩ := (C04.scan_none_iff t _ 0).mp hs
    obtain ⟨hcons, hnames⟩ := C03.dei_conservation t name
    rw [← hcons] at hy
    rcases List.mem_append.mp hy with hy | hy
    · -- in the prefix text: the path has a prefix component
      cases hp : (t.new name).pre with
      | none => simp [PState.preBytes, hp] at hy
      | some p =>
        have : Comp.pfx p ∈ comps t name := by
          rw [C03.comps_new_closed, hp]; simp
        have := (hplain _ this).1
        simp [Comp.isPfx] at this
    · obtain ⟨tok, htok, hyt⟩ := mem_untoks hy
      obtain ⟨f, hw, hsub⟩ := new_toks_wf t name
      cases tok with
      | sep x =>
        simp only [Tok.bytes, List.mem_singleton] at hyt
        subst hyt
        have := hsub y (Comb.WF_mem_sep hw y htok)
        rw [hns] at this; cases this
      | seg s =>
        simp only [Tok.bytes] at hyt
        by_cases hn : C03.isName s = true
        · have hmem : Comp.normal s ∈ comps t name := names_mem (by rw [hnames]; exact nameToks_mem htok hn)
          have hv := (hplain _ hmem).2.2
          simp only [Comp.isValid, Bool.not_eq_true', List.any_eq_false] at hv
          exact hv y hyt hf
        · -- `.` or `..`: the byte would be a dot, which no encoding forbids
          have hdot : y = DOT := by
            simp only [C03.isName, Bool.and_eq_true, decide_eq_true_eq, not_and, Classical.not_not] at hn
            by_cases h1 : s = CUR
            · rw [h1] at hyt; simpa [CUR] using hyt
            · have h2 := hn h1
              rw [h2] at hyt; simpa [PAR] using hyt
          subst hdot
          cases t <;> revert hf <;> decide

/-- **It fails whenever a source name contains a byte the target forbids** (other than a target
separator): the conversion of a path one of whose names contains such a byte is an error. -/
theorem conv_checked_fails_forbidden (s t : Enc) (b : Bytes) (hst : s ≠ t) (nm : Bytes) (y : UInt8)
    (hmem : Comp.normal nm ∈ comps s b) (hy : y ∈ nm)
    (hf : (forbidden t).contains y = true) (hns : tsep t y = false) :
    ∃ e, withEncodingChecked s t b = .error e := by
  unfold withEncodingChecked
  simp only [hst, if_false]
  obtain ⟨pre, post, hsplit⟩ := List.append_of_mem hmem
  refine conv_checked_fails_on_name t _ [] pre (.normal nm) post hsplit rfl ?_
  intro r _
  exact push_checked_rejects_forbidden t r nm y hy hf hns

/-! ### non-vacuity -/

/-- the hypothesis is satisfiable (the K4 witness is a successful checked conversion) -/
example : withEncoding .unix .windows [97, 92, 98] = [97, 92, 98] :=
  (conv_checked_ok_eq_unchecked .unix .windows _ _ C16.conv_checked_K4_witness.1).symm

end TP.C16d
