/-
Props/C01b.lean — the order of alternatives of the Unix component parser, as regenerated from the source on
every run by gen/alts.py, is the order the model was written against (Model/Parser `frontT` / `backT`,
Model/Comb/Unix function by function):

* at the beginning of the path a front step tries root, `..`, `.`, name; afterwards `..`, name;
* a back step tries `..`, name on the last segment;
* moving to the next component skips separators and `.` segments;
* `.` and `..` are recognised only when followed by a separator or the end.

A reordered, added or removed alternative changes the generated table and breaks this theorem: C01 (and C03)
are then reported as no longer shown for the parser that is in the source.
-/
import TypedPathVerif.Generated.Alts

namespace TP.C01

def coveredUnixAlts : List (String × List String) := [
  ("unix/non_utf8::parse_front", ["root_dir", "parent_dir", "cur_dir", "normal"]),
  ("unix/non_utf8::parse_front", ["parent_dir", "normal"]),
  ("unix/non_utf8::parse_back", ["parent_dir", "normal"]),
  ("unix/non_utf8::move_front_to_next", ["separator", "map(cur_dir, |_| ())"]),
  ("unix/non_utf8::cur_dir", ["empty", "peek(separator)"]),
  ("unix/non_utf8::parent_dir", ["empty", "peek(separator)"])
]

theorem unix_parser_alts_covered : Generated.unixParserAlts = coveredUnixAlts := rfl

/-- the shared combinator file has no ordered choice of its own -/
theorem common_parser_alts_covered : Generated.commonParserAlts = [] := rfl

end TP.C01
