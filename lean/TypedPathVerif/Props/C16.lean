/-
Props/C16.lean — Encoding conversion keeps structure; checked conversion yields only valid paths.

Proved: converting to the same encoding returns the same bytes (checked: iff valid); for every
prefix-free, non-verbatim Windows path the conversion to Unix parses to exactly the same
component kinds and names (`conv_w2u_prefix_free`) — every Windows name is separator-free for
Unix, so no portability hypothesis is needed in this direction.

Not proved: the Unix → Windows direction (needs the append lemma for prefix-free Windows
buffers and the portability hypothesis), the round trip, the prefix-dropping clause and the
checked clauses (known finding K4: a source name containing a separator of the target —
`conv_checked_K4_witness`).  The oracle decides them on every run.
-/
import TypedPathVerif.Props.C11
import TypedPathVerif.Props.C02
import TypedPathVerif.Props.C10

namespace TP.C16

open TP

/-! ### same encoding -/

/-- Converting a path to its own encoding returns the same bytes. -/
theorem conv_same_label (e : Enc) (b : Bytes) : withEncoding e e b = b := by
  simp [withEncoding]

/-- The checked conversion to the same encoding returns the bytes exactly when the path is
valid, and `InvalidFilename` otherwise. -/
theorem conv_checked_same_label (e : Enc) (b : Bytes) :
    withEncodingChecked e e b = (if isValid e b then .ok b else .error .invalidFilename) := by
  simp [withEncodingChecked]

/-! ### prefix-free Windows paths -/

/-- does the byte string start like a prefix: two separators of either kind, or `X:` -/
def pfxStart : Bytes → Bool
  | a :: b :: _ => (anySep a && anySep b) || (isAsciiAlpha a && b = COLON)
  | _ => false

theorem parsePrefix_none_of_pfxStart (b : Bytes) (h : pfxStart b = false) : parsePrefix b = none := by
  have hv : verbatimHdr b = none := by
    match b with
    | [] => rfl
    | [_] => rfl
    | [_, _] => rfl
    | [_, _, _] => rfl
    | a :: c :: q :: d :: rest =>
      simp only [pfxStart, Bool.or_eq_false_iff] at h
      simp only [verbatimHdr]
      have : (anySep a && anySep c) = false := h.1
      simp [this]
  have h1 : prefixVerbatimUNC b = none := by unfold prefixVerbatimUNC; simp [hv]
  have h2 : prefixVerbatimDisk b = none := by unfold prefixVerbatimDisk; simp [hv]
  have h3 : prefixVerbatim b = none := by unfold prefixVerbatim; simp [h1, h2, hv]
  have h4 : prefixDeviceNS b = none := by
    match b with
    | [] => rfl
    | [_] => rfl
    | [_, _] => rfl
    | [_, _, _] => rfl
    | a :: c :: q :: d :: rest =>
      simp only [pfxStart, Bool.or_eq_false_iff] at h
      have : (anySep a && anySep c) = false := h.1
      simp [prefixDeviceNS, this]
  have h5 : prefixUNC b = none := by
    match b with
    | [] => rfl
    | [_] => rfl
    | a :: c :: rest =>
      simp only [pfxStart, Bool.or_eq_false_iff] at h
      have : (anySep a && anySep c) = false := h.1
      simp [prefixUNC, this]
  have h6 : prefixDisk b = none := by
    unfold prefixDisk
    match b with
    | [] => rfl
    | [_] => rfl
    | a :: c :: rest =>
      simp only [pfxStart, Bool.or_eq_false_iff] at h
      have : (isAsciiAlpha a && decide (c = COLON)) = false := h.2
      simp [diskByte, this]
  unfold parsePrefix
  simp [h1, h2, h3, h4, h5, h6]

theorem not_verb_of_pfxStart (b : Bytes) (h : pfxStart b = false) : startsWith b VERB = false := by
  cases hv : startsWith b VERB with
  | false => rfl
  | true =>
    have := C08.verb_has_prefix b hv
    unfold JoinRules.prefixOf parsePrefixComp at this
    rw [parsePrefix_none_of_pfxStart b h] at this
    cases this

/-- a prefix-free Windows path is parsed like a Unix path with the separator set `\`, `/` -/
theorem win_comps_pf (b : Bytes) (h : pfxStart b = false) :
    comps .windows b = compsT false true (toks (wsep true) b) := by
  rw [C03.comps_new_closed]
  have hp : parsePrefixComp b = none := by
    unfold parsePrefixComp; rw [parsePrefix_none_of_pfxStart b h]
  simp only [Enc.new, hp, not_verb_of_pfxStart b h, Bool.not_false, Bool.not_true, List.nil_append]

/-! ### structure of the components for an arbitrary separator set -/

def nameOKs (isSep : UInt8 → Bool) (s : Bytes) : Prop :=
  s ≠ [] ∧ (∀ y ∈ s, isSep y = false) ∧ s ≠ CUR ∧ s ≠ PAR

def tailOKs (isSep : UInt8 → Bool) (c : Comp) : Prop :=
  c = .parent ∨ ∃ s, c = .normal s ∧ nameOKs isSep s

theorem seg_nameOKs {isSep : UInt8 → Bool} {ts : List Tok} (hw : WFToks isSep ts) (s : Bytes)
    (hs : Tok.seg s ∈ ts) (h3 : s ≠ CUR) (h4 : s ≠ PAR) : nameOKs isSep s := by
  induction ts with
  | nil => simp at hs
  | cons t r ih =>
    cases t with
    | sep x =>
      rcases List.mem_cons.mp hs with h | h
      · cases h
      · exact ih hw.2 h
    | seg s' =>
      rcases List.mem_cons.mp hs with h | h
      · cases h; exact ⟨hw.1, hw.2.1, h3, h4⟩
      · exact ih hw.2.2.2 h

theorem body_tailOKs {isSep : UInt8 → Bool} {ts : List Tok} (hw : WFToks isSep ts) :
    ∀ c ∈ body false ts, tailOKs isSep c := by
  induction ts with
  | nil => intro c h; simp at h
  | cons t r ih =>
    intro c h
    have hwr := WFToks_tail hw
    cases t with
    | sep x => rw [body_cons_junk r (by rfl)] at h; exact ih hwr c h
    | seg s =>
      by_cases hj : junk false (.seg s) = true
      · rw [body_cons_junk r hj] at h; exact ih hwr c h
      · have hj' : junk false (.seg s) = false := by simpa using hj
        have hne : s ≠ CUR := by simpa [junk] using hj'
        rw [body_cons_seg r hj'] at h
        rcases List.mem_cons.mp h with h | h
        · subst h
          unfold segComp
          by_cases hp : s = PAR
          · simp [hp, tailOKs]
          · simp only [hp, if_false, hne, false_and]
            exact Or.inr ⟨s, rfl, seg_nameOKs hw s (by simp) hne hp⟩
        · exact ih hwr c h

theorem compsT_structure (isSep : UInt8 → Bool) (b : Bytes) :
    compsT false true (toks isSep b) = [] ∨ ∃ c rest, compsT false true (toks isSep b) = c :: rest ∧
      (c = .root ∨ c = .cur ∨ tailOKs isSep c) ∧ ∀ x ∈ rest, tailOKs isSep x := by
  have hw := WFToks_toks isSep b
  cases hts : toks isSep b with
  | nil => left; rfl
  | cons t r =>
    right
    rw [hts] at hw
    rw [compsT_true_cons]
    refine ⟨headComp t, body false r, rfl, ?_, body_tailOKs (WFToks_tail hw)⟩
    cases t with
    | sep x => left; rfl
    | seg s =>
      simp only [headComp, segComp]
      by_cases hp : s = PAR
      · simp [hp, tailOKs]
      · by_cases hc : s = CUR
        · subst hc; right; left; simp [CUR, PAR]
        · simp only [hp, if_false, hc, false_and]
          exact Or.inr (Or.inr (Or.inr ⟨s, rfl, seg_nameOKs hw s (by simp) hc hp⟩))

/-- a name without either Windows separator is a good single Unix name -/
theorem nameOK_of_win {s : Bytes} (h : nameOKs (wsep true) s) : C11.nameOK s := by
  obtain ⟨h1, h2, h3, h4⟩ := h
  refine ⟨h1, ?_, h3, h4⟩
  intro y hy
  have := h2 y hy
  simp only [wsep, Bool.true_and, Bool.or_eq_false_iff, decide_eq_false_iff_not] at this
  simp [usep, this.2]

/-! ### rendering a component list by pushes onto a Unix buffer -/

theorem comps_par : comps .unix PAR = [.parent] := by rw [unix_comps_eq]; decide
theorem comps_cur : comps .unix CUR = [.cur] := by rw [unix_comps_eq]; decide
theorem comps_root : comps .unix [SLASH] = [.root] := by rw [unix_comps_eq]; decide

theorem tail_piece {c : Comp} (h : tailOKs (wsep true) c) :
    c.bytes .unix ≠ [] ∧ isAbsolute .unix (c.bytes .unix) = false ∧ comps .unix (c.bytes .unix) = [c] ∧
      c.isRoot = false ∧ c.isCur = false := by
  rcases h with h | ⟨s, h, hok⟩
  · subst h
    refine ⟨by simp [Comp.bytes, PAR], by decide, comps_par, rfl, rfl⟩
  · subst h
    have hok' := nameOK_of_win hok
    exact ⟨hok'.1, C11.name_not_absolute s hok', C11.comps_name s hok', rfl, rfl⟩

theorem convFold_tail : ∀ (rest : List Comp) (buf : Bytes), buf ≠ [] → (∀ x ∈ rest, tailOKs (wsep true) x) →
    comps .unix (convFold .unix buf rest) = comps .unix buf ++ rest := by
  intro rest
  induction rest with
  | nil => intro buf _ _; simp [convFold]
  | cons c rest ih =>
    intro buf hb hall
    obtain ⟨h1, h2, h3, h4, h5⟩ := tail_piece (hall c (by simp))
    have hpush : comps .unix (push .unix buf (c.bytes .unix)) = comps .unix buf ++ [c] := by
      rw [show push .unix buf (c.bytes .unix) = unixPush buf (c.bytes .unix) from rfl,
        unix_push_comps buf _ h1 h2 hb, h3]
      rcases hall c (by simp) with h | ⟨s, h, _⟩ <;> (subst h; rfl)
    have hne : push .unix buf (c.bytes .unix) ≠ [] := by
      intro h0
      rw [h0, C10.comps_nil] at hpush
      have := congrArg List.length hpush
      simp at this
    have hstep : convFold .unix buf (c :: rest) = convFold .unix (push .unix buf (c.bytes .unix)) rest := by
      rcases hall c (by simp) with h | ⟨s, h, _⟩
      · subst h; simp [convFold, Comp.isRoot, Comp.isCur, Comp.isParent, Comp.bytes]
      · subst h; simp [convFold, Comp.isRoot, Comp.isCur, Comp.isParent, Comp.isNormal, Comp.bytes]
    rw [hstep, ih _ hne (fun x hx => hall x (by simp [hx])), hpush]
    simp

/-- Converting a prefix-free (and hence non-verbatim) Windows path to Unix preserves the
sequence of component kinds and names exactly. -/
theorem conv_w2u_prefix_free (b : Bytes) (h : pfxStart b = false) :
    comps .unix (withEncoding .windows .unix b) = comps .windows b := by
  have hne : Enc.windows ≠ Enc.unix := by decide
  simp only [withEncoding, hne, if_false]
  rw [win_comps_pf b h]
  rcases compsT_structure (wsep true) b with h0 | ⟨c, rest, h0, hc, hrest⟩
  · rw [h0]; simp [convFold, C10.comps_nil]
  · rw [h0]
    have hfirst : ∀ (piece : Bytes), piece ≠ [] → push .unix [] piece = piece := by
      intro piece hp
      simp only [push, unixPush, hp, if_false]
      split <;> simp
    rcases hc with hc | hc | hc
    · subst hc
      have : convFold .unix [] (.root :: rest) = convFold .unix [SLASH] rest := by
        simp only [convFold, Comp.isRoot, if_true, Enc.sepByte]
        rw [hfirst [SLASH] (by simp)]
      rw [this, convFold_tail rest [SLASH] (by simp) hrest, comps_root]
      rfl
    · subst hc
      have : convFold .unix [] (.cur :: rest) = convFold .unix CUR rest := by
        simp only [convFold, Comp.isRoot, Comp.isCur, Bool.false_eq_true, if_false, if_true]
        rw [hfirst CUR (by simp [CUR])]
      rw [this, convFold_tail rest CUR (by simp [CUR]) hrest, comps_cur]
      rfl
    · obtain ⟨h1, _, h3, _, _⟩ := tail_piece hc
      have : convFold .unix [] (c :: rest) = convFold .unix (c.bytes .unix) rest := by
        rcases hc with h' | ⟨s, h', _⟩
        · subst h'
          simp only [convFold, Comp.isRoot, Comp.isCur, Comp.isParent, Bool.false_eq_true, if_false, if_true]
          rw [hfirst PAR (by simp [PAR])]; rfl
        · subst h'
          simp only [convFold, Comp.isRoot, Comp.isCur, Comp.isParent, Comp.isNormal, Bool.false_eq_true, if_false,
            if_true]
          rw [hfirst _ h1]
      rw [this, convFold_tail rest _ h1 hrest, h3]
      rfl

/-! ### known finding K4 -/

/-- K4 witness: the Unix path `a\b` (one name) converts, *checked*, to the Windows path `a\b`,
which has two components. -/
theorem conv_checked_K4_witness :
    withEncodingChecked .unix .windows [97, 92, 98] = .ok [97, 92, 98] ∧
    comps .unix [97, 92, 98] = [.normal [97, 92, 98]] ∧
    comps .windows [97, 92, 98] = [.normal [97], .normal [98]] := by
  refine ⟨?_, ?_, ?_⟩
  · have hne : Enc.unix ≠ Enc.windows := by decide
    simp only [withEncodingChecked, hne, if_false]
    rw [C03.comps_new_closed]
    simp only [Enc.new, List.nil_append]
    have : compsT false true (toks usep [97, 92, 98]) = [.normal [97, 92, 98]] := by decide
    rw [this]
    simp only [convFoldChecked, Comp.isRoot, Comp.isCur, Comp.isParent, Comp.isNormal, Bool.false_eq_true,
      if_false, if_true, Comp.bytes]
    unfold pushChecked
    rw [C03.comps_new_closed]
    decide
  · rw [C03.comps_new_closed]; decide
  · rw [C03.comps_new_closed]; decide

/-! ### Non-vacuity -/

example : pfxStart [97, 92, 98, 47, 99] = false := by decide
example : withEncoding .windows .unix [97, 92, 98, 47, 46, 46] = [97, 47, 98, 47, 46, 46] := by
  have hne : Enc.windows ≠ Enc.unix := by decide
  simp only [withEncoding, hne, if_false]
  rw [C03.comps_new_closed]; decide

end TP.C16
