/-
Props/SurfaceTyped.lean — the trait-impl surface of the `typed` group of source files, as the checks of C15 were
written against it.  `Generated.implMethods_typed` is regenerated on every run (gen/api.py): every
trait impl outside test modules with the methods written inside it — required ones and overridden
provided ones alike.  An added override (`nth`, `size_hint`, `clone_into`, `fold`, …), a new impl
or a removed one changes the regenerated table and breaks `impl_methods_typed`, so C15 is reported as
no longer shown for "every operation".  (70 impls.)
-/
import TypedPathVerif.Generated.Api

namespace TP.SurfaceTyped

def covered : List String :=
  ["typed/non_utf8/components | AsRef<[u8]> for TypedComponents<> | as_ref",
   "typed/non_utf8/components | fmt::Debug for TypedComponents<> | fmt",
   "typed/non_utf8/components | fmt::Debug for DebugHelper<> | fmt",
   "typed/non_utf8/components | Iterator for TypedComponents<> | next",
   "typed/non_utf8/components | DoubleEndedIterator for TypedComponents<> | next_back",
   "typed/non_utf8/components | cmp::PartialEq for TypedComponents<> | eq",
   "typed/non_utf8/components | cmp::PartialOrd for TypedComponents<> | partial_cmp",
   "typed/non_utf8/components/component | AsRef<[u8]> for TypedComponent<> | as_ref",
   "typed/non_utf8/iter | fmt::Debug for TypedIter<> | fmt",
   "typed/non_utf8/iter | fmt::Debug for DebugHelper<> | fmt",
   "typed/non_utf8/iter | AsRef<[u8]> for TypedIter<> | as_ref",
   "typed/non_utf8/iter | Iterator for TypedIter<> | next",
   "typed/non_utf8/iter | DoubleEndedIterator for TypedIter<> | next_back",
   "typed/non_utf8/iter | Iterator for TypedAncestors<> | next",
   "typed/non_utf8/path | fmt::Display for Display<> | fmt",
   "typed/non_utf8/path | From<&[u8]> for TypedPath<> | from",
   "typed/non_utf8/path | From<&str> for TypedPath<> | from",
   "typed/non_utf8/path | AsRef<[u8]> for TypedPath<> | as_ref",
   "typed/non_utf8/path | TryAsRef<UnixPath> for TypedPath<> | try_as_ref",
   "typed/non_utf8/path | TryAsRef<WindowsPath> for TypedPath<> | try_as_ref",
   "typed/non_utf8/path | PartialEq<TypedPathBuf> for TypedPath<> | eq",
   "typed/non_utf8/pathbuf | AsRef<[u8]> for TypedPathBuf | as_ref",
   "typed/non_utf8/pathbuf | From<&[u8]> for TypedPathBuf | from",
   "typed/non_utf8/pathbuf | From<Vec<u8>> for TypedPathBuf | from",
   "typed/non_utf8/pathbuf | From<&str> for TypedPathBuf | from",
   "typed/non_utf8/pathbuf | From<String> for TypedPathBuf | from",
   "typed/non_utf8/pathbuf | TryFrom<TypedPathBuf> for UnixPathBuf | try_from",
   "typed/non_utf8/pathbuf | TryFrom<TypedPathBuf> for WindowsPathBuf | try_from",
   "typed/non_utf8/pathbuf | TryFrom<TypedPathBuf> for PathBuf | try_from",
   "typed/non_utf8/pathbuf | PartialEq<TypedPath<>> for TypedPathBuf | eq",
   "typed/utf8/components | AsRef<[u8]> for Utf8TypedComponents<> | as_ref",
   "typed/utf8/components | AsRef<str> for Utf8TypedComponents<> | as_ref",
   "typed/utf8/components | fmt::Debug for Utf8TypedComponents<> | fmt",
   "typed/utf8/components | fmt::Debug for DebugHelper<> | fmt",
   "typed/utf8/components | Iterator for Utf8TypedComponents<> | next",
   "typed/utf8/components | DoubleEndedIterator for Utf8TypedComponents<> | next_back",
   "typed/utf8/components | cmp::PartialEq for Utf8TypedComponents<> | eq",
   "typed/utf8/components | cmp::PartialOrd for Utf8TypedComponents<> | partial_cmp",
   "typed/utf8/components/component | fmt::Display for Utf8TypedComponent<> | fmt",
   "typed/utf8/components/component | AsRef<[u8]> for Utf8TypedComponent<> | as_ref",
   "typed/utf8/components/component | AsRef<str> for Utf8TypedComponent<> | as_ref",
   "typed/utf8/iter | fmt::Debug for Utf8TypedIter<> | fmt",
   "typed/utf8/iter | fmt::Debug for DebugHelper<> | fmt",
   "typed/utf8/iter | AsRef<[u8]> for Utf8TypedIter<> | as_ref",
   "typed/utf8/iter | AsRef<str> for Utf8TypedIter<> | as_ref",
   "typed/utf8/iter | Iterator for Utf8TypedIter<> | next",
   "typed/utf8/iter | DoubleEndedIterator for Utf8TypedIter<> | next_back",
   "typed/utf8/iter | Iterator for Utf8TypedAncestors<> | next",
   "typed/utf8/path | fmt::Display for Utf8TypedPath<> | fmt",
   "typed/utf8/path | From<&str> for Utf8TypedPath<> | from",
   "typed/utf8/path | AsRef<str> for Utf8TypedPath<> | as_ref",
   "typed/utf8/path | TryAsRef<Utf8UnixPath> for Utf8TypedPath<> | try_as_ref",
   "typed/utf8/path | TryAsRef<Utf8WindowsPath> for Utf8TypedPath<> | try_as_ref",
   "typed/utf8/path | PartialEq<Utf8TypedPathBuf> for Utf8TypedPath<> | eq",
   "typed/utf8/path | PartialEq<str> for Utf8TypedPath<> | eq",
   "typed/utf8/path | PartialEq<Utf8TypedPath<>> for str | eq",
   "typed/utf8/path | PartialEq<&str> for Utf8TypedPath<> | eq",
   "typed/utf8/path | PartialEq<Utf8TypedPath<>> for &str | eq",
   "typed/utf8/pathbuf | fmt::Display for Utf8TypedPathBuf | fmt",
   "typed/utf8/pathbuf | AsRef<[u8]> for Utf8TypedPathBuf | as_ref",
   "typed/utf8/pathbuf | AsRef<str> for Utf8TypedPathBuf | as_ref",
   "typed/utf8/pathbuf | From<&str> for Utf8TypedPathBuf | from",
   "typed/utf8/pathbuf | From<String> for Utf8TypedPathBuf | from",
   "typed/utf8/pathbuf | TryFrom<Utf8TypedPathBuf> for Utf8UnixPathBuf | try_from",
   "typed/utf8/pathbuf | TryFrom<Utf8TypedPathBuf> for Utf8WindowsPathBuf | try_from",
   "typed/utf8/pathbuf | PartialEq<Utf8TypedPath<>> for Utf8TypedPathBuf | eq",
   "typed/utf8/pathbuf | PartialEq<str> for Utf8TypedPathBuf | eq",
   "typed/utf8/pathbuf | PartialEq<Utf8TypedPathBuf> for str | eq",
   "typed/utf8/pathbuf | PartialEq<&str> for Utf8TypedPathBuf | eq",
   "typed/utf8/pathbuf | PartialEq<Utf8TypedPathBuf> for &str | eq"]

theorem impl_methods_typed : Generated.implMethods_typed = covered := rfl

end TP.SurfaceTyped
