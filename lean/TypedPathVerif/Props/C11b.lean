/-
Props/C11b.lean — C11 continued: `normalize` on WINDOWS paths.

For every Windows path that does not start like a prefix, or has a complete non-verbatim prefix
(disk, device namespace, UNC with share), and whose names contain no `:` (a byte Windows forbids in
file names; a name such as `C:` pushed back onto the buffer would be read as a drive):

* `win_normalize_comps`: the components of `normalize(p)` are the lexical fold of `p`'s
  components — `.` dropped, each `..` cancelling the nearest preceding name and vanishing
  otherwise, prefix and root kept;
* `win_normalize_no_dots`, `win_normalize_keeps_head`, `win_normalize_idempotent`.

Paths with a verbatim prefix are rebuilt by `push` from components on every step; they stay with
the oracle (`Normalize.fold` in the harness).
-/
import TypedPathVerif.Props.C12c
import TypedPathVerif.Props.C11

namespace TP.C11b

open TP TP.JoinRules

/-! ### the fold on a stack `pre ++ names` -/

/-- the fold restricted to the names above a fixed base -/
def nameFold : List Bytes → List Comp → List Bytes
  | ns, [] => ns
  | ns, .normal s :: cs => nameFold (ns ++ [s]) cs
  | ns, .parent :: cs => nameFold ns.dropLast cs
  | ns, _ :: cs => nameFold ns cs

/-- components that may follow the leading prefix / root: `.`, `..`, names -/
def bodyOK (c : Comp) : Prop := c = .cur ∨ c = .parent ∨ ∃ s, c = .normal s

theorem normFold_pre (pre : List Comp) (hpre : ∀ c, pre.getLast? = some c → c.isNormal = false) :
    ∀ (cs : List Comp) (ns : List Bytes), (∀ c ∈ cs, bodyOK c) →
      normFold (pre ++ ns.map Comp.normal) cs = pre ++ (nameFold ns cs).map Comp.normal := by
  intro cs
  induction cs with
  | nil => intro ns _; rfl
  | cons c cs ih =>
    intro ns hcs
    have hc := hcs c (by simp)
    have hrest : ∀ x ∈ cs, bodyOK x := fun x hx => hcs x (by simp [hx])
    rcases hc with hc | hc | ⟨s, hc⟩
    · subst hc
      simp only [normFold, Comp.isCur, Bool.not_true, Bool.false_and, Bool.false_eq_true, if_false, Comp.isParent]
      exact ih ns hrest
    · subst hc
      simp only [normFold, Comp.isCur, Comp.isParent, Bool.not_false, Bool.not_true, Bool.and_false,
        Bool.false_eq_true, if_false, if_true, nameFold]
      cases hns : ns.getLast? with
      | none =>
        have : ns = [] := List.getLast?_eq_none_iff.mp hns
        subst this
        simp only [List.map_nil, List.append_nil, List.dropLast_nil]
        cases hl : pre.getLast? with
        | none => simpa using ih [] hrest
        | some l =>
          have := hpre l hl
          simp only [this, Bool.false_eq_true, if_false]
          simpa using ih [] hrest
      | some s =>
        have hne : ns ≠ [] := by intro h0; rw [h0] at hns; cases hns
        have hlast : (pre ++ ns.map Comp.normal).getLast? = some (.normal s) := by
          rw [Win.getLast?_append_ne _ _ (by simpa using hne), List.getLast?_map, hns]; rfl
        simp only [hlast, Comp.isNormal, if_true]
        have hdl : (pre ++ ns.map Comp.normal).dropLast = pre ++ ns.dropLast.map Comp.normal := by
          rw [List.dropLast_append_of_ne_nil (by simpa using hne), List.map_dropLast]
        rw [hdl]
        exact ih ns.dropLast hrest
    · subst hc
      simp only [normFold, Comp.isCur, Comp.isParent, Bool.not_false, Bool.and_self, if_true, nameFold]
      have : pre ++ ns.map Comp.normal ++ [Comp.normal s] = pre ++ (ns ++ [s]).map Comp.normal := by simp
      rw [this]
      exact ih (ns ++ [s]) hrest

theorem nameFold_subset : ∀ (cs : List Comp) (ns : List Bytes) (s : Bytes), s ∈ nameFold ns cs →
    s ∈ ns ∨ Comp.normal s ∈ cs := by
  intro cs
  induction cs with
  | nil => intro ns s h; exact Or.inl h
  | cons c cs ih =>
    intro ns s h
    cases c with
    | normal t =>
      simp only [nameFold] at h
      rcases ih _ s h with h | h
      · rcases List.mem_append.mp h with h | h
        · exact Or.inl h
        · simp only [List.mem_singleton] at h; subst h; exact Or.inr (by simp)
      · exact Or.inr (by simp [h])
    | parent =>
      simp only [nameFold] at h
      rcases ih _ s h with h | h
      · exact Or.inl ((List.dropLast_sublist ns).subset h)
      · exact Or.inr (by simp [h])
    | cur => simp only [nameFold] at h; rcases ih _ s h with h | h; exact Or.inl h; exact Or.inr (by simp [h])
    | root => simp only [nameFold] at h; rcases ih _ s h with h | h; exact Or.inl h; exact Or.inr (by simp [h])
    | pfx p => simp only [nameFold] at h; rcases ih _ s h with h | h; exact Or.inl h; exact Or.inr (by simp [h])

/-! ### rendering `pre ++ names` by successive pushes -/

theorem shown_long (l : List Comp) (h : 2 ≤ l.length) : C12c.shown l = l := by
  match l, h with
  | a :: b :: t, _ =>
    unfold C12c.shown
    split
    · rename_i heq; simp at heq
    · rfl

/-- pushing portable names one after the other appends them as components -/
theorem pushAll_names : ∀ (ns : List Bytes), (∀ s ∈ ns, C16b.portable s) →
    ∀ buf, C12c.Base buf → C12c.shown (comps .windows buf) = comps .windows buf →
      comps .windows (pushAll .windows buf (ns.map Comp.normal)) = comps .windows buf ++ ns.map Comp.normal := by
  intro ns
  induction ns with
  | nil => intro _ buf _ _; simp [pushAll]
  | cons s ns ih =>
    intro hok buf hb hsh
    obtain ⟨hb', hc⟩ := C12c.push_name buf s hb (hok s (by simp))
    rw [hsh] at hc
    simp only [List.map_cons, pushAll, Comp.bytes]
    have hsh' : C12c.shown (comps .windows (push .windows buf s)) = comps .windows (push .windows buf s) := by
      by_cases hlen : 2 ≤ (comps .windows (push .windows buf s)).length
      · exact shown_long _ hlen
      · -- a single component: it is the name itself, not a prefix
        rw [hc] at hlen ⊢
        have hnil : comps .windows buf = [] := by
          cases hcb : comps .windows buf with
          | nil => rfl
          | cons a t => rw [hcb] at hlen; simp at hlen
        rw [hnil]; rfl
    rw [ih (fun x hx => hok x (by simp [hx])) _ hb' hsh', hc]
    simp

/-- the leading part of a covered path's components -/
inductive Pre : List Comp → Prop
  | none : Pre []
  | root : Pre [.root]
  | pfx (p : PrefixComp) : Pre [.pfx p]
  | pfxRoot (p : PrefixComp) : Pre [.pfx p, .root]

theorem Pre.last_not_normal {pre : List Comp} (h : Pre pre) : ∀ c, pre.getLast? = some c → c.isNormal = false := by
  intro c hc
  cases h with
  | none => simp at hc
  | root => simp at hc; subst hc; rfl
  | pfx p => simp at hc; subst hc; rfl
  | pfxRoot p => simp at hc; subst hc; rfl

theorem comps_nil_win : comps .windows [] = [] := by rw [C03.comps_new_closed]; decide

/-- rendering a lone root -/
theorem push_root_empty : push .windows [] [BSLASH] = [BSLASH] ∧ C12c.Base [BSLASH] ∧
    comps .windows [BSLASH] = [.root] := by
  refine ⟨C16b.win_push_empty_base [BSLASH] (by simp) (by decide), Or.inl (by decide), ?_⟩
  rw [C03.comps_new_closed]; decide

/-- rendering a complete non-verbatim prefix, then (optionally) its root -/
theorem push_prefix {b rest : Bytes} {p : PrefixComp} (hp : parsePrefixComp b = some (p, rest))
    (hc : Win.Complete p.kind) (hnv : isVerbatimKind p.kind = false) :
    push .windows [] p.raw = p.raw ∧ C12c.Base p.raw ∧ comps .windows p.raw = [.pfx p] ∧
    push .windows p.raw [BSLASH] = p.raw ++ [BSLASH] ∧ C12c.Base (p.raw ++ [BSLASH]) ∧
    comps .windows (p.raw ++ [BSLASH]) = [.pfx p, .root] := by
  have hs := Win.stable_of_complete hp hc
  have hn := Win.normOf_nonverbatim hp hc hnv
  have hok0 : Win.RestOK p [] := by unfold Win.RestOK; cases p.kind <;> trivial
  have hok1 : Win.RestOK p [BSLASH] := by
    unfold Win.RestOK
    cases p.kind <;> first | trivial | (simp only [hn]; exact (by decide : wsep true BSLASH = true))
  have hp0 : parsePrefixComp p.raw = some (p, []) := by simpa using (hs [] hok0).1
  have hp1 : parsePrefixComp (p.raw ++ [BSLASH]) = some (p, [BSLASH]) := (hs _ hok1).1
  have hpo0 : prefixOf p.raw = some p := Win.prefixOf_of_comp hp0
  have hrne : p.raw ≠ [] := by
    intro h0
    have : parsePrefixComp ([] : Bytes) = none := by decide
    rw [h0, this] at hp0; cases hp0
  have e1 : push .windows [] p.raw = p.raw := by
    have hrule : rule [] p.raw = .replace := by
      unfold rule; simp [hrne, hpo0]
    rw [show push .windows [] p.raw = windowsPush [] p.raw from rfl, C08.win_push_bytes _ _ (by rw [hrule]; decide)]
    unfold joinBytes; rw [hrule]
  have c0 : comps .windows p.raw = [.pfx p] := by
    have := Win.comps_of_stable hs [] hok0
    simpa [toks, compsT] using this
  have e2 : push .windows p.raw [BSLASH] = p.raw ++ [BSLASH] := by
    have hrule : rule p.raw [BSLASH] = .rooted := by
      unfold rule baseIsVerbatim
      simp [C16b.prefixOf_none_of_pf [BSLASH] (by decide), hpo0, hnv, startsWithSep]
      decide
    rw [show push .windows p.raw [BSLASH] = windowsPush p.raw [BSLASH] from rfl,
      C08.win_push_bytes _ _ (by rw [hrule]; decide)]
    unfold joinBytes; rw [hrule]
    simp [rawPrefix, hpo0]
  have c1 : comps .windows (p.raw ++ [BSLASH]) = [.pfx p, .root] := by
    rw [Win.comps_of_stable hs [BSLASH] hok1, hn]
    have : toks (wsep true) [BSLASH] = [.sep BSLASH] := by decide
    rw [this]
    rfl
  exact ⟨e1, Or.inr ⟨p, [], hp0, hc, hnv⟩, c0, e2, Or.inr ⟨p, [BSLASH], hp1, hc, hnv⟩, c1⟩

/-! ### structure of a covered path's components -/

theorem body_bodyOK (ts : List Tok) : ∀ c ∈ body false ts, bodyOK c := by
  induction ts with
  | nil => intro c h; simp [body] at h
  | cons t r ih =>
    intro c h
    cases t with
    | sep x => rw [body_cons_junk r (by rfl)] at h; exact ih c h
    | seg s =>
      by_cases hj : junk false (.seg s) = true
      · rw [body_cons_junk r hj] at h; exact ih c h
      · have hj' : junk false (.seg s) = false := by simpa using hj
        rw [body_cons_seg r hj'] at h
        rcases List.mem_cons.mp h with h | h
        · subst h
          unfold segComp
          split
          · exact Or.inr (Or.inl rfl)
          · split
            · exact Or.inl rfl
            · exact Or.inr (Or.inr ⟨s, rfl⟩)
        · exact ih c h

/-- tokens at the beginning: a leading root, or body components -/
theorem compsT_structure (ts : List Tok) :
    ∃ pre tail, compsT false true ts = pre ++ tail ∧ (pre = [] ∨ pre = [.root]) ∧ ∀ c ∈ tail, bodyOK c := by
  cases ts with
  | nil => exact ⟨[], [], rfl, Or.inl rfl, by simp⟩
  | cons t r =>
    rw [compsT_true_cons]
    cases t with
    | sep x => exact ⟨[.root], body false r, rfl, Or.inr rfl, body_bodyOK r⟩
    | seg s =>
      refine ⟨[], headComp (.seg s) :: body false r, rfl, Or.inl rfl, ?_⟩
      intro c hc
      rcases List.mem_cons.mp hc with hc | hc
      · subst hc
        simp only [headComp]
        unfold segComp
        split
        · exact Or.inr (Or.inl rfl)
        · split
          · exact Or.inl rfl
          · exact Or.inr (Or.inr ⟨s, rfl⟩)
      · exact body_bodyOK r c hc

/-- **Windows `normalize` = the lexical fold**, for covered paths with colon-free names. -/
theorem win_normalize_comps (b : Bytes) (hb : C12c.Base b)
    (hnames : ∀ s, Comp.normal s ∈ comps .windows b → ∀ y ∈ s, y ≠ COLON) :
    comps .windows (normalize .windows b) = normFold [] (comps .windows b) := by
  -- names of the path are portable
  have portable_of : ∀ (ts : List Tok), WFToks (wsep true) ts →
      ∀ s, Comp.normal s ∈ compsT false true ts → (∀ y ∈ s, y ≠ COLON) → C16b.portable s := by
    intro ts hw s hs hcol
    -- a normal component is a segment token that is neither `.` nor `..`
    have hseg : Tok.seg s ∈ ts ∧ s ≠ CUR ∧ s ≠ PAR := by
      cases ts with
      | nil => simp [compsT] at hs
      | cons t r =>
        rw [compsT_true_cons] at hs
        have key : ∀ (c : Bool) (s' : Bytes), segComp c s' = .normal s → s' = s ∧ s ≠ PAR ∧ (c = true → s ≠ CUR) := by
          intro c s' h
          unfold segComp at h
          split at h
          · cases h
          · rename_i hp
            split at h
            · cases h
            · rename_i hcc
              simp only [Comp.normal.injEq] at h
              subst h
              exact ⟨rfl, hp, fun hc hs' => hcc ⟨hs', hc⟩⟩
        rcases List.mem_cons.mp hs with hs | hs
        · cases t with
          | sep x => simp [headComp] at hs
          | seg s' =>
            simp only [headComp] at hs
            obtain ⟨e, h1, h2⟩ := key true s' hs.symm
            subst e
            exact ⟨by simp, h2 rfl, h1⟩
        · -- in the body
          have : ∀ (r : List Tok), Comp.normal s ∈ body false r → Tok.seg s ∈ r ∧ s ≠ CUR ∧ s ≠ PAR := by
            intro r
            induction r with
            | nil => intro h; simp [body] at h
            | cons t' r' ih =>
              intro h
              cases t' with
              | sep x => rw [body_cons_junk r' (by rfl)] at h; have := ih h; exact ⟨by simp [this.1], this.2⟩
              | seg s' =>
                by_cases hj : junk false (.seg s') = true
                · rw [body_cons_junk r' hj] at h; have := ih h; exact ⟨by simp [this.1], this.2⟩
                · have hj' : junk false (.seg s') = false := by simpa using hj
                  rw [body_cons_seg r' hj'] at h
                  rcases List.mem_cons.mp h with h | h
                  · obtain ⟨e, h1, _⟩ := key false s' h.symm
                    subst e
                    exact ⟨by simp, by simpa [junk] using hj', h1⟩
                  · have := ih h; exact ⟨by simp [this.1], this.2⟩
          have := this r hs
          exact ⟨by simp [this.1], this.2⟩
    obtain ⟨hmem, h3, h4⟩ := hseg
    have hm := Comb.WF_mem_seg hw s hmem
    exact ⟨hm.1, h3, h4, fun y hy => ⟨hm.2 y hy, hcol y hy⟩⟩
  -- decompose the components: leading part, then body
  have main : ∀ (pre tail : List Comp) (buf : Bytes), Pre pre → comps .windows b = pre ++ tail →
      (∀ c ∈ tail, bodyOK c) → (∀ s, Comp.normal s ∈ tail → C16b.portable s) →
      -- `buf` renders `pre`
      pushAll .windows [] pre = buf → (pre ≠ [] → C12c.Base buf ∧ comps .windows buf = pre) → (pre = [] → buf = []) →
      -- a lone non-disk prefix is followed by nothing
      ((∃ p, pre = [.pfx p] ∧ ∀ d, p.kind ≠ .disk d) → tail = []) →
      comps .windows (normalize .windows b) = normFold [] (comps .windows b) := by
    intro pre tail buf hpre hcb htail hport hbuf hbase hnil hlone
    have hfold : normFold [] (comps .windows b) = pre ++ (nameFold [] tail).map Comp.normal := by
      rw [hcb]
      have h1 : normFold [] (pre ++ tail) = normFold pre tail := by
        cases hpre <;> simp [normFold, Comp.isCur, Comp.isParent]
      rw [h1]
      have := normFold_pre pre hpre.last_not_normal tail [] htail
      simpa using this
    have hns : ∀ s ∈ nameFold [] tail, C16b.portable s := by
      intro s hs
      rcases nameFold_subset tail [] s hs with h | h
      · simp at h
      · exact hport s h
    unfold normalize
    rw [hfold]
    have hpa : ∀ (l1 l2 : List Comp) (bf : Bytes), pushAll .windows bf (l1 ++ l2) = pushAll .windows (pushAll .windows bf l1) l2 := by
      intro l1
      induction l1 with
      | nil => intro l2 bf; rfl
      | cons c l1 ih => intro l2 bf; simp only [List.cons_append, pushAll]; exact ih l2 _
    rw [hpa, hbuf]
    by_cases hpe : pre = []
    · subst hpe
      have hb0 := hnil rfl
      subst hb0
      simp only [List.nil_append]
      cases hnf : nameFold [] tail with
      | nil => simpa [pushAll] using comps_nil_win
      | cons s ns =>
        rw [hnf] at hns
        have hs := hns s (by simp)
        obtain ⟨hspf, _⟩ := C16b.portable_pf hs
        simp only [List.map_cons, pushAll, Comp.bytes]
        rw [C16b.win_push_empty_base s hs.1 hspf]
        have hcs := C12c.comps_portable hs
        rw [pushAll_names ns (fun x hx => hns x (by simp [hx])) s (Or.inl hspf) (by rw [hcs]; rfl), hcs]
        rfl
    · obtain ⟨hbb, hcbuf⟩ := hbase hpe
      have hsh : C12c.shown (comps .windows buf) = comps .windows buf ∨ nameFold [] tail = [] := by
        rw [hcbuf]
        cases hpre with
        | none => exact absurd rfl hpe
        | root => left; rfl
        | pfxRoot p => left; rfl
        | pfx p =>
          by_cases hd : ∃ d, p.kind = .disk d
          · left
            obtain ⟨d, hd⟩ := hd
            simp [C12c.shown, hd]
          · right
            have : tail = [] := hlone ⟨p, rfl, fun d h => hd ⟨d, h⟩⟩
            rw [this]; rfl
      rcases hsh with hsh | hsh
      · rw [pushAll_names _ hns buf hbb hsh, hcbuf]
      · rw [hsh]; simpa [pushAll] using hcbuf
  rcases hb with hpf | ⟨p, rest, hp, hc, hnv⟩
  · -- no prefix
    have hcb := C16.win_comps_pf b hpf
    obtain ⟨pre, tail, hsplit, hpre, htail⟩ := compsT_structure (toks (wsep true) b)
    have hport : ∀ s, Comp.normal s ∈ tail → C16b.portable s := by
      intro s hs
      have hin : Comp.normal s ∈ compsT false true (toks (wsep true) b) := by rw [hsplit]; simp [hs]
      exact portable_of _ (WFToks_toks _ b) s hin (hnames s (by rw [hcb]; exact hin))
    rcases hpre with hpre | hpre
    · subst hpre
      exact main [] tail [] .none (by rw [hcb, hsplit]) htail hport rfl (fun h => absurd rfl h) (fun _ => rfl)
        (fun ⟨p, h, _⟩ => by cases h)
    · subst hpre
      obtain ⟨e1, hb1, c1⟩ := push_root_empty
      exact main [.root] tail [BSLASH] .root (by rw [hcb, hsplit]) htail hport
        (by simp only [pushAll, Comp.bytes, Enc.sepByte]; exact e1) (fun _ => ⟨hb1, c1⟩) (fun h => by cases h)
        (fun ⟨p, h, _⟩ => by cases h)
  · -- complete non-verbatim prefix
    have hs := Win.stable_of_complete hp hc
    have hn := Win.normOf_nonverbatim hp hc hnv
    have hok := Win.restOK_of_complete hp hc
    have hcb : comps .windows b = .pfx p :: compsT false true (toks (wsep true) rest) := by
      rw [← parsePrefixComp_raw hp, Win.comps_of_stable hs rest hok, hn]; rfl
    obtain ⟨pre, tail, hsplit, hpre, htail⟩ := compsT_structure (toks (wsep true) rest)
    obtain ⟨e1, hb0, c0, e2, hb1, c1⟩ := push_prefix hp hc hnv
    have hport : ∀ s, Comp.normal s ∈ tail → C16b.portable s := by
      intro s hs'
      have hin : Comp.normal s ∈ compsT false true (toks (wsep true) rest) := by rw [hsplit]; simp [hs']
      exact portable_of _ (WFToks_toks _ rest) s hin (hnames s (by rw [hcb]; simp [hin]))
    rcases hpre with hpre | hpre
    · subst hpre
      refine main [.pfx p] tail p.raw (.pfx p) (by rw [hcb, hsplit]; rfl) htail hport
        (by simp only [pushAll, Comp.bytes]; exact e1) (fun _ => ⟨hb0, c0⟩) (fun h => by cases h) ?_
      -- a non-disk prefix is followed by nothing or by a separator, i.e. a root
      intro ⟨p', hp', hnd⟩
      have hpp : p = p' := by simpa using hp'
      rw [← hpp] at hnd
      have hrest : rest = [] := by
        cases hr : rest with
        | nil => rfl
        | cons x r =>
          exfalso
          have hx : wsep true x = true := by
            unfold Win.RestOK at hok
            rw [hr] at hok
            cases hk : p.kind with
            | disk d => exact absurd hk (hnd d)
            | verbatimDisk d => rw [hk] at hnv; cases hnv
            | verbatim n => rw [hk] at hnv; cases hnv
            | verbatimUNC a c => rw [hk] at hnv; cases hnv
            | deviceNS dev => rw [hk, hn] at hok; exact hok
            | unc sv sh => rw [hk, hn] at hok; exact hok
          rw [hr] at hsplit
          simp only [toks, hx, if_true, compsT_true_cons, headComp, List.nil_append] at hsplit
          have : Comp.root ∈ tail := by rw [← hsplit]; simp
          rcases htail _ this with h | h | ⟨s, h⟩ <;> cases h
      subst hrest
      simp only [toks, compsT, List.nil_append] at hsplit
      exact hsplit.symm
    · subst hpre
      exact main [.pfx p, .root] tail (p.raw ++ [BSLASH]) (.pfxRoot p) (by rw [hcb, hsplit]; rfl) htail hport
        (by simp only [pushAll, Comp.bytes, Enc.sepByte]; rw [e1, e2]) (fun _ => ⟨hb1, c1⟩) (fun h => by cases h)
        (fun ⟨p', h, _⟩ => by simp at h)

/-! ### consequences -/

theorem normFold_no_dots : ∀ (cs stack : List Comp), (∀ c ∈ stack, c ≠ .cur ∧ c ≠ .parent) →
    ∀ c ∈ normFold stack cs, c ≠ .cur ∧ c ≠ .parent := by
  intro cs
  induction cs with
  | nil => intro stack h; exact h
  | cons x cs ih =>
    intro stack h
    simp only [normFold]
    split
    · rename_i hx
      apply ih
      intro c hc
      rcases List.mem_append.mp hc with hc | hc
      · exact h c hc
      · simp only [List.mem_singleton] at hc
        subst hc
        simp only [Bool.and_eq_true, Bool.not_eq_true'] at hx
        constructor
        · intro hE; rw [hE] at hx; simp [Comp.isCur] at hx
        · intro hE; rw [hE] at hx; simp [Comp.isParent] at hx
    · split
      · split
        · split
          · exact ih _ (fun c hc => h c ((List.dropLast_sublist stack).subset hc))
          · exact ih _ h
        · exact ih _ h
      · exact ih _ h

theorem normFold_id_of_no_dots : ∀ (cs stack : List Comp), (∀ c ∈ cs, c ≠ .cur ∧ c ≠ .parent) →
    normFold stack cs = stack ++ cs := by
  intro cs
  induction cs with
  | nil => intro stack _; simp [normFold]
  | cons x cs ih =>
    intro stack h
    obtain ⟨h1, h2⟩ := h x (by simp)
    have hx : (!x.isCur && !x.isParent) = true := by
      cases x <;> simp_all [Comp.isCur, Comp.isParent]
    simp only [normFold, hx, if_true]
    rw [ih _ (fun c hc => h c (by simp [hc]))]
    simp

/-- the normalised Windows path contains no `.` and no `..` -/
theorem win_normalize_no_dots (b : Bytes) (hb : C12c.Base b)
    (hnames : ∀ s, Comp.normal s ∈ comps .windows b → ∀ y ∈ s, y ≠ COLON) :
    ∀ c ∈ comps .windows (normalize .windows b), c ≠ .cur ∧ c ≠ .parent := by
  rw [win_normalize_comps b hb hnames]
  exact normFold_no_dots _ [] (by simp)

/-- normalising twice gives the same BYTES as normalising once -/
theorem win_normalize_idempotent (b : Bytes) (hb : C12c.Base b)
    (hnames : ∀ s, Comp.normal s ∈ comps .windows b → ∀ y ∈ s, y ≠ COLON) :
    normalize .windows (normalize .windows b) = normalize .windows b := by
  have h := win_normalize_comps b hb hnames
  have hnd := win_normalize_no_dots b hb hnames
  unfold normalize at h hnd ⊢
  rw [h] at hnd ⊢
  rw [normFold_id_of_no_dots _ [] hnd]
  rfl

/-- prefix and root are kept: the first component of a path that starts with a prefix or a root
is unchanged -/
theorem win_normalize_keeps_head (b : Bytes) (hb : C12c.Base b)
    (hnames : ∀ s, Comp.normal s ∈ comps .windows b → ∀ y ∈ s, y ≠ COLON) (c : Comp) (rest : List Comp)
    (hcb : comps .windows b = c :: rest) (hc : c = .root ∨ ∃ p, c = .pfx p) :
    (comps .windows (normalize .windows b)).head? = some c := by
  rw [win_normalize_comps b hb hnames, hcb]
  have hpush : normFold [] (c :: rest) = normFold [c] rest := by
    rcases hc with hc | ⟨p, hc⟩ <;> (subst hc; simp [normFold, Comp.isCur, Comp.isParent])
  rw [hpush]
  -- the bottom of the stack is never popped: it is not a normal component
  have key : ∀ (cs stack : List Comp), (normFold (c :: stack) cs).head? = some c := by
    intro cs
    induction cs with
    | nil => intro stack; rfl
    | cons x cs ih =>
      intro stack
      simp only [normFold]
      split
      · exact ih (stack ++ [x])
      · split
        · split
          · split
            · rename_i l hl hn
              cases stack with
              | nil =>
                simp only [List.getLast?_singleton, Option.some.injEq] at hl
                subst hl
                rcases hc with hc | ⟨p, hc⟩ <;> (subst hc; simp [Comp.isNormal] at hn)
              | cons y ys =>
                have : (c :: y :: ys).dropLast = c :: (y :: ys).dropLast := by simp
                rw [this]; exact ih _
            · exact ih stack
          · exact ih stack
        · exact ih stack
  exact key rest []

/-! ### non-vacuity -/

example : normalize .windows [67, 58, 92, 97, 92, 46, 46, 92, 46, 92, 98] = [67, 58, 92, 98] := by
  unfold normalize; rw [C03.comps_new_closed]; decide
example : normalize .windows [92, 92, 115, 92, 104, 92, 46, 46, 92, 120] = [92, 92, 115, 92, 104, 92, 120] := by
  unfold normalize; rw [C03.comps_new_closed]; decide

end TP.C11b
