/-
Props/C06.lean — Unix path queries return what std::path returns.

`StdSpec.comps` is the reference (compared with real std on every run).  parent: Props/C09
(`unix_parent_vs_std`); file name / stem / extension: here and Props/C12; starts_with,
ends_with, equality, ordering: here.  strip_prefix returns the right *components* but keeps the
path's trailing separators in the remainder — known finding K1, proved as a witness.
-/
import TypedPathVerif.Props.C05
import TypedPathVerif.Props.C12
import TypedPathVerif.Lemmas.Append

namespace TP.C06

open TP

/-- file_name is std's: the last of std's components when it is a normal name -/
theorem unix_file_name_vs_std (b s : Bytes) :
    fileName .unix b = some s ↔ (StdSpec.comps b).getLast? = some (.normal s) := by
  rw [← C01.unix_front_all]; exact C12.file_name_iff_last_normal .unix b s

/-! ### canonical components: on parsed Unix components `as_bytes` is injective -/

def canonU : Comp → Prop
  | .pfx _ => False
  | .normal s => s ≠ CUR ∧ s ≠ PAR ∧ s ≠ [SLASH]
  | _ => True

theorem bytes_inj_of_canon {x y : Comp} (hx : canonU x) (hy : canonU y)
    (h : x.bytes .unix = y.bytes .unix) : x = y := by
  cases x <;> cases y <;> simp_all [canonU, Comp.bytes, Enc.sepByte, CUR, PAR, SLASH, DOT]

theorem canon_segComp (c : Bool) (s : Bytes) (h1 : c = true ∨ s ≠ CUR) (h2 : s ≠ [SLASH]) :
    canonU (segComp c s) := by
  unfold segComp
  split
  · trivial
  · rename_i hp
    split
    · trivial
    · rename_i hc
      refine ⟨?_, hp, h2⟩
      intro hs
      rcases h1 with h1 | h1
      · exact hc ⟨hs, h1⟩
      · exact h1 hs

theorem seg_ne_slash {ts : List Tok} (hw : WFToks usep ts) : ∀ s, Tok.seg s ∈ ts → s ≠ [SLASH] := by
  induction ts with
  | nil => intro s h; simp at h
  | cons t r ih =>
    intro s h
    cases t with
    | sep x =>
      rcases List.mem_cons.mp h with h | h
      · cases h
      · exact ih hw.2 s h
    | seg s' =>
      rcases List.mem_cons.mp h with h | h
      · cases h
        intro hs
        have := hw.2.1 SLASH (by rw [hs]; simp)
        simp [usep] at this
      · exact ih hw.2.2.2 s h

theorem canon_body {ts : List Tok} (hw : WFToks usep ts) : ∀ c ∈ body false ts, canonU c := by
  induction ts with
  | nil => intro c h; simp at h
  | cons t r ih =>
    intro c h
    have hwr := WFToks_tail hw
    cases t with
    | sep x => rw [body_cons_junk r (by rfl)] at h; exact ih hwr c h
    | seg s =>
      by_cases hj : junk false (.seg s) = true
      · rw [body_cons_junk r hj] at h; exact ih hwr c h
      · have hj' : junk false (.seg s) = false := by simpa using hj
        rw [body_cons_seg r hj'] at h
        rcases List.mem_cons.mp h with h | h
        · subst h
          exact canon_segComp false s (Or.inr (by simpa [junk] using hj')) (seg_ne_slash hw s (by simp))
        · exact ih hwr c h

theorem canon_comps (b : Bytes) : ∀ c ∈ comps .unix b, canonU c := by
  rw [unix_comps_eq]
  have hw := WFToks_toks usep b
  cases hts : toks usep b with
  | nil => intro c h; simp at h
  | cons t r =>
    rw [hts] at hw
    rw [compsT_true_cons]
    intro c h
    rcases List.mem_cons.mp h with h | h
    · subst h
      cases t with
      | sep x => trivial
      | seg s => exact canon_segComp true s (Or.inl rfl) (seg_ne_slash hw s (by simp))
    · exact canon_body (WFToks_tail hw) c h

/-! ### starts_with / ends_with -/

theorem iterAfter_isSome_iff (e : Enc) : ∀ (ys : List Comp) (s : PState), s.Inv →
    ((iterAfter e s ys).isSome = true ↔ (ys.map (Comp.bytes e)) <+: (s.comps.map (Comp.bytes e))) := by
  intro ys
  induction ys with
  | nil => intro s _; simp [iterAfter]
  | cons y ys ih =>
    intro s hi
    simp only [iterAfter]
    cases hf : s.nextFront with
    | none =>
      rw [comps_of_front_none hf]
      simp
    | some r =>
      obtain ⟨x, s'⟩ := r
      rw [front_comps hf]
      simp only [List.map_cons]
      by_cases hb : x.bytes e = y.bytes e
      · simp only [hb, if_true]
        rw [ih s' (nextFront_inv hf hi)]
        exact (List.cons_prefix_cons.trans ⟨fun h => h.2, fun h => ⟨rfl, h⟩⟩).symm
      · simp only [hb, if_false]
        constructor
        · intro h; cases h
        · intro h
          have := (List.cons_prefix_cons.mp h).1
          exact absurd this.symm hb

theorem map_prefix_of_inj {l1 l2 : List Comp} (f : Comp → Bytes)
    (hinj : ∀ x ∈ l1, ∀ y ∈ l2, f x = f y → x = y) :
    (l1.map f <+: l2.map f) ↔ l1 <+: l2 := by
  induction l1 generalizing l2 with
  | nil => simp
  | cons a l1 ih =>
    cases l2 with
    | nil => simp
    | cons b l2 =>
      simp only [List.map_cons, List.cons_prefix_cons]
      have hih := ih (l2 := l2) (fun x hx y hy => hinj x (by simp [hx]) y (by simp [hy]))
      constructor
      · intro ⟨h1, h2⟩
        exact ⟨hinj a (by simp) b (by simp) h1, hih.mp h2⟩
      · intro ⟨h1, h2⟩
        exact ⟨by rw [h1], hih.mpr h2⟩

/-- `starts_with` is std's: the base's components are a leading run of the path's. -/
theorem unix_starts_with_vs_std (p q : Bytes) :
    startsWithP .unix p q = true ↔ StdSpec.comps q <+: StdSpec.comps p := by
  unfold startsWithP
  rw [iterAfter_isSome_iff .unix _ _ (Enc.new_inv .unix p), ← C01.unix_front_all, ← C01.unix_front_all]
  exact map_prefix_of_inj (Comp.bytes .unix)
    (fun x hx y hy h => bytes_inj_of_canon (canon_comps q x hx) (canon_comps p y hy) h)

theorem strip_prefix_some_iff (p q : Bytes) :
    (stripPrefix .unix p q).isSome = true ↔ StdSpec.comps q <+: StdSpec.comps p := by
  rw [← unix_starts_with_vs_std]
  unfold stripPrefix startsWithP
  cases iterAfter .unix (Enc.new .unix p) (comps .unix q) <;> simp

theorem iterAfterBack_isSome_iff (e : Enc) : ∀ (ys : List Comp) (s : PState), s.Inv →
    ((iterAfterBack e s ys).isSome = true ↔
      (ys.map (Comp.bytes e)) <+: (s.comps.reverse.map (Comp.bytes e))) := by
  intro ys
  induction ys with
  | nil => intro s _; simp [iterAfterBack]
  | cons y ys ih =>
    intro s hi
    simp only [iterAfterBack]
    cases hb : s.nextBack with
    | none =>
      have := (front_none_iff_back_none hi).mpr hb
      rw [comps_of_front_none this]
      simp
    | some r =>
      obtain ⟨x, s'⟩ := r
      obtain ⟨hc, hi'⟩ := back_comps hi hb
      rw [hc]
      simp only [List.reverse_append, List.reverse_cons, List.reverse_nil, List.nil_append,
        List.singleton_append, List.map_cons]
      by_cases hbb : x.bytes e = y.bytes e
      · simp only [hbb, if_true]
        rw [ih s' hi']
        exact (List.cons_prefix_cons.trans ⟨fun h => h.2, fun h => ⟨rfl, h⟩⟩).symm
      · simp only [hbb, if_false]
        constructor
        · intro h; cases h
        · intro h
          have := (List.cons_prefix_cons.mp h).1
          exact absurd this.symm hbb

/-- `ends_with` is std's: the child's components are a trailing run of the path's. -/
theorem unix_ends_with_vs_std (p q : Bytes) :
    endsWithP .unix p q = true ↔ StdSpec.comps q <:+ StdSpec.comps p := by
  unfold endsWithP
  rw [iterAfterBack_isSome_iff .unix _ _ (Enc.new_inv .unix p), C03.dei_reverse,
    ← C01.unix_front_all, ← C01.unix_front_all]
  rw [show (Enc.new .unix p).comps = comps .unix p from rfl]
  have key := map_prefix_of_inj (l1 := (comps .unix q).reverse) (l2 := (comps .unix p).reverse) (Comp.bytes .unix)
    (fun x hx y hy h => bytes_inj_of_canon (canon_comps q x (List.mem_reverse.mp hx))
      (canon_comps p y (List.mem_reverse.mp hy)) h)
  rw [key, List.reverse_prefix]

/-! ### equality and ordering -/

theorem norm_id_of_canon {l : List Comp} (h : ∀ c ∈ l, canonU c) : l.map C05.Comp.norm = l := by
  induction l with
  | nil => rfl
  | cons c l ih =>
    have hc := h c (by simp)
    have : C05.Comp.norm c = c := by cases c <;> simp_all [canonU, C05.Comp.norm]
    rw [List.map_cons, this, ih (fun c' hc' => h c' (by simp [hc']))]

/-- `==` is std's: equal exactly when std's component lists are equal. -/
theorem unix_eq_vs_std (a b : Bytes) : pathEq .unix a b = true ↔ StdSpec.comps a = StdSpec.comps b := by
  rw [C05.eq_iff_comps, norm_id_of_canon (canon_comps a), norm_id_of_canon (canon_comps b),
    C01.unix_front_all, C01.unix_front_all]

/-- `cmp` is std's: the lexicographic order of std's component lists under the derived order
of `Component` (RootDir < CurDir < ParentDir < Normal, names as byte strings). -/
theorem unix_cmp_vs_std (a b : Bytes) :
    pathCmp .unix a b = lexCmp Comp.cmp (StdSpec.comps a) (StdSpec.comps b) := by
  rw [C05.cmp_lexicographic, C01.unix_front_all, C01.unix_front_all]

/-! ### known finding K1 -/

/-- K1 witness: `UnixPath("a/").strip_prefix("")` is `a/` in the model (and in the crate); std
returns `a`.  The components agree, the bytes do not. -/
theorem unix_strip_prefix_K1_witness :
    stripPrefix .unix [97, 47] [] = some [97, 47] ∧ StdSpec.comps [97, 47] = StdSpec.comps [97] := by
  constructor
  · unfold stripPrefix; rw [C03.comps_new_closed]; decide
  · decide

/-! ### Non-vacuity -/

example : StdSpec.comps [47, 97] <+: StdSpec.comps [47, 97, 47, 47, 98] := by decide
example : ¬ (StdSpec.comps [97] <+: StdSpec.comps [47, 97]) := by decide

end TP.C06
