/-
Props/C16c.lean — C16 continued: Windows → Unix for paths WITH a prefix.

"Converting a Windows path to Unix drops the prefix; a rooted or non-disk-prefixed Windows path
becomes a rooted Unix path; every other component keeps its kind and name."  Proved here for
every Windows path with a complete non-verbatim prefix (disk, device namespace, UNC with share):

* disk prefix: the Unix result has exactly the components that follow the prefix
  (`C:\a\b` → `/a/b`, `C:a\b` → `a/b`);
* device-namespace / UNC prefix: the result is rooted and has the components that follow the
  prefix (`\\s\h\a` → `/a`, `\\s\h` → `/`).
-/
import TypedPathVerif.Lemmas.WinAppend

namespace TP.C16c

open TP TP.JoinRules

theorem push_first (piece : Bytes) (hp : piece ≠ []) : push .unix [] piece = piece := by
  simp only [push, unixPush, hp, if_false]
  split <;> simp

/-- the conversion of a component list that starts with nothing, a root, a `.` or a body component -/
theorem convFold_list (c : Comp) (rest : List Comp)
    (hc : c = .root ∨ c = .cur ∨ C16.tailOKs (wsep true) c) (hrest : ∀ x ∈ rest, C16.tailOKs (wsep true) x) :
    comps .unix (convFold .unix [] (c :: rest)) = c :: rest := by
  rcases hc with hc | hc | hc
  · subst hc
    have : convFold .unix [] (.root :: rest) = convFold .unix [SLASH] rest := by
      simp only [convFold, Comp.isRoot, if_true, Enc.sepByte]
      rw [push_first [SLASH] (by simp)]
    rw [this, C16.convFold_tail rest [SLASH] (by simp) hrest, C16.comps_root]
    rfl
  · subst hc
    have : convFold .unix [] (.cur :: rest) = convFold .unix CUR rest := by
      simp only [convFold, Comp.isRoot, Comp.isCur, Bool.false_eq_true, if_false, if_true]
      rw [push_first CUR (by simp [CUR])]
    rw [this, C16.convFold_tail rest CUR (by simp [CUR]) hrest, C16.comps_cur]
    rfl
  · obtain ⟨h1, _, h3, _, _⟩ := C16.tail_piece hc
    have : convFold .unix [] (c :: rest) = convFold .unix (c.bytes .unix) rest := by
      rcases hc with h' | ⟨s, h', _⟩
      · subst h'
        simp only [convFold, Comp.isRoot, Comp.isCur, Comp.isParent, Bool.false_eq_true, if_false, if_true]
        rw [push_first PAR (by simp [PAR])]; rfl
      · subst h'
        simp only [convFold, Comp.isRoot, Comp.isCur, Comp.isParent, Comp.isNormal, Bool.false_eq_true, if_false,
          if_true]
        rw [push_first _ h1]
    rw [this, C16.convFold_tail rest _ h1 hrest, h3]
    rfl

/-- **Windows → Unix with a prefix.**  `T` is what follows the prefix component. -/
theorem conv_w2u_prefixed (b rest : Bytes) (p : PrefixComp)
    (hp : parsePrefixComp b = some (p, rest)) (hc : Win.Complete p.kind) (hnv : isVerbatimKind p.kind = false) :
    ∃ T, comps .windows b = .pfx p :: T ∧
      comps .unix (withEncoding .windows .unix b) =
        (match p.kind with
         | .disk _ => T
         | _ => if T.head? = some .root then T else .root :: T) := by
  have hs := Win.stable_of_complete hp hc
  have hn := Win.normOf_nonverbatim hp hc hnv
  have hok := Win.restOK_of_complete hp hc
  have hcb : comps .windows b = .pfx p :: compsT false true (toks (wsep true) rest) := by
    rw [← parsePrefixComp_raw hp, Win.comps_of_stable hs rest hok, hn]; rfl
  refine ⟨compsT false true (toks (wsep true) rest), hcb, ?_⟩
  have hne : Enc.windows ≠ Enc.unix := by decide
  simp only [withEncoding, hne, if_false, hcb]
  have hstruct := C16.compsT_structure (wsep true) rest
  cases hk : p.kind with
  | verbatim n => rw [hk] at hnv; cases hnv
  | verbatimUNC x y => rw [hk] at hnv; cases hnv
  | verbatimDisk d => rw [hk] at hnv; cases hnv
  | disk D =>
    -- the prefix component is skipped
    have hskip : convFold .unix [] (.pfx p :: compsT false true (toks (wsep true) rest)) =
        convFold .unix [] (compsT false true (toks (wsep true) rest)) := by
      simp only [convFold, Comp.isRoot, hk, Comp.isCur, Comp.isParent, Comp.isNormal, Bool.false_eq_true, if_false]
    rw [hskip]
    rcases hstruct with h0 | ⟨c, r, h0, hc', hr⟩
    · rw [h0]; simp [convFold, C10.comps_nil]
    · rw [h0]; exact convFold_list c r hc' hr
  | deviceNS dev =>
    have hroot : convFold .unix [] (.pfx p :: compsT false true (toks (wsep true) rest)) =
        convFold .unix [SLASH] (compsT false true (toks (wsep true) rest)) := by
      simp only [convFold, Comp.isRoot, hk, if_true, Enc.sepByte]
      rw [push_first [SLASH] (by simp)]
    rw [hroot]
    rcases hstruct with h0 | ⟨c, r, h0, hc', hr⟩
    · rw [h0]; simp [convFold, C16.comps_root]
    · rw [h0]
      -- what follows a device-namespace prefix starts with a separator: a root
      have hcroot : c = .root := by
        cases hr' : rest with
        | nil => rw [hr'] at h0; simp [toks, compsT] at h0
        | cons x t =>
          have hx : wsep true x = true := by
            unfold Win.RestOK at hok; rw [hk, hn, hr'] at hok; exact hok
          rw [hr'] at h0
          simp only [toks, hx, if_true, compsT_true_cons, headComp, List.cons.injEq] at h0
          exact h0.1.symm
      subst hcroot
      have : convFold .unix [SLASH] (.root :: r) = convFold .unix [SLASH] r := by
        simp only [convFold, Comp.isRoot, if_true, Enc.sepByte]
        have : push .unix [SLASH] [SLASH] = [SLASH] := by decide
        rw [this]
      rw [this, C16.convFold_tail r [SLASH] (by simp) hr, C16.comps_root]
      simp
  | unc sv sh =>
    have hroot : convFold .unix [] (.pfx p :: compsT false true (toks (wsep true) rest)) =
        convFold .unix [SLASH] (compsT false true (toks (wsep true) rest)) := by
      simp only [convFold, Comp.isRoot, hk, if_true, Enc.sepByte]
      rw [push_first [SLASH] (by simp)]
    rw [hroot]
    rcases hstruct with h0 | ⟨c, r, h0, hc', hr⟩
    · rw [h0]; simp [convFold, C16.comps_root]
    · rw [h0]
      have hcroot : c = .root := by
        cases hr' : rest with
        | nil => rw [hr'] at h0; simp [toks, compsT] at h0
        | cons x t =>
          have hx : wsep true x = true := by
            unfold Win.RestOK at hok; rw [hk, hn, hr'] at hok; exact hok
          rw [hr'] at h0
          simp only [toks, hx, if_true, compsT_true_cons, headComp, List.cons.injEq] at h0
          exact h0.1.symm
      subst hcroot
      have : convFold .unix [SLASH] (.root :: r) = convFold .unix [SLASH] r := by
        simp only [convFold, Comp.isRoot, if_true, Enc.sepByte]
        have : push .unix [SLASH] [SLASH] = [SLASH] := by decide
        rw [this]
      rw [this, C16.convFold_tail r [SLASH] (by simp) hr, C16.comps_root]
      simp

/-! ### non-vacuity -/

example : withEncoding .windows .unix [67, 58, 92, 97, 92, 98] = [47, 97, 47, 98] := by
  unfold withEncoding; rw [C03.comps_new_closed]; decide
example : withEncoding .windows .unix [92, 92, 115, 92, 104, 92, 97] = [47, 97] := by
  unfold withEncoding; rw [C03.comps_new_closed]; decide
example : withEncoding .windows .unix [67, 58, 97] = [97] := by
  unfold withEncoding; rw [C03.comps_new_closed]; decide

end TP.C16c
