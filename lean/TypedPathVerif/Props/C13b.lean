/-
Props/C13b.lean — C13 continued: `set_extension` on WINDOWS paths, re-parsed.

For every covered Windows base without a verbatim prefix (`C12c.Base`: no prefix-like start, or a
complete disk / device-namespace / UNC prefix) that has a file name, and every extension free of
both separators: after `set_extension(x)` the components are the old ones with the file name
replaced by `stem[.x]` — same parent, new file name — provided `stem[.x]` is a name at all
(it is not when the stem is `.`/`..` and `x` is empty; std has the same corner).
-/
import TypedPathVerif.Props.C12c
import TypedPathVerif.Props.C12b
import TypedPathVerif.Props.C10b

namespace TP.C13b

open TP TP.JoinRules

theorem toks_untoks_append_seg (r : List Tok) (s : Bytes) (hw : WFToks (wsep true) (r ++ [.seg s])) :
    toks (wsep true) (untoks r ++ s) = r ++ [.seg s] := by
  have := toks_untoks (r ++ [.seg s]) hw
  rw [C09.untoks_append] at this
  simpa [untoks, Tok.bytes] using this

theorem WFToks_replace_last (r : List Tok) (s s' : Bytes) (hw : WFToks (wsep true) (r ++ [.seg s]))
    (h1 : s' ≠ []) (h2 : ∀ y ∈ s', wsep true y = false) : WFToks (wsep true) (r ++ [.seg s']) := by
  induction r with
  | nil => exact ⟨h1, h2, trivial, trivial⟩
  | cons t r ih =>
    cases t with
    | sep x => exact ⟨hw.1, ih hw.2⟩
    | seg s0 =>
      obtain ⟨a1, a2, a3, a4⟩ := hw
      refine ⟨a1, a2, ?_, ih a4⟩
      cases r with
      | nil => exact absurd a3 (by simp [notSegHead])
      | cons t' r' => cases t' <;> simpa [notSegHead] using a3

/-- the bytes after the prefix, before and after: same first byte unless the name is first -/
theorem head_untoks_snoc (r : List Tok) (s s' : Bytes) (hr : r ≠ []) (hw : WFToks (wsep true) (r ++ [.seg s])) :
    (untoks (r ++ [.seg s])).head? = (untoks r ++ s').head? := by
  cases r with
  | nil => exact absurd rfl hr
  | cons t r' =>
    have hne := Win.tok_bytes_ne_nil (by simpa using hw : WFToks (wsep true) (t :: (r' ++ [.seg s])))
    simp only [List.cons_append, untoks]
    cases hb : t.bytes with
    | nil => exact absurd hb hne
    | cons x xs => simp

/-- `C13.set_ext_tokens` with the extra fact that the file-name token is the last non-junk token -/
theorem set_ext_tokens2 (e : Enc) (b x f : Bytes) (h : fileName e b = some f) :
    ∃ r j st, (e.new b).toks = r ++ [.seg f] ++ j ∧ (∀ t ∈ j, junk (e.new b).k t = true) ∧
      junk (e.new b).k (.seg f) = false ∧ fileStem e b = some st ∧
      setExtension e b x = ((e.new b).preBytes ++ untoks r ++ st ++ (if x = [] then [] else DOT :: x), true) := by
  obtain ⟨r, j, hts, hjunk, hsb⟩ := C13.fileName_tokens e b f h
  obtain ⟨st, rest, hst, hf, hrest⟩ := C13.rsplitDot_stem_prefix f
  have hstem : fileStem e b = some st := by simp only [fileStem, h]; exact hst
  have hnj : junk (e.new b).k (.seg f) = false :=
    skipBack_getLast (ts := (e.new b).toks) (by rw [hsb]; simp)
  have hrem := new_remaining e b
  have hcut0 : lastCompEnd e b = ((e.new b).preBytes ++ untoks r ++ f).length := by
    unfold lastCompEnd
    simp only [hsb, C09.untoks_append, untoks, Tok.bytes, List.append_nil, List.length_append]
    omega
  simp only [PState.remaining] at hrem
  rw [hts, C09.untoks_append, C09.untoks_append] at hrem
  simp only [untoks, Tok.bytes, List.append_nil] at hrem
  refine ⟨r, j, st, hts, hjunk, hnj, hstem, ?_⟩
  generalize (e.new b).preBytes = P at hrem hcut0 ⊢
  have hb : b = P ++ untoks r ++ f ++ untoks j := by
    rw [← hrem]; simp [List.append_assoc]
  unfold setExtension
  simp only [h, hstem]
  have hcut : lastCompEnd e b - f.length + st.length = (P ++ untoks r ++ st).length := by
    rw [hcut0]; simp only [List.length_append]; omega
  rw [hcut]
  have htake : b.take (P ++ untoks r ++ st).length = P ++ untoks r ++ st := by
    have hb' : b = (P ++ untoks r ++ st) ++ (rest ++ untoks j) := by
      rw [hb, hf]; simp [List.append_assoc]
    conv => lhs; rw [hb']
    exact List.take_left' rfl
  rw [htake]

theorem C12d_glc (l : List Comp) (c : Comp) : (l ++ [c]).getLast? = some c := by simp

/-- a prefix-like start is decided by the first two bytes -/
theorem pfxStart_congr (a c : Bytes) (h : a.take 2 = c.take 2) : C16.pfxStart a = C16.pfxStart c := by
  match a, c, h with
  | [], [], _ => rfl
  | [], [_], h => simp at h
  | [], _ :: _ :: _, h => simp at h
  | [_], [], h => simp at h
  | [x], [y], _ => rfl
  | [x], _ :: _ :: _, h => simp at h
  | _ :: _ :: _, [], h => simp at h
  | _ :: _ :: _, [_], h => simp at h
  | x1 :: x2 :: _, y1 :: y2 :: _, h =>
    simp only [List.take, List.cons.injEq, and_true] at h
    simp [C16.pfxStart, h.1, h.2]

/-- **Windows `set_extension`, re-parsed.** -/
theorem win_set_ext_comps (b x f : Bytes) (hb : C12c.Base b) (h : fileName .windows b = some f)
    (hx : ∀ y ∈ x, anySep y = false) :
    ∃ st, fileStem .windows b = some st ∧
      let newName := st ++ (if x = [] then [] else DOT :: x)
      (newName ≠ CUR → newName ≠ PAR →
        comps .windows (setExtension .windows b x).1 = (comps .windows b).dropLast ++ [.normal newName] ∧
        C12c.Base (setExtension .windows b x).1) := by
  obtain ⟨r, j, st, hts, hjunk, hfj0, hstem, hset⟩ := set_ext_tokens2 .windows b x f h
  refine ⟨st, hstem, ?_⟩
  intro newName hc hp
  obtain ⟨st', rest0, hst', hf, _⟩ := C13.rsplitDot_stem_prefix f
  have hsteq : st' = st := by
    have : fileStem .windows b = some st' := by simp only [fileStem, h]; exact hst'
    rw [hstem] at this; exact (Option.some.inj this).symm
  subst hsteq
  have hlast := (C12.file_name_iff_last_normal .windows b f).mp h
  -- token-level core, for tokens of `wsep true` with `k = false`
  have core : ∀ (T : Bytes), toks (wsep true) T = r ++ [.seg f] ++ j → (∀ t ∈ j, junk false t = true) →
      junk false (.seg f) = false → segComp false f = .normal f →
      compsT false true (toks (wsep true) T) = C12b.frontPart r ++ [.normal f] ∧
      compsT false true (toks (wsep true) (untoks r ++ newName)) = C12b.frontPart r ++ [.normal newName] ∧
      (r ≠ [] → T.head? = (untoks r ++ newName).head?) ∧ st' ≠ [] ∧
      T = untoks r ++ (f ++ untoks j) ∧ WFToks (wsep true) r := by
    intro T hT hj hfj hseg
    have hwf := WFToks_toks (wsep true) T
    have hwrf : WFToks (wsep true) (r ++ [.seg f]) := by
      rw [hT] at hwf; exact WFToks_prefix _ hwf
    have hwr : WFToks (wsep true) r := WFToks_prefix r hwrf
    have hfok : f ≠ [] ∧ ∀ y ∈ f, wsep true y = false := by
      have := WFToks_suffix r hwrf
      exact ⟨this.1, this.2.1⟩
    have hst_ne : st' ≠ [] := by
      rcases rsplitDot_spec f with ⟨h1, _⟩ | ⟨h1, _⟩ | ⟨bf, af, h1, _, _, hne, _⟩
      · simp [h1] at hst'; rw [← hst']; exact hfok.1
      · simp [h1] at hst'; rw [← hst']; exact hfok.1
      · simp [h1] at hst'; rw [← hst']; exact hne
    have hnn : newName ≠ [] := by
      intro h0
      have : st' = [] := by
        have := congrArg List.length h0
        simp only [newName, List.length_append, List.length_nil] at this
        exact List.eq_nil_of_length_eq_zero (by omega)
      exact hst_ne this
    have hnsep : ∀ y ∈ newName, wsep true y = false := by
      intro y hy
      rcases List.mem_append.mp hy with hy | hy
      · exact hfok.2 y (by rw [hf]; simp [hy])
      · split at hy
        · simp at hy
        · rcases List.mem_cons.mp hy with hy | hy
          · rw [hy]; decide
          · exact hx y hy
    have hwnew := WFToks_replace_last r f newName hwrf hnn hnsep
    have hnj : junk false (.seg newName) = false := by simp [junk, hc]
    have hT' : T = untoks r ++ (f ++ untoks j) := by
      have := untoks_toks (wsep true) T
      rw [hT] at this
      rw [← this]
      simp [C09.untoks_append, untoks, Tok.bytes, List.append_assoc]
    refine ⟨?_, ?_, ?_, hst_ne, hT', hwr⟩
    · rw [hT, C12b.compsT_snoc_seg r f j hfj hj, hseg]
    · rw [toks_untoks_append_seg r newName hwnew]
      have := C12b.compsT_snoc_seg r newName [] hnj (by simp)
      simp only [List.append_nil] at this
      rw [this]
      simp [segComp, hp, hc]
    · intro hr
      rw [hT']
      cases hu : untoks r with
      | nil => exact absurd (Comb.Unix.untoks_eq_nil hwr hu) hr
      | cons y ys => rfl
  rcases hb with hpf | ⟨p, rest, hpp, hcmp, hnv⟩
  · -- prefix-free
    have hnew0 := Win.new_of_pf b hpf
    have htoks : (Enc.new .windows b).toks = toks (wsep true) b := by rw [hnew0]
    have hk : (Enc.new .windows b).k = false := by rw [hnew0]
    have hpre : (Enc.new .windows b).preBytes = [] := by rw [hnew0]; rfl
    rw [htoks] at hts
    rw [hk] at hjunk hfj0
    have hseg : segComp false f = .normal f := by
      have hcb := C16.win_comps_pf b hpf
      rw [hts, C12b.compsT_snoc_seg r f j hfj0 hjunk] at hcb
      rw [hcb] at hlast
      simpa using hlast
    obtain ⟨c2, c3, c4, hstne, hbT, hwr⟩ := core b hts hjunk hfj0 hseg
    have hres : (setExtension .windows b x).1 = untoks r ++ newName := by
      rw [hset, hpre]; simp [newName, List.append_assoc]
    -- the result starts with the same two bytes as the path, or with a name byte then `.`
    have hpf' : C16.pfxStart (untoks r ++ newName) = false := by
      have hst0 : ∃ s0 tl', st' = s0 :: tl' := by
        cases hs : st' with
        | nil => exact absurd hs hstne
        | cons s0 tl' => exact ⟨s0, tl', rfl⟩
      obtain ⟨s0, tl', hs0⟩ := hst0
      cases hur : untoks r with
      | cons a0 t0 =>
        cases t0 with
        | cons a1 t1 =>
          rw [← hpf, hbT, hur]
          exact pfxStart_congr _ _ rfl
        | nil =>
          -- one byte, then the first byte of the name in both strings
          rw [← hpf, hbT, hur, hf, hs0]
          exact pfxStart_congr _ _ (by simp [newName, hs0])
      | nil =>
        simp only [List.nil_append]
        cases tl' with
        | cons s1 tl'' =>
          rw [← hpf, hbT, hur, hf, hs0]
          exact pfxStart_congr _ _ (by simp [newName, hs0])
        | nil =>
          -- a one-byte stem: the second byte of the new name is `.` or there is none
          simp only [newName, hs0]
          split
          · rfl
          · simp only [List.singleton_append, List.cons_append, List.nil_append, C16.pfxStart]
            have h1 : anySep DOT = false := by decide
            have h2 : decide (DOT = COLON) = false := by decide
            simp [h1, h2]
    refine ⟨?_, Or.inl (by rw [hres]; exact hpf')⟩
    rw [hres, C16.win_comps_pf _ hpf', C16.win_comps_pf b hpf, c3, c2]
    simp
  · -- complete non-verbatim prefix
    have hs := Win.stable_of_complete hpp hcmp
    have hn := Win.normOf_nonverbatim hpp hcmp hnv
    have hok := Win.restOK_of_complete hpp hcmp
    have hnew0 : Enc.new .windows b = { pre := some p, toks := toks (wsep true) rest, atBeg := true, k := false } := by
      rw [← parsePrefixComp_raw hpp, Win.new_of_stable hs rest hok, hn]; rfl
    have htoks : (Enc.new .windows b).toks = toks (wsep true) rest := by rw [hnew0]
    have hk : (Enc.new .windows b).k = false := by rw [hnew0]
    have hpre : (Enc.new .windows b).preBytes = p.raw := by rw [hnew0]; rfl
    rw [htoks] at hts
    rw [hk] at hjunk hfj0
    have hcb := Win.comps_of_stable hs rest hok
    rw [parsePrefixComp_raw hpp, hn] at hcb
    simp only [Bool.not_true] at hcb
    have hseg : segComp false f = .normal f := by
      rw [hts, C12b.compsT_snoc_seg r f j hfj0 hjunk] at hcb
      rw [hcb] at hlast
      have : (Comp.pfx p :: (C12b.frontPart r ++ [segComp false f])).getLast? = some (segComp false f) := by
        exact C12d_glc (Comp.pfx p :: C12b.frontPart r) (segComp false f)
      rw [this] at hlast
      exact Option.some.inj hlast
    obtain ⟨c2, c3, c4, _, hbT, hwr⟩ := core rest hts hjunk hfj0 hseg
    have hres : (setExtension .windows b x).1 = p.raw ++ (untoks r ++ newName) := by
      rw [hset, hpre]; simp [newName, List.append_assoc]
    have hok' : Win.RestOK p (untoks r ++ newName) := by
      unfold Win.RestOK at hok ⊢
      cases hk' : p.kind with
      | disk d => trivial
      | verbatimDisk d => trivial
      | verbatim nm => rw [hk'] at hnv; cases hnv
      | verbatimUNC a c => rw [hk'] at hnv; cases hnv
      | deviceNS dev =>
        rw [hk'] at hok
        simp only [hn] at hok ⊢
        have hr : r ≠ [] := by
          intro h0
          subst h0
          rw [hbT] at hok
          simp only [untoks, List.nil_append] at hok
          have hf1 : f ≠ [] := by
            have hwf := WFToks_toks (wsep true) rest
            rw [hts] at hwf
            exact hwf.1
          cases hf' : f with
          | nil => exact absurd hf' hf1
          | cons y t =>
            rw [hf'] at hok
            have hy : wsep true y = true := hok
            have hwf := WFToks_toks (wsep true) rest
            rw [hts] at hwf
            have := hwf.2.1 y (by rw [hf']; simp)
            rw [hy] at this; cases this
        have hh := c4 hr
        cases hu : untoks r ++ newName with
        | nil => trivial
        | cons z zs =>
          rw [hu] at hh
          cases hrest : rest with
          | nil => rw [hrest] at hh; simp at hh
          | cons y t =>
            rw [hrest] at hok hh
            simp only [List.head?_cons, Option.some.injEq] at hh
            rw [← hh]; exact hok
      | unc sv sh =>
        rw [hk'] at hok
        simp only [hn] at hok ⊢
        have hr : r ≠ [] := by
          intro h0
          subst h0
          rw [hbT] at hok
          simp only [untoks, List.nil_append] at hok
          have hwf := WFToks_toks (wsep true) rest
          rw [hts] at hwf
          cases hf' : f with
          | nil => exact absurd hf' hwf.1
          | cons y t =>
            rw [hf'] at hok
            have hy : wsep true y = true := hok
            have := hwf.2.1 y (by rw [hf']; simp)
            rw [hy] at this; cases this
        have hh := c4 hr
        cases hu : untoks r ++ newName with
        | nil => trivial
        | cons z zs =>
          rw [hu] at hh
          cases hrest : rest with
          | nil => rw [hrest] at hh; simp at hh
          | cons y t =>
            rw [hrest] at hok hh
            simp only [List.head?_cons, Option.some.injEq] at hh
            rw [← hh]; exact hok
    have hcomp := Win.comps_of_stable hs _ hok'
    refine ⟨?_, Or.inr ⟨p, _, by rw [hres]; exact (hs _ hok').1, hcmp, hnv⟩⟩
    rw [hres, hcomp, hcb, hn]
    rw [show (!true) = false from rfl, c3, c2]
    have hdl : (Comp.pfx p :: (C12b.frontPart r ++ [Comp.normal f])).dropLast = Comp.pfx p :: C12b.frontPart r := by
      rw [show Comp.pfx p :: (C12b.frontPart r ++ [Comp.normal f]) = (Comp.pfx p :: C12b.frontPart r) ++ [Comp.normal f] from rfl,
        List.dropLast_concat]
    rw [hdl]; rfl

/-- hence: same parent components (implicit root shown), and the file name is stem[.x] -/
theorem win_set_ext_name_parent (b x f : Bytes) (hb : C12c.Base b) (h : fileName .windows b = some f)
    (hx : ∀ y ∈ x, anySep y = false) :
    ∃ st, fileStem .windows b = some st ∧
      let newName := st ++ (if x = [] then [] else DOT :: x)
      (newName ≠ CUR → newName ≠ PAR →
        fileName .windows (setExtension .windows b x).1 = some newName ∧
        ∃ q q', parent .windows b = some q ∧ parent .windows (setExtension .windows b x).1 = some q' ∧
          comps .windows q' = comps .windows q) := by
  obtain ⟨st, hst, hmain⟩ := win_set_ext_comps b x f hb h hx
  refine ⟨st, hst, ?_⟩
  intro newName hc hp
  obtain ⟨hcomps, hb'⟩ := hmain hc hp
  have hlast := (C12.file_name_iff_last_normal .windows b f).mp h
  have hcb := list_eq_dropLast_append hlast
  obtain ⟨_, q, hq, hcq, _⟩ := C12c.fileName_parent_of_comps b hb _ f hcb
  obtain ⟨h1, q', hq', hcq', _⟩ := C12c.fileName_parent_of_comps _ hb' _ newName hcomps
  exact ⟨h1, q, q', hq, hq', by rw [hcq', hcq]⟩

end TP.C13b
