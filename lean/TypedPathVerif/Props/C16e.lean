/-
Props/C16e.lean — C16, the last clause: a checked conversion that succeeds returns a path that is
valid in the target encoding and has the same component kinds and names as the source.

Unix → Windows, for sources none of whose names contains a Windows separator (a name that does
is the known finding K4), and Windows → Unix for sources that do not start like a prefix.
-/
import TypedPathVerif.Props.C16d
import TypedPathVerif.Props.C16c
import TypedPathVerif.Props.C17

namespace TP.C16e

open TP

theorem isValid_of_names (e : Enc) (b : Bytes)
    (h : ∀ s, Comp.normal s ∈ comps e b → ∀ y ∈ s, (forbidden e).contains y = false) :
    isValid e b = true := by
  unfold isValid
  rw [List.all_eq_true]
  intro c hc
  cases c with
  | normal s =>
    simp only [Comp.isValid, Bool.not_eq_true', List.any_eq_false]
    intro y hy
    rw [h s hc y hy]; simp
  | _ => rfl

/-- **Unix → Windows, checked.**  When the conversion succeeds and no source name contains `\`
(K4), the result has exactly the source's component kinds and names, is prefix-free, and is a
valid Windows path. -/
theorem conv_checked_u2w_valid (b r : Bytes)
    (h : withEncodingChecked .unix .windows b = .ok r)
    (hk4 : ∀ s, Comp.normal s ∈ comps .unix b → ∀ y ∈ s, anySep y = false) :
    r = withEncoding .unix .windows b ∧
    comps .windows r = comps .unix b ∧ C16.pfxStart r = false ∧ isValid .windows r = true := by
  have hr := C16d.conv_checked_ok_eq_unchecked .unix .windows b r h
  have hne : Enc.unix ≠ Enc.windows := by decide
  -- no source name contains a byte Windows forbids
  have hclean : ∀ s, Comp.normal s ∈ comps .unix b → ∀ y ∈ s, (forbidden .windows).contains y = false := by
    intro s hs y hy
    cases hf : (forbidden .windows).contains y with
    | false => rfl
    | true =>
      exfalso
      have hns : C16d.tsep .windows y = false := hk4 s hs y hy
      obtain ⟨e, he⟩ := C16d.conv_checked_fails_forbidden .unix .windows b hne s y hs hy hf hns
      rw [he] at h; cases h
  have hport : ∀ s, Comp.normal s ∈ comps .unix b → C16b.portable s := by
    intro s hs
    have hok : C11.nameOK s := by
      rcases C11.comps_structure b with h0 | ⟨c, rest, h0, hc, hrest⟩
      · rw [h0] at hs; cases hs
      · rw [h0] at hs
        rcases List.mem_cons.mp hs with h1 | h1
        · rcases hc with hc | hc | hc
          · rw [hc] at h1; cases h1
          · rw [hc] at h1; cases h1
          · rcases hc with hc | ⟨s', hc, hn⟩
            · rw [hc] at h1; cases h1
            · rw [hc] at h1; cases h1; exact hn
        · rcases hrest _ h1 with hc | ⟨s', hc, hn⟩
          · cases hc
          · cases hc; exact hn
    obtain ⟨h1, _, h3, h4⟩ := hok
    refine ⟨h1, h3, h4, ?_⟩
    intro y hy
    refine ⟨hk4 s hs y hy, ?_⟩
    intro hE
    have := hclean s hs y hy
    rw [hE] at this
    revert this; decide
  obtain ⟨hc, hpf⟩ := C16b.conv_u2w_portable b hport
  rw [hr]
  refine ⟨rfl, hc, hpf, ?_⟩
  apply isValid_of_names
  intro s hs y hy
  rw [hc] at hs
  exact hclean s hs y hy

/-- **Windows → Unix, checked.**  For a source that does not start like a prefix: when the
conversion succeeds, the result has exactly the source's component kinds and names and is a valid
Unix path. -/
theorem conv_checked_w2u_valid (b r : Bytes)
    (h : withEncodingChecked .windows .unix b = .ok r) (hpf : C16.pfxStart b = false) :
    r = withEncoding .windows .unix b ∧
    comps .unix r = comps .windows b ∧ isValid .unix r = true := by
  have hr := C16d.conv_checked_ok_eq_unchecked .windows .unix b r h
  have hne : Enc.windows ≠ Enc.unix := by decide
  have hc := C16.conv_w2u_prefix_free b hpf
  rw [hr]
  refine ⟨rfl, hc, ?_⟩
  apply isValid_of_names
  intro s hs y hy
  rw [hc] at hs
  cases hf : (forbidden .unix).contains y with
  | false => rfl
  | true =>
    exfalso
    -- `/` cannot occur in a Windows name; any other forbidden byte makes the conversion fail
    have hnosep : anySep y = false := by
      rw [C16.win_comps_pf b hpf] at hs
      rcases C16.compsT_structure (wsep true) b with h0 | ⟨c, rest, h0, hc', hrest⟩
      · rw [h0] at hs; cases hs
      · rw [h0] at hs
        have hname : C16.nameOKs (wsep true) s := by
          rcases List.mem_cons.mp hs with h1 | h1
          · rcases hc' with hc' | hc' | hc'
            · rw [hc'] at h1; cases h1
            · rw [hc'] at h1; cases h1
            · rcases hc' with hc' | ⟨s', hc', hn⟩
              · rw [hc'] at h1; cases h1
              · rw [hc'] at h1; cases h1; exact hn
          · rcases hrest _ h1 with hc' | ⟨s', hc', hn⟩
            · cases hc'
            · cases hc'; exact hn
        exact hname.2.1 y hy
    have hns : C16d.tsep .unix y = false := by
      have : y ≠ SLASH := by intro hE; rw [hE] at hnosep; revert hnosep; decide
      simp [C16d.tsep, usep, this]
    obtain ⟨e, he⟩ := C16d.conv_checked_fails_forbidden .windows .unix b hne s y hs hy hf hns
    rw [he] at h; cases h

/-- **Windows → Unix, checked, with a complete non-verbatim prefix.**  When the conversion succeeds
the result is the unchecked one — prefix dropped, rooted unless the prefix was a disk — and is a
valid Unix path. -/
theorem conv_checked_w2u_prefixed_valid (b r rest : Bytes) (p : PrefixComp)
    (h : withEncodingChecked .windows .unix b = .ok r)
    (hp : parsePrefixComp b = some (p, rest)) (hc : Win.Complete p.kind)
    (hnv : JoinRules.isVerbatimKind p.kind = false) :
    r = withEncoding .windows .unix b ∧
    (∃ T, comps .windows b = .pfx p :: T ∧
      comps .unix r = (match p.kind with
        | .disk _ => T
        | _ => if T.head? = some .root then T else .root :: T)) ∧
    isValid .unix r = true := by
  have hr := C16d.conv_checked_ok_eq_unchecked .windows .unix b r h
  have hne : Enc.windows ≠ Enc.unix := by decide
  obtain ⟨T, hT, hconv⟩ := C16c.conv_w2u_prefixed b rest p hp hc hnv
  have hs := Win.stable_of_complete hp hc
  have hn := Win.normOf_nonverbatim hp hc hnv
  have hok := Win.restOK_of_complete hp hc
  have hcb : comps .windows b = .pfx p :: compsT false true (toks (wsep true) rest) := by
    rw [← parsePrefixComp_raw hp, Win.comps_of_stable hs rest hok, hn]; rfl
  have hTeq : T = compsT false true (toks (wsep true) rest) := by
    rw [hT] at hcb; exact (List.cons.inj hcb).2
  rw [hr]
  refine ⟨rfl, ⟨T, hT, hconv⟩, ?_⟩
  apply isValid_of_names
  intro s hs y hy
  -- every name of the result is a name of the source, after the prefix
  have hsT : Comp.normal s ∈ T := by
    rw [hconv] at hs
    cases hk : p.kind <;> rw [hk] at hs <;> simp only at hs
    all_goals first
      | exact hs
      | (split at hs
         · exact hs
         · rcases List.mem_cons.mp hs with h1 | h1
           · cases h1
           · exact h1)
  have hsb : Comp.normal s ∈ comps .windows b := by rw [hT]; simp [hsT]
  cases hf : (forbidden .unix).contains y with
  | false => rfl
  | true =>
    exfalso
    have hnosep : anySep y = false := by
      rw [hTeq] at hsT
      rcases C16.compsT_structure (wsep true) rest with h0 | ⟨c, rest', h0, hc', hrest⟩
      · rw [h0] at hsT; cases hsT
      · rw [h0] at hsT
        have hname : C16.nameOKs (wsep true) s := by
          rcases List.mem_cons.mp hsT with h1 | h1
          · rcases hc' with hc' | hc' | hc'
            · rw [hc'] at h1; cases h1
            · rw [hc'] at h1; cases h1
            · rcases hc' with hc' | ⟨s', hc', hn'⟩
              · rw [hc'] at h1; cases h1
              · rw [hc'] at h1; cases h1; exact hn'
          · rcases hrest _ h1 with hc' | ⟨s', hc', hn'⟩
            · cases hc'
            · cases hc'; exact hn'
        exact hname.2.1 y hy
    have hns : C16d.tsep .unix y = false := by
      have : y ≠ SLASH := by intro hE; rw [hE] at hnosep; revert hnosep; decide
      simp [C16d.tsep, usep, this]
    obtain ⟨e, he⟩ := C16d.conv_checked_fails_forbidden .windows .unix b hne s y hsb hy hf hns
    rw [he] at h; cases h

/-! ### non-vacuity: `b.t` converts, checked, to a valid Windows path -/

example : withEncodingChecked .unix .windows [98, 46, 116] = .ok [98, 46, 116] := by
  have hne : Enc.unix ≠ Enc.windows := by decide
  simp only [withEncodingChecked, hne, if_false]
  rw [C03.comps_new_closed]
  simp only [Enc.new, List.nil_append]
  have : compsT false true (toks usep [98, 46, 116]) = [.normal [98, 46, 116]] := by decide
  rw [this]
  simp only [convFoldChecked, Comp.isRoot, Comp.isCur, Comp.isParent, Comp.isNormal, Bool.false_eq_true,
    if_false, if_true, Comp.bytes]
  unfold pushChecked
  rw [C03.comps_new_closed]
  decide

end TP.C16e
