/-
Props/C12d.lean — C12 / C11 continued: Windows paths with a VERBATIM prefix.

* `push_name_verbatim`: pushing a portable single name onto a verbatim-prefixed buffer (complete
  prefix, followed by nothing or a separator) appends exactly one normal component — root after
  the prefix written out;
* `win_with_file_name_verbatim` (C12): replacing the file name of such a path gives file name `n`
  and a parent with the old parent's components;
* `win_normalize_verbatim` (C11): `normalize` of such a path, all of whose names are portable,
  has exactly the lexically folded components; no `.` / `..`; idempotent.
-/
import TypedPathVerif.Props.C08c

namespace TP.C12d

open TP TP.JoinRules TP.Win

/-- verbatim-prefixed paths covered here -/
structure VBase (b : Bytes) (p : PrefixComp) (rest : Bytes) : Prop where
  parse : parsePrefixComp b = some (p, rest)
  complete : Complete p.kind
  verbatim : isVerbatimKind p.kind = true
  head : HeadOK (wsep (normOf p.raw)) rest

theorem VBase.wf {b rest : Bytes} {p : PrefixComp} (h : VBase b p rest) : Win.WF b :=
  Or.inr ⟨p, rest, h.parse, h.complete⟩

theorem VBase.shape {b rest : Bytes} {p : PrefixComp} (h : VBase b p rest) :
    VShape (normOf p.raw) p (comps .windows b) := C08c.base_vshape h.parse h.complete h.head

theorem portable_item (n : Bool) {s : Bytes} (h : C16b.portable s) : Item n (.normal s) := by
  obtain ⟨h1, h2, h3, h4⟩ := h
  exact Or.inr (Or.inr ⟨s, rfl, h1, fun y hy => not_wsep_of_not_anySep (h4 y hy).1, h2, h3⟩)

/-- the rendered result starts with `\` after the prefix, or is the bare prefix -/
theorem headOK_of_render {p : PrefixComp} {L : List Comp} (hL : VShape (normOf p.raw) p L) (rest' : Bytes)
    (h : verbatimRender false L = p.raw ++ rest') (hv : isVerbatimKind p.kind = true) :
    HeadOK (wsep (normOf p.raw)) rest' := by
  have hns := nextSep_verbatim hv
  cases hL with
  | bare items hi =>
    have hnr : ∀ c ∈ items, c ≠ .root ∧ ∀ q, c ≠ .pfx q := fun c hc' =>
      ⟨(hi c hc').seg.2.2.2.1, (hi c hc').seg.2.2.2.2⟩
    rw [verbatimRender_cons, hns, verbatimRender_items items hnr] at h
    simp only [Bool.false_eq_true, false_and, if_false, List.nil_append, Comp.bytes] at h
    have := List.append_cancel_left h
    rw [← this]
    cases items with
    | nil => trivial
    | cons c cs => simp only [renderItems, List.singleton_append, List.cons_append]; exact wsep_bslash _
  | rooted items hi =>
    rw [verbatimRender_cons, hns, verbatimRender_cons] at h
    simp only [Bool.false_eq_true, false_and, if_false, List.nil_append, Comp.bytes, ne_eq, not_true_eq_false,
      and_false, Enc.sepByte, List.append_assoc, List.singleton_append] at h
    have := List.append_cancel_left h
    rw [← this]
    exact wsep_bslash _

/-- pushing a portable name onto a verbatim-prefixed buffer -/
theorem push_name_verbatim (b n rest : Bytes) (p : PrefixComp) (hb : VBase b p rest) (hn : C16b.portable n) :
    comps .windows (push .windows b n) = withRoot (comps .windows b ++ [.normal n]) ∧
    ∃ rest', VBase (push .windows b n) p rest' := by
  obtain ⟨hnpf, hnrel⟩ := C16b.portable_pf hn
  obtain ⟨h1, hshape, rest', h2, h3⟩ :=
    C08c.win_push_comps_verbatim b n rest p hb.parse hb.complete hb.verbatim hb.head hn.1 hnpf hnrel
  have hcn := C12c.comps_portable hn
  rw [hcn] at h1 hshape
  have hfold : verbatimFold (comps .windows b) [.normal n] = comps .windows b ++ [.normal n] := rfl
  rw [hfold] at h1 hshape
  refine ⟨h1, rest', h3, hb.complete, hb.verbatim, ?_⟩
  have hbytes : push .windows b n = verbatimRender false (comps .windows b ++ [.normal n]) := by
    have hpo := prefixOf_of_comp hb.parse
    have hrule : rule b n = .verbatim := by
      unfold rule baseIsVerbatim
      simp [hn.1, C16b.prefixOf_none_of_pf n hnpf, hpo, hb.verbatim]
    rw [show push .windows b n = windowsPush b n from rfl, C08.win_push_verbatim b n hrule]
    unfold verbatimComps
    rw [hcn, hfold]
  exact headOK_of_render hshape rest' (by rw [← hbytes]; exact h2) hb.verbatim

/-- the parent of a verbatim-prefixed path is verbatim-prefixed with the same prefix -/
theorem VBase.parent {b q rest : Bytes} {p : PrefixComp} (hb : VBase b p rest) (h : parent .windows b = some q) :
    ∃ rest', VBase q p rest' ∧ comps .windows q = (comps .windows b).dropLast := by
  obtain ⟨hcq, hwf⟩ := Win.win_parent_comps b q hb.wf h
  have hs := stable_of_complete hb.parse hb.complete
  have hcb : comps .windows b = .pfx p :: compsT (!normOf p.raw) true (toks (wsep (normOf p.raw)) rest) := by
    rw [← parsePrefixComp_raw hb.parse]; exact comps_of_stable hs rest (restOK_of_complete hb.parse hb.complete)
  -- the parent is a leading slice `raw ++ rest'` with `rest'` a leading slice of `rest`
  unfold TP.parent at h
  cases hnb : (Enc.new .windows b).nextBack with
  | none => simp [hnb] at h
  | some x =>
    obtain ⟨c, s'⟩ := x
    simp only [hnb] at h
    split at h
    · rename_i hc
      simp only [Option.some.injEq] at h
      have hr0 := WReach_new hb.parse hs (restOK_of_complete hb.parse hb.complete)
      have hne : (Enc.new .windows b).toks ≠ [] := by
        intro hnil
        unfold PState.nextBack at hnb
        simp only [hnil, ne_eq, not_true_eq_false, if_false, hr0.pre, Option.some.injEq, Prod.mk.injEq] at hnb
        rw [← hnb.1] at hc
        simp [Comp.isNormal, Comp.isCur, Comp.isParent] at hc
      have hr' := WReach_back hr0 hnb hne
      have hq : q = p.raw ++ untoks s'.toks := by
        rw [← h]; simp [PState.remaining, PState.preBytes, hr'.pre]
      refine ⟨untoks s'.toks, ⟨by rw [hq]; exact (hs _ hr'.ok).1, hb.complete, hb.verbatim, ?_⟩, hcq⟩
      -- head of the truncated rest: same first byte as `rest`, or empty
      have htoks : (Enc.new .windows b).toks = toks (wsep (normOf p.raw)) rest := by
        rw [← parsePrefixComp_raw hb.parse, new_of_stable hs rest (restOK_of_complete hb.parse hb.complete)]
      unfold PState.nextBack at hnb
      simp only [ne_eq, hne, not_false_eq_true, if_true] at hnb
      cases hbt : backT (Enc.new .windows b).k (Enc.new .windows b).atBeg (Enc.new .windows b).toks with
      | none => simp [hbt] at hnb
      | some r =>
        obtain ⟨c', ts'⟩ := r
        simp only [hbt, Option.some.injEq, Prod.mk.injEq] at hnb
        obtain ⟨qq, hqq⟩ := backT_prefix hbt
        rw [← hnb.2]
        simp only
        have hw := WFToks_toks (wsep (normOf p.raw)) rest
        rw [← htoks, hqq] at hw
        have hh : HeadOK (wsep (normOf p.raw)) (untoks (ts' ++ qq)) := by
          rw [← hqq, htoks, untoks_toks]; exact hb.head
        exact headOK_prefix hw hh
    · cases h

theorem glc (l : List Comp) (c : Comp) : (l ++ [c]).getLast? = some c := by simp

theorem withRoot_snoc_last (L : List Comp) (c : Comp) (hL : L ≠ []) :
    (withRoot (L ++ [c])).getLast? = some c := by
  match L, hL with
  | [.pfx p], _ =>
    cases c <;> simp [withRoot]
  | .pfx p :: .root :: r, _ => exact glc (.pfx p :: .root :: r) c
  | .pfx p :: .cur :: r, _ => exact glc (.pfx p :: .root :: .cur :: r) c
  | .pfx p :: .parent :: r, _ => exact glc (.pfx p :: .root :: .parent :: r) c
  | .pfx p :: .normal s :: r, _ => exact glc (.pfx p :: .root :: .normal s :: r) c
  | .pfx p :: .pfx q :: r, _ => exact glc (.pfx p :: .root :: .pfx q :: r) c
  | .root :: r, _ => exact glc (.root :: r) c
  | .cur :: r, _ => exact glc (.cur :: r) c
  | .parent :: r, _ => exact glc (.parent :: r) c
  | .normal s :: r, _ => exact glc (.normal s :: r) c

/-- **Windows `with_file_name` on verbatim-prefixed paths.** -/
theorem win_with_file_name_verbatim (b n rest : Bytes) (p : PrefixComp) (hb : VBase b p rest)
    (hn : C16b.portable n) :
    (∀ f, fileName .windows b = some f →
      fileName .windows (setFileName .windows b n) = some n ∧
      ∃ q q', parent .windows b = some q ∧ parent .windows (setFileName .windows b n) = some q' ∧
        comps .windows q' = (withRoot (comps .windows q ++ [.normal n])).dropLast) ∧
    (fileName .windows b = none → setFileName .windows b n = push .windows b n) := by
  constructor
  · intro f hf
    have hlast := (C12.file_name_iff_last_normal .windows b f).mp hf
    -- the parent exists: the last component is a name
    cases hp : parent .windows b with
    | none =>
      exfalso
      rcases (C09.parent_none_iff .windows b).mp hp with h0 | ⟨c, hc, hk⟩
      · rw [h0] at hlast; simp at hlast
      · rw [hlast] at hc
        simp only [Option.some.injEq] at hc
        rcases hk with hk | ⟨p', hk⟩ <;> (rw [← hc] at hk; cases hk)
    | some q =>
      obtain ⟨rest', hbq, _⟩ := hb.parent hp
      have hset : setFileName .windows b n = push .windows q n := by
        simp only [setFileName, hf, Option.isSome_some, if_true]
        rw [C09.pop_eq_parent, hp]
      obtain ⟨hres, rest'', hbr⟩ := push_name_verbatim q n rest' p hbq hn
      rw [hset]
      have hqne : comps .windows q ≠ [] := by
        have hsh := hbq.shape
        intro h0
        rw [h0] at hsh
        cases hsh
      have hl := withRoot_snoc_last (comps .windows q) (.normal n) hqne
      have hfn : fileName .windows (push .windows q n) = some n := by
        rw [C12.file_name_iff_last_normal, hres]; exact hl
      refine ⟨hfn, q, ?_⟩
      cases hp' : parent .windows (push .windows q n) with
      | none =>
        exfalso
        rcases (C09.parent_none_iff .windows _).mp hp' with h0 | ⟨c, hc, hk⟩
        · rw [hres] at h0; rw [h0] at hl; simp at hl
        · rw [hres, hl] at hc
          simp only [Option.some.injEq] at hc
          rcases hk with hk | ⟨p', hk⟩ <;> (rw [← hc] at hk; cases hk)
      | some q' =>
        refine ⟨q', rfl, rfl, ?_⟩
        rw [(Win.win_parent_comps _ q' hbr.wf hp').1, hres]
  · intro hnone
    simp [setFileName, hnone]

/-! ### normalize (C11) -/

theorem withRoot_rooted (p : PrefixComp) (r : List Comp) : withRoot (.pfx p :: .root :: r) = .pfx p :: .root :: r := rfl

/-- pushing portable names one after the other onto a rooted verbatim buffer -/
theorem pushAll_names_verbatim (p : PrefixComp) : ∀ (ns : List Bytes), (∀ s ∈ ns, C16b.portable s) →
    ∀ (buf rest : Bytes) (r : List Comp), VBase buf p rest → comps .windows buf = .pfx p :: .root :: r →
      comps .windows (pushAll .windows buf (ns.map Comp.normal)) = .pfx p :: .root :: (r ++ ns.map Comp.normal) := by
  intro ns
  induction ns with
  | nil => intro _ buf rest r _ hc; simpa [pushAll] using hc
  | cons s ns ih =>
    intro hok buf rest r hb hc
    obtain ⟨h1, rest', hb'⟩ := push_name_verbatim buf s rest p hb (hok s (by simp))
    rw [hc] at h1
    simp only [List.map_cons, pushAll, Comp.bytes]
    have h1' : comps .windows (push .windows buf s) = .pfx p :: .root :: (r ++ [.normal s]) := by
      rw [h1]; rfl
    rw [ih (fun x hx => hok x (by simp [hx])) _ rest' _ hb' h1']
    simp

/-- rendering the prefix, then its root, from the empty buffer -/
theorem push_prefix_verbatim {b rest : Bytes} {p : PrefixComp} (hb : VBase b p rest) :
    push .windows [] p.raw = p.raw ∧ comps .windows p.raw = [.pfx p] ∧
    push .windows p.raw [BSLASH] = p.raw ++ [BSLASH] ∧ VBase (p.raw ++ [BSLASH]) p [BSLASH] ∧
    comps .windows (p.raw ++ [BSLASH]) = [.pfx p, .root] := by
  have hs := stable_of_complete hb.parse hb.complete
  have hok0 : RestOK p [] := by unfold RestOK; cases p.kind <;> trivial
  have hok1 : RestOK p [BSLASH] := by
    unfold RestOK
    cases p.kind <;> first | trivial | exact wsep_bslash _
  have hp0 : parsePrefixComp p.raw = some (p, []) := by simpa using (hs [] hok0).1
  have hp1 : parsePrefixComp (p.raw ++ [BSLASH]) = some (p, [BSLASH]) := (hs _ hok1).1
  have hpo0 : prefixOf p.raw = some p := prefixOf_of_comp hp0
  have hrne : p.raw ≠ [] := by
    intro h0
    have : parsePrefixComp ([] : Bytes) = none := by decide
    rw [h0, this] at hp0; cases hp0
  have e1 : push .windows [] p.raw = p.raw := by
    have hrule : rule [] p.raw = .replace := by
      unfold rule; simp [hrne, hpo0]
    rw [show push .windows [] p.raw = windowsPush [] p.raw from rfl, C08.win_push_bytes _ _ (by rw [hrule]; decide)]
    unfold joinBytes; rw [hrule]
  have c0 : comps .windows p.raw = [.pfx p] := by
    have := comps_of_stable hs [] hok0
    simpa [toks, compsT] using this
  -- the root: verbatim rule with the single incoming component `root`
  have hrule : rule p.raw [BSLASH] = .verbatim := by
    unfold rule baseIsVerbatim
    simp [C16b.prefixOf_none_of_pf [BSLASH] (by decide), hpo0, hb.verbatim]
  have croot : comps .windows [BSLASH] = [.root] := by rw [C03.comps_new_closed]; decide
  have hshape : VShape (normOf p.raw) p [.pfx p, .root] := .rooted [] (by simp)
  obtain ⟨h1, rest', h2, _⟩ := render_parse hp0 hb.complete hb.verbatim _ hshape
  have e2 : push .windows p.raw [BSLASH] = verbatimRender false [.pfx p, .root] := by
    rw [show push .windows p.raw [BSLASH] = windowsPush p.raw [BSLASH] from rfl, C08.win_push_verbatim _ _ hrule]
    unfold verbatimComps
    rw [c0, croot]
    rfl
  have hren : verbatimRender false [.pfx p, .root] = p.raw ++ [BSLASH] := by
    rw [verbatimRender_cons, verbatimRender_cons]
    simp [Comp.bytes, Enc.sepByte, verbatimRender]
  rw [hren] at e2 h1
  exact ⟨e1, c0, e2, ⟨hp1, hb.complete, hb.verbatim, wsep_bslash _⟩, h1⟩

/-- **Windows `normalize` on verbatim-prefixed paths** with portable names. -/
theorem win_normalize_verbatim (b rest : Bytes) (p : PrefixComp) (hb : VBase b p rest)
    (hnames : ∀ s, Comp.normal s ∈ comps .windows b → C16b.portable s) :
    comps .windows (normalize .windows b) = normFold [] (comps .windows b) := by
  obtain ⟨e1, c0, e2, hb1, c1⟩ := push_prefix_verbatim hb
  have hpa : ∀ (l1 l2 : List Comp) (bf : Bytes), pushAll .windows bf (l1 ++ l2) = pushAll .windows (pushAll .windows bf l1) l2 := by
    intro l1
    induction l1 with
    | nil => intro l2 bf; rfl
    | cons c l1 ih => intro l2 bf; simp only [List.cons_append, pushAll]; exact ih l2 _
  have items_ok : ∀ items : List Comp, (∀ c ∈ items, Item (normOf p.raw) c) → ∀ c ∈ items, C11b.bodyOK c := by
    intro items hi c hc
    rcases hi c hc with ⟨h, _⟩ | h | ⟨s, h, _⟩
    · exact Or.inl h
    · exact Or.inr (Or.inl h)
    · exact Or.inr (Or.inr ⟨s, h⟩)
  unfold normalize
  have hsh := hb.shape
  have hs := stable_of_complete hb.parse hb.complete
  have hcb : comps .windows b = .pfx p :: compsT (!normOf p.raw) true (toks (wsep (normOf p.raw)) rest) := by
    rw [← parsePrefixComp_raw hb.parse]; exact comps_of_stable hs rest (restOK_of_complete hb.parse hb.complete)
  generalize hL : comps .windows b = L at hsh hnames hcb
  cases hsh with
    | bare items hi =>
      -- no root: by `head`, nothing follows the prefix at all
      have hitems : items = [] := by
        simp only [List.cons.injEq, true_and] at hcb
        cases hr : rest with
        | nil => rw [hr] at hcb; simpa [toks, compsT] using hcb
        | cons x r =>
          exfalso
          have hx : wsep (normOf p.raw) x = true := by have := hb.head; rw [hr] at this; exact this
          rw [hr] at hcb
          simp only [toks, hx, if_true, compsT_true_cons, headComp] at hcb
          have := (hi .root (by rw [hcb]; simp)).seg.2.2.2.1
          exact this rfl
      subst hitems
      simp only [normFold, Comp.isCur, Comp.isParent, Bool.not_false, Bool.and_self, if_true, List.nil_append,
        pushAll, Comp.bytes]
      rw [e1, c0]
    | rooted items hi =>
      have hfold : normFold [] (.pfx p :: .root :: items) =
          [.pfx p, .root] ++ (C11b.nameFold [] items).map Comp.normal := by
        have h1 : normFold [] (.pfx p :: .root :: items) = normFold [.pfx p, .root] items := by
          simp [normFold, Comp.isCur, Comp.isParent]
        rw [h1]
        have := C11b.normFold_pre [.pfx p, .root] (by intro c hc; simp at hc; subst hc; rfl) items [] (items_ok items hi)
        simpa using this
      have hns : ∀ s ∈ C11b.nameFold [] items, C16b.portable s := by
        intro s hs
        rcases C11b.nameFold_subset items [] s hs with h | h
        · simp at h
        · exact hnames s (by simp [h])
      rw [hfold, hpa]
      have hpre : pushAll .windows [] [.pfx p, .root] = p.raw ++ [BSLASH] := by
        simp only [pushAll, Comp.bytes, Enc.sepByte]; rw [e1, e2]
      rw [hpre, pushAll_names_verbatim p _ hns (p.raw ++ [BSLASH]) [BSLASH] [] hb1 c1]
      simp

/-- the normalised verbatim path contains no `.` and no `..`, and normalising again changes nothing -/
theorem win_normalize_verbatim_no_dots (b rest : Bytes) (p : PrefixComp) (hb : VBase b p rest)
    (hnames : ∀ s, Comp.normal s ∈ comps .windows b → C16b.portable s) :
    (∀ c ∈ comps .windows (normalize .windows b), c ≠ .cur ∧ c ≠ .parent) ∧
    normalize .windows (normalize .windows b) = normalize .windows b := by
  have h := win_normalize_verbatim b rest p hb hnames
  have hnd : ∀ c ∈ comps .windows (normalize .windows b), c ≠ .cur ∧ c ≠ .parent := by
    rw [h]; exact C11b.normFold_no_dots _ [] (by simp)
  refine ⟨hnd, ?_⟩
  unfold normalize at h hnd ⊢
  rw [h] at hnd ⊢
  rw [C11b.normFold_id_of_no_dots _ [] hnd]
  rfl

end TP.C12d
