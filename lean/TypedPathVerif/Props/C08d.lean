/-
Props/C08d.lean — C08 continued: a ROOTED argument joined onto a verbatim-prefixed base.

`Props/C08c` proves the component clause for relative arguments.  Here the argument may start with
a separator: its root resets the buffer to the prefix (followed by the root), and the scan goes on
from there — "a root resetting to the prefix" of the documented rule.
-/
import TypedPathVerif.Props.C08c

namespace TP.C08d

open TP TP.Win TP.JoinRules TP.C08c

theorem verbatimFold_append : ∀ (xs ys L : List Comp),
    verbatimFold L (xs ++ ys) = verbatimFold (verbatimFold L xs) ys := by
  intro xs
  induction xs with
  | nil => intro ys L; rfl
  | cons c xs ih =>
    intro ys L
    cases c with
    | root => simp only [List.cons_append, verbatimFold]; exact ih ys _
    | cur => simp only [List.cons_append, verbatimFold]; exact ih ys _
    | parent =>
      simp only [List.cons_append, verbatimFold]
      cases L.getLast? with
      | none => exact ih ys _
      | some l => cases l <;> exact ih ys _
    | normal s => simp only [List.cons_append, verbatimFold]; exact ih ys _
    | pfx p => simp only [List.cons_append, verbatimFold]; exact ih ys _

/-- incoming components of any prefix-free argument: those of a relative one, or a root -/
def Incoming₀ (n : Bool) (c : Comp) : Prop := c = .root ∨ Incoming n c

/-- the scan keeps the buffer shape also when the argument carries a root -/
theorem fold_vshape_any (n : Bool) (p : PrefixComp) : ∀ (cs L : List Comp), VShape n p L →
    (∀ c ∈ cs, Incoming₀ n c) → VShape n p (verbatimFold L cs) := by
  intro cs
  induction cs with
  | nil => intro L h _; exact h
  | cons c cs ih =>
    intro L hL hcs
    have hrest : ∀ x ∈ cs, Incoming₀ n x := fun x hx => hcs x (by simp [hx])
    have : c :: cs = [c] ++ cs := rfl
    rw [this, verbatimFold_append]
    apply ih _ _ hrest
    rcases hcs c (by simp) with hc | hc
    · subst hc
      simp only [verbatimFold]
      cases hL with
      | bare items hi => exact .rooted [] (by simp)
      | rooted items hi => exact .rooted [] (by simp)
    · exact fold_vshape n p [c] L hL (by intro x hx; simp only [List.mem_singleton] at hx; subst hx; exact hc)

/-- the components of any prefix-free argument are incoming components -/
theorem arg_incoming_any (n : Bool) (q : Bytes) (hq : C16.pfxStart q = false) :
    ∀ c ∈ comps .windows q, Incoming₀ n c := by
  rw [C16.win_comps_pf q hq]
  have tail_ok : ∀ c, C16.tailOKs (wsep true) c → Incoming₀ n c := by
    intro c hc
    rcases hc with hc | ⟨s, hc, h1, h2, h3, h4⟩
    · exact Or.inr (Or.inr (Or.inl hc))
    · refine Or.inr (Or.inr (Or.inr ⟨s, hc, Or.inr (Or.inr ⟨s, rfl, h1, ?_, h3, h4⟩)⟩))
      intro y hy
      exact not_wsep_of_not_anySep (h2 y hy)
  rcases C16.compsT_structure (wsep true) q with h0 | ⟨c, r, h0, hc, hr⟩
  · rw [h0]; simp
  · rw [h0]
    intro x hx
    rcases List.mem_cons.mp hx with hx | hx
    · subst hx
      rcases hc with hc | hc | hc
      · exact Or.inl hc
      · exact Or.inr (Or.inl hc)
      · exact tail_ok _ hc
    · exact tail_ok _ (hr x hx)

/-- **Joining any prefix-free argument — rooted or relative — onto a verbatim-prefixed base**:
the components of the result are the documented scan of the base's and the argument's components
(a root resets to the prefix), root written out; the prefix is kept. -/
theorem win_push_comps_verbatim_any (a q rest : Bytes) (p : PrefixComp)
    (hpa : parsePrefixComp a = some (p, rest)) (hc : Complete p.kind) (hv : isVerbatimKind p.kind = true)
    (hrest : HeadOK (wsep (normOf p.raw)) rest)
    (hqne : q ≠ []) (hq : C16.pfxStart q = false) :
    comps .windows (push .windows a q) = withRoot (verbatimFold (comps .windows a) (comps .windows q)) ∧
    VShape (normOf p.raw) p (verbatimFold (comps .windows a) (comps .windows q)) ∧
    ∃ rest', push .windows a q = p.raw ++ rest' ∧ parsePrefixComp (push .windows a q) = some (p, rest') := by
  have hpo := prefixOf_of_comp hpa
  have hrule : rule a q = .verbatim := by
    unfold rule baseIsVerbatim
    simp [hqne, C16b.prefixOf_none_of_pf q hq, hpo, hv]
  have hbytes := C08.win_push_verbatim a q hrule
  have hshape := fold_vshape_any (normOf p.raw) p (comps .windows q) (comps .windows a) (base_vshape hpa hc hrest)
    (arg_incoming_any _ q hq)
  obtain ⟨h1, rest', h2, h3⟩ := render_parse hpa hc hv _ hshape
  rw [show push .windows a q = windowsPush a q from rfl, hbytes]
  unfold verbatimComps
  exact ⟨h1, hshape, rest', h2, by rw [h2]; exact h3⟩

/-- in particular a rooted argument replaces everything after the prefix: the result is the
prefix, a root, and the scan of the argument's remaining components from there -/
theorem win_push_rooted_onto_verbatim (a q rest : Bytes) (p : PrefixComp) (t : List Comp)
    (hpa : parsePrefixComp a = some (p, rest)) (hc : Complete p.kind) (hv : isVerbatimKind p.kind = true)
    (hrest : HeadOK (wsep (normOf p.raw)) rest) (hqne : q ≠ []) (hq : C16.pfxStart q = false)
    (hroot : comps .windows q = .root :: t) :
    comps .windows (push .windows a q) = withRoot (verbatimFold [.pfx p, .root] t) := by
  rw [(win_push_comps_verbatim_any a q rest p hpa hc hv hrest hqne hq).1, hroot]
  simp only [verbatimFold]
  have : (comps .windows a).take 1 = [.pfx p] := by
    have hb := base_vshape hpa hc hrest
    generalize comps .windows a = L at hb
    cases hb with
    | bare items _ => rfl
    | rooted items _ => rfl
  rw [this]; rfl

end TP.C08d
