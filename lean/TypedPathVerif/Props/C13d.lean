/-
Props/C13d.lean — `set_extension` re-parsed under a verbatim prefix that is stable but not complete.

`C13c.win_set_ext_comps_verbatim` uses completeness of the prefix only through `Win.stable_of_complete` and
`Win.restOK_of_complete`; here the same statement is proved from `Win.Stable p` and `Win.RestOK p rest` (the proof is the
original's with the hypotheses exchanged) and instantiated for `\\?\UNC\server\` (Props/C02d, Props/C08e).
-/
import TypedPathVerif.Props.C13c
import TypedPathVerif.Props.C08e

namespace TP.C13d

open TP TP.Win TP.JoinRules TP.C13c

theorem win_set_ext_comps_verbatim_of_stable (b x f rest : Bytes) (p : PrefixComp)
    (hpp : parsePrefixComp b = some (p, rest)) (hs : Stable p) (hok : RestOK p rest) (hv : isVerbatimKind p.kind = true)
    (h : fileName .windows b = some f) (hx : ∀ y ∈ x, anySep y = false) :
    ∃ st, fileStem .windows b = some st ∧
      let newName := st ++ (if x = [] then [] else DOT :: x)
      (newName ≠ CUR → newName ≠ PAR →
        comps .windows (setExtension .windows b x).1 = (comps .windows b).dropLast ++ [.normal newName] ∧
        ∃ rest', (setExtension .windows b x).1 = p.raw ++ rest' ∧
          parsePrefixComp (setExtension .windows b x).1 = some (p, rest')) := by
  obtain ⟨r, j, st, hts, hjunk, hfj0, hstem, hset⟩ := C13b.set_ext_tokens2 .windows b x f h
  refine ⟨st, hstem, ?_⟩
  intro newName hc hp
  obtain ⟨st', rest0, hst', hf, _⟩ := C13.rsplitDot_stem_prefix f
  have hsteq : st' = st := by
    have : fileStem .windows b = some st' := by simp only [fileStem, h]; exact hst'
    rw [hstem] at this; exact (Option.some.inj this).symm
  subst hsteq
  have hlast := (C12.file_name_iff_last_normal .windows b f).mp h
  -- the parser state of `b`
  generalize hn : normOf p.raw = n at *
  have hnew0 : Enc.new .windows b = { pre := some p, toks := toks (wsep n) rest, atBeg := true, k := !n } := by
    rw [← parsePrefixComp_raw hpp, new_of_stable hs rest hok, hn]
  have htoks : (Enc.new .windows b).toks = toks (wsep n) rest := by rw [hnew0]
  have hk : (Enc.new .windows b).k = !n := by rw [hnew0]
  have hpre : (Enc.new .windows b).preBytes = p.raw := by rw [hnew0]; rfl
  rw [htoks] at hts
  rw [hk] at hjunk hfj0
  have hcb : comps .windows b = .pfx p :: compsT (!n) true (toks (wsep n) rest) := by
    rw [← parsePrefixComp_raw hpp, comps_of_stable hs rest hok, hn]
  -- the file-name token is a normal component
  have hseg : segComp (!n) f = .normal f := by
    rw [hcb, hts, compsT_snoc_seg (!n) r f j hfj0 hjunk] at hlast
    have : (Comp.pfx p :: (frontPartK (!n) r ++ [segComp (!n) f])).getLast? = some (segComp (!n) f) :=
      C13b.C12d_glc (Comp.pfx p :: frontPartK (!n) r) (segComp (!n) f)
    rw [this] at hlast
    exact Option.some.inj hlast
  -- token facts
  have hwf := WFToks_toks (wsep n) rest
  have hwrf : WFToks (wsep n) (r ++ [.seg f]) := by
    rw [hts] at hwf; exact WFToks_prefix _ hwf
  have hwr : WFToks (wsep n) r := WFToks_prefix r hwrf
  have hfok : f ≠ [] ∧ ∀ y ∈ f, wsep n y = false := by
    have := WFToks_suffix r hwrf
    exact ⟨this.1, this.2.1⟩
  have hst_ne : st' ≠ [] := by
    rcases rsplitDot_spec f with ⟨h1, _⟩ | ⟨h1, _⟩ | ⟨bf, af, h1, _, _, hne, _⟩
    · simp [h1] at hst'; rw [← hst']; exact hfok.1
    · simp [h1] at hst'; rw [← hst']; exact hfok.1
    · simp [h1] at hst'; rw [← hst']; exact hne
  have hnn : newName ≠ [] := by
    intro h0
    have : st' = [] := by
      have := congrArg List.length h0
      simp only [newName, List.length_append, List.length_nil] at this
      exact List.eq_nil_of_length_eq_zero (by omega)
    exact hst_ne this
  have hnsep : ∀ y ∈ newName, wsep n y = false := by
    intro y hy
    rcases List.mem_append.mp hy with hy | hy
    · exact hfok.2 y (by rw [hf]; simp [hy])
    · split at hy
      · simp at hy
      · rcases List.mem_cons.mp hy with hy | hy
        · rw [hy]; cases n <;> decide
        · exact not_wsep_of_not_anySep (hx y hy)
  have hwnew := WFToks_replace_last (wsep n) r f newName hwrf hnn hnsep
  have hnj : junk (!n) (.seg newName) = false := by simp [junk, hc]
  have hT : rest = untoks r ++ (f ++ untoks j) := by
    have := untoks_toks (wsep n) rest
    rw [hts] at this
    rw [← this]
    simp [C09.untoks_append, untoks, Tok.bytes, List.append_assoc]
  have hres : (setExtension .windows b x).1 = p.raw ++ (untoks r ++ newName) := by
    rw [hset, hpre]; simp [newName, List.append_assoc]
  -- what follows the prefix in the result is tolerated
  have hok' : RestOK p (untoks r ++ newName) := by
    unfold RestOK at hok ⊢
    cases hk' : p.kind with
    | disk d => trivial
    | verbatimDisk d => trivial
    | deviceNS dev => rw [hk'] at hv; cases hv
    | unc a c => rw [hk'] at hv; cases hv
    | verbatim nm =>
      rw [hk'] at hok
      simp only [hn] at hok ⊢
      have hr : r ≠ [] := by
        intro h0
        subst h0
        rw [hT] at hok
        simp only [untoks, List.nil_append] at hok
        cases hf' : f with
        | nil => exact absurd hf' hfok.1
        | cons y t =>
          rw [hf'] at hok
          have hy : wsep n y = true := hok
          have := hfok.2 y (by rw [hf']; simp)
          rw [hy] at this; cases this
      have hh := head_untoks_snoc (wsep n) r f newName hr hwrf
      cases hu : untoks r ++ newName with
      | nil => trivial
      | cons z zs =>
        rw [hu] at hh
        have hrest2 : rest = untoks (r ++ [.seg f]) ++ untoks j := by
          rw [hT]; simp [C09.untoks_append, untoks, Tok.bytes, List.append_assoc]
        cases hur : untoks (r ++ [.seg f]) with
        | nil => rw [hur] at hh; simp at hh
        | cons y t =>
          rw [hur] at hh
          simp only [List.head?_cons, Option.some.injEq] at hh
          rw [hrest2, hur] at hok
          have : wsep n y = true := hok
          rw [← hh]; exact this
    | verbatimUNC a c =>
      rw [hk'] at hok
      simp only [hn] at hok ⊢
      have hr : r ≠ [] := by
        intro h0
        subst h0
        rw [hT] at hok
        simp only [untoks, List.nil_append] at hok
        cases hf' : f with
        | nil => exact absurd hf' hfok.1
        | cons y t =>
          rw [hf'] at hok
          have hy : wsep n y = true := hok
          have := hfok.2 y (by rw [hf']; simp)
          rw [hy] at this; cases this
      have hh := head_untoks_snoc (wsep n) r f newName hr hwrf
      cases hu : untoks r ++ newName with
      | nil => trivial
      | cons z zs =>
        rw [hu] at hh
        have hrest2 : rest = untoks (r ++ [.seg f]) ++ untoks j := by
          rw [hT]; simp [C09.untoks_append, untoks, Tok.bytes, List.append_assoc]
        cases hur : untoks (r ++ [.seg f]) with
        | nil => rw [hur] at hh; simp at hh
        | cons y t =>
          rw [hur] at hh
          simp only [List.head?_cons, Option.some.injEq] at hh
          rw [hrest2, hur] at hok
          have : wsep n y = true := hok
          rw [← hh]; exact this
  have hcomp := comps_of_stable hs _ hok'
  rw [hn] at hcomp
  refine ⟨?_, untoks r ++ newName, hres, by rw [hres]; exact (hs _ hok').1⟩
  rw [hres, hcomp, hcb, hts, compsT_snoc_seg (!n) r f j hfj0 hjunk, hseg,
    toks_untoks_append_seg (wsep n) r newName hwnew]
  have := compsT_snoc_seg (!n) r newName [] hnj (by simp)
  simp only [List.append_nil] at this
  rw [this]
  have hsn : segComp (!n) newName = .normal newName := by simp [segComp, hp, hc]
  rw [hsn]
  have hdl : (Comp.pfx p :: (frontPartK (!n) r ++ [Comp.normal f])).dropLast = Comp.pfx p :: frontPartK (!n) r := by
    rw [show Comp.pfx p :: (frontPartK (!n) r ++ [Comp.normal f]) = (Comp.pfx p :: frontPartK (!n) r) ++ [Comp.normal f] from rfl,
      List.dropLast_concat]
  rw [hdl]; rfl


/-- `set_extension` under `\\?\UNC\server\` (empty share, the separator inside the prefix) -/
theorem win_set_ext_comps_noshare (b x f rest sv : Bytes) (p : PrefixComp)
    (hpp : parsePrefixComp b = some (p, rest)) (hk : p.kind = .verbatimUNC sv [])
    (hlen : p.raw.length = 8 + sv.length + 1)
    (h : fileName .windows b = some f) (hx : ∀ y ∈ x, anySep y = false) :
    ∃ st, fileStem .windows b = some st ∧
      let newName := st ++ (if x = [] then [] else DOT :: x)
      (newName ≠ CUR → newName ≠ PAR →
        comps .windows (setExtension .windows b x).1 = (comps .windows b).dropLast ++ [.normal newName] ∧
        ∃ rest', (setExtension .windows b x).1 = p.raw ++ rest' ∧
          parsePrefixComp (setExtension .windows b x).1 = some (p, rest')) :=
  win_set_ext_comps_verbatim_of_stable b x f rest p hpp (Win.stable_verbatimUNC_noshare_sep hpp hk hlen)
    (C08e.restOK_noshare hpp hk) (by rw [hk]; rfl) h hx

end TP.C13d
