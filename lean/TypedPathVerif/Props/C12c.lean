/-
Props/C12c.lean — C12 continued: `with_file_name` / `set_file_name` on WINDOWS paths.

For every well-formed Windows base without a verbatim prefix — no prefix-like start at all, or a
complete disk / device-namespace / UNC prefix — and every portable single name `n`
(non-empty, not `.` / `..`, no separator of either kind, no `:`):

* when the base has a file name: the result's file name is `n`, and the result's parent has the
  components of the old parent (with the implicit root of a bare device-namespace / UNC prefix
  written out: `\\s\h\x` → parent `\\s\h\`);
* when it has none: the result is the base joined with `n`.

Bases with a verbatim prefix (rebuilt from components by `push`) and bases that start like a
prefix without forming a complete one (K3) stay with the oracle.
-/
import TypedPathVerif.Lemmas.WinAppend
import TypedPathVerif.Props.C12

namespace TP.C12c

open TP TP.JoinRules

/-- the components with the implicit root of a lone device-namespace / UNC prefix written out -/
def shown : List Comp → List Comp
  | [.pfx p] => (match p.kind with | .disk _ => [.pfx p] | _ => [.pfx p, .root])
  | cs => cs

/-- base shapes covered here -/
def Base (b : Bytes) : Prop :=
  C16.pfxStart b = false ∨
  ∃ p rest, parsePrefixComp b = some (p, rest) ∧ Win.Complete p.kind ∧ isVerbatimKind p.kind = false

theorem Base.wf {b : Bytes} (h : Base b) : Win.WF b := by
  rcases h with h | ⟨p, rest, h1, h2, _⟩
  · exact Or.inl h
  · exact Or.inr ⟨p, rest, h1, h2⟩

/-- the parent of a covered base is covered -/
theorem Base.parent {b q : Bytes} (hb : Base b) (h : parent .windows b = some q) : Base q := by
  obtain ⟨_, hwf⟩ := Win.win_parent_comps b q hb.wf h
  rcases hb with hpf | ⟨p, rest, hp, hc, hnv⟩
  · -- a leading slice of a prefix-free path is prefix-free
    obtain ⟨r, hr⟩ := C09.parent_is_prefix .windows b q h
    rw [hr] at hpf
    exact Or.inl (Win.pfxStart_prefix q r hpf)
  · rcases hwf with hq | ⟨p', rest', hp', hc'⟩
    · exact Or.inl hq
    · -- the parent starts with the same raw prefix, which parses identically (stability)
      refine Or.inr ⟨p', rest', hp', hc', ?_⟩
      -- both parses see the same leading bytes: compare via the first component
      have h1 : comps .windows q = (comps .windows b).dropLast := (Win.win_parent_comps b q (Or.inr ⟨p, rest, hp, hc⟩) h).1
      have hs := Win.stable_of_complete hp hc
      have hcb : comps .windows b = .pfx p :: compsT (!Win.normOf p.raw) true (toks (wsep (Win.normOf p.raw)) rest) := by
        rw [← parsePrefixComp_raw hp]; exact Win.comps_of_stable hs rest (Win.restOK_of_complete hp hc)
      have hs' := Win.stable_of_complete hp' hc'
      have hcq : comps .windows q = .pfx p' :: compsT (!Win.normOf p'.raw) true (toks (wsep (Win.normOf p'.raw)) rest') := by
        rw [← parsePrefixComp_raw hp']; exact Win.comps_of_stable hs' rest' (Win.restOK_of_complete hp' hc')
      rw [hcb, hcq] at h1
      -- the first component of a list and of its dropLast agree when the dropLast is non-empty
      have : (Comp.pfx p' : Comp) = .pfx p := by
        cases hl : compsT (!Win.normOf p.raw) true (toks (wsep (Win.normOf p.raw)) rest) with
        | nil => rw [hl] at h1; simp at h1
        | cons c l => rw [hl] at h1; simp only [List.dropLast_cons₂, List.cons.injEq] at h1; exact h1.1
      have hpp : p' = p := by injection this
      rw [hpp]; exact hnv

theorem comps_portable {n : Bytes} (hn : C16b.portable n) : comps .windows n = [.normal n] :=
  C16b.win_comps_name hn

/-- pushing a portable name onto a covered base appends one normal component (implicit root shown) -/
theorem push_name (q n : Bytes) (hq : Base q) (hn : C16b.portable n) :
    Base (push .windows q n) ∧ comps .windows (push .windows q n) = shown (comps .windows q) ++ [.normal n] := by
  obtain ⟨hnpf, hnrel⟩ := C16b.portable_pf hn
  have hnne : n ≠ [] := hn.1
  have hcn := comps_portable hn
  rcases hq with hpf | ⟨p, rest, hp, hc, hnv⟩
  · by_cases hqe : q = []
    · subst hqe
      rw [C16b.win_push_empty_base n hnne hnpf, hcn]
      have : comps .windows [] = [] := by rw [C03.comps_new_closed]; decide
      rw [this]
      exact ⟨Or.inl hnpf, rfl⟩
    · obtain ⟨h1, h2⟩ := C16b.win_push_comps_pf q n hpf hqe hnne hnpf hnrel
      refine ⟨Or.inl h1, ?_⟩
      rw [show push .windows q n = windowsPush q n from rfl, h2, hcn]
      -- a prefix-free path has no prefix component: `shown` is the identity
      have hnp : ∀ p', comps .windows q ≠ [.pfx p'] := by
        intro p' hE
        rw [C16.win_comps_pf q hpf] at hE
        cases ht : toks (wsep true) q with
        | nil => rw [ht] at hE; simp [compsT] at hE
        | cons t r =>
          rw [ht, compsT_true_cons] at hE
          simp only [List.cons.injEq] at hE
          exact C08.headComp_not_pfx t p' hE.1
      have : shown (comps .windows q) = comps .windows q := by
        unfold shown
        split
        · rename_i p' heq; exact absurd heq (hnp p')
        · rfl
      rw [this]; rfl
  · obtain ⟨hwf, hcomp⟩ := Win.win_push_comps_prefixed q n rest p hp hc hnv hnne hnpf hnrel
    have hb' : Base (windowsPush q n) := by
      rcases hwf with h | ⟨p', rest', hp', hc'⟩
      · exact Or.inl h
      · -- same prefix component as q (first component of the result)
        have hs' := Win.stable_of_complete hp' hc'
        have hcr : comps .windows (windowsPush q n) =
            .pfx p' :: compsT (!Win.normOf p'.raw) true (toks (wsep (Win.normOf p'.raw)) rest') := by
          rw [← parsePrefixComp_raw hp']; exact Win.comps_of_stable hs' rest' (Win.restOK_of_complete hp' hc')
        have hs := Win.stable_of_complete hp hc
        have hcq : comps .windows q = .pfx p :: compsT (!Win.normOf p.raw) true (toks (wsep (Win.normOf p.raw)) rest) := by
          rw [← parsePrefixComp_raw hp]; exact Win.comps_of_stable hs rest (Win.restOK_of_complete hp hc)
        have hfirst : (Comp.pfx p' : Comp) = .pfx p := by
          rw [hcr] at hcomp
          by_cases hrest : rest = []
          · simp only [hrest, if_true] at hcomp
            cases hk : p.kind <;> (rw [hk] at hcomp; simp only [List.cons.injEq] at hcomp; exact hcomp.1)
          · simp only [hrest, if_false, hcq, List.cons_append, List.cons.injEq] at hcomp
            exact hcomp.1
        have hpp : p' = p := by injection hfirst
        exact Or.inr ⟨p', rest', hp', hc', by rw [hpp]; exact hnv⟩
    refine ⟨hb', ?_⟩
    rw [show push .windows q n = windowsPush q n from rfl, hcomp, hcn]
    have hs := Win.stable_of_complete hp hc
    have hcq : comps .windows q = .pfx p :: compsT (!Win.normOf p.raw) true (toks (wsep (Win.normOf p.raw)) rest) := by
      rw [← parsePrefixComp_raw hp]; exact Win.comps_of_stable hs rest (Win.restOK_of_complete hp hc)
    by_cases hrest : rest = []
    · subst hrest
      have hq1 : comps .windows q = [.pfx p] := by rw [hcq]; simp [toks, compsT]
      simp only [if_true, hq1, shown]
      cases hk : p.kind <;> simp [dropLeadingCur]
    · simp only [hrest, if_false]
      have hne : compsT (!Win.normOf p.raw) true (toks (wsep (Win.normOf p.raw)) rest) ≠ [] := by
        cases ht : toks (wsep (Win.normOf p.raw)) rest with
        | nil => exact absurd ((toks_eq_nil_iff _ rest).mp ht) hrest
        | cons t r => rw [compsT_true_cons]; simp
      have : shown (comps .windows q) = comps .windows q := by
        rw [hcq]
        unfold shown
        split
        · rename_i p' heq
          simp only [List.cons.injEq] at heq
          exact absurd heq.2 hne
        · rfl
      rw [this]; rfl

/-- file name and parent of a covered path whose components end with a name -/
theorem fileName_parent_of_comps (b : Bytes) (hb : Base b) (cs : List Comp) (n : Bytes)
    (h : comps .windows b = cs ++ [.normal n]) :
    fileName .windows b = some n ∧ ∃ q, parent .windows b = some q ∧ comps .windows q = cs ∧ Base q := by
  have hfn : fileName .windows b = some n := by
    rw [C12.file_name_iff_last_normal, h]; simp
  refine ⟨hfn, ?_⟩
  cases hp : parent .windows b with
  | none =>
    have := (C09.parent_none_iff .windows b).mp hp
    rcases this with h0 | ⟨c, hc, hk⟩
    · rw [h0] at h; simp at h
    · rw [h] at hc
      simp at hc
      rcases hk with hk | ⟨p, hk⟩ <;> (rw [← hc] at hk; cases hk)
  | some q =>
    refine ⟨q, rfl, ?_, hb.parent hp⟩
    rw [(Win.win_parent_comps b q hb.wf hp).1, h]
    simp

/-- **Windows `with_file_name`** on covered bases with a portable name. -/
theorem win_with_file_name (b n : Bytes) (hb : Base b) (hn : C16b.portable n) :
    (∀ f, fileName .windows b = some f →
      fileName .windows (setFileName .windows b n) = some n ∧
      ∃ q q', parent .windows b = some q ∧ parent .windows (setFileName .windows b n) = some q' ∧
        comps .windows q' = shown (comps .windows q)) ∧
    (fileName .windows b = none → setFileName .windows b n = push .windows b n) := by
  constructor
  · intro f hf
    have hlast := (C12.file_name_iff_last_normal .windows b f).mp hf
    have hcb := list_eq_dropLast_append hlast
    obtain ⟨_, q, hq, hcq, hbq⟩ := fileName_parent_of_comps b hb _ f hcb
    have hset : setFileName .windows b n = push .windows q n := by
      simp only [setFileName, hf, Option.isSome_some, if_true]
      rw [C09.pop_eq_parent, hq]
    obtain ⟨hbr, hres⟩ := push_name q n hbq hn
    rw [hset]
    obtain ⟨h1, q', hq', hcq', _⟩ := fileName_parent_of_comps _ hbr _ n hres
    exact ⟨h1, q, q', hq, hq', hcq'⟩
  · intro hnone
    simp [setFileName, hnone]

/-! ### non-vacuity -/

example : Base [67, 58, 92, 97, 92, 98] := Or.inr ⟨⟨[67, 58], .disk 67⟩, [92, 97, 92, 98], by decide, trivial, rfl⟩
example : setFileName .windows [67, 58, 92, 97, 92, 98] [110] = [67, 58, 92, 97, 92, 110] := by
  unfold setFileName fileName pop parent; decide
example : setFileName .windows [92, 92, 115, 92, 104, 92, 120] [110] = [92, 92, 115, 92, 104, 92, 110] := by
  unfold setFileName fileName pop parent; decide

end TP.C12c
