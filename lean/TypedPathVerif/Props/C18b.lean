/-
Props/C18b.lean — C18 continued: counters cannot overflow.

`push_checked` keeps a count of the normal components seen so far (decremented by `..`).  The
theorems of Props/C18 show that the decrement never underflows; here: the count never exceeds the
number of components scanned, which never exceeds the number of bytes of the argument plus one —
so a counter as wide as the length type (`usize`) cannot overflow, while a narrower one (`i8`,
`u16`, …) can: the bound is attained (`maxCount_attained`).
-/
import TypedPathVerif.Props.C18

namespace TP.C18b

open TP

/-- the largest value the `normal_cnt` counter of `push_checked` takes while scanning `cs`,
starting from `n` (the scan stops at the first error, as the code does) -/
def maxCount (e : Enc) : Nat → List Comp → Nat
  | n, [] => n
  | n, c :: cs =>
    match c with
    | .pfx _ => n
    | .root => n
    | .parent => if n = 0 then n else max n (maxCount e (n - 1) cs)
    | .normal s => if s.any (fun b => (forbidden e).contains b) then n else max n (maxCount e (n + 1) cs)
    | .cur => maxCount e n cs

theorem le_maxCount (e : Enc) : ∀ (cs : List Comp) (n : Nat), n ≤ maxCount e n cs := by
  intro cs
  induction cs with
  | nil => intro n; exact Nat.le_refl _
  | cons c cs ih =>
    intro n
    cases c with
    | pfx p => exact Nat.le_refl _
    | root => exact Nat.le_refl _
    | cur => exact ih n
    | parent => simp only [maxCount]; split <;> omega
    | normal s => simp only [maxCount]; split <;> omega

/-- the counter never exceeds its start plus the number of components scanned -/
theorem maxCount_le (e : Enc) : ∀ (cs : List Comp) (n : Nat), maxCount e n cs ≤ n + cs.length := by
  intro cs
  induction cs with
  | nil => intro n; simp [maxCount]
  | cons c cs ih =>
    intro n
    cases c with
    | pfx p => simp [maxCount]
    | root => simp [maxCount]
    | cur => have := ih n; simp only [maxCount, List.length_cons]; omega
    | parent =>
      simp only [maxCount, List.length_cons]
      split
      · omega
      · have := ih (n - 1); omega
    | normal s =>
      simp only [maxCount, List.length_cons]
      split
      · omega
      · have := ih (n + 1); omega

theorem toks_length_le (f : UInt8 → Bool) : ∀ (b : Bytes), (toks f b).length ≤ b.length := by
  intro b
  induction b with
  | nil => simp [toks]
  | cons x xs ih =>
    simp only [toks]
    split
    · simp only [List.length_cons]; omega
    · split
      · rename_i s r hts
        rw [hts] at ih
        simp only [List.length_cons] at ih ⊢; omega
      · simp only [List.length_cons]; omega

theorem body_length_le (k : Bool) (ts : List Tok) : (body k ts).length ≤ ts.length := by
  unfold body; exact List.length_filterMap_le _ _

theorem compsT_length_le (k : Bool) (ts : List Tok) : (compsT k true ts).length ≤ ts.length := by
  cases ts with
  | nil => simp
  | cons t r =>
    rw [compsT_true_cons]
    have := body_length_le k r
    simp only [List.length_cons]; omega

/-- a path has at most one component per byte (plus the prefix) -/
theorem comps_length_le (e : Enc) (b : Bytes) : (comps e b).length ≤ b.length + 1 := by
  rw [C03.comps_new_closed]
  cases e with
  | unix =>
    simp only [Enc.new, List.nil_append]
    have := compsT_length_le false (toks usep b)
    have := toks_length_le usep b
    omega
  | windows =>
    simp only [Enc.new]
    cases hp : parsePrefixComp b with
    | none =>
      simp only [List.nil_append]
      have := compsT_length_le (!!startsWith b VERB) (toks (wsep (!startsWith b VERB)) b)
      have := toks_length_le (wsep (!startsWith b VERB)) b
      omega
    | some pr =>
      obtain ⟨p, rest⟩ := pr
      have hraw := parsePrefixComp_raw hp
      have hlen : rest.length ≤ b.length := by rw [← hraw, List.length_append]; omega
      simp only [List.singleton_append, List.length_cons]
      have := compsT_length_le (!!startsWith b VERB) (toks (wsep (!startsWith b VERB)) rest)
      have := toks_length_le (wsep (!startsWith b VERB)) rest
      omega

/-- **The `push_checked` counter is bounded by the argument's length (+1)**: for every argument `p`,
the largest value of `normal_cnt` during the scan is at most `p.length + 1`. -/
theorem checked_count_bounded (e : Enc) (p : Bytes) : maxCount e 0 (comps e p) ≤ p.length + 1 := by
  have h1 := maxCount_le e (comps e p) 0
  have h2 := comps_length_le e p
  omega

/-- the bound is attained up to the separators: `n` clean names drive the counter to `n` -/
theorem maxCount_attained (e : Enc) (n : Nat) :
    maxCount e 0 (List.replicate n (.normal [97])) = n := by
  have key : ∀ (m k : Nat), maxCount e k (List.replicate m (Comp.normal [97])) = k + m := by
    intro m
    induction m with
    | zero => intro k; simp [maxCount]
    | succ m ih =>
      intro k
      have hclean : ([97] : Bytes).any (fun b => (forbidden e).contains b) = false := by
        cases e <;> decide
      simp only [List.replicate_succ, maxCount, hclean, Bool.false_eq_true, if_false, ih (k + 1)]
      omega
  simpa using key n 0

/-! ### a counter of limited width -/

/-- the scan of `push_checked` with the counter kept in a type whose largest value is `W`: the
increment faults (`none`) when it would exceed `W`, the decrement is the checked one -/
def checkedScanW (e : Enc) (W : Nat) : Nat → List Comp → Option (Option CheckedErr)
  | _, [] => some none
  | n, c :: cs =>
    match c with
    | .pfx _ => some (some .unexpectedPrefix)
    | .root => some (some .unexpectedRoot)
    | .parent =>
      if n = 0 then some (some .pathTraversal)
      else checkedScanW e W (n - 1) cs
    | .normal s =>
      if s.any (fun b => (forbidden e).contains b) then some (some .invalidFilename)
      else if n + 1 ≤ W then checkedScanW e W (n + 1) cs else none
    | .cur => checkedScanW e W n cs

/-- **with a counter at least as wide as the number of components the scan never faults and is
the model's scan** -/
theorem checkedScanW_eq (e : Enc) (W : Nat) : ∀ (cs : List Comp) (n : Nat), n + cs.length ≤ W →
    checkedScanW e W n cs = some (checkedScan e n cs) := by
  intro cs
  induction cs with
  | nil => intro n _; rfl
  | cons c cs ih =>
    intro n h
    simp only [List.length_cons] at h
    cases c with
    | pfx p => rfl
    | root => rfl
    | cur => simp only [checkedScanW, checkedScan]; exact ih n (by omega)
    | parent =>
      simp only [checkedScanW, checkedScan]
      split
      · rfl
      · exact ih (n - 1) (by omega)
    | normal s =>
      simp only [checkedScanW, checkedScan]
      split
      · rfl
      · rw [if_pos (by omega)]; exact ih (n + 1) (by omega)

/-- in particular a counter as wide as the length type is enough for every argument -/
theorem checked_count_fits_usize (e : Enc) (p : Bytes) (W : Nat) (h : p.length + 1 ≤ W) :
    checkedScanW e W 0 (comps e p) = some (checkedScan e 0 (comps e p)) :=
  checkedScanW_eq e W _ 0 (by have := comps_length_le e p; omega)

/-- … while a narrow one is not: 128 clean names overflow a counter whose largest value is 127
although the model (and the crate) accept them -/
theorem narrow_counter_faults (e : Enc) :
    checkedScanW e 127 0 (List.replicate 128 (.normal [97])) = none ∧
    checkedScan e 0 (List.replicate 128 (.normal [97])) = none := by
  cases e <;> decide

end TP.C18b
