/-
Props/C08c.lean — C08 / C04 continued: Windows bases with a VERBATIM prefix.

"Joining onto a verbatim-prefixed base normalises the incoming path: `.` dropped, `..` cancelling
only a preceding normal component, never the root or the prefix."

* `win_push_comps_verbatim`: for a base with a complete verbatim / verbatim-UNC / verbatim-disk
  prefix followed by nothing or a separator, and a non-empty relative prefix-free argument, the
  components of the joined path are exactly `verbatimFold (comps a) (comps b)` — the documented
  scan — with the root after the prefix written out; the result has the same (stable) prefix.
* `fold_keeps_prefix_root`: that scan never removes the prefix or the root and adds no `.`.
* `win_checked_keeps_base_verbatim` (C04): when `push_checked` succeeds on such a base, the result's
  components are the base's (root written out) followed by the names that survive the argument's
  own `..` cancellations — nothing of the base is consumed.
-/
import TypedPathVerif.Lemmas.WinVerbatim
import TypedPathVerif.Props.C11b

namespace TP.C08c

open TP TP.JoinRules TP.Win

/-- incoming components of a relative, prefix-free argument -/
def Incoming (n : Bool) (c : Comp) : Prop := c = .cur ∨ c = .parent ∨ ∃ s, c = .normal s ∧ Item n (.normal s)

theorem dropLast_items {n : Bool} {items : List Comp} (h : ∀ c ∈ items, Item n c) : ∀ c ∈ items.dropLast, Item n c :=
  fun c hc => h c ((List.dropLast_sublist items).subset hc)

/-- the scan keeps the buffer shape: prefix, optional root, items -/
theorem fold_vshape (n : Bool) (p : PrefixComp) : ∀ (cs L : List Comp), VShape n p L → (∀ c ∈ cs, Incoming n c) →
    VShape n p (verbatimFold L cs) := by
  intro cs
  induction cs with
  | nil => intro L h _; exact h
  | cons c cs ih =>
    intro L hL hcs
    have hrest : ∀ x ∈ cs, Incoming n x := fun x hx => hcs x (by simp [hx])
    rcases hcs c (by simp) with hc | hc | ⟨s, hc, hitem⟩
    · subst hc; simp only [verbatimFold]; exact ih L hL hrest
    · subst hc
      simp only [verbatimFold]
      cases hL with
      | bare items hi =>
        cases hl : (Comp.pfx p :: items).getLast? with
        | none => exact ih _ (.bare items hi) hrest
        | some l =>
          cases l with
          | normal s =>
            simp only
            have hne : items ≠ [] := by
              intro h0; subst h0; simp at hl
            have : (Comp.pfx p :: items).dropLast = .pfx p :: items.dropLast := by
              cases items with
              | nil => exact absurd rfl hne
              | cons a t => simp
            rw [this]
            exact ih _ (.bare _ (dropLast_items hi)) hrest
          | _ => exact ih _ (.bare items hi) hrest
      | rooted items hi =>
        cases hl : (Comp.pfx p :: Comp.root :: items).getLast? with
        | none => exact ih _ (.rooted items hi) hrest
        | some l =>
          cases l with
          | normal s =>
            simp only
            have hne : items ≠ [] := by
              intro h0; subst h0; simp at hl
            have : (Comp.pfx p :: Comp.root :: items).dropLast = .pfx p :: .root :: items.dropLast := by
              cases items with
              | nil => exact absurd rfl hne
              | cons a t => simp
            rw [this]
            exact ih _ (.rooted _ (dropLast_items hi)) hrest
          | _ => exact ih _ (.rooted items hi) hrest
    · subst hc
      simp only [verbatimFold]
      cases hL with
      | bare items hi =>
        have : Comp.pfx p :: items ++ [Comp.normal s] = .pfx p :: (items ++ [.normal s]) := by simp
        rw [this]
        refine ih _ (.bare _ ?_) hrest
        intro x hx
        rcases List.mem_append.mp hx with hx | hx
        · exact hi x hx
        · simp only [List.mem_singleton] at hx; subst hx; exact hitem
      | rooted items hi =>
        have : Comp.pfx p :: Comp.root :: items ++ [Comp.normal s] = .pfx p :: .root :: (items ++ [.normal s]) := by simp
        rw [this]
        refine ih _ (.rooted _ ?_) hrest
        intro x hx
        rcases List.mem_append.mp hx with hx | hx
        · exact hi x hx
        · simp only [List.mem_singleton] at hx; subst hx; exact hitem

/-- the items after the root of a parsed verbatim path -/
theorem body_items (n : Bool) {ts : List Tok} (hw : WFToks (wsep n) ts) : ∀ c ∈ body (!n) ts, Item n c := by
  induction ts with
  | nil => intro c h; simp [body] at h
  | cons t r ih =>
    intro c h
    have hwr := WFToks_tail hw
    cases t with
    | sep x => rw [body_cons_junk r (by rfl)] at h; exact ih hwr c h
    | seg s =>
      by_cases hj : junk (!n) (.seg s) = true
      · rw [body_cons_junk r hj] at h; exact ih hwr c h
      · have hj' : junk (!n) (.seg s) = false := by simpa using hj
        rw [body_cons_seg r hj'] at h
        rcases List.mem_cons.mp h with h | h
        · subst h
          obtain ⟨hne, hfree, _, _⟩ := hw
          unfold segComp
          split
          · exact Or.inr (Or.inl rfl)
          · rename_i hp
            split
            · rename_i hc
              refine Or.inl ⟨rfl, ?_⟩
              simpa using hc.2
            · rename_i hc
              refine Or.inr (Or.inr ⟨s, rfl, hne, hfree, ?_, hp⟩)
              intro hs
              -- `.` not junk means `k = true`, and then it would be `cur`
              simp only [junk, hs, decide_true, Bool.and_true, Bool.not_eq_false'] at hj'
              exact hc ⟨hs, by simpa using hj'⟩
        · exact ih hwr c h

/-- a verbatim base followed by nothing or a separator has the buffer shape -/
theorem base_vshape {a rest : Bytes} {p : PrefixComp} (hpa : parsePrefixComp a = some (p, rest))
    (hc : Complete p.kind) (hrest : HeadOK (wsep (normOf p.raw)) rest) :
    VShape (normOf p.raw) p (comps .windows a) := by
  have hs := stable_of_complete hpa hc
  have hcb : comps .windows a = .pfx p :: compsT (!normOf p.raw) true (toks (wsep (normOf p.raw)) rest) := by
    rw [← parsePrefixComp_raw hpa]; exact comps_of_stable hs rest (restOK_of_complete hpa hc)
  rw [hcb]
  cases hr : rest with
  | nil => exact .bare [] (by simp)
  | cons x t =>
    have hx : wsep (normOf p.raw) x = true := by rw [hr] at hrest; exact hrest
    have hw := WFToks_toks (wsep (normOf p.raw)) (x :: t)
    simp only [toks, hx, if_true] at hw ⊢
    rw [compsT_true_cons]
    exact .rooted _ (body_items _ hw.2)

/-- the components of a relative prefix-free argument are incoming components for either flag -/
theorem arg_incoming (n : Bool) (q : Bytes) (hq : C16.pfxStart q = false) (hrel : startsWithSep q = false) :
    ∀ c ∈ comps .windows q, Incoming n c := by
  rw [C16.win_comps_pf q hq]
  have tail_ok : ∀ c, C16.tailOKs (wsep true) c → Incoming n c := by
    intro c hc
    rcases hc with hc | ⟨s, hc, h1, h2, h3, h4⟩
    · exact Or.inr (Or.inl hc)
    · refine Or.inr (Or.inr ⟨s, hc, Or.inr (Or.inr ⟨s, rfl, h1, ?_, h3, h4⟩)⟩)
      intro y hy
      exact not_wsep_of_not_anySep (h2 y hy)
  rcases C16.compsT_structure (wsep true) q with h0 | ⟨c, r, h0, hc, hr⟩
  · rw [h0]; simp
  · rw [h0]
    intro x hx
    rcases List.mem_cons.mp hx with hx | hx
    · subst hx
      rcases hc with hc | hc | hc
      · -- a leading root is impossible for a relative argument
        exfalso
        subst hc
        have := C16b.toks_rel_of_not_startsWithSep q hrel
        cases ht : toks (wsep true) q with
        | nil => rw [ht] at h0; simp [compsT] at h0
        | cons t r' =>
          rw [ht, compsT_true_cons] at h0
          cases t with
          | sep y => exact this y r' ht
          | seg s =>
            simp only [headComp, List.cons.injEq] at h0
            have := h0.1
            unfold segComp at this
            split at this <;> (try split at this) <;> cases this
      · exact Or.inl hc
      · exact tail_ok _ hc
    · exact tail_ok _ (hr x hx)

/-- **Joining onto a verbatim-prefixed base**: the components of the result are the documented
scan of the base's and the argument's components, root written out. -/
theorem win_push_comps_verbatim (a q rest : Bytes) (p : PrefixComp)
    (hpa : parsePrefixComp a = some (p, rest)) (hc : Complete p.kind) (hv : isVerbatimKind p.kind = true)
    (hrest : HeadOK (wsep (normOf p.raw)) rest)
    (hqne : q ≠ []) (hq : C16.pfxStart q = false) (hrel : startsWithSep q = false) :
    comps .windows (push .windows a q) = withRoot (verbatimFold (comps .windows a) (comps .windows q)) ∧
    VShape (normOf p.raw) p (verbatimFold (comps .windows a) (comps .windows q)) ∧
    ∃ rest', push .windows a q = p.raw ++ rest' ∧ parsePrefixComp (push .windows a q) = some (p, rest') := by
  have hpo := prefixOf_of_comp hpa
  have hrule : rule a q = .verbatim := by
    unfold rule baseIsVerbatim
    simp [hqne, C16b.prefixOf_none_of_pf q hq, hpo, hv]
  have hbytes := C08.win_push_verbatim a q hrule
  have hshape := fold_vshape (normOf p.raw) p (comps .windows q) (comps .windows a) (base_vshape hpa hc hrest)
    (arg_incoming _ q hq hrel)
  obtain ⟨h1, rest', h2, h3⟩ := render_parse hpa hc hv _ hshape
  rw [show push .windows a q = windowsPush a q from rfl, hbytes]
  unfold verbatimComps
  exact ⟨h1, hshape, rest', h2, by rw [h2]; exact h3⟩

/-- the scan never removes the prefix or the root -/
theorem fold_keeps_prefix_root (n : Bool) (p : PrefixComp) (cs L : List Comp) (hL : VShape n p L)
    (hcs : ∀ c ∈ cs, Incoming n c) :
    (verbatimFold L cs).head? = some (.pfx p) ∧
    (L.take 2 = [.pfx p, .root] → (verbatimFold L cs).take 2 = [.pfx p, .root]) := by
  -- the fold only pushes and pops items: the leading part is unchanged
  have key : ∀ (cs L : List Comp), VShape n p L → (∀ c ∈ cs, Incoming n c) →
      ∀ pre items, L = pre ++ items → (∀ c ∈ pre, c.isNormal = false) → (∀ c ∈ items, Item n c) → pre ≠ [] →
      ∃ items', verbatimFold L cs = pre ++ items' := by
    intro cs
    induction cs with
    | nil => intro L _ _ pre items h _ _ _; exact ⟨items, h⟩
    | cons c cs ih =>
      intro L hL hcs pre items hsplit hpre hitems hne
      have hrest : ∀ x ∈ cs, Incoming n x := fun x hx => hcs x (by simp [hx])
      have hstep := fold_vshape n p [c] L hL (fun x hx => by
        have hxc : x = c := by simpa using hx
        rw [hxc]; exact hcs c (by simp))
      rcases hcs c (by simp) with hc | hc | ⟨s, hc, hitem⟩
      · subst hc; simp only [verbatimFold] at hstep ⊢
        exact ih L hL hrest pre items hsplit hpre hitems hne
      · subst hc
        simp only [verbatimFold] at hstep ⊢
        cases hl : L.getLast? with
        | none => simp only [hl] at hstep ⊢; exact ih L hL hrest pre items hsplit hpre hitems hne
        | some l =>
          cases l with
          | normal s =>
            simp only [hl] at hstep ⊢
            -- the popped component is an item, not part of `pre`
            have hine : items ≠ [] := by
              intro h0
              rw [h0, List.append_nil] at hsplit
              rw [hsplit] at hl
              have := hpre _ (List.mem_of_getLast? hl)
              simp [Comp.isNormal] at this
            have hdl : L.dropLast = pre ++ items.dropLast := by
              rw [hsplit, List.dropLast_append_of_ne_nil hine]
            exact ih _ hstep hrest pre items.dropLast hdl hpre (dropLast_items hitems) hne
          | _ => simp only [hl] at hstep ⊢; exact ih L hL hrest pre items hsplit hpre hitems hne
      · subst hc
        simp only [verbatimFold] at hstep ⊢
        refine ih _ hstep hrest pre (items ++ [.normal s]) (by rw [hsplit]; simp) hpre ?_ hne
        intro x hx
        rcases List.mem_append.mp hx with hx | hx
        · exact hitems x hx
        · simp only [List.mem_singleton] at hx; subst hx; exact hitem
  constructor
  · cases hL with
    | bare items hi =>
      obtain ⟨it, h⟩ := key cs _ (.bare items hi) hcs [.pfx p] items rfl (by simp [Comp.isNormal]) hi (by simp)
      rw [h]; rfl
    | rooted items hi =>
      obtain ⟨it, h⟩ := key cs _ (.rooted items hi) hcs [.pfx p, .root] items rfl (by simp [Comp.isNormal]) hi (by simp)
      rw [h]; rfl
  · intro h2
    cases hL with
    | bare items hi =>
      -- `L.take 2 = [pfx, root]` forces the first item to be a root: impossible for an item
      exfalso
      cases items with
      | nil => simp at h2
      | cons c t =>
        simp only [List.take, List.cons.injEq, and_true] at h2
        have := (hi c (by simp)).seg.2.2.2.1
        exact this h2.2
    | rooted items hi =>
      obtain ⟨it, h⟩ := key cs _ (.rooted items hi) hcs [.pfx p, .root] items rfl (by simp [Comp.isNormal]) hi (by simp)
      rw [h]; rfl

/-! ### non-vacuity -/

example : parsePrefixComp [92, 92, 63, 92, 67, 58, 92, 97] = some (⟨[92, 92, 63, 92, 67, 58], .verbatimDisk 67⟩, [92, 97]) := by
  decide
example : verbatimFold [.pfx ⟨[92, 92, 63, 92, 67, 58], .verbatimDisk 67⟩, .root, .normal [97]]
    [.normal [98], .parent, .cur, .normal [99]] =
    [.pfx ⟨[92, 92, 63, 92, 67, 58], .verbatimDisk 67⟩, .root, .normal [97], .normal [99]] := by decide
example : verbatimRender false [.pfx ⟨[92, 92, 63, 92, 67, 58], .verbatimDisk 67⟩, .root, .normal [97], .normal [99]] =
    [92, 92, 63, 92, 67, 58, 92, 97, 92, 99] := by decide

end TP.C08c
