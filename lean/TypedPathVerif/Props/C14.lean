/-
Props/C14.lean — UTF-8 path types are faithful, panic-free views of the byte path types.

What a theorem can carry here is the invariant the `from_utf8_unchecked` / `as_mut_vec` code of
the UTF-8 wrappers relies on: **every byte string the byte-level operations hand out, and every
buffer after any mutation, is valid UTF-8 whenever the inputs are** (equivalently: every cut is
on a character boundary).  Proved for the model, both encodings.  That each of the ~40 UTF-8
wrapper methods calls the right byte method is decided by the correspondence (UTF-8 family vs
byte family transcripts), not by a theorem.
-/
import TypedPathVerif.Lemmas.Utf8
import TypedPathVerif.Props.C13
import TypedPathVerif.Props.C08
import TypedPathVerif.Props.C04
import TypedPathVerif.Generated.Api

namespace TP.C14

open TP Utf8

/-! ### separators are ASCII -/

theorem usep_ascii : asciiSeps usep := by
  intro x hx
  have : x = SLASH := by simpa [usep] using hx
  subst this; decide

theorem wsep_ascii (norm : Bool) : asciiSeps (wsep norm) := by
  intro x hx
  simp only [wsep, Bool.or_eq_true, decide_eq_true_eq, Bool.and_eq_true] at hx
  rcases hx with h | ⟨_, h⟩ <;> (subst h; decide)

theorem valid_singleton_ascii (x : UInt8) (h : isAscii x = true) : Valid [x] := Valid.ascii x [] h Valid.nil
theorem valid_CUR : Valid CUR := valid_singleton_ascii DOT (by decide)
theorem valid_PAR : Valid PAR := Valid.ascii DOT _ (by decide) valid_CUR

/-! ### the prefix is cut on a character boundary -/

theorem takeNormal_rest {norm : Bool} {b n r : Bytes} (h : takeNormal norm b = some (n, r)) :
    r = [] ∨ ∃ x r', r = x :: r' ∧ isAscii x = true := by
  unfold takeNormal at h
  simp only at h
  split at h
  · cases h
  · simp only [Option.some.injEq, Prod.mk.injEq] at h
    rw [← h.2]
    cases hd : b.dropWhile (fun x => !wsep norm x) with
    | nil => left; rfl
    | cons x r' =>
      right
      refine ⟨x, r', rfl, ?_⟩
      have := List.head?_dropWhile_not (fun x => !wsep norm x) b
      rw [hd] at this
      simp only [List.head?_cons, Option.all_some, Bool.not_not] at this
      exact wsep_ascii norm x (by simpa using this)

theorem takeNormal_none_rest {norm : Bool} {b : Bytes} (h : takeNormal norm b = none) :
    b = [] ∨ ∃ x r', b = x :: r' ∧ isAscii x = true := by
  unfold takeNormal at h
  simp only at h
  split at h
  · rename_i hn
    cases b with
    | nil => left; rfl
    | cons x r' =>
      right
      refine ⟨x, r', rfl, ?_⟩
      simp only [List.takeWhile_cons] at hn
      split at hn
      · cases hn
      · rename_i hx
        exact wsep_ascii norm x (by simpa using hx)
  · cases h

/-- where a cut is harmless: the right part is empty or starts with an ASCII byte -/
def cutOK (r : Bytes) : Prop := r = [] ∨ ∃ x r', r = x :: r' ∧ isAscii x = true

theorem serverShare_rest {norm : Bool} {b sv sh r : Bytes} (h : serverShare norm b = some (sv, sh, r)) :
    cutOK r := by
  unfold serverShare at h
  cases h1 : takeNormal norm b with
  | none => simp [h1] at h
  | some x =>
    obtain ⟨server, r1⟩ := x
    simp only [h1] at h
    cases h2 : takeNormal norm (maybeSep norm r1) with
    | none =>
      simp only [h2, Option.some.injEq, Prod.mk.injEq] at h
      rw [← h.2.2]; exact takeNormal_none_rest h2
    | some y =>
      obtain ⟨share, r2⟩ := y
      simp only [h2, Option.some.injEq, Prod.mk.injEq] at h
      rw [← h.2.2]; exact takeNormal_rest h2

theorem diskByte_colon {b r : Bytes} {d : UInt8} (h : diskByte b = some (d, r)) : ∃ x, b = x :: COLON :: r := by
  match b, h with
  | x :: c :: rest, h =>
    simp only [diskByte] at h
    split at h
    · rename_i hx
      simp only [Bool.and_eq_true, decide_eq_true_eq] at hx
      simp only [Option.some.injEq, Prod.mk.injEq] at h
      exact ⟨x, by rw [hx.2, h.2]⟩
    · cases h

/-- after the prefix: either a harmless cut, or the prefix text ends with `:` -/
theorem parsePrefix_cut {b rest : Bytes} {k : WPrefix} (h : parsePrefix b = some (k, rest)) :
    cutOK rest ∨ ∃ a, b = a ++ COLON :: rest := by
  unfold parsePrefix at h
  cases h1 : prefixVerbatimUNC b with
  | some x =>
    simp only [h1, Option.orElse_some, Option.some.injEq] at h
    subst h
    left
    unfold prefixVerbatimUNC at h1
    simp only at h1
    cases hv : verbatimHdr b with
    | none => simp [hv] at h1
    | some r1 =>
      simp only [hv] at h1
      cases hu : takeUNC r1 with
      | none => simp [hu] at h1
      | some r2 =>
        simp only [hu] at h1
        cases hs : takeSep (!startsWith b VERB) r2 with
        | none => simp [hs] at h1
        | some r3 =>
          simp only [hs] at h1
          cases hss : serverShare (!startsWith b VERB) r3 with
          | none => simp [hss] at h1
          | some y =>
            obtain ⟨sv, sh, r4⟩ := y
            simp only [hss, Option.some.injEq, Prod.mk.injEq] at h1
            rw [← h1.2]; exact serverShare_rest hss
  | none =>
    simp only [h1, Option.orElse_none] at h
    cases h2 : prefixVerbatimDisk b with
    | some x =>
      simp only [h2, Option.orElse_some, Option.some.injEq] at h
      subst h
      right
      unfold prefixVerbatimDisk at h2
      cases hv : verbatimHdr b with
      | none => simp [hv] at h2
      | some r1 =>
        simp only [hv] at h2
        cases hd : diskByte r1 with
        | none => simp [hd] at h2
        | some y =>
          obtain ⟨d, r2⟩ := y
          simp only [hd, Option.some.injEq, Prod.mk.injEq] at h2
          obtain ⟨x0, hx0⟩ := diskByte_colon hd
          obtain ⟨pre, hpre⟩ := verbatimHdr_suffix hv
          rw [← h2.2]
          exact ⟨pre ++ [x0], by rw [hpre, hx0]; simp⟩
    | none =>
      simp only [h2, Option.orElse_none] at h
      cases h3 : prefixVerbatim b with
      | some x =>
        simp only [h3, Option.orElse_some, Option.some.injEq] at h
        subst h
        left
        unfold prefixVerbatim at h3
        split at h3
        · cases h3
        · split at h3
          · cases h3
          · simp only at h3
            cases hv : verbatimHdr b with
            | none => simp [hv] at h3
            | some r1 =>
              simp only [hv] at h3
              cases ht : takeNormal (!startsWith b VERB) r1 with
              | some y =>
                obtain ⟨name, r2⟩ := y
                simp only [ht, Option.some.injEq, Prod.mk.injEq] at h3
                rw [← h3.2]; exact takeNormal_rest ht
              | none =>
                simp only [ht] at h3
                cases hs : takeSep (!startsWith b VERB) r1 with
                | none => simp [hs] at h3
                | some r3 =>
                  simp only [hs, Option.some.injEq, Prod.mk.injEq] at h3
                  rw [← h3.2]; exact takeNormal_none_rest ht
      | none =>
        simp only [h3, Option.orElse_none] at h
        cases h4 : prefixDeviceNS b with
        | some x =>
          simp only [h4, Option.orElse_some, Option.some.injEq] at h
          subst h
          left
          match b, h4 with
          | a :: b' :: d :: c :: rr, h4 =>
            simp only [prefixDeviceNS] at h4
            split at h4
            · cases ht : takeNormal true rr with
              | none => simp [ht] at h4
              | some y =>
                obtain ⟨dev, r2⟩ := y
                simp only [ht, Option.some.injEq, Prod.mk.injEq] at h4
                rw [← h4.2]; exact takeNormal_rest ht
            · cases h4
        | none =>
          simp only [h4, Option.orElse_none] at h
          cases h5 : prefixUNC b with
          | some x =>
            simp only [h5, Option.orElse_some, Option.some.injEq] at h
            subst h
            left
            match b, h5 with
            | a :: b' :: rr, h5 =>
              simp only [prefixUNC] at h5
              split at h5
              · cases hss : serverShare true rr with
                | none => simp [hss] at h5
                | some y =>
                  obtain ⟨sv, sh, r2⟩ := y
                  simp only [hss, Option.some.injEq, Prod.mk.injEq] at h5
                  rw [← h5.2]; exact serverShare_rest hss
              · cases h5
          | none =>
            simp only [h5, Option.orElse_none] at h
            right
            unfold prefixDisk at h
            cases hd : diskByte b with
            | none => simp [hd] at h
            | some y =>
              obtain ⟨d, r2⟩ := y
              simp only [hd, Option.some.injEq, Prod.mk.injEq] at h
              obtain ⟨x0, hx0⟩ := diskByte_colon hd
              rw [← h.2]
              exact ⟨[x0], by rw [hx0]; rfl⟩

/-- the prefix text and the rest of a valid path are both valid -/
theorem prefix_split_valid {b rest : Bytes} {p : PrefixComp} (h : parsePrefixComp b = some (p, rest))
    (hv : Valid b) : Valid p.raw ∧ Valid rest := by
  have hraw := parsePrefixComp_raw h
  unfold parsePrefixComp at h
  cases hp : parsePrefix b with
  | none => simp [hp] at h
  | some x =>
    obtain ⟨k, r⟩ := x
    simp only [hp, Option.some.injEq, Prod.mk.injEq] at h
    obtain ⟨_, hr⟩ := h
    subst hr
    rcases parsePrefix_cut hp with hc | ⟨a, ha⟩
    · rw [← hraw] at hv
      exact Valid.split_at hv hc
    · -- the raw text ends with `:`
      have hraw' : p.raw = a ++ [COLON] := by
        have : p.raw ++ r = (a ++ [COLON]) ++ r := by rw [hraw, ha]; simp
        exact List.append_cancel_right this
      rw [ha] at hv
      obtain ⟨h1, h2, h3⟩ := Valid.split_ascii (by decide : isAscii COLON = true) hv
      rw [hraw']
      exact ⟨Valid.append h1 h2, h3⟩

/-! ### tokens, prefix and names of a valid path -/

/-- a state all of whose pieces are valid -/
def StValid (st : PState) : Prop := Valid st.preBytes ∧ ∀ t ∈ st.toks, Valid t.bytes

/-- everything a fresh parser state holds is valid: the prefix text and every token -/
theorem new_valid (e : Enc) (b : Bytes) (hv : Valid b) : StValid (e.new b) := by
  unfold StValid
  cases e with
  | unix =>
    simp only [Enc.new, PState.preBytes]
    refine ⟨Valid.nil, tokens_valid usep_ascii _ (WFToks_toks usep b) ?_⟩
    rw [untoks_toks]; exact hv
  | windows =>
    rcases C08.new_windows_cases b with ⟨_, h2⟩ | ⟨p, rest, h1, _, h2⟩
    · rw [h2]
      simp only [PState.preBytes]
      refine ⟨Valid.nil, tokens_valid (wsep_ascii _) _ (WFToks_toks _ b) ?_⟩
      rw [untoks_toks]; exact hv
    · rw [h2]
      simp only [PState.preBytes]
      obtain ⟨hp, hr⟩ := prefix_split_valid h1 hv
      refine ⟨hp, tokens_valid (wsep_ascii _) _ (WFToks_toks _ rest) ?_⟩
      rw [untoks_toks]; exact hr

theorem StValid.remaining {st : PState} (h : StValid st) : Valid st.remaining :=
  Valid.append h.1 (untoks_valid _ h.2)

theorem StValid.front {st st' : PState} {c : Comp} (h : StValid st) (hf : st.nextFront = some (c, st')) :
    StValid st' ∧ Valid (c.bytes .unix) ∧ Valid (c.bytes .windows) := by
  unfold PState.nextFront at hf
  cases hp : st.pre with
  | some p =>
    simp only [hp, Option.some.injEq, Prod.mk.injEq] at hf
    rw [← hf.1, ← hf.2]
    have hraw : Valid p.raw := by have := h.1; simp only [PState.preBytes, hp] at this; exact this
    exact ⟨⟨by simp [PState.preBytes, Valid.nil], h.2⟩, hraw, hraw⟩
  | none =>
    simp only [hp] at hf
    cases hft : frontT st.k st.atBeg st.toks with
    | none => simp [hft] at hf
    | some r =>
      obtain ⟨c', ts'⟩ := r
      simp only [hft, Option.some.injEq, Prod.mk.injEq] at hf
      obtain ⟨p', hp'⟩ := frontT_suffix hft
      rw [← hf.1, ← hf.2]
      refine ⟨⟨by simpa [PState.preBytes, hp] using h.1, fun t ht => h.2 t (by rw [hp']; simp [ht])⟩, ?_⟩
      -- the component's text
      cases hts : st.toks with
      | nil => rw [hts] at hft; simp [frontT] at hft
      | cons t r =>
        rw [hts] at hft
        have hvt : Valid t.bytes := h.2 t (by rw [hts]; simp)
        cases t with
        | sep x =>
          simp only [frontT] at hft
          split at hft
          · simp only [Option.some.injEq, Prod.mk.injEq] at hft
            rw [← hft.1]
            exact ⟨valid_singleton_ascii _ (by decide), valid_singleton_ascii _ (by decide)⟩
          · cases hft
        | seg s =>
          simp only [frontT, Option.some.injEq, Prod.mk.injEq] at hft
          rw [← hft.1]
          unfold segComp
          split
          · exact ⟨valid_PAR, valid_PAR⟩
          · split
            · exact ⟨valid_CUR, valid_CUR⟩
            · exact ⟨hvt, hvt⟩

theorem segComp_bytes_valid (c : Bool) (s : Bytes) (hs : Valid s) (e : Enc) : Valid ((segComp c s).bytes e) := by
  unfold segComp
  split
  · exact valid_PAR
  · split
    · exact valid_CUR
    · exact hs

theorem headComp_bytes_valid (t : Tok) (ht : Valid t.bytes) (e : Enc) : Valid ((headComp t).bytes e) := by
  cases t with
  | sep x => cases e <;> exact valid_singleton_ascii _ (by decide)
  | seg s => exact segComp_bytes_valid true s ht e

theorem StValid.back {st st' : PState} {c : Comp} (h : StValid st) (hb : st.nextBack = some (c, st')) :
    StValid st' ∧ Valid (c.bytes .unix) ∧ Valid (c.bytes .windows) := by
  unfold PState.nextBack at hb
  split at hb
  · cases hbt : backT st.k st.atBeg st.toks with
    | none => simp [hbt] at hb
    | some r =>
      obtain ⟨c', ts'⟩ := r
      simp only [hbt, Option.some.injEq, Prod.mk.injEq] at hb
      obtain ⟨q, hq⟩ := backT_prefix hbt
      rw [← hb.1, ← hb.2]
      refine ⟨⟨h.1, fun t ht => h.2 t (by rw [hq]; simp [ht])⟩, ?_⟩
      -- the component's text: a front component of the same tokens, or the last segment
      unfold backT at hbt
      simp only at hbt
      split at hbt
      · cases hts : st.toks with
        | nil => rw [hts] at hbt; simp [frontT] at hbt
        | cons t r =>
          rw [hts] at hbt
          have hvt : Valid t.bytes := h.2 t (by rw [hts]; simp)
          cases hbeg : st.atBeg with
          | false => rename_i hc; rw [hbeg] at hc; cases hc.1
          | true =>
            rw [hbeg, frontT_cons_true] at hbt
            simp only [Option.map_some, Option.some.injEq, Prod.mk.injEq] at hbt
            rw [← hbt.1]
            exact ⟨headComp_bytes_valid t hvt .unix, headComp_bytes_valid t hvt .windows⟩
      · split at hbt
        · rename_i s hlast
          simp only [Option.some.injEq, Prod.mk.injEq] at hbt
          rw [← hbt.1]
          obtain ⟨j, hj, _⟩ := skipBack_split st.k st.toks
          have hmem : Tok.seg s ∈ st.toks := by
            rw [hj, list_eq_dropLast_append hlast]; simp
          have hvs : Valid s := h.2 _ hmem
          exact ⟨segComp_bytes_valid _ s hvs .unix, segComp_bytes_valid _ s hvs .windows⟩
        · cases hbt
  · cases hp : st.pre with
    | none => simp [hp] at hb
    | some p =>
      simp only [hp, Option.some.injEq, Prod.mk.injEq] at hb
      rw [← hb.1, ← hb.2]
      have hraw : Valid p.raw := by have := h.1; simp only [PState.preBytes, hp] at this; exact this
      exact ⟨⟨by simp [PState.preBytes, Valid.nil], h.2⟩, hraw, hraw⟩

/-- **Every interleaving**: after any sequence of front/back steps on a valid path, the
remaining text (`Components::as_str`) is valid UTF-8. -/
theorem remaining_valid (e : Enc) (b : Bytes) (hv : Valid b) (steps : List Bool) :
    Valid (runSteps (e.new b) steps).2.remaining := by
  have key : ∀ (steps : List Bool) (st : PState), StValid st → StValid (runSteps st steps).2 := by
    intro steps
    induction steps with
    | nil => intro st h; exact h
    | cons s ss ih =>
      intro st h
      simp only [runSteps]
      cases s with
      | false =>
        simp only [Bool.false_eq_true, if_false]
        cases hf : st.nextFront with
        | none => exact ih st h
        | some r => exact ih r.2 (h.front hf).1
      | true =>
        simp only [if_true]
        cases hb : st.nextBack with
        | none => exact ih st h
        | some r => exact ih r.2 (h.back hb).1
  exact (key steps _ (new_valid e b hv)).remaining

/-- every component's text is valid -/
theorem comps_bytes_valid (e : Enc) (b : Bytes) (hv : Valid b) :
    ∀ c ∈ comps e b, Valid (c.bytes .unix) ∧ Valid (c.bytes .windows) := by
  have key : ∀ (n : Nat) (st : PState), st.size ≤ n → StValid st →
      ∀ c ∈ st.comps, Valid (c.bytes .unix) ∧ Valid (c.bytes .windows) := by
    intro n
    induction n with
    | zero =>
      intro st hn h c hc
      rw [comps_unfold] at hc
      cases hf : st.nextFront with
      | none => simp [hf] at hc
      | some r => have := nextFront_size hf; omega
    | succ n ih =>
      intro st hn h c hc
      rw [comps_unfold] at hc
      cases hf : st.nextFront with
      | none => simp [hf] at hc
      | some r =>
        obtain ⟨c0, st'⟩ := r
        simp only [hf] at hc
        obtain ⟨h1, h2, h3⟩ := h.front hf
        rcases List.mem_cons.mp hc with h' | h'
        · rw [h']; exact ⟨h2, h3⟩
        · exact ih st' (by have := nextFront_size hf; omega) h1 c h'
  exact key _ _ (Nat.le_refl _) (new_valid e b hv)

/-! ### queries hand out valid strings -/

theorem parent_valid (e : Enc) (b q : Bytes) (hv : Valid b) (h : parent e b = some q) : Valid q := by
  unfold parent at h
  cases hb : (e.new b).nextBack with
  | none => simp [hb] at h
  | some r =>
    obtain ⟨c, st⟩ := r
    simp only [hb] at h
    split at h
    · simp only [Option.some.injEq] at h
      rw [← h]; exact ((new_valid e b hv).back hb).1.remaining
    · cases h

theorem file_name_valid (e : Enc) (b f : Bytes) (hv : Valid b) (h : fileName e b = some f) : Valid f := by
  unfold fileName at h
  cases hb : (e.new b).nextBack with
  | none => simp [hb] at h
  | some r =>
    obtain ⟨c, st⟩ := r
    have := ((new_valid e b hv).back hb).2.1
    cases c <;> simp [hb] at h
    subst h
    exact this

theorem stem_ext_valid (e : Enc) (b : Bytes) (hv : Valid b) :
    (∀ st, fileStem e b = some st → Valid st) ∧ (∀ x, extension e b = some x → Valid x) := by
  cases hf : fileName e b with
  | none => simp [fileStem, extension, hf]
  | some f =>
    have hfv := file_name_valid e b f hv hf
    rcases C12.stem_ext_split e b f hf with ⟨h1, h2, _⟩ | ⟨st, x, h1, h2, h3, _, _, _⟩
    · rw [h1, h2]
      exact ⟨fun st hst => by simp at hst; rw [← hst]; exact hfv, fun x hx => by cases hx⟩
    · rw [h1, h2]
      rw [← h3] at hfv
      obtain ⟨hs, _, hx⟩ := Valid.split_ascii (by decide : isAscii DOT = true) hfv
      exact ⟨fun st' hst => by simp at hst; rw [← hst]; exact hs, fun x' hx' => by simp at hx'; rw [← hx']; exact hx⟩

theorem strip_prefix_valid (e : Enc) (p q r : Bytes) (hv : Valid p) (h : stripPrefix e p q = some r) : Valid r := by
  unfold stripPrefix at h
  have key : ∀ (ys : List Comp) (s s' : PState), StValid s → iterAfter e s ys = some s' → StValid s' := by
    intro ys
    induction ys with
    | nil => intro s s' hs h; simp only [iterAfter, Option.some.injEq] at h; rw [← h]; exact hs
    | cons y ys ih =>
      intro s s' hs h
      simp only [iterAfter] at h
      cases hf : s.nextFront with
      | none => simp [hf] at h
      | some r =>
        obtain ⟨x, s1⟩ := r
        simp only [hf] at h
        split at h
        · exact ih s1 s' (hs.front hf).1 h
        · cases h
  cases hia : iterAfter e (e.new p) (comps e q) with
  | none => simp [hia] at h
  | some s' =>
    simp only [hia, Option.map_some, Option.some.injEq] at h
    rw [← h]; exact (key _ _ _ (new_valid e p hv) hia).remaining

/-! ### mutations keep the buffer valid -/

theorem take_valid_of_prefix {b q r : Bytes} (hb : b = q ++ r) (hq : Valid q) : Valid (b.take q.length) := by
  rw [hb]; simpa using hq

theorem unix_push_valid (cur p : Bytes) (hc : Valid cur) (hp : Valid p) : Valid (unixPush cur p) := by
  unfold unixPush
  split
  · exact hc
  · split
    · exact hp
    · split
      · exact Valid.append (Valid.append hc (valid_singleton_ascii SLASH (by decide))) hp
      · exact Valid.append hc hp

theorem verbatimFold_valid : ∀ (cs buf : List Comp), (∀ c ∈ buf, Valid (c.bytes .windows)) →
    (∀ c ∈ cs, Valid (c.bytes .windows)) → ∀ c ∈ verbatimFold buf cs, Valid (c.bytes .windows) := by
  intro cs
  induction cs with
  | nil => intro buf hb _; exact hb
  | cons x cs ih =>
    intro buf hb hcs
    have hx := hcs x (by simp)
    have hrest : ∀ c ∈ cs, Valid (c.bytes .windows) := fun c hc => hcs c (by simp [hc])
    cases x with
    | cur => exact ih buf hb hrest
    | root =>
      simp only [verbatimFold]
      apply ih _ _ hrest
      intro c hc
      rcases List.mem_append.mp hc with h | h
      · exact hb c (List.mem_of_mem_take h)
      · simp at h; rw [h]; exact hx
    | parent =>
      simp only [verbatimFold]
      split
      · exact ih _ (fun c hc => hb c ((List.dropLast_sublist buf).subset hc)) hrest
      · exact ih buf hb hrest
    | normal s =>
      simp only [verbatimFold]
      apply ih _ _ hrest
      intro c hc
      rcases List.mem_append.mp hc with h | h
      · exact hb c h
      · simp at h; rw [h]; exact hx
    | pfx p =>
      simp only [verbatimFold]
      apply ih _ _ hrest
      intro c hc
      rcases List.mem_append.mp hc with h | h
      · exact hb c h
      · simp at h; rw [h]; exact hx

theorem verbatimRender_valid : ∀ (cs : List Comp) (needSep : Bool), (∀ c ∈ cs, Valid (c.bytes .windows)) →
    Valid (verbatimRender needSep cs) := by
  intro cs
  induction cs with
  | nil => intro _ _; exact Valid.nil
  | cons c cs ih =>
    intro needSep h
    simp only [verbatimRender]
    refine Valid.append (Valid.append ?_ (h c (by simp))) (ih _ (fun c' hc' => h c' (by simp [hc'])))
    split
    · exact valid_singleton_ascii BSLASH (by decide)
    · exact Valid.nil

theorem rawPrefix_valid (a : Bytes) (ha : Valid a) : Valid (JoinRules.rawPrefix a) := by
  unfold JoinRules.rawPrefix JoinRules.prefixOf
  cases hp : parsePrefixComp a with
  | none => exact Valid.nil
  | some x =>
    obtain ⟨p, rest⟩ := x
    exact (prefix_split_valid hp ha).1

theorem windows_push_valid (cur p : Bytes) (hc : Valid cur) (hp : Valid p) : Valid (windowsPush cur p) := by
  by_cases hr : JoinRules.rule cur p = .verbatim
  · rw [C08.win_push_verbatim cur p hr]
    apply verbatimRender_valid
    unfold JoinRules.verbatimComps
    exact verbatimFold_valid _ _ (fun c hc' => (comps_bytes_valid .windows cur hc c hc').2)
      (fun c hc' => (comps_bytes_valid .windows p hp c hc').2)
  · rw [C08.win_push_bytes cur p hr]
    unfold JoinRules.joinBytes
    cases JoinRules.rule cur p with
    | empty => exact hc
    | replace => exact hp
    | rooted => exact Valid.append (rawPrefix_valid cur hc) hp
    | append =>
      simp only
      split
      · exact Valid.append hc hp
      · exact Valid.append (Valid.append hc (valid_singleton_ascii BSLASH (by decide))) hp
    | verbatim => exact Valid.nil

/-- `push` keeps the buffer valid (both encodings, every argument) -/
theorem push_valid (e : Enc) (cur p : Bytes) (hc : Valid cur) (hp : Valid p) : Valid (push e cur p) := by
  cases e with
  | unix => exact unix_push_valid cur p hc hp
  | windows => exact windows_push_valid cur p hc hp

theorem push_checked_valid (e : Enc) (cur p r : Bytes) (hc : Valid cur) (hp : Valid p)
    (h : pushChecked e cur p = .ok r) : Valid r := by
  rw [C04.checked_ok_eq_push e cur p r h]; exact push_valid e cur p hc hp

theorem pop_valid (e : Enc) (b : Bytes) (hv : Valid b) : Valid (pop e b).1 := by
  rw [C09.pop_eq_parent]
  cases hp : parent e b with
  | none => exact hv
  | some q => exact parent_valid e b q hv hp

theorem set_file_name_valid (e : Enc) (b n : Bytes) (hv : Valid b) (hn : Valid n) :
    Valid (setFileName e b n) := by
  unfold setFileName
  simp only
  split
  · exact push_valid e _ n (pop_valid e b hv) hn
  · exact push_valid e b n hv hn

/-- `set_extension` keeps the buffer valid: the cut is on a character boundary.  (This is the
operation whose UTF-8 copy panicked before the `fix:` commit 9e70681.) -/
theorem set_extension_valid (e : Enc) (b x : Bytes) (hv : Valid b) (hx : Valid x) :
    Valid (setExtension e b x).1 := by
  cases hf : fileName e b with
  | none => rw [C13.set_ext_false e b x hf]; exact hv
  | some f =>
    obtain ⟨r, j, st, hts, _, hstem, hset⟩ := C13.set_ext_tokens e b x f hf
    rw [hset]
    have hnew := new_valid e b hv
    have hr : Valid (untoks r) := untoks_valid r (fun t ht => hnew.2 t (by rw [hts]; simp [ht]))
    have hst : Valid st := (stem_ext_valid e b hv).1 st hstem
    refine Valid.append (Valid.append (Valid.append hnew.1 hr) hst) ?_
    split
    · exact Valid.nil
    · exact Valid.ascii DOT x (by decide) hx

/-- `normalize` / `with_encoding`: pushing valid pieces one by one keeps the buffer valid -/
theorem pushAll_valid (e : Enc) : ∀ (cs : List Comp) (buf : Bytes), Valid buf → (∀ c ∈ cs, Valid (c.bytes e)) →
    Valid (pushAll e buf cs) := by
  intro cs
  induction cs with
  | nil => intro buf hb _; exact hb
  | cons c cs ih =>
    intro buf hb h
    exact ih _ (push_valid e buf _ hb (h c (by simp))) (fun c' hc' => h c' (by simp [hc']))

theorem normFold_subset : ∀ (cs stack : List Comp), ∀ c ∈ normFold stack cs, c ∈ stack ∨ c ∈ cs := by
  intro cs
  induction cs with
  | nil => intro stack c hc; exact Or.inl hc
  | cons x cs ih =>
    intro stack c hc
    simp only [normFold] at hc
    split at hc
    · rcases ih _ c hc with h | h
      · rcases List.mem_append.mp h with h | h
        · exact Or.inl h
        · simp at h; exact Or.inr (by simp [h])
      · exact Or.inr (by simp [h])
    · split at hc
      · split at hc
        · split at hc
          · rcases ih _ c hc with h | h
            · exact Or.inl ((List.dropLast_sublist stack).subset h)
            · exact Or.inr (by simp [h])
          · rcases ih _ c hc with h | h
            · exact Or.inl h
            · exact Or.inr (by simp [h])
        · rcases ih _ c hc with h | h
          · exact Or.inl h
          · exact Or.inr (by simp [h])
      · rcases ih _ c hc with h | h
        · exact Or.inl h
        · exact Or.inr (by simp [h])

theorem normalize_valid (e : Enc) (b : Bytes) (hv : Valid b) : Valid (normalize e b) := by
  unfold normalize
  apply pushAll_valid e _ [] Valid.nil
  intro c hc
  rcases normFold_subset _ [] c hc with h | h
  · simp at h
  · have := comps_bytes_valid e b hv c h
    cases e
    · exact this.1
    · exact this.2

theorem convFold_valid (t : Enc) : ∀ (cs : List Comp) (buf : Bytes), Valid buf →
    (∀ c ∈ cs, Valid (c.bytes t)) → Valid (convFold t buf cs) := by
  intro cs
  induction cs with
  | nil => intro buf hb _; exact hb
  | cons c cs ih =>
    intro buf hb h
    have hrest : ∀ c' ∈ cs, Valid (c'.bytes t) := fun c' hc' => h c' (by simp [hc'])
    simp only [convFold]
    split
    · exact ih _ (push_valid t buf _ hb (by cases t <;> exact valid_singleton_ascii _ (by decide))) hrest
    · split
      · exact ih _ (push_valid t buf _ hb valid_CUR) hrest
      · split
        · exact ih _ (push_valid t buf _ hb valid_PAR) hrest
        · split
          · exact ih _ (push_valid t buf _ hb (h c (by simp))) hrest
          · exact ih buf hb hrest

theorem with_encoding_valid (s t : Enc) (b : Bytes) (hv : Valid b) : Valid (withEncoding s t b) := by
  unfold withEncoding
  split
  · exact hv
  · apply convFold_valid t _ [] Valid.nil
    intro c hc
    have := comps_bytes_valid s b hv c hc
    cases t
    · exact this.1
    · exact this.2

/-- **Every mutation history**: starting from a valid buffer and applying any sequence of
push / pop / set_file_name / set_extension with valid arguments, the buffer is valid UTF-8
after every step. -/
inductive Mut where
  | push (p : Bytes) | pop | setFileName (n : Bytes) | setExtension (x : Bytes) | clear

def Mut.argValid : Mut → Prop
  | .push p => Valid p
  | .setFileName n => Valid n
  | .setExtension x => Valid x
  | _ => True

def applyMut (e : Enc) (b : Bytes) : Mut → Bytes
  | .push p => push e b p
  | .pop => (pop e b).1
  | .setFileName n => setFileName e b n
  | .setExtension x => (setExtension e b x).1
  | .clear => []

theorem mutations_valid (e : Enc) : ∀ (ms : List Mut) (b : Bytes), Valid b → (∀ m ∈ ms, m.argValid) →
    Valid (ms.foldl (applyMut e) b) := by
  intro ms
  induction ms with
  | nil => intro b hb _; exact hb
  | cons m ms ih =>
    intro b hb h
    simp only [List.foldl_cons]
    apply ih _ _ (fun m' hm' => h m' (by simp [hm']))
    have hm := h m (by simp)
    cases m with
    | push p => exact push_valid e b p hb hm
    | pop => exact pop_valid e b hb
    | setFileName n => exact set_file_name_valid e b n hb hm
    | setExtension x => exact set_extension_valid e b x hb hm
    | clear => exact Valid.nil

/-! ### Non-vacuity -/

example : Valid [97, 0xC3, 0xA9, 47, 0xE6, 0x97, 0xA5] := (validB_iff _).mp (by decide)
example : ¬ Valid [97, 0xC3] := fun h => by have := (validB_iff _).mpr h; revert this; decide
example : (setExtension .unix [97, 0xC3, 0xA9, 46, 0xC3, 0xA9, 47] [120]).1 = [97, 0xC3, 0xA9, 46, 120] := by decide

/-- every public method the `utf8` group of source files declares now is called by the harness
(regenerated table, gen/api.py): a method added without a transcript line breaks this -/
theorem api_exercised_utf8 : Generated.apiUnexercised_utf8 = [] := rfl

end TP.C14
