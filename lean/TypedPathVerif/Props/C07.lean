/-
Props/C07.lean — Unix path buffers track std::path::PathBuf over every mutation history.

Invariant over histories: the std buffer `s` is the typed-path buffer `m`, or `m` followed by
one separator (which std appends when an *empty* path is pushed).  Hence component equality
throughout, equal Booleans, and byte equality right after any push of a non-empty path.
-/
import TypedPathVerif.Spec.StdBuf
import TypedPathVerif.Lemmas.Append
import TypedPathVerif.Props.C09
import TypedPathVerif.Props.C13

namespace TP.C07

open TP StdBuf

/-- the relation between the two buffers -/
def I (m s : Bytes) : Prop := s = m ∨ (s = m ++ [SLASH] ∧ m ≠ [] ∧ m.getLast? ≠ some SLASH)

theorem unix_isAbsolute_head (p : Bytes) : isAbsolute .unix p = decide (p.head? = some SLASH) := by
  have h1 : isAbsolute .unix p = hasRoot .unix p := rfl
  rw [h1, C01.hasRoot_unix_toks, C01.toks_head_sep]

theorem getLast?_append_singleton (m : Bytes) (x : UInt8) : (m ++ [x]).getLast? = some x := by simp

/-- pushing preserves the relation; after a non-empty push the buffers are byte-identical -/
theorem push_step (m s p : Bytes) (h : I m s) :
    I (unixPush m p) (stdPush s p) ∧ (p ≠ [] → stdPush s p = unixPush m p) := by
  unfold unixPush stdPush
  rw [unix_isAbsolute_head]
  by_cases hp : p = []
  · subst hp
    have hh : ¬ (([] : Bytes).head? = some SLASH) := by simp
    rw [if_neg hh, if_pos rfl]
    refine ⟨?_, fun h0 => absurd rfl h0⟩
    rcases h with h | ⟨h, hm, hl⟩
    · subst h
      by_cases hc : s = [] ∨ s.getLast? = some SLASH
      · rw [if_pos hc]; simp only [List.append_nil]; exact Or.inl rfl
      · rw [if_neg hc]
        simp only [List.append_nil]
        exact Or.inr ⟨rfl, fun h0 => hc (Or.inl h0), fun h0 => hc (Or.inr h0)⟩
    · subst h
      rw [if_pos (Or.inr (getLast?_append_singleton m SLASH))]
      simp only [List.append_nil]
      exact Or.inr ⟨rfl, hm, hl⟩
  · rw [if_neg hp]
    by_cases ha : p.head? = some SLASH
    · rw [if_pos ha, if_pos (by simpa using ha)]
      exact ⟨Or.inl rfl, fun _ => rfl⟩
    · rw [if_neg ha, if_neg (by simpa using ha)]
      rcases h with h | ⟨h, hm, hl⟩
      · subst h
        by_cases hc : s = [] ∨ s.getLast? = some SLASH
        · have hn : ¬ (s ≠ [] ∧ s.getLast? ≠ some SLASH) := by
            intro ⟨h1, h2⟩; rcases hc with hc | hc
            · exact h1 hc
            · exact h2 hc
          rw [if_pos hc, if_neg hn]
          exact ⟨Or.inl rfl, fun _ => rfl⟩
        · have hn : s ≠ [] ∧ s.getLast? ≠ some SLASH :=
            ⟨fun h0 => hc (Or.inl h0), fun h0 => hc (Or.inr h0)⟩
          rw [if_neg hc, if_pos hn]
          exact ⟨Or.inl rfl, fun _ => rfl⟩
      · subst h
        rw [if_pos (Or.inr (getLast?_append_singleton m SLASH)), if_pos ⟨hm, hl⟩]
        exact ⟨Or.inl rfl, fun _ => rfl⟩

/-! a trailing separator does not change what the back parser sees -/

theorem skipBack_append_junk (k : Bool) (ts : List Tok) (t : Tok) (ht : junk k t = true) :
    skipBack k (ts ++ [t]) = skipBack k ts := by
  unfold skipBack
  simp [List.reverse_append, ht]

theorem backT_append_sep (k : Bool) (ts : List Tok) (x : UInt8) (hne : ts ≠ []) :
    backT k true (ts ++ [.sep x]) = backT k true ts := by
  unfold backT
  simp only [skipBack_append_junk k ts (.sep x) (by rfl)]
  cases ts with
  | nil => exact absurd rfl hne
  | cons t r =>
    simp only [List.cons_append, frontT_cons_true, Option.map_some]

theorem nextBack_trailing_sep (m : Bytes) (hm : m ≠ []) :
    (Enc.new .unix (m ++ [SLASH])).nextBack =
      (match (Enc.new .unix m).nextBack with
       | some (c, st) => some (c, st)
       | none => none) := by
  have htoks : toks usep (m ++ [SLASH]) = toks usep m ++ [.sep SLASH] := toks_append_sep_end usep m SLASH usep_slash
  have hne : toks usep m ≠ [] := by rw [ne_eq, toks_eq_nil_iff]; exact hm
  simp only [Enc.new, PState.nextBack, htoks]
  have h1 : toks usep m ++ [Tok.sep SLASH] ≠ [] := by simp
  simp only [h1, ne_eq, not_false_eq_true, if_true, hne, backT_append_sep false _ SLASH hne]
  cases backT false true (toks usep m) with
  | none => rfl
  | some r => rfl

theorem parent_trailing_sep (m : Bytes) (hm : m ≠ []) : parent .unix (m ++ [SLASH]) = parent .unix m := by
  unfold parent
  rw [nextBack_trailing_sep m hm]
  cases (Enc.new .unix m).nextBack with
  | none => rfl
  | some r => rfl

theorem fileName_trailing_sep (m : Bytes) (hm : m ≠ []) : fileName .unix (m ++ [SLASH]) = fileName .unix m := by
  unfold fileName
  rw [nextBack_trailing_sep m hm]
  cases (Enc.new .unix m).nextBack with
  | none => rfl
  | some r => rfl

theorem pop_step (m s : Bytes) (h : I m s) :
    I (pop .unix m).1 (stdPop s).1 ∧ (pop .unix m).2 = (stdPop s).2 := by
  rcases h with h | ⟨h, hm, hl⟩
  · subst h
    simp only [stdPop, pop]
    cases parent .unix s with
    | none => exact ⟨Or.inl rfl, rfl⟩
    | some q => exact ⟨Or.inl rfl, rfl⟩
  · subst h
    simp only [stdPop, pop, parent_trailing_sep m hm]
    cases hpar : parent .unix m with
    | none => exact ⟨Or.inr ⟨rfl, hm, hl⟩, rfl⟩
    | some q =>
      obtain ⟨r, hr⟩ := C09.parent_is_prefix .unix m q hpar
      refine ⟨Or.inl ?_, rfl⟩
      simp only
      conv => lhs; rw [hr]
      conv => rhs; rw [hr]
      simp [List.take_append]

theorem lastCompEnd_trailing_sep (m : Bytes) : lastCompEnd .unix (m ++ [SLASH]) = lastCompEnd .unix m := by
  unfold lastCompEnd
  have htoks : toks usep (m ++ [SLASH]) = toks usep m ++ [.sep SLASH] := toks_append_sep_end usep m SLASH usep_slash
  simp only [Enc.new, htoks, skipBack_append_junk false (toks usep m) (.sep SLASH) (by rfl)]
  rfl

/-- `set_extension` does not see a trailing separator -/
theorem setExtension_trailing_sep (m x : Bytes) (hm : m ≠ []) :
    stdStep (m ++ [SLASH]) (.setExtension x) =
      (match fileName .unix m with
       | some _ => setExtension .unix m x
       | none => (m ++ [SLASH], false)) := by
  simp only [stdStep]
  have hfn := fileName_trailing_sep m hm
  have hfs : fileStem .unix (m ++ [SLASH]) = fileStem .unix m := by unfold fileStem; rw [hfn]
  rw [hfn, hfs, lastCompEnd_trailing_sep]
  cases hf : fileName .unix m with
  | none => rfl
  | some f =>
    obtain ⟨st, rest, hst, hfe, _⟩ := C13.rsplitDot_stem_prefix f
    have hstem : fileStem .unix m = some st := by simp only [fileStem, hf]; exact hst
    simp only [hstem, setExtension, hf]
    -- the cut lies inside `m`
    obtain ⟨r, j, hts, _, hsb⟩ := C13.fileName_tokens .unix m f hf
    have hcut0 : lastCompEnd .unix m = (untoks r ++ f).length := by
      unfold lastCompEnd
      simp only [hsb]
      simp [C09.untoks_append, untoks, Tok.bytes, Enc.new, PState.preBytes]
    have hmlen : (untoks r ++ f).length ≤ m.length := by
      have := new_remaining .unix m
      simp only [PState.remaining, PState.preBytes, Enc.new, List.nil_append] at this
      have hts' : toks usep m = r ++ [.seg f] ++ j := hts
      rw [hts', C09.untoks_append, C09.untoks_append] at this
      rw [← this]
      simp [untoks, Tok.bytes]
    have hle : lastCompEnd .unix m - f.length + st.length ≤ m.length := by
      rw [hcut0]
      have : st.length ≤ f.length := by rw [hfe]; simp
      simp only [List.length_append] at hmlen ⊢
      omega
    rw [List.take_append_of_le_length hle]

theorem step_preserves (m s : Bytes) (op : Op) (h : I m s) :
    I (modelStep m op).1 (stdStep s op).1 ∧ (modelStep m op).2 = (stdStep s op).2 := by
  cases op with
  | push p => exact ⟨(push_step m s p h).1, rfl⟩
  | pop => exact pop_step m s h
  | clear => exact ⟨Or.inl rfl, rfl⟩
  | setFileName n =>
    simp only [modelStep, stdStep, setFileName, and_true]
    have hfn : fileName .unix s = fileName .unix m := by
      rcases h with h | ⟨h, hm, _⟩
      · rw [h]
      · rw [h]; exact fileName_trailing_sep m hm
    rw [hfn]
    cases hf : (fileName .unix m).isSome with
    | true => exact (push_step _ _ n (pop_step m s h).1).1
    | false => exact (push_step m s n h).1
  | setExtension x =>
    rcases h with h | ⟨h, hm, hl⟩
    · subst h
      have : stdStep s (.setExtension x) = setExtension .unix s x := by
        simp only [stdStep, setExtension]
        cases fileName .unix s with
        | none => rfl
        | some f => cases fileStem .unix s <;> rfl
      rw [this]
      exact ⟨Or.inl rfl, rfl⟩
    · subst h
      rw [setExtension_trailing_sep m x hm]
      simp only [modelStep]
      cases hf : fileName .unix m with
      | some f => exact ⟨Or.inl rfl, rfl⟩
      | none =>
        rw [C13.set_ext_false .unix m x hf]
        exact ⟨Or.inr ⟨rfl, hm, hl⟩, rfl⟩

/-- two result lists are related position by position -/
def Related : List (Bytes × Bool) → List (Bytes × Bool) → Prop
  | [], [] => True
  | a :: as, b :: bs => (I a.1 b.1 ∧ a.2 = b.2) ∧ Related as bs
  | _, _ => False

/-- The relation holds after every step of every history, and every Boolean result agrees. -/
theorem unix_history_refines : ∀ (ops : List Op) (m s : Bytes), I m s →
    Related (runModel m ops) (runStd s ops)
  | [], _, _, _ => trivial
  | op :: ops, m, s, h => by
    have hs := step_preserves m s op h
    exact ⟨hs, unix_history_refines ops _ _ hs.1⟩

/-- the related buffers are component-equal -/
theorem I_comps_eq (m s : Bytes) (h : I m s) : comps .unix s = comps .unix m := by
  rcases h with h | ⟨h, hm, _⟩
  · rw [h]
  · rw [h, unix_comps_eq, unix_comps_eq, toks_append_sep_end usep m SLASH usep_slash]
    have := compsT_append_sep false (toks usep m) [] SLASH (by rw [ne_eq, toks_eq_nil_iff]; exact hm)
    simpa using this

/-- Immediately after pushing a non-empty path the two buffers are byte-identical. -/
theorem unix_history_bytes (m s p : Bytes) (h : I m s) (hp : p ≠ []) :
    (stdStep s (.push p)).1 = (modelStep m (.push p)).1 := (push_step m s p h).2 hp

/-! ### Non-vacuity -/

example : I [97] [97, 47] := Or.inr ⟨rfl, by simp, by decide⟩
example : (stdStep [97] (.push [])).1 = [97, 47] ∧ (modelStep [97] (.push [])).1 = [97] := by decide
example : runStd [47, 97] [.push [98], .pop, .setFileName [99]] =
    [([47, 97, 47, 98], true), ([47, 97], true), ([47, 99], true)] := by decide

end TP.C07
