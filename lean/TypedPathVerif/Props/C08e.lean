/-
Props/C08e.lean — joining onto a verbatim-prefixed base whose prefix is *stable* but not complete.

`Win.render_parse`, `C08c.base_vshape` and `C08c.win_push_comps_verbatim` ask for a `Win.Complete` prefix, but use
completeness only through `Win.stable_of_complete` (and `restOK_of_complete`).  Here the same three statements are
proved from `Win.Stable p` and `Win.RestOK p rest` directly (the proofs are those of the originals, with the
hypothesis exchanged), and instantiated for the one incomplete shape that is stable (Props/C02d): a verbatim-UNC
prefix with an empty share whose separator is already inside the prefix, `\\?\UNC\server\`.

* `win_push_comps_verbatim_noshare` — for such a base `a` (followed by nothing or a separator) and a relative
  prefix-free argument `q ≠ ""`: the components of `a.join(q)` are the documented scan of `a`'s and `q`'s components
  with the root written out, the result starts with the same raw prefix and re-parses to the same prefix — in
  particular the first name of `q` does NOT become the share (seed C04r10 made it so).

This is the Lean counterpart of the oracles' wider "well-formed base" (`spec::win_stable_prefix`, DESIGN §2.3).
-/
import TypedPathVerif.Props.C08c
import TypedPathVerif.Props.C02d

namespace TP.Win

open TP TP.JoinRules

/-- `render_parse` from stability alone -/
theorem render_parse_of_stable {p : PrefixComp} (hs : Stable p)
    (hv : isVerbatimKind p.kind = true) (L : List Comp)
    (hL : VShape (normOf p.raw) p L) :
    comps .windows (verbatimRender false L) = withRoot L ∧
    ∃ rest', verbatimRender false L = p.raw ++ rest' ∧ parsePrefixComp (p.raw ++ rest') = some (p, rest') := by
  have hneedSep := nextSep_verbatim hv
  -- rests that start with `\` (or are empty) are tolerated by every kind
  have hok : ∀ R : Bytes, (R = [] ∨ ∃ t, R = BSLASH :: t) → RestOK p R := by
    intro R hR
    unfold RestOK
    cases p.kind <;> first | trivial | (rcases hR with h | ⟨t, h⟩ <;> (subst h; first | trivial | exact wsep_bslash _))
  have fin : ∀ R : Bytes, (R = [] ∨ ∃ t, R = BSLASH :: t) →
      comps .windows (p.raw ++ R) = .pfx p :: compsT (!normOf p.raw) true (toks (wsep (normOf p.raw)) R) ∧
      parsePrefixComp (p.raw ++ R) = some (p, R) := by
    intro R hR
    exact ⟨comps_of_stable hs R (hok R hR), (hs R (hok R hR)).1⟩
  cases hL with
  | bare items hitems =>
    have hnr : ∀ c ∈ items, c ≠ .root ∧ ∀ q, c ≠ .pfx q := fun c hc' =>
      ⟨(hitems c hc').seg.2.2.2.1, (hitems c hc').seg.2.2.2.2⟩
    have hrender : verbatimRender false (.pfx p :: items) = p.raw ++ renderItems items := by
      rw [verbatimRender_cons, hneedSep, verbatimRender_items items hnr]
      simp [Comp.bytes]
    rw [hrender]
    cases items with
    | nil =>
      obtain ⟨h1, h2⟩ := fin [] (Or.inl rfl)
      refine ⟨?_, [], by simp [renderItems], by simpa using h2⟩
      simp only [renderItems, List.append_nil] at h1 ⊢
      rw [h1]; simp [toks, compsT, withRoot]
    | cons c cs =>
      have hR : renderItems (c :: cs) = [] ∨ ∃ t, renderItems (c :: cs) = BSLASH :: t :=
        Or.inr ⟨c.bytes .windows ++ renderItems cs, by simp [renderItems]⟩
      obtain ⟨h1, h2⟩ := fin _ hR
      refine ⟨?_, renderItems (c :: cs), rfl, h2⟩
      rw [h1, compsT_renderItems _ (c :: cs) hitems (by simp)]
      have hcr : c ≠ .root := (hitems c (by simp)).seg.2.2.2.1
      cases c <;> first | exact absurd rfl hcr | rfl
  | rooted items hitems =>
    have hnr : ∀ c ∈ items, c ≠ .root ∧ ∀ q, c ≠ .pfx q := fun c hc' =>
      ⟨(hitems c hc').seg.2.2.2.1, (hitems c hc').seg.2.2.2.2⟩
    cases items with
    | nil =>
      have hrender : verbatimRender false [.pfx p, .root] = p.raw ++ [BSLASH] := by
        rw [verbatimRender_cons, verbatimRender_cons]
        simp [Comp.bytes, Enc.sepByte, verbatimRender]
      rw [hrender]
      obtain ⟨h1, h2⟩ := fin [BSLASH] (Or.inr ⟨[], rfl⟩)
      refine ⟨?_, [BSLASH], rfl, h2⟩
      rw [h1]
      have : toks (wsep (normOf p.raw)) [BSLASH] = [.sep BSLASH] := by simp [toks, wsep_bslash]
      rw [this]; rfl
    | cons c cs =>
      obtain ⟨hcne, hcfree, hctok, hcr, hcp⟩ := (hitems c (by simp)).seg
      have hcs : ∀ x ∈ cs, Item (normOf p.raw) x := fun x hx => hitems x (by simp [hx])
      have hrender : verbatimRender false (.pfx p :: .root :: c :: cs) =
          p.raw ++ (BSLASH :: (c.bytes .windows ++ renderItems cs)) := by
        rw [verbatimRender_cons, hneedSep, verbatimRender_cons, verbatimRender_cons, nextSep_item hcr hcp,
          verbatimRender_items cs (fun x hx => hnr x (by simp [hx]))]
        simp [Comp.bytes, Enc.sepByte, nextSep]
      rw [hrender]
      obtain ⟨h1, h2⟩ := fin (BSLASH :: (c.bytes .windows ++ renderItems cs)) (Or.inr ⟨_, rfl⟩)
      refine ⟨?_, _, rfl, h2⟩
      rw [h1]
      have ht : toks (wsep (normOf p.raw)) (BSLASH :: (c.bytes .windows ++ renderItems cs)) =
          .sep BSLASH :: .seg (c.bytes .windows) :: itemToks cs := by
        simp only [toks, wsep_bslash, if_true]
        rw [toks_append_seg _ _ (renderItems cs) (itemToks cs) hcne hcfree (toks_renderItems _ cs hcs)
          (itemToks_notSegHead cs)]
      rw [ht, compsT_true_cons]
      have hb := body_itemToks (normOf p.raw) (c :: cs) hitems
      simp only [itemToks] at hb
      rw [body_cons_junk _ (by rfl)] at hb
      simp only [headComp, withRoot]
      rw [hb]


end TP.Win

namespace TP.C08e

open TP TP.JoinRules TP.Win TP.C08c

/-- `base_vshape` from stability alone -/
theorem base_vshape_of_stable {a rest : Bytes} {p : PrefixComp} (hpa : parsePrefixComp a = some (p, rest))
    (hs : Stable p) (hro : RestOK p rest) (hrest : HeadOK (wsep (normOf p.raw)) rest) :
    VShape (normOf p.raw) p (comps .windows a) := by
  have hcb : comps .windows a = .pfx p :: compsT (!normOf p.raw) true (toks (wsep (normOf p.raw)) rest) := by
    rw [← parsePrefixComp_raw hpa]; exact comps_of_stable hs rest hro
  rw [hcb]
  cases hr : rest with
  | nil => exact .bare [] (by simp)
  | cons x t =>
    have hx : wsep (normOf p.raw) x = true := by rw [hr] at hrest; exact hrest
    have hw := WFToks_toks (wsep (normOf p.raw)) (x :: t)
    simp only [toks, hx, if_true] at hw ⊢
    rw [compsT_true_cons]
    exact .rooted _ (body_items _ hw.2)


/-- `win_push_comps_verbatim` from stability alone -/
theorem win_push_comps_verbatim_of_stable (a q rest : Bytes) (p : PrefixComp)
    (hpa : parsePrefixComp a = some (p, rest)) (hs : Stable p) (hro : RestOK p rest) (hv : isVerbatimKind p.kind = true)
    (hrest : HeadOK (wsep (normOf p.raw)) rest)
    (hqne : q ≠ []) (hq : C16.pfxStart q = false) (hrel : startsWithSep q = false) :
    comps .windows (push .windows a q) = withRoot (verbatimFold (comps .windows a) (comps .windows q)) ∧
    VShape (normOf p.raw) p (verbatimFold (comps .windows a) (comps .windows q)) ∧
    ∃ rest', push .windows a q = p.raw ++ rest' ∧ parsePrefixComp (push .windows a q) = some (p, rest') := by
  have hpo := prefixOf_of_comp hpa
  have hrule : rule a q = .verbatim := by
    unfold rule baseIsVerbatim
    simp [hqne, C16b.prefixOf_none_of_pf q hq, hpo, hv]
  have hbytes := C08.win_push_verbatim a q hrule
  have hshape := fold_vshape (normOf p.raw) p (comps .windows q) (comps .windows a) (base_vshape_of_stable hpa hs hro hrest)
    (arg_incoming _ q hq hrel)
  obtain ⟨h1, rest', h2, h3⟩ := render_parse_of_stable hs hv _ hshape
  rw [show push .windows a q = windowsPush a q from rfl, hbytes]
  unfold verbatimComps
  exact ⟨h1, hshape, rest', h2, by rw [h2]; exact h3⟩


/-- the text after an empty-share verbatim-UNC prefix is empty or begins with a separator of the path -/
theorem restOK_noshare {a rest : Bytes} {p : PrefixComp} {sv : Bytes}
    (hpa : parsePrefixComp a = some (p, rest)) (hk : p.kind = .verbatimUNC sv []) : RestOK p rest := by
  have hraw := parsePrefixComp_raw hpa
  have hp := parsePrefix_of_comp hpa
  rw [hk] at hp
  obtain ⟨s1, s2, s3, x0, tail, hb, _, _, _, _, _, _, htail, hrest, hrestok⟩ := (C02c.verbatim_unc_noshare_iff a rest sv).mp hp
  have hn : normOf p.raw = !startsWith [s1, s2, QMARK, s3] VERB := by
    have hlen : 4 ≤ p.raw.length ∨ True := Or.inr trivial
    -- the raw text starts with the four header bytes
    have hb' : p.raw ++ rest = s1 :: s2 :: QMARK :: s3 :: 85 :: 78 :: 67 :: x0 :: (sv ++ tail) := by rw [hraw, hb]
    have hr4 : ∃ t, p.raw = s1 :: s2 :: QMARK :: s3 :: t := by
      -- rest is a suffix of tail, so the raw text contains at least the eight header bytes
      have hl : rest.length ≤ tail.length := by
        rw [hrest]
        cases tail with
        | nil => simp [maybeSep, takeSep]
        | cons y t =>
          have hy : wsep (!startsWith [s1, s2, QMARK, s3] VERB) y = true := htail
          rw [C02c.maybeSep_cons_sep t hy]; simp
      have hlen2 : p.raw.length + rest.length = 8 + sv.length + tail.length := by
        have := congrArg List.length hb'; simp at this; omega
      match hpr : p.raw, hb' with
      | a1 :: a2 :: a3 :: a4 :: t, hb'' =>
        simp only [List.cons_append, List.cons.injEq] at hb''
        exact ⟨t, by rw [hb''.1, hb''.2.1, hb''.2.2.1, hb''.2.2.2.1]⟩
      | [], _ => rw [hpr] at hlen2; simp at hlen2; omega
      | [_], _ => rw [hpr] at hlen2; simp at hlen2; omega
      | [_, _], _ => rw [hpr] at hlen2; simp at hlen2; omega
      | [_, _, _], _ => rw [hpr] at hlen2; simp at hlen2; omega
    obtain ⟨t, ht⟩ := hr4
    unfold normOf; rw [ht, startsWith_hdr]
  unfold RestOK
  rw [hk]
  simp only
  rw [hn]
  exact hrestok

/-- **Joining onto `\\?\UNC\server\`** (empty share, the separator inside the prefix): the documented scan, the same
prefix afterwards -/
theorem win_push_comps_verbatim_noshare (a q rest sv : Bytes) (p : PrefixComp)
    (hpa : parsePrefixComp a = some (p, rest)) (hk : p.kind = .verbatimUNC sv [])
    (hlen : p.raw.length = 8 + sv.length + 1)
    (hrest : HeadOK (wsep (normOf p.raw)) rest)
    (hqne : q ≠ []) (hq : C16.pfxStart q = false) (hrel : startsWithSep q = false) :
    comps .windows (push .windows a q) = withRoot (verbatimFold (comps .windows a) (comps .windows q)) ∧
    VShape (normOf p.raw) p (verbatimFold (comps .windows a) (comps .windows q)) ∧
    ∃ rest', push .windows a q = p.raw ++ rest' ∧ parsePrefixComp (push .windows a q) = some (p, rest') :=
  win_push_comps_verbatim_of_stable a q rest p hpa (stable_verbatimUNC_noshare_sep hpa hk hlen) (restOK_noshare hpa hk)
    (by rw [hk]; rfl) hrest hqne hq hrel

/-! non-vacuity: the bytes the join writes, `\\?\UNC\s\` `\` `a` (the driver's `push` line for this base is compared with the
crate on every run), still carry the prefix `VerbatimUNC("s", "")`; `\a` is the body -/
example : parsePrefix [92, 92, 63, 92, 85, 78, 67, 92, 115, 92, 92, 97] = some (.verbatimUNC [115] [], [92, 97]) := by decide

end TP.C08e
