/-
Props/C16b.lean — the append lemma for prefix-free Windows buffers, and with it the
Unix → Windows direction and the round trips of C16, and the keeps-base clause of C04 for
prefix-free Windows bases.

"Prefix-free" (`C16.pfxStart b = false`) = does not start with two separators of either kind
nor with an ASCII letter and `:`; such a string has no prefix and is not verbatim, so it is
parsed exactly like a Unix path with the separator set { `\`, `/` }.  (A base that starts with
two separators is known finding K3 and is outside this fragment.)
-/
import TypedPathVerif.Props.C16
import TypedPathVerif.Props.C02b

namespace TP.C16b

open TP C16

/-! ### append, for an arbitrary separator set -/

theorem gen_body_eq_dLC (ts : List Tok) (hrel : ∀ x r, ts ≠ .sep x :: r) :
    body false ts = dropLeadingCur (compsT false true ts) := body_eq_dropLeadingCur ts hrel

theorem gen_append_comps (isSep : UInt8 → Bool) (a p : Bytes) (x : UInt8) (hx : isSep x = true)
    (ha : a ≠ []) (hrel : ∀ y r, toks isSep p ≠ .sep y :: r) :
    compsT false true (toks isSep (a ++ x :: p)) =
      compsT false true (toks isSep a) ++ dropLeadingCur (compsT false true (toks isSep p)) := by
  rw [toks_append_sep isSep a p x hx,
    compsT_append_sep false _ _ x (by rw [ne_eq, toks_eq_nil_iff]; exact ha), gen_body_eq_dLC _ hrel]

theorem gen_append_comps_end (isSep : UInt8 → Bool) (a' p : Bytes) (x : UInt8) (hx : isSep x = true)
    (hrel : ∀ y r, toks isSep p ≠ .sep y :: r) :
    compsT false true (toks isSep (a' ++ x :: p)) =
      compsT false true (toks isSep (a' ++ [x])) ++ dropLeadingCur (compsT false true (toks isSep p)) := by
  rw [toks_append_sep isSep a' p x hx, toks_append_sep_end isSep a' x hx]
  cases hc' : toks isSep a' with
  | nil =>
    simp only [List.nil_append, compsT_true_cons, headComp, body_nil]
    rw [gen_body_eq_dLC _ hrel]; rfl
  | cons t r =>
    rw [compsT_append_sep false _ _ x (by simp), gen_body_eq_dLC _ hrel]
    have : compsT false true ((t :: r) ++ [.sep x]) = compsT false true (t :: r) := by
      have := compsT_append_sep false (t :: r) [] x (by simp)
      simpa using this
    rw [this]

/-! ### push onto a prefix-free Windows buffer -/

theorem prefixOf_none_of_pf (b : Bytes) (h : pfxStart b = false) : JoinRules.prefixOf b = none := by
  unfold JoinRules.prefixOf parsePrefixComp
  rw [parsePrefix_none_of_pfxStart b h]; rfl

theorem wsep_true_eq_anySep : wsep true = anySep := rfl

theorem toks_rel_of_not_startsWithSep (p : Bytes) (h : JoinRules.startsWithSep p = false) :
    ∀ y r, toks (wsep true) p ≠ .sep y :: r := by
  intro y r hts
  have := C08.toks_head_is_sep (wsep true) p
  rw [hts] at this
  unfold JoinRules.startsWithSep at h
  cases p with
  | nil => simp [toks] at hts
  | cons x xs =>
    simp only at this h
    rw [wsep_true_eq_anySep, h] at this
    cases this

/-- the result of appending to a non-empty prefix-free buffer is prefix-free -/
theorem pfxStart_append (a tail : Bytes) (ha : pfxStart a = false) (hane : a ≠ [])
    (htail : match tail with
      | y :: _ => (∀ x, a = [x] → ¬ (anySep x = true ∧ anySep y = true) ∧ ¬ (isAsciiAlpha x = true ∧ y = COLON))
      | [] => True) :
    pfxStart (a ++ tail) = false := by
  match a, hane with
  | [x], _ =>
    cases tail with
    | nil => rfl
    | cons y t =>
      simp only at htail
      obtain ⟨h1, h2⟩ := htail x rfl
      simp only [List.cons_append, List.nil_append, pfxStart, Bool.or_eq_false_iff, Bool.and_eq_false_iff,
        decide_eq_false_iff_not]
      constructor
      · by_cases hx : anySep x = true
        · right
          cases hy : anySep y with
          | false => rfl
          | true => exact absurd ⟨hx, hy⟩ h1
        · left; simpa using hx
      · by_cases hx : isAsciiAlpha x = true
        · right; intro hy; exact h2 ⟨hx, hy⟩
        · left; simpa using hx
  | x :: y :: r, _ =>
    simpa [pfxStart] using ha

/-- (A) for prefix-free Windows buffers: pushing a non-empty, prefix-free, relative path onto a
non-empty prefix-free buffer appends its components (minus a leading `.`). -/
theorem win_push_comps_pf (a p : Bytes) (ha : pfxStart a = false) (hane : a ≠ []) (hpne : p ≠ [])
    (hp : pfxStart p = false) (hrel : JoinRules.startsWithSep p = false) :
    pfxStart (windowsPush a p) = false ∧
    comps .windows (windowsPush a p) = comps .windows a ++ dropLeadingCur (comps .windows p) := by
  have hrule : JoinRules.rule a p = .append := by
    unfold JoinRules.rule JoinRules.baseIsVerbatim
    simp [hpne, prefixOf_none_of_pf p hp, prefixOf_none_of_pf a ha, hrel]
  have hbytes : windowsPush a p = JoinRules.joinBytes a p := C08.win_push_bytes a p (by rw [hrule]; decide)
  have hbare : JoinRules.isBareDrive a = false := by
    unfold JoinRules.isBareDrive; rw [prefixOf_none_of_pf a ha]
  have hrel' := toks_rel_of_not_startsWithSep p hrel
  -- first byte of p is not a separator
  obtain ⟨p0, pt, hp0⟩ : ∃ p0 pt, p = p0 :: pt := by
    cases p with
    | nil => exact absurd rfl hpne
    | cons p0 pt => exact ⟨p0, pt, rfl⟩
  have hp0s : anySep p0 = false := by
    subst hp0; simpa [JoinRules.startsWithSep] using hrel
  rw [hbytes]
  unfold JoinRules.joinBytes
  rw [hrule]
  simp only [hane, false_or, hbare, Bool.false_eq_true, or_false]
  by_cases hend : JoinRules.endsWithSep a = true
  · simp only [hend, if_true]
    -- a = a' ++ [x] with x a separator
    have hlast : ∃ x, a.getLast? = some x ∧ anySep x = true := by
      unfold JoinRules.endsWithSep at hend
      simp only [Bool.or_eq_true, decide_eq_true_eq] at hend
      rcases hend with h | h
      · exact ⟨BSLASH, h, by decide⟩
      · exact ⟨SLASH, h, by decide⟩
    obtain ⟨x, hx, hxs⟩ := hlast
    have hae := list_eq_dropLast_append hx
    generalize a.dropLast = a' at hae
    have hpf : pfxStart (a ++ p) = false := by
      apply pfxStart_append a p ha hane
      subst hp0
      simp only
      intro x0 hx0
      exact ⟨fun h => by rw [hp0s] at h; exact absurd h.2 (by simp),
        fun h => by
          -- a = [x0] ends with a separator, so x0 is a separator, not a letter
          have : x0 = x := by rw [hx0] at hx; simpa using hx
          rw [this] at h
          have := C02b.anySep_not_alpha x h.1
          rw [hxs] at this; cases this⟩
    refine ⟨hpf, ?_⟩
    rw [win_comps_pf _ hpf, win_comps_pf a ha, win_comps_pf p hp]
    subst hae
    rw [List.append_assoc, List.singleton_append]
    exact gen_append_comps_end (wsep true) a' p x hxs hrel'
  · simp only [hend, Bool.false_eq_true, if_false]
    have hpf : pfxStart (a ++ [BSLASH] ++ p) = false := by
      rw [List.append_assoc]
      apply pfxStart_append a _ ha hane
      simp only [List.singleton_append]
      intro x0 hx0
      refine ⟨fun h => ?_, fun h => by exact absurd h.2 (by decide)⟩
      -- a = [x0] does not end with a separator
      apply hend
      rw [hx0]
      unfold JoinRules.endsWithSep
      have := h.1
      simp only [anySep, wsep, Bool.true_and, Bool.or_eq_true, decide_eq_true_eq] at this
      rcases this with h' | h' <;> simp [h']
    refine ⟨hpf, ?_⟩
    rw [win_comps_pf _ hpf, win_comps_pf a ha, win_comps_pf p hp, List.append_assoc, List.singleton_append]
    exact gen_append_comps (wsep true) a p BSLASH (by decide) hane hrel'

/-! ### Unix → Windows -/

/-- a name that is a good single component in both encodings: non-empty, not `.` / `..`, no
separator of either encoding, no `:` -/
def portable (s : Bytes) : Prop :=
  s ≠ [] ∧ s ≠ CUR ∧ s ≠ PAR ∧ ∀ y ∈ s, anySep y = false ∧ y ≠ COLON

theorem portable_pf {s : Bytes} (h : portable s) : pfxStart s = false ∧ JoinRules.startsWithSep s = false := by
  obtain ⟨h1, _, _, h4⟩ := h
  match s, h1 with
  | [x], _ => exact ⟨rfl, by simp [JoinRules.startsWithSep, (h4 x (by simp)).1]⟩
  | x :: y :: r, _ =>
    refine ⟨?_, by simp [JoinRules.startsWithSep, (h4 x (by simp)).1]⟩
    simp only [pfxStart, Bool.or_eq_false_iff, Bool.and_eq_false_iff, decide_eq_false_iff_not]
    exact ⟨Or.inl (h4 x (by simp)).1, Or.inr (h4 y (by simp)).2⟩

theorem win_comps_name {s : Bytes} (h : portable s) : comps .windows s = [.normal s] := by
  rw [win_comps_pf s (portable_pf h).1]
  obtain ⟨h1, h2, h3, h4⟩ := h
  have : toks (wsep true) s = [.seg s] := by
    have := toks_append_seg (wsep true) s [] [] h1 (fun y hy => (h4 y hy).1) rfl trivial
    simpa using this
  rw [this, compsT_true_cons]
  simp [headComp, segComp, h2, h3]

/-- components that may follow the first one, with portable names -/
def tailP (c : Comp) : Prop := c = .parent ∨ ∃ s, c = .normal s ∧ portable s

theorem piece_facts {c : Comp} (h : tailP c) :
    c.bytes .windows ≠ [] ∧ pfxStart (c.bytes .windows) = false ∧
      JoinRules.startsWithSep (c.bytes .windows) = false ∧ comps .windows (c.bytes .windows) = [c] := by
  rcases h with h | ⟨s, h, hs⟩
  · subst h
    refine ⟨by simp [Comp.bytes, PAR], by decide, by decide, ?_⟩
    rw [win_comps_pf _ (by decide)]; decide
  · subst h
    exact ⟨hs.1, (portable_pf hs).1, (portable_pf hs).2, win_comps_name hs⟩

theorem convFoldW_tail : ∀ (rest : List Comp) (buf : Bytes), buf ≠ [] → pfxStart buf = false →
    (∀ x ∈ rest, tailP x) →
    comps .windows (convFold .windows buf rest) = comps .windows buf ++ rest := by
  intro rest
  induction rest with
  | nil => intro buf _ _ _; simp [convFold]
  | cons c rest ih =>
    intro buf hb hpf hall
    obtain ⟨h1, h2, h3, h4⟩ := piece_facts (hall c (by simp))
    obtain ⟨hpf', hpush⟩ := win_push_comps_pf buf (c.bytes .windows) hpf hb h1 h2 h3
    have hpush' : comps .windows (push .windows buf (c.bytes .windows)) = comps .windows buf ++ [c] := by
      rw [show push .windows buf (c.bytes .windows) = windowsPush buf (c.bytes .windows) from rfl, hpush, h4]
      rcases hall c (by simp) with h | ⟨s, h, _⟩ <;> (subst h; rfl)
    have hne : push .windows buf (c.bytes .windows) ≠ [] := by
      intro h0
      have hnil : comps .windows [] = [] := by rw [C03.comps_new_closed]; decide
      rw [h0, hnil] at hpush'
      have := congrArg List.length hpush'
      simp at this
    have hstep : convFold .windows buf (c :: rest) = convFold .windows (push .windows buf (c.bytes .windows)) rest := by
      rcases hall c (by simp) with h | ⟨s, h, _⟩
      · subst h; simp [convFold, Comp.isRoot, Comp.isCur, Comp.isParent, Comp.bytes]
      · subst h; simp [convFold, Comp.isRoot, Comp.isCur, Comp.isParent, Comp.isNormal, Comp.bytes]
    rw [hstep, ih _ hne hpf' (fun x hx => hall x (by simp [hx])), hpush']
    simp

/-- the first push onto the empty Windows buffer returns the piece itself -/
theorem win_push_empty_base (p : Bytes) (hp : p ≠ []) (hpf : pfxStart p = false) : push .windows [] p = p := by
  have hpo : JoinRules.prefixOf [] = none := prefixOf_none_of_pf [] rfl
  have hrule : JoinRules.rule [] p = (if JoinRules.startsWithSep p = true then .rooted else .append) := by
    unfold JoinRules.rule JoinRules.baseIsVerbatim
    simp [hp, prefixOf_none_of_pf p hpf, hpo]
  have hnv : JoinRules.rule [] p ≠ .verbatim := by rw [hrule]; split <;> decide
  rw [show push .windows [] p = windowsPush [] p from rfl, C08.win_push_bytes [] p hnv]
  unfold JoinRules.joinBytes
  rw [hrule]
  by_cases hs : JoinRules.startsWithSep p = true
  · simp [hs, JoinRules.rawPrefix, hpo]
  · simp [hs]

/-- Unix → Windows: a Unix path all of whose names are portable converts to a Windows path with
exactly the same sequence of component kinds and names; the result is prefix-free. -/
theorem conv_u2w_portable (b : Bytes) (hnames : ∀ s, Comp.normal s ∈ comps .unix b → portable s) :
    comps .windows (withEncoding .unix .windows b) = comps .unix b ∧
    pfxStart (withEncoding .unix .windows b) = false := by
  have hne : Enc.unix ≠ Enc.windows := by decide
  simp only [withEncoding, hne, if_false]
  have hnil : comps .windows [] = [] := by rw [C03.comps_new_closed]; decide
  rcases C11.comps_structure b with h0 | ⟨c, rest, h0, hc, hrest⟩
  · rw [h0]; simp [convFold, hnil, pfxStart]
  · rw [h0] at hnames ⊢
    have hrestP : ∀ x ∈ rest, tailP x := by
      intro x hx
      rcases hrest x hx with h | ⟨s, h, _⟩
      · exact Or.inl h
      · exact Or.inr ⟨s, h, hnames s (by rw [← h]; simp [hx])⟩
    -- a helper: after the first piece `pc` (non-empty, prefix-free) the rest is appended
    have finish : ∀ (pc : Bytes) (c0 : Comp), pc ≠ [] → pfxStart pc = false → comps .windows pc = [c0] →
        convFold .windows [] (c0 :: rest) = convFold .windows pc rest →
        comps .windows (convFold .windows [] (c0 :: rest)) = c0 :: rest ∧
          pfxStart (convFold .windows [] (c0 :: rest)) = false := by
      intro pc c0 hpc hpf hcs hstep
      rw [hstep, convFoldW_tail rest pc hpc hpf hrestP, hcs]
      refine ⟨rfl, ?_⟩
      -- prefix-freeness is kept by every push
      have : ∀ (rest' : List Comp) (buf : Bytes), buf ≠ [] → pfxStart buf = false → (∀ x ∈ rest', tailP x) →
          pfxStart (convFold .windows buf rest') = false := by
        intro rest'
        induction rest' with
        | nil => intro buf _ h _; exact h
        | cons c' rest' ih =>
          intro buf hb hpf' hall
          obtain ⟨h1, h2, h3, h4⟩ := piece_facts (hall c' (by simp))
          obtain ⟨hpf'', hpush⟩ := win_push_comps_pf buf (c'.bytes .windows) hpf' hb h1 h2 h3
          have hne' : push .windows buf (c'.bytes .windows) ≠ [] := by
            intro h0'
            have hc'' : comps .windows (windowsPush buf (c'.bytes .windows)) = comps .windows buf ++ [c'] := by
              rw [hpush, h4]
              rcases hall c' (by simp) with h | ⟨s, h, _⟩ <;> (subst h; rfl)
            rw [show windowsPush buf (c'.bytes .windows) = push .windows buf (c'.bytes .windows) from rfl, h0', hnil] at hc''
            have := congrArg List.length hc''
            simp at this
          have hstep' : convFold .windows buf (c' :: rest') = convFold .windows (push .windows buf (c'.bytes .windows)) rest' := by
            rcases hall c' (by simp) with h | ⟨s, h, _⟩
            · subst h; simp [convFold, Comp.isRoot, Comp.isCur, Comp.isParent, Comp.bytes]
            · subst h; simp [convFold, Comp.isRoot, Comp.isCur, Comp.isParent, Comp.isNormal, Comp.bytes]
          rw [hstep']
          exact ih _ hne' hpf'' (fun x hx => hall x (by simp [hx]))
      exact this rest pc hpc hpf hrestP
    rcases hc with hc | hc | hc
    · subst hc
      apply finish [BSLASH] .root (by simp) (by decide) (by rw [win_comps_pf _ (by decide)]; decide)
      simp only [convFold, Comp.isRoot, if_true, Enc.sepByte]
      rw [win_push_empty_base [BSLASH] (by simp) (by decide)]
    · subst hc
      apply finish CUR .cur (by simp [CUR]) (by decide) (by rw [win_comps_pf _ (by decide)]; decide)
      simp only [convFold, Comp.isRoot, Comp.isCur, Bool.false_eq_true, if_false, if_true]
      rw [win_push_empty_base CUR (by simp [CUR]) (by decide)]
    · have hcP : tailP c := by
        rcases hc with h | ⟨s, h, _⟩
        · exact Or.inl h
        · exact Or.inr ⟨s, h, hnames s (by rw [← h]; simp)⟩
      obtain ⟨h1, h2, _, h4⟩ := piece_facts hcP
      apply finish (c.bytes .windows) c h1 h2 h4
      rcases hcP with h | ⟨s, h, _⟩
      · subst h
        simp only [convFold, Comp.isRoot, Comp.isCur, Comp.isParent, Bool.false_eq_true, if_false, if_true]
        rw [win_push_empty_base PAR (by simp [PAR]) (by decide)]; rfl
      · subst h
        simp only [convFold, Comp.isRoot, Comp.isCur, Comp.isParent, Comp.isNormal, Bool.false_eq_true, if_false,
          if_true]
        rw [win_push_empty_base _ h1 h2]

/-- Round trip Unix → Windows → Unix returns an equal path. -/
theorem roundtrip_u_w_u (b : Bytes) (hnames : ∀ s, Comp.normal s ∈ comps .unix b → portable s) :
    pathEq .unix (withEncoding .windows .unix (withEncoding .unix .windows b)) b = true := by
  obtain ⟨h1, h2⟩ := conv_u2w_portable b hnames
  rw [C05.eq_iff_comps, conv_w2u_prefix_free _ h2, h1]

/-- Round trip Windows → Unix → Windows for a prefix-free Windows path with portable names. -/
theorem roundtrip_w_u_w (b : Bytes) (hpf : pfxStart b = false)
    (hnames : ∀ s, Comp.normal s ∈ comps .windows b → portable s) :
    pathEq .windows (withEncoding .unix .windows (withEncoding .windows .unix b)) b = true := by
  have h1 := conv_w2u_prefix_free b hpf
  have h2 := conv_u2w_portable (withEncoding .windows .unix b) (by rw [h1]; exact hnames)
  rw [C05.eq_iff_comps, h2.1, h1]

/-! ### Non-vacuity -/

example : portable [97, 46, 98] := by
  refine ⟨by simp, by decide, by decide, ?_⟩
  intro y hy; simp at hy; rcases hy with h | h | h <;> (subst h; decide)
example : withEncoding .unix .windows [47, 97, 47, 46, 46, 47, 98] = [92, 97, 92, 46, 46, 92, 98] := by
  have hne : Enc.unix ≠ Enc.windows := by decide
  simp only [withEncoding, hne, if_false]
  rw [C03.comps_new_closed]; decide

end TP.C16b
